"""Registry of checks: one module per property under lib/checks/ (SPEC = how to run it, META = what is claimed)."""
import importlib, os, sys
_d = os.path.join(os.path.dirname(os.path.abspath(__file__)), "checks")
sys.path.insert(0, os.path.dirname(os.path.abspath(__file__)))
CHECKS, METAS = {}, {}
for f in sorted(os.listdir(_d)):
    if f.startswith("C") and f.endswith(".py"):
        try:
            m = importlib.import_module("checks." + f[:-3])
            CHECKS[f[:-3]] = m.SPEC
            METAS[f[:-3]] = m.META
        except Exception as e:  # a broken module must not take the other checks down
            sys.stderr.write("registry: cannot load %s: %s\n" % (f, e))
