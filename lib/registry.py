"""Registry of checks: which harness parts decide which property."""

def part(name, variant, sources, **kw):
    d = {"name": name, "variant": variant, "sources": sources}
    d.update(kw)
    return d

CHECKS = {
    "C18": {
        "level": "exploration",
        "parts": [part("c18_metric", "plain", ["c18_metric.cpp"])],
        "rule": "all ordered pairs of a finite alphabet per value type (scalar, periodic scalar through real colvar objects "
                "with 6 period/wrapAround settings, 3-vector, 26(+4) unit vectors, 24x2+6 quaternions, generic vectors of "
                "length 1-3) x lambda in {0,1/4,1/2,3/4,1}; a case is distinct by (type,a,b); all are non-trivial "
                "(each is compared against an independent reference metric)",
        "assumptions": ["finite alphabet of reals; nothing is claimed for values outside it",
                        "antipodal unit vectors and quaternions at the cut locus are exempt from the derivative clause only"],
    },
}
