def part(name, variant, sources, **kw):
    """One harness executable of a check: name, library variant (plain|asan|shim|tsan), harness sources,
    optional args=[...], env={...}, cflags, ldflags, timeout={'quick':s,'thorough':s}, tier_only='thorough'."""
    d = {"name": name, "variant": variant, "sources": sources}
    d.update(kw)
    return d
