from checkdef import part
SPEC = {
    "level": "exploration",
    "parts": [part("c01_forces", "plain", ["c01_forces.cpp"], env={"OMP_NUM_THREADS": "1"},
                   timeout={"quick": 900, "thorough": 2400})],
    "rule": "product enumeration component type (57 entries: every component constructible offline, with its variants) x "
            "atom-group option (plain, table masses, dummyAtom second group, centerToReference, rotateToReference, both, "
            "separate fittingGroup, fittingGroup with enableFitGradients off, fit on the second group) x combination "
            "(single, coeff -2.5, exp 2, exp 3, two-component sum) x bias (harmonic, harmonicWalls inside/below/above, linear, "
            "histogramRestraint, abmd active/inactive, metadynamics without grids with 3 frozen hills, opes_metad with frozen "
            "kernels) x 3 geometries x cell off/orthorhombic with groups split across the boundary. quick = every component x "
            "every option with harmonic plus a greedy all-pairs covering of the six factors; thorough adds, level by level, "
            "comp x option x combination x bias, then x geometry x cell, then the full product. Each case: every coordinate "
            "of every atom Colvars requested is displaced by +-h and +-h/2 on a fresh module replaying the same history; "
            "force + Richardson-extrapolated dE/dx must vanish. A case is distinct by its 6-tuple and non-trivial when at "
            "least one checked coordinate has a non-zero force or energy derivative (cases configured to have zero energy, "
            "rejected configurations and near-singular coordinates are counted separately)",
    "assumptions": ["finite alphabet of reals: three 13/16-atom geometries, one mass and one charge table, one cell; nothing is "
                    "claimed for other coordinates",
                    "energy derivative by central finite differences (h=1e-3, 5e-4 A, Richardson); coordinates where the two "
                    "estimates disagree by more than 1e-3 of the largest force are classified near-singular and skipped",
                    "atoms never requested by Colvars cannot influence the energy because the engine simulator never shows "
                    "their coordinates to the library; for them only 'no force' is checked",
                    "enableFitGradients off: documented weaker oracle (no force on fitting-only atoms; main-group forces equal "
                    "the derivative at fixed fit, which with a disjoint fitting group is the plain derivative)",
                    "excluded by documentation: eigenvector with its default self-fit; grid-tabulated biases; Lepton/Torch/"
                    "Tcl/volmap components are not in this build"],
}
META = {
  "text": "Bounded-exhaustive exploration of the product component x atom-group option x combination x bias x geometry x cell: "
          "every case is run on the real library through the engine simulator, and for every atom the library requested and "
          "every axis the force handed to the engine is compared with minus the central finite-difference derivative (two "
          "step sizes, Richardson) of the energy reported through add_energy(), each difference point being a fresh module "
          "that replays the same history so that hills/kernels/running extrema are frozen. The quantifier ranges over real "
          "coordinates, so the claim is limited to the stated alphabet.",
  "design_ref": "DESIGN.md section 3, C01",
  "note": "Trusted: the engine simulator; finite-difference derivative with a two-step self-check (near-singular coordinates "
          "are counted and skipped, never reported); finite alphabet of geometries/masses/charges. Violations are attributed "
          "by differential re-runs (component/option core, combination, cell, else the bias) to give root-cause signatures.",
  "technique": "exhaustive product enumeration with a finite-difference energy-gradient oracle on fresh replayed modules",
}
