from checkdef import part
SPEC = {
    "level": "exploration",
    "parts": [part("c01_forces", "plain", ["c01_forces.cpp"], env={"OMP_NUM_THREADS": "1"},
                   timeout={"quick": 900, "thorough": 2400}),
              part("c01_history", "plain", ["c01_history.cpp"])],
    "rule": "product enumeration of component (57 entries: every component type constructible offline in this build, with "
            "variants: distance, distanceVec, distanceDir, distanceZ(+ref2), distanceXY(+ref2), polarTheta/Phi, distanceInv, "
            "distancePairs, dipoleMagnitude, cartesian, coordNum (+aniso, +group2CenterOnly, +pairlist), selfCoordNum (+pairlist), "
            "groupCoord (+aniso), angle, dipoleAngle, dihedral, hBond, alpha (2 hBondCoeff), dihedralPC, orientation "
            "(+closestToQuaternion), orientationAngle/Proj, tilt, spinAngle, eulerPhi/Psi/Theta, rmsd (+atomPermutation), gyration, "
            "inertia, inertiaZ, eigenvector (explicit fits only), aspath/azpath/gspath/gzpath, linearCombination (scalar and "
            "distanceVec), neuralNetwork, aspathCV/azpathCV/gspathCV/gzpathCV) x atom-group option (unit masses, table masses, "
            "dummyAtom second group, centerToReference, rotateToReference, both, separate fittingGroup, fittingGroup with "
            "enableFitGradients off, centre+rotate on the second group) x combination (single, componentCoeff -2.5, componentExp 2, "
            "componentExp 3, two-component sum) x bias (harmonic, harmonicWalls inside/below/above, linear, histogramRestraint, "
            "abmd active/inactive, metadynamics useGrids off with 3 frozen hills, opes_metad with frozen kernels) x 3 geometries x "
            "cell off / orthorhombic 20x23x26 with groups split across the boundary. Bias parameters are derived from the probed "
            "value of the variable so that every bias is active at a comparable strength. quick = level 1 = every component x every "
            "option with harmonic plus a greedy all-pairs covering of the six factors; thorough adds level 2 (component x option x "
            "bias), level 3 (component x option x combination, component x combination x bias), level 4 (component x option x "
            "geometry x cell) and then the full product one (cell, geometry) slice per level; each level runs to completion and a "
            "level is started only if it is expected to finish inside the tier budget (exhaustive=false says the full product was "
            "not completed; notes say which levels were). Per case: every coordinate of every atom Colvars requested is displaced "
            "by +-h and +-h/2, each point on a fresh module replaying the same history; applied force + Richardson-extrapolated "
            "dE/dx must vanish within 1e-6 of the largest force in the case. A case is distinct by its 6-tuple and non-trivial when "
            "at least one checked coordinate has a non-zero force or energy derivative; cases configured to have zero energy, "
            "rejected configurations, constant variables and near-singular coordinates are counted separately. Second part (path dependence): 8 orientation-type components x 3 rotation axes x 5 (thorough 8) two-step histories in which the rigid body turns through or near 180 degrees (the quaternion follows the previous step by continuity) x a harmonic restraint; forces compared with central differences of the energy, every difference evaluation replaying the same history"
            " Later additions: pair-list components also evaluated on a step that rebuilds the list; coordNum and selfCoordNum nested in linearCombination.",
    "assumptions": ["finite alphabet of reals: three 13/16-atom geometries (one base set, two rotated+perturbed copies), two reference "
                    "sets, one mass table (plus unit masses), one charge table, one cell; nothing is claimed for other coordinates",
                    "energy derivative by central finite differences (h=1e-3 and 5e-4 A, Richardson); a coordinate whose two "
                    "estimates differ by more than 1e-3 of the largest force is classified near-singular, counted and skipped",
                    "atoms never requested by Colvars cannot influence the energy because the engine simulator never shows their "
                    "coordinates to the library; for them only 'no force' is checked",
                    "enableFitGradients off: documented weaker oracle (no force on fitting-only atoms; main-group forces equal "
                    "the derivative at fixed fit, which with a disjoint fitting group is the plain derivative)",
                    "groups fitted by an optimal rotation have at least 3 atoms (a 2-atom group leaves the rotation degenerate: "
                    "documented singular geometry)",
                    "excluded by documentation: eigenvector with its default self-fit; grid-tabulated biases; Lepton/Torch/Tcl/"
                    "volmap components are not in this build",
                    "colvarsRestartFrequency is set non-zero in every configuration because opes_metad divides by it (a crash "
                    "outside this property, reported separately)"],
}
META = {
  "text": "Bounded-exhaustive exploration of the product component x atom-group option x combination x bias x geometry x cell: "
          "every case is run on the real library through the engine simulator, and for every atom the library requested and "
          "every axis the force handed to the engine is compared with minus the central finite-difference derivative (two "
          "step sizes, Richardson) of the energy reported through add_energy(), each difference point being a fresh module "
          "that replays the same history so that hills/kernels/running extrema/pair lists are frozen. The quantifier ranges over "
          "real coordinates, so the claim is limited to the stated alphabet.",
  "design_ref": "DESIGN.md section 3, C01",
  "note": "Trusted: the engine simulator; finite-difference derivative with a two-step self-check (near-singular coordinates "
          "are counted and skipped, never reported); finite alphabet of geometries/masses/charges. Violations are attributed "
          "by differential re-runs (component with plain groups, component with the group option, combination, cell, else the "
          "bias) so that one root cause gives one signature; a configuration refused by Colvars counts as rejected only when "
          "the refusal is a documented one, otherwise the run is a harness error.",
  "technique": "exhaustive product enumeration with a finite-difference energy-gradient oracle on fresh replayed modules",
}
