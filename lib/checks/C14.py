from checkdef import part
SPEC = {
    "level": "model_checking",
    "parts": [part("c14_walkers", "plain", ["c14_walkers.cpp"], timeout={"quick": 1500, "thorough": 7200})],
    "rule": "every walker is a forked process owning one real Colvars module; the controller is the scheduler. Shared ABF: "
            "ALL interleavings of walker steps, message deliveries and barrier releases for 2 walkers x 5 steps (sharedFreq 2), "
            "buffered and rendezvous send semantics, with and without a restart of one walker at an exchange boundary; 3 "
            "walkers with <= 1 (thorough 2) deviations from the default order; after each execution every walker's combined "
            "counts/gradient sums must equal the union of all walkers' reference samples up to the last exchange plus its own "
            "samples since, its local grids must equal its own contribution; no enabled action before completion = deadlock; "
            "more shared-ABF cases: sharedFreq 1 and 3, restart after a later exchange, run lengths 3-7 (final state at every "
            "phase of the exchange cycle), a state without the last-exchange record (earlier versions) must load, 4 walkers "
            "(thorough). Shared eABF: the CZAR data gathered on replica 0 when the output is written (end-of-run actions are "
            "scheduled like steps) must equal the sum of every walker's own z data. OPES with multipleReplicas (2 and 3 "
            "walkers): after the run every walker must hold the same kernels, one for each (walker, deposition step), the "
            "kernel counter 1 + their number. "
            "Multiple-walker metadynamics through real files: interleavings of the two walkers' step actions (thorough: ALL; "
            "quick: a fixed quarter) x replicaUpdateFrequency {1,2} x restart of a walker {no,yes}, 3 walkers in two orders, "
            "and the peer's hills file cut at every byte (quick: every 9th) while the other walker synchronises; after every "
            "action the multiplicity of every deposited hill in every walker's total bias (probed at the hill centres) must "
            "be 1 for own hills and <= 1 for peers' hills, never a hill that was not deposited; right after a walker's own "
            "synchronisation it must hold every hill a peer had published before the peer's last synchronisation; at quiescence all are 1"
            " Later additions: metadynamics walkers whose state files are rewritten every 3 or 4 steps while they synchronise every step (three step orders each); a walker outside the grid (peer 1.5/0.5/3.5 bins inside the boundary or outside, with and without own hills, update frequencies 1-2, restart frequencies 2-3, three step orders): its energy there is its own hills plus a whole number of the peer's, between those published and those deposited; both walkers 12.5 bins outside the grid; well-tempered heights of two walkers at one bin centre (each height must be hillWeight*exp(-V/k dT) with V its own earlier hills plus the first k hills of the peer, k between those the peer had published at the walker's last synchronisation and those deposited).",
    "assumptions": ["the engine's replica communication is modelled by the controller: reliable, ordered per pair, buffered or rendezvous",
                    "dictated positions/forces; hill centres 1.0 apart so that multiplicities can be read from the energy",
                    "files are written through the real filesystem in one scratch directory; a peer's in-flight write is modelled as a byte prefix of its hills file"],
}
META = {
  "text": "Stateless exploration of the walkers' step/message/barrier schedule on the real code, one process per walker under a "
          "controlling scheduler, deviation-bounded for 3 walkers; fault enumeration over byte prefixes of a peer's file.",
  "design_ref": "DESIGN.md section 3, C14",
  "note": "Trusted: the controller's model of engine communication; the reference union of samples.",
  "technique": "stateless schedule exploration (controlled scheduler over walker processes) on the real code + file-truncation enumeration",
}
