from checkdef import part
SPEC = {
    "level": "model_checking",
    "parts": [part("c16_pmf", "plain", ["c16_pmf.cpp"], timeout={"quick": 900, "thorough": 3000})],
    "rule": "six exhaustive sub-spaces on the real integrate_potential/colvar_grid_gradient/ABF code. ONED: every 1-D gradient "
            "array over {-1,0,2}^n x counts {0,1,3}^n, n=1..5, periodic or not, 2 widths, 4 representations (count grid, no "
            "count grid, two smoothing ramps) through integrate() and write_1D_integral(). BASIS: every 2-D and 3-D shape "
            "with 2-4 (quick) / 2-6 (thorough) bins per dimension x all periodic-flag combinations x 2 anisotropic width "
            "sets: set_div()/update_div_neighbors() for EVERY unit gradient (bin x component, 7 count/smoothing "
            "representations) and atimes() for EVERY unit potential (node), plus dense fields as a linearity guard. SOLVE: for "
            "every such shape, integrate() for every unit-gradient load and 2 dense loads at tolerances 1e-6 and 1e-10, "
            "integrate() repeated 4x on unchanged data, and warm-started re-solves after the load is replaced (zero field, "
            "uniform field, another unit load). ARR: every arrival sequence of length 1..5 (3-D quick: 1..4) over 3 bins x 2 "
            "force vectors (acc_force + update_div_neighbors, as ABF does), smoothed and unsmoothed, on small shapes. ABF: the "
            "same sequences (length 1..4 quick, 1..5 thorough; 3-D quick 1..3) through a real ABF bias in the engine "
            "simulator (1-D/2-D/3-D, same-step and lagged total forces, pABF re-integration every step) and through a "
            "harmonic restraint with writeTIPMF (both also with the grid given by a grid { } block of the bias), with the written .pmf/.ti.pmf files parsed back. CONV: 3 smooth surfaces x "
            "all periodic-flag combinations in 2-D (n=8..64, thorough ..128) and 3-D (n=8..32, thorough ..64). "
            "A case is distinct by (sub-space, shape, widths, representation, load or sequence); it is non-trivial when the "
            "gradient field it presents is not identically zero (BASIS 'below-min' smoothing cases and all-zero 1-D arrays "
            "are counted as evaluations but not as non-trivial). states = distinct (shape, accumulated sums, counts) "
            "configurations of the gradient data; transitions = operator applications / sample arrivals / engine steps.",
    "assumptions": [
        "finite alphabets of reals ({-1,0,2} gradients, {0,1,2,3} counts, 2 force vectors, 2 width sets); exhaustiveness over fields follows from linearity of divergence and Laplacian in the bin means, which the dense-field cases test rather than assume",
        "the reference stencil is the finite-volume 5/7-point Laplacian with halved weights on non-periodic faces and the corner-averaged divergence (refman 'Multidimensional free energy surfaces', Henin 2021); it is self-tested on exactly representable surfaces, symmetry and zero row sums at start-up",
        "convergence order is measured in the RMS norm over grid nodes after removing the additive constant (max-norm order at non-periodic corners approaches 2 more slowly and is reported, not judged)",
        "1-D periodic + b_smoothed integrate() is counted, not judged: no caller in src/ ever sets b_smoothed and the statement speaks of the surface Colvars writes",
        "ABF/TI output files are written to a private tmpfs directory (/dev/shm/c16_<pid>, removed at exit) when available, else to the scratch directory",
    ],
}
META = {
  "text": "Bounded-exhaustive model checking of the real code: by linearity of the divergence and Laplacian, the response to every "
          "unit gradient (bin x component) and every unit potential (node) on every grid shape up to the bound, compared with an "
          "independent index-arithmetic reference of the documented stencil, decides all fields on those shapes; every arrival "
          "sequence up to length 5 over a 6-symbol alphabet is executed both on the grid objects and through a real ABF bias "
          "under the engine simulator, comparing the private incremental divergence with the reference and with a from-scratch "
          "set_div(); every unit load is solved and the residual recomputed with the reference operators; written files are "
          "parsed back. Shapes beyond 6 bins per dimension, other alphabets and solver behaviour on large noisy data are outside the bound.",
  "design_ref": "DESIGN.md section 3, C16",
  "note": "Trusted: the harness's reference stencil (self-tested at start-up), linearity (guarded by dense-field cases), finite alphabets; "
          "private fields read with -fno-access-control (no source hook).",
  "technique": "exhaustive enumeration of basis responses per grid shape and of sample-arrival sequences against a reference model",
}
