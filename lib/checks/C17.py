from checkdef import part
SPEC = {
    "level": "model_checking",
    "parts": [part("c17_extlag", "plain", ["c17_extlag.cpp"], timeout={"quick": 1500, "thorough": 7200})],
    "rule": "parameter menu (extendedFluctuation x extendedTimeConstant x time step x friction 0/10 ps^-1 with a scripted "
            "noise sequence x reflecting boundary none/lower/upper, plus a wall bias acting directly on the atoms) x ALL words "
            "of length 3 (thorough 4) over {stay, +w, -w, jump} x {0,-1,+2} bias force x ALL run segmentations (new run = "
            "repeated step; three kinds of run boundary; for new runs in the same process also with the atoms displaced by +-0.4 "
            "(more than half a width) between the two evaluations of the repeated step); after EVERY call the reported value, velocity, potential and kinetic energy, total force, the "
            "new position and the atomic force are compared with a reference BAOA integrator; plus energy conservation at "
            "two time steps without friction; states = distinct final (x,v), transitions = Colvars steps"
            " Later additions: the data collected by consumers of the extended coordinate's total force (eABF, TI samples of a restraint) under the two engine conventions, all 243 words of five moves, must be identical, and the CZAR z-grids of an unapplied eABF bias must hold each reported force in the bin the actual variable occupied when it was exerted.",
    "assumptions": ["reference scheme: B (two half kicks, kinetic energy in between), A, O, A, as in the cited BAOA/GSD paper",
                    "on a reflection the statement constrains the position only: the reference takes over the implementation's "
                    "velocity after checking the reflected position",
                    "a repeated step restores the pre-integration state, or - after a jump of the variable larger than half a width "
                    "(documented in the log message) - re-initialises the coordinate on the actual value, clamped into the reflecting "
                    "boundaries, with the pre-integration velocity"],
}
META = {
  "text": "Explicit enumeration of every bounded history of coordinate moves and bias forces, parameters and run segmentations on "
          "the real code, compared call by call with an independently written BAOA integrator sharing one time origin.",
  "design_ref": "DESIGN.md section 3, C17",
  "note": "Trusted: the reference integrator; scripted random source; bounded history length.",
  "technique": "explicit-state enumeration of force/move histories on the real code vs a reference integrator",
}
