from checkdef import part
SPEC = {
    "level": "fault_enumeration",
    "parts": [part("c11_crash", "plain", ["c11_crash.cpp"], ldflags="-ldl", timeout={"quick": 1500, "thorough": 7200}),
              part("c11_memstream", "asan", ["c11_memstream.cpp"], env={"ASAN_OPTIONS": "detect_leaks=0"}),
              part("c11_damage", "asan", ["c11_damage.cpp"], env={"ASAN_OPTIONS": "detect_leaks=0:allocator_may_return_null=1:max_allocation_size_mb=2048"}, timeout={"quick": 1500, "thorough": 7200})],
    "rule": "crash consistency: the file operations (fopen/write/writev/fclose/rename/remove) of a 9-step run with 4 periodic "
            "state writes + the final one are recorded by libc interposition, text and binary, and the same for the state file one bias saves on "
            "request every second step (write_state_prefix); EVERY prefix of the operation "
            "log and every (quick: every 5th) byte prefix of every write is materialised and both candidates (state file, "
            ".old) are loaded in a fresh module; second level: restart from the survivor in the same directory and crash "
            "again at every operation boundary / 3 byte prefixes of the next state write; damaged states: valid text and binary states of 12 configurations after 5 steps x every truncation offset (quick: "
            "every 7th) x {0x00, 0xFF, brace, digit->letter, 8-byte length 2^61} at every 13th (thorough 3rd) offset, loaded in a "
            "fresh module in forked batches; binary stream: element type in {char, unsigned char, short, int, unsigned, long, size_t, float, double, rvector} x "
            "length 0..17 as vectors, 9 scalar types as objects, strings and vector1d of length 0..17, every colvarvalue type, "
            "each followed by a sentinel; distinct by (kind, type, length)",
    "assumptions": [],
}
META = {
  "text": "Fault enumeration: every crash point and write prefix of a history of state writes, every truncation offset and "
          "corruption class of valid states of every bias type, and every (type, length) of the binary stream are enumerated on "
          "the real code.",
  "design_ref": "DESIGN.md section 3, C11",
  "note": "Process death (completed writes survive), not power loss; finite corruption alphabet.",
  "technique": "exhaustive enumeration of crash points / truncation offsets / element types and lengths on the real code",
}
