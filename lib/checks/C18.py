from checkdef import part
SPEC = {
    "level": "exploration",
    "parts": [part("c18_metric", "plain", ["c18_metric.cpp"])],
    "rule": "all ordered pairs of a finite alphabet per value type (scalar, periodic scalar through real colvar objects "
            "with 6 period/wrapAround settings, 3-vector, 26(+4) unit vectors, 24x2+6 quaternions, generic vectors of "
            "length 1-3) x lambda in {0,1/4,1/2,3/4,1}; a case is distinct by (type,a,b); all are non-trivial "
            "(each is compared against an independent reference metric); every periodic component type (dihedral, polarPhi, "
            "spinAngle, eulerPhi, eulerPsi, periodic distanceZ) x 4 wrap centres: wrap() of a value menu, and the value the "
            "variable REPORTS on a sweep of 3x24 (thorough 3x72) geometries through the whole period must lie in the interval "
            "centred on wrapAround and be equivalent to the value reported with centre 0"
            " Later additions: the gradient with respect to the SECOND argument for every periodic and component-level metric; a sum of two dihedrals (reported value in the interval); a dihedral plus a distance (plain metric).",
    "assumptions": ["finite alphabet of reals; nothing is claimed for values outside it",
                    "antipodal unit vectors and quaternions at the cut locus are exempt from the derivative clause only"],
}
META = {
  "text": "Bounded-exhaustive exploration: every ordered pair of a finite alphabet of values of each type (and every lambda of a "
          "5-point menu) is evaluated on the real dist2/dist2_grad/wrap/interpolate code and compared with an independent "
          "reference metric. The quantifier ranges over reals, so the claim is limited to the alphabet (which contains the "
          "coincident, antipodal, sign-flipped, half-period and many-period cases where shortcuts in the code live).",
  "design_ref": "DESIGN.md section 3, C18",
  "note": "Trusted: the harness's reference metric (self-tested against finite differences at start-up); finite alphabet; "
          "documented singular sets (antipodal unit vectors, quaternion cut locus, exact half period) exempt from the derivative clause only.",
  "technique": "exhaustive enumeration of all ordered value pairs of a finite alphabet against a reference metric",
}
