from checkdef import part
SPEC = {
    "level": "exploration",
    "parts": [part("c09_total", "asan", ["c09_parse.cpp"], args=["--mode", "total"]),
              part("c09_strict", "asan", ["c09_parse.cpp"], args=["--mode", "strict"]),
              part("c09_layout", "asan", ["c09_parse.cpp"], args=["--mode", "layout"])],
    "rule": "TBD",
    "assumptions": [],
}
META = {
  "text": "TBD",
  "design_ref": "DESIGN.md section 3, C09",
  "note": "TBD",
  "technique": "TBD",
}
