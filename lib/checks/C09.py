from checkdef import part
SPEC = {
    "level": "exploration",
    "parts": [part("c09_total", "asan", ["c09_parse.cpp"], args=["--mode", "total"]),
              part("c09_strict", "asan", ["c09_parse.cpp"], args=["--mode", "strict"]),
              part("c09_layout", "asan", ["c09_parse.cpp"], args=["--mode", "layout"])],
    "rule": "three enumerations on the ASan+UBSan build, every parse in a forked child. (total) every string over a 15-token "
            "alphabet {colvar, harmonic, name, distance, group1, atomNumbers, '{', '}', LF, CRLF, 1, '#', tab, NUL, 0x80} up to "
            "length 4 (quick) / 5 (thorough) plus every string of length 5 / 6 over the 12-token alphabet with '#', and every "
            "single-byte deletion and truncation (thorough: also replacement by each of 4 bytes {, }, LF, NUL) at every offset of the 86 loadable "
            "repository test inputs (tests/input_files/*/test.in on the 104-atom deca-alanine system) and 3 own configurations "
            "(quick: of the smallest subset of these files that contains every (context kind, keyword) pair of the corpus); "
            "a token string is additionally checked against an independent reading of the syntax (unmatched brace or a "
            "top-level line that does not start with a global keyword => must be rejected). (strict) at every keyword "
            "occurrence, brace and value of every corpus file: 3 (thorough 7) misspellings, a copy of the keyword into every "
            "related (thorough: every) context in which the parser's own keyword registry does not list it, brace deletion / "
            "duplication / pair swap, value deletion (non-boolean), `abc` for a numeric value, `abc` for the last element of a "
            "numeric list, a numeric value with `abc` appended; each must be rejected. (layout) 20 rewrites per file (thorough: "
            "plus all compatible pairs): keyword case x3, tabs, mixed white space, blank lines, comments (plain / containing "
            "braces and keywords), CRLF, brace-delimited values (one line / split / every value), brace placement x3, boolean "
            "shorthand and synonyms, two all-together mixes; 3 engine steps on the first trajectory frames must give "
            "bit-identical values, bias energies, total energy, atom forces and state text. A case is distinct by its "
            "configuration text; it is non-trivial when that text differs from the unmodified file (every token string is).",
    "assumptions": ["finite token alphabet and single-byte mutations: nothing is claimed about byte strings outside them",
                    "corpus = the repository's 86 loadable test inputs (customFunction, torchANN and the residue-based "
                    "protein_cvs input are left out) + 3 own configurations, on one 104-atom system",
                    "ASan+UBSan reports count as crashes (exit 97), uncaught C++ exceptions as crashes (exit 96)",
                    "a number followed by text (`1.0abc`) and a text element at the end of a numeric list are reported under "
                    "their own signatures, separately from pure text where a number is required"],
}
META = {
  "text": "Bounded-exhaustive exploration of the real parser: every string of a small token alphabet up to a length bound and "
          "every single-byte mutation of every repository test input must return (accept or reject) without signal, hang or "
          "sanitizer report; every keyword-level mutation site of every test input (misspelling, wrong context, brace, missing "
          "value, text for number) must be rejected; every documented-free layout rewrite of every test input must reproduce "
          "values, energies, forces and state bit-for-bit over three engine steps. The quantifier ranges over all byte strings "
          "and all configurations, so the claim is limited to the stated alphabet, mutation operators and corpus.",
  "design_ref": "DESIGN.md section 3, C09",
  "note": "Trusted: the harness's own tokenizer/serializer of the one-keyword-per-line corpus layout (self-checked: the "
          "canonical re-serialisation of every file must reproduce the original results bit-for-bit) and its reading of the "
          "documented syntax rules; the keyword registry harvested from colvarparse::allowed_keywords is used only to choose "
          "mutation sites, never as the oracle.",
  "technique": "exhaustive enumeration of token strings, byte mutations, keyword-level mutation sites and layout rewrites "
               "against crash/hang, must-reject and bit-identity oracles",
}
