from checkdef import part
SPEC = {
    "level": "model_checking",
    "parts": [part("c03_restart", "plain", ["c03_restart.cpp"], timeout={"quick": 1500, "thorough": 7200})],
    "rule": "31 configurations (restraints fixed/moving/staged, walls, linear, ABMD, ALB, histogram, histogramRestraint, "
            "metadynamics with/without grids, keepHills, well-tempered, expandBoundaries, OPES, ABF 1-D/2-D, 2-D with on-the-fly integration, eABF, TI, an "
            "extended-Lagrangian variable with timeStepFactor 2, and six objects that the resuming instance lists in another order) x ALL "
            "trajectory words of length 4 (thorough 5) over {bin a, bin b, exact bin edge, below grid, above grid} "
            "(x {-1,+2} system force and length 3/4 where total forces are read) x EVERY stop step K x {text, binary, text loaded after the resuming instance has evaluated step K once} x "
            "{lagged, same-step} timing; each resumed run is compared step by step and by final state with the "
            "uninterrupted run; the word tree is explored unmerged; states = distinct final saved states, transitions = steps",
    "assumptions": ["trajectories and system forces are scripted (not integrated from Colvars forces)",
                    "text state carries 14 significant digits: text restarts compared at 1e-9 relative, binary at 1e-12",
                    "extended-Lagrangian case uses zero friction (no random numbers across the restart)",
                    "metadynamics with gridsUpdateFrequency > newHillFrequency is run on bin-centre values only: writing a state "
                    "tabulates pending hills, which changes their evaluation from analytic to binned (see C05 known finding)"],
}
META = {
  "text": "Explicit enumeration of every (history, stop point, format, timing) within the stated bounds on the real module: a "
          "fresh module loads the state saved at step K and continues under the engine protocol (repeating step K); all "
          "later observations and the final state must equal those of the uninterrupted run; loading then saving must "
          "reproduce the loaded state.",
  "design_ref": "DESIGN.md section 3, C03",
  "note": "Trusted: the engine simulator's restart protocol (copied from the NAMD/LAMMPS proxies); bounded word length.",
  "technique": "explicit-state enumeration of histories x stop points on the real code, differential oracle",
}
