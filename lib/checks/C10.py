from checkdef import part
_WRAP = "-Wl,--wrap=_ZN11colvarparse14check_keywordsERNSt7__cxx1112basic_stringIcSt11char_traitsIcESaIcEEEPKc"
SPEC = {
    "level": "fault_enumeration",
    "parts": [part("c10_params", "asan", ["c10_params.cpp"], ldflags=_WRAP,
                   timeout={"quick": 1500, "thorough": 7200})],
    "rule": "TODO",
    "assumptions": [],
}
META = {
  "text": "TODO",
  "design_ref": "DESIGN.md section 3, C10",
  "note": "TODO",
  "technique": "TODO",
}
