from checkdef import part
# colvarparse::check_keywords(std::string &, char const *) is wrapped at link time so the harness can copy
# colvarparse::allowed_keywords (private; read with -fno-access-control) before the library clears it.
_WRAP = "-Wl,--wrap=_ZN11colvarparse14check_keywordsERNSt7__cxx1112basic_stringIcSt11char_traitsIcESaIcEEEPKc"
SPEC = {
    "level": "fault_enumeration",
    "parts": [part("c10_params", "asan", ["c10_params.cpp"], ldflags=_WRAP,
                   timeout={"quick": 1500, "thorough": 7200})],
    "rule": "phase 0: eight listed complete configurations that the keyword-by-keyword enumeration does not produce (two valid ones whose pair-list array is sized from a group that can be empty; descending atom ranges, too few "
            "reference positions with atomPermutation, timeStepFactor 0 with an extended coordinate, colvarsTrajFrequency 2^61), each in its own child: "
            "refused with a message, never fatal; then corpus = every loadable tests/input_files/*/test.in plus the harness's feature-rich configurations "
            "(harness/c10_extras.h), all checked to load and run cleanly; the keyword registry of every object type "
            "(module, colvar, each component type, atom group, fitting group, each bias type, grid) is harvested from "
            "colvarparse::allowed_keywords when check_keywords() is called; every (block, keyword) of every configuration "
            "x value class {0, -1, 1, 10^6, 2^63-1, 2^61, 1e300, nan, inf, empty, non-existent name, list one element too "
            "long/short, keyword removed, lower/upper boundaries swapped, atom ranges 3-1/0-2/1-10^6/2-2} (thorough: "
            "+ {-1e300, -inf, 2^31, 0.5, 1e-300, -10^6}) is substituted, the configuration parsed, 4 steps run, the state "
            "written to a string, output files written, the run ended and the module destroyed, in a forked child under "
            "ASan+UBSan with CPU-time, resident-memory and single-allocation caps; keywords that only become readable "
            "under a mutated value are enumerated on top of that mutation (one closure level); thorough: all pairs of "
            "divisor/size keywords of a configuration x {0,-1,10^6}^2; then every rejected configuration B is submitted "
            "between two steps of a valid configuration A and the run compared bit for bit with the run without B, and a "
            "further valid configuration C must be accepted. De-duplication: quick = once per (object type, keyword, value "
            "class), module/colvar keywords additionally once per set of bias types for {0,-1,10^6,nan}, keywords shared "
            "by >10 object types in 3 of them; thorough = once per (chain of object types, keys present in the block, "
            "set of bias types, keyword, main value class). A case is non-trivial when the library read the mutated "
            "keyword (not rejected as 'not recognized in this context'); distinct by (configuration, block, keyword, value class).",
    "assumptions": [
        "finite alphabet of boundary values; nothing is claimed for values outside it",
        "the engine simulator reports a non-existent atom number with an error and returns COLVARS_INPUT_ERROR from "
        "init_atom() without creating a slot (what the NAMD/LAMMPS/stub interfaces intend; their literal code registers "
        "atom id 4 instead because COLVARS_INPUT_ERROR is positive)",
        "Lepton, libtorch, volumetric maps, replicas, accelerated MD and name-based atom selection are absent from the "
        "engine simulator: their keywords are reached through the error path only",
        "a hang is a child that uses 2 s and then 40 s of CPU time without ending",
        "10^6 is the 'large but legitimately allocatable' value class: a case containing it that runs into the memory or "
        "allocation cap, or does not end within 40 s (quick) / 400 s (thorough) of CPU, is counted and noted, not judged; "
        "sizes that can never succeed (2^31, 2^63-1, 1e300) are judged",
        "UBSan's abort on the first undefined operation hides what would follow it in that case",
    ],
}
META = {
  "text": "Fault enumeration over configuration values: every keyword of every object type (harvested from the library's own "
          "keyword registry at run time) crossed with a fixed alphabet of boundary values, each case executed on the real "
          "library (parse, steps, state and output writing, shutdown) in a forked child under ASan+UBSan with CPU, memory "
          "and allocation caps; the oracle is the way the child ends (normal return with OK or error bits vs signal, "
          "sanitizer report, uncaught exception, hang, memory cap). A second oracle replays [valid A, step, rejected B, "
          "step, valid C, step] against the same run without B and demands bit-identical values, energies, forces and "
          "state of every surviving object. The space is enumerated completely; nothing is sampled.",
  "design_ref": "DESIGN.md section 3, C10",
  "note": "Trusted: the sanitizers' reports, the harness's own configuration-tree parser/emitter, the engine simulator "
          "(vproxy subclass). Findings are grouped per crash site (end kind + library function) and named after the "
          "simplest keyword/value that reaches it; all other triggers are listed in the replay detail. Integer "
          "division by zero is reported by UBSan in this build and named SIGFPE (what an uninstrumented build gets).",
  "technique": "bounded-exhaustive enumeration of keyword x boundary-value substitutions with crash/hang/sanitizer oracle in forked children, plus reject-then-continue sequence comparison",
}
