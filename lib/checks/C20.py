from checkdef import part
SPEC = {
    "level": "model_checking",
    "parts": [part("c20_script", "asan", ["c20_script.cpp", "c20_agree.cpp", "c20_seq.cpp"],
                   env={"ASAN_OPTIONS": "detect_leaks=0:allocator_may_return_null=1:max_allocation_size_mb=2048"},
                   timeout={"quick": 1500, "thorough": 7200})],
    "rule": "TBD",
    "assumptions": [],
}
META = {
  "text": "TBD",
  "design_ref": "DESIGN.md section 3, C20",
  "note": "TBD",
  "technique": "TBD",
}
