from checkdef import part
SPEC = {
    "level": "model_checking",
    "parts": [part("c20_script", "asan", ["c20_script.cpp", "c20_agree.cpp", "c20_seq.cpp"],
                   env={"ASAN_OPTIONS": "detect_leaks=0:allocator_may_return_null=1:max_allocation_size_mb=2048"},
                   timeout={"quick": 1500, "thorough": 7200})],
    "rule": "four enumerations on the ASan+UBSan build, every case on a fresh module in forked batches (a case that kills its "
            "child is replayed alone twice and reported with the command, the argument class and the kind of death). "
            "(1 totality) every command registered in the script object (harvested with cv listcommands and the "
            "get_command_* accessors: 86) x every argument tuple of arity 0..max+1 over {empty string, name of a variable, "
            "name of a bias, unknown name, 0, -1, 1e999, unbalanced brace, unbalanced quote, 4 KB string, and the valid "
            "values derived from the argument's name and type in its help string (configuration text of one more bias / "
            "variable, path of a configuration file, state string and state file prefix of a donor run, force matching the "
            "variable's dimensionality, every feature name of the object, on/off, ...)}, for variable/bias commands also "
            "every such token in the position of the object name, plus raw dispatch forms (no words, cv alone, unknown "
            "sub-commands, missing names), in three module states (empty, configured with 2 variables + 2 biases, the same "
            "after 3 steps) of scenario A {distance, distanceVec, harmonic, abf} (thorough: also B {extended-Lagrangian "
            "distance, orientation, metadynamics, harmonic} and C {distanceZ with running average and total force, "
            "cartesian, harmonicWalls, histogram}); oracle: the call returns OK or an error code with a message, one more "
            "step returns; after a REJECTED call the step must succeed and equal the run without the call; after an accepted "
            "call a step error is tolerated only if reset + configuration + step then succeed; query commands (get*, list*, "
            "help, version, value/energy/type/state/bin queries, savetostring, printframe, get/set commands without their "
            "argument) must leave the next step bit-identical (values, forces, energies, atom forces, state text) to the run "
            "without them; cv list must equal the internal lists. (2 agreement) 3 scenarios x 2 total-force conventions x "
            "{plain run, run resumed from a state, step counter above 2^31} x 5 (thorough 8) steps: after every step ~75 "
            "queries are parsed and compared, at the precision the script prints (15 significant digits for "
            "variable-typed results, 6 for plain reals), with the engine-side arrays of the simulator (positions, masses, "
            "charges, total forces, forces and energy received), with the module's members, with the state text written by "
            "the engine path, and in scenario A with own arithmetic (values, gradients, restraint energy and force, ABF bin "
            "and sample counts, atom forces = applied force x gradient, force statistics). (3 paths) each of 16 script "
            "operations alone from the 3 module states, 10 configuration menus (whole, piecewise, with steps in between, 5 "
            "erroneous texts) through cv config vs read_config_string, addforce issued from the engine's force callback vs "
            "add_bias_force (2 orders x with/without biases x 2 variables x 4 forces, plus own arithmetic force x gradient), "
            "cv loadfromstring vs the engine's input state on a fresh and on a running module: the next 2 steps must be "
            "bit-identical. (4 sequences) ALL sequences of length <= 3 (thorough 4; scenarios B, C one shorter in both tiers) over {step, cv config of one more "
            "bias, addforce x2, bias delete x2, colvar delete x2, savetostring+loadfromstring, set active 0/1, get active, "
            "cv update, cv reset, cv config of the scenario, cv delete} from the configured state and of length <= 2 "
            "(thorough 3) from the after-3-steps state (B, C again one shorter), run through the script and "
            "through the direct API path + 2 steps: same acceptance pattern, bit-identical records, cv list = internal "
            "lists, and (scenario A) script values = own arithmetic on the current coordinates. states = distinct "
            "observation records, transitions = commands and steps applied; a case is distinct by (scenario, state, words) "
            "or (scenario, start state, operation sequence); part 1 cases count as non-trivial only when the command body "
            "was reached (not rejected by the dispatcher or the argument-count check)"
            " Later additions: scenario E (modifycvcs against the same coefficient in the configuration: value, applied force, total force, gradients, energy of the restraint; also for a periodic component) and scenario F (a group fitted on itself or on a separate fitting group: engine forces = applied force x reported gradients).",
    "assumptions": ["commands are issued through run_colvarscript_command()/get_colvarscript_result() with the error state "
                    "cleared before each call, as the Tcl wrapper does; no Tcl interpreter, no VMD (cv delete, cv molid, "
                    "cv frame only in their refusing form)",
                    "fixed scenarios (3 x 2 variables + 2 biases), scripted coordinates and system forces, serial (smp off)",
                    "a step error after an ACCEPTED state-changing command (e.g. cvcflags 0, set apply_force 0) is the "
                    "module reporting an inconsistent request, not a violation, provided reset + configuration recovers",
                    "colvar getatomids is compared only for variables whose collect_atom_ids feature is on (the list is "
                    "kept on request only)"],
}
META = {
  "text": "Bounded-exhaustive exploration of the real script interface: the full registered command table x a fixed alphabet "
          "of argument classes x three module states (depth 1), and all sequences up to depth 3/4 over a reduced alphabet of "
          "script operations, every execution on a fresh module under AddressSanitizer/UBSan in forked batches; oracles are "
          "totality (returns, message with every error, module usable or recoverable), non-interference of queries "
          "(bit-identical next step), agreement of parsed query results with the engine-side arrays / internal members / own "
          "arithmetic, and a differential oracle between the script path and the configuration-file / engine-driven path.",
  "design_ref": "DESIGN.md section 3, C20",
  "note": "Trusted: the engine simulator (vproxy), the harness's reading of private members (-fno-access-control), the "
          "classification of commands into queries and actions by name, the own arithmetic of scenario A. Bounded: 3 "
          "scenarios, 10+ argument classes, depth 4.",
  "technique": "exhaustive enumeration of command x argument-class tuples and of operation sequences on the real code with "
               "crash, non-interference, agreement and script-vs-direct differential oracles",
}
