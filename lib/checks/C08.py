from checkdef import part
SPEC = {
    "level": "model_checking",
    "parts": [part("c08_superpose", "plain", ["c08_superpose.cpp"])],
    "rule": "all subsets of size <=3 (thorough <=4) of a 8-bias menu (two harmonics sharing a variable, walls, linear, "
            "histogram, ABF with applyBias off, metadynamics, harmonic with scaledBiasingForce grid) x all timeStepFactor tuples over {1..4} (thorough {1..5}) x "
            "first step of the run in 0..4 (thorough 0..6) x 8 (thorough 12) scripted steps, plus variable-level factors; "
            "each combined run is compared step by step with the sum of the single-bias runs; every case of one or two members also with the first "
            "member switched off from the script interface before the 2nd and before the 3rd step (from then on it must contribute nothing); states = distinct force "
            "histories, transitions = Colvars steps; a case is non-trivial when accepted and compared on every step",
    "assumptions": ["positions are scripted, so each bias's history does not depend on the other biases' forces",
                    "the n-times-instantaneous-force oracle is applied to memoryless biases only (harmonic, walls, linear); "
                    "history-dependent ones are checked for silence off schedule"],
}
META = {
  "text": "Explicit enumeration of all bias subsets, time-step-factor tuples and run start steps within the stated bounds on the "
          "real module; superposition is decided by comparing every combined run with the sum of single-bias runs, and impulse "
          "MTS by comparing factor-n runs with the factor-1 run, at every step.",
  "design_ref": "DESIGN.md section 3, C08",
  "note": "Trusted: the engine simulator's step protocol (copied from the NAMD/LAMMPS proxies); bounded menu and horizon.",
  "technique": "explicit-state enumeration of bias sets x step schedules on the real code with differential oracles",
}
