from checkdef import part
SPEC = {
    "level": "model_checking",
    "parts": [part("c19_outputs", "plain", ["c19_outputs.cpp"])],
    "rule": "trajectory part: all 128 subsets of 7 output flags x colvarsTrajFrequency {1,2,3} x every run segmentation "
            "(single run, or a second run repeating step K for every K, in the same process or as a restart from the "
            "saved state) x a further variable defined before step A for every A (every 7th case also with the velocity column flipped from "
            "the script interface before every step T) x value words of length 4 (thorough 5) over 3 values (quick: "
            "covering selection; thorough: the full menu product on every 9th word, and all 243 words on 6 flag subsets - "
            "the full product would be 4.2 million module runs with file output); ALB part: all 16 subsets of the 4 optional columns of an adaptive linear bias over 7 steps, every value under its label compared with the bias; analysis part: ALL value words of length 7 "
            "over 3 (thorough 4) values for the scalar variable and over 3 values for the 3-vector variable, each run with 4 "
            "running-average and 24 correlation-function parameter tuples (coordinate type; coordinate_p2 for the vector; cross-correlation with "
            "a second variable b = d^2 for the scalar), every 5th scalar word also as a run starting at step 100; states = distinct output file contents, transitions = Colvars steps; "
            "a case is non-trivial when its files were written and every number compared"
            " Later additions: a variable with timeStepFactor 2 in the trajectory part (its column is present at every line; its velocity column is the difference of its last two values over the steps between them); a unit-vector variable with its velocity (chord or geodesic laid out at either end); new runs in the same process of an engine that counts each run's steps from the run's first step.",
    "assumptions": ["the step column of the running-average file carries the step number of the simulation",
                    "either normalisation (N or N-1) of the standard deviation is accepted",
                    "correlation functions of coordinate (and coordinate_p2) type, C_ab(lag) = <a(t) b(t-lag)>; time origins = the N most recent steps with a "
                    "complete row of lags, N taken from the file header"],
}
META = {
  "text": "Explicit enumeration of every operation history (value word, output flags, frequency, run segmentation) up to the "
          "stated length on the real module; after each history the written files are parsed and every number is compared "
          "with the module state recorded at that step and with textbook running means / standard deviations / time "
          "correlation functions of the dictated value word.",
  "design_ref": "DESIGN.md section 3, C19",
  "note": "Trusted: harness file parser and textbook reference; bounded word length and 4-value alphabet.",
  "technique": "explicit-state enumeration of all bounded operation histories on the real code with a reference oracle",
}
