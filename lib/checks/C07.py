from checkdef import part
SPEC = {
    "level": "exploration",
    "parts": [part("c07_totalforce", "plain", ["c07_totalforce.cpp"], timeout={"quick": 1500, "thorough": 7200})],
    "rule": "13 component definitions (distance, oneSiteTotalForce, distanceZ, distanceXY, angle, dihedral, gyration, rmsd with and without atomPermutation, "
            "eigenvector, distance +/- distance) plus 8 definitions that need not support total forces (inertia, inertiaZ, groupCoord, coordNum, dummy first/second "
            "group with and without oneSiteTotalForce: refused at configuration time, or held to the same statement) x 3 (thorough 5) geometries of 7 atoms with non-uniform masses x T in {0,300} x "
            "hideJacobian x subtractAppliedForce x {lagged, same-step}: a 4-step history with a different, closed-form bias "
            "force at each step is fed back as the engine's total forces; plus every one of the 3N unit atomic force fields "
            "and 4 combinations (linearity, atoms outside the groups), plus the Jacobian term against the finite-difference "
            "divergence of the measured field; distinct by (component, geometry, option tuple)",
    "assumptions": ["finite menu of geometries; positions held fixed within a history so that the lagged projection is unambiguous",
                    "Jacobian clause not judged for fitted components (rmsd, eigenvector): documented caveat on fitting options",
                    "alchemical component not exercised (needs an engine that exposes lambda)"],
}
META = {
  "text": "Bounded-exhaustive product of components, geometries, options and timing conventions on the real code; the oracle needs "
          "no reference implementation: the engine simulator returns exactly the forces Colvars applied, and the measured field is "
          "probed with all unit force fields.",
  "design_ref": "DESIGN.md section 3, C07",
  "note": "Trusted: closed-form harmonic bias force; finite geometry menu.",
  "technique": "exhaustive enumeration of component x option x timing products with a round-trip (apply -> measure) oracle",
}
