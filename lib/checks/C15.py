from checkdef import part
_env = {"OMP_NUM_THREADS": "1"}
SPEC = {
    "level": "exploration",
    "parts": [
        part("c15_hist", "plain", ["c15_hist.cpp"], env=_env, timeout={"quick": 400, "thorough": 1500}),
        part("c15_io", "plain", ["c15_io.cpp"], env=_env, timeout={"quick": 400, "thorough": 1500}),
    ],
    "rule": "part c15_hist: histogram biases driven through real engine steps on distanceZ/distance variables whose values are "
            "dictated exactly (atoms on dyadic z coordinates); per grid definition (lower x width x n alphabets, 1-3 dimensions, "
            "non-periodic / periodic variables with 4 wrapAround centres and grids covering the wrapping interval, part of it, a "
            "shifted period, a straddling interval or two periods; grid taken from the variables or from a `grid`/`histogramGrid` "
            "block; in 2-D/3-D the block changes EVERY non-empty subset of the variables' own lowerBoundary/upperBoundary/width - "
            "all three, the upper boundary only, the width only or the lower boundary only - and repeats the other variables' own "
            "parameters) EVERY value lower+(i+delta)*width, i=-2..n+1, delta in {0,2^-40,1/2,1-2^-40} (+- whole periods; reduced edge "
            "set per dimension in 2-D/3-D products) is presented, every 5th call preceded by the first call of a continued run; "
            "plus ALL words of length <= L over a 5-6 letter value alphabet x every run segmentation x stepZeroData on fresh "
            "modules; plus decimal (non-dyadic) grids and a real dihedral with interior values only; plus the documented "
            "gatherVectorColvars/weights configurations. A case = (grid definition, operation, eligibility); it is non-trivial "
            "when the whole private grid array was compared with the integer-arithmetic reference after that step (configurations "
            "that fail to parse are harness errors, never skipped). "
            "part c15_io: every grid shape with 1-3 points per dimension in 1-3 dimensions x per-dimension kind (non-periodic "
            "variable, periodic variable on part of / on the whole period) x two parameter alphabets (few digits, many digits) x "
            "{count, scalar, gradient, gradient+samples} x 10 write/read paths (multicolumn->file constructor, and for scalar grids the restart form of that variable-less grid read into another one built from the same file, ->read_multicol with "
            "and without add, restart text/binary into a same-shaped fresh grid or into a fresh grid that differs from the "
            "source in EVERY non-empty subset of dimensions (boundaries+width+size, upper boundary only, or width only), raw text "
            "in the two float formats Colvars uses, raw binary) x 3 data patterns with a distinct value per cell; a case is distinct by that tuple and "
            "non-trivial when the re-read grid was compared attribute by attribute with the harness's own record of the source",
    "assumptions": ["finite alphabets of exactly representable reals; nothing is claimed for values outside them (in particular for "
                    "values within one rounding error of a bin edge of a grid with non-dyadic parameters)",
                    "a value exactly on an end of a periodic variable's wrapping interval may be reported at either end (the "
                    "documentation does not say which)",
                    "text forms carry 14-15 significant digits: data that need more are compared at 2e-13 relative; boundaries and "
                    "widths at 1e-14 for the multicolumn header (15 digits) and at 1e-13 for the parameter block of the restart forms "
                    "(14 significant digits, the documented precision of Colvars text state); sizes, periodic flags and "
                    "exactly representable data are compared exactly",
                    "the per-element-weights clause (vector variables gathered into one histogram) could NOT be exercised: this build "
                    "rejects every configuration with gatherVectorColvars on (counter gather_vector_configs_rejected, error text in the "
                    "notes) - src/colvarbias_histogram.cpp:35 enables f_cvb_scalar_variables unconditionally, line 90 enables f_cv_grid "
                    "which src/colvar.cpp:1246 makes require f_cv_scalar, src/colvargrid.h:295 refuses non-scalar variables, and vector "
                    "variables do not accept lowerBoundary/upperBoundary; the statement does not promise that the configuration is "
                    "accepted, so this is recorded, not reported; the reference for weighted accumulation is in place and is used as soon "
                    "as such a configuration is accepted",
                    "eligible step = not the first call of a run segment, or stepZeroData on (documentation of stepZeroData)",
                    "thermodynamic-integration sample grids and extended-Lagrangian variables are outside this check"],
}
META = {
  "text": "Bounded-exhaustive exploration of the real histogram and grid I/O code: every value of an edge-aligned alphabet (bin "
          "edges, one part in 2^40 above and below them, bin centres, two bins outside either boundary, whole periods away) is "
          "binned by the real bias in a real step for every grid definition of a stated menu in 1-3 dimensions, and the complete "
          "private array, the saved state's grid array, the multicolumn output file and the array of a fresh module that loaded the "
          "state are compared with an integer-arithmetic reference; all short value words x run segmentations x stepZeroData are run "
          "on fresh modules; every small grid shape is written and read back through every file form. The quantifier ranges over "
          "reals and all shapes, so the claim is limited to the alphabets and to shapes up to 3x3x3.",
  "design_ref": "DESIGN.md section 3, C15",
  "note": "Trusted: the harness's integer reference (self-tested at start-up), the engine simulator's step protocol (copied from the "
          "NAMD/LAMMPS proxies), exactness of distanceZ for single atoms on the z axis (asserted at every step: the reported value "
          "must equal the dictated one). Guard cells around the histogram array make writes just outside it visible without a "
          "sanitizer. Histograms of vector variables cannot be configured at all in the current tree (counted and noted, not a "
          "violation), so the weights clause is exercised only if such a configuration is accepted.",
  "technique": "exhaustive enumeration of edge-aligned value alphabets x grid definitions x run segmentations, and of all small grid "
               "shapes x file forms, against an exact integer reference",
}
