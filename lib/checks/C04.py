from checkdef import part
SPEC = {
    "level": "model_checking",
    "parts": [part("c04_abf", "plain", ["c04_abf.cpp"], timeout={"quick": 1500, "thorough": 7200})],
    "rule": "18 ABF configurations (hideJacobian at 300 K; integrate off; scaledBiasingForce with factors read from a file, with and without ramp; 1-D with ramp 0/1 and 1/3, applyBias off, maxForce, a second bias on the same variable "
            "with and without subtractAppliedForce, Jacobian term at 300 K, periodic 1-D with maxForce and ramp, 2-D, and 1-D/2-D with the "
            "grid given by a grid { } block wider than the variables' own boundaries) x ALL words of length 3 "
            "(thorough 4) over {bin 0, bin 1, exact bin edge, below, above} x {-1,+2} system force x {lagged, same-step} x "
            "{one run, new run in the same process at every K, restart from the saved state at every K, new simulation at every K that reads the "
            "first one's output files through inputPrefix} plus, for every K, two independent simulations merged by a third that names both in "
            "inputPrefix (counts add, gradients are the mean over all samples), and - for the plain 1-D configuration - the files of the whole word "
            "read by a simulation with bins twice as wide; after EVERY step the stored count and "
            "gradient of EVERY bin, the biasing force on the variables and the atomic force are compared with a reference "
            "ABF (bin -> list of samples); states = distinct reference sample tables, transitions = steps"
            " Later additions: two-variable configurations with subtractAppliedForce in only one of the variables.",
    "assumptions": ["system forces and positions are scripted; under the lagged convention the simulator adds Colvars' own forces "
                    "of the previous step to the total force, as NAMD does",
                    "periodic sub-case uses minSamples 0/fullSamples 1 (ramped and unramped zero-mean correction coincide)",
                    "samples exist for integrated steps only: a repeated step at a run boundary contributes once"],
}
META = {
  "text": "Explicit enumeration of every bounded history of (value region, system force) under both force-timing conventions "
          "and every run segmentation, on the real ABF code, with a reference ABF written from the statement (map bin -> "
          "samples) compared bin by bin after every step.",
  "design_ref": "DESIGN.md section 3, C04",
  "note": "Trusted: the reference attribution rule (force exerted at step t, measured under the engine's convention, goes to "
          "the bin occupied at t); bounded history length.",
  "technique": "explicit-state enumeration of sample histories on the real code vs a reference accumulator",
}
