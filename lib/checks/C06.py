from checkdef import part
SPEC = {
    "level": "model_checking",
    "parts": [part("c06_forms", "plain", ["c06_forms.cpp"]), part("c06_schedules", "plain", ["c06_schedules.cpp"])],
    "rule": "forms: 33 restraint definitions (harmonic on scalar / periodic / 3-vector / unit-vector / quaternion / two "
            "variables, one- and two-sided and periodic walls incl. different wall constants, linear, histogramRestraint) x 30 "
            "geometries, energy vs documented closed form; ABMD: all value words of length 5 (thorough 7) over 4 values x "
            "increasing/decreasing x 2 stopping values; schedules: 16 moving-restraint schedules (centres/force constant; continuous, staged, lambdaSchedule, "
            "lambdaExponent, targetEquilSteps, decoupling; harmonic and harmonicWalls with equal, different and single wall constants) x 2 scripted trajectories x EVERY "
            "assignment of {no boundary, new run in the same process, restart from the saved state} to the boundaries "
            "between 8 (thorough 10) steps x text/binary state; every step of every segmented run is compared with the "
            "unsegmented run and the unsegmented run with closed forms; states = distinct (segmentation, history of "
            "centre/k/work), transitions = Colvars steps"
            " Later additions: schedules of simulations whose first step is 5 or 7 (the schedule counts from the step the restraint was created); staged centres with one-step stages; continuous and staged schedules of restraints with a timeStepFactor (small-step trajectories; value, energy at the restraint's steps, work, TI lines, every segmentation); accumulated work of moving centres for 3-vector, unit-vector and quaternion variables held fixed (256 steps: the work must be the energy change within 3%).",
    "assumptions": ["staged schedules: either boundary convention (change visible at step kN or kN+1) is accepted, consistently",
                    "accumulated work: force taken with the new, old or mid-point parameter value is accepted, consistently",
                    "staged TI: a stage's post-equilibration steps are kN+E+1..(k+1)N or kN+E..(k+1)N-1 (both accepted)"],
}
META = {
  "text": "Explicit enumeration of all run segmentations of a bounded history on the real module (restart = fresh module "
          "loading the saved state; continuation = repeated engine step), with closed-form schedule functions, recomputed "
          "work sums and stage means as oracles, plus exhaustive closed-form energy checks of every restraint type.",
  "design_ref": "DESIGN.md section 3, C06",
  "note": "Trusted: closed forms written from the manual; bounded horizon; scalar variable for schedules.",
  "technique": "explicit-state enumeration of run segmentations and value grids on the real code vs closed forms",
}
