from checkdef import part
SPEC = {
    "level": "exploration",
    "parts": [part("c02_values", "plain", ["c02_values.cpp"]), part("c02_special", "plain", ["c02_special.cpp"])],
    "rule": "Cartesian product of component type/variant (28 documented component types, 50+ variants) x atom-group option "
            "(plain, dummyAtom, centerToReference with full/single refPositions, rotateToReference, both, fittingGroup, "
            "centerToOrigin, single-keyword overrides of the rmsd/eigenvector default fit) x combination (single, coefficient, "
            "exponent 2/3, two-component sum) x geometry x mass/charge table x cell (none, orthorhombic); every base case runs its "
            "complete transformation menu (3 translations, cube rotations + 3 generic, lattice shifts of every whole group along "
            "every axis, permutations and duplicate listings of every group's atom list, and - on the cell-free single-component base cases of one "
            "(thorough: three) geometry/table - the combined menu: duplicate listing of every atom at every insertion position (first/middle/last "
            "for 5-atom groups) of descending, rotated and two shuffled atom lists, written with one or split over two atomNumbers keywords). "
            "A case is distinct by (base-case id, "
            "transformation name); it is non-trivial when the configuration parsed, the value was computed by the real library and "
            "compared with the independent reference (rejected duplicate listings and documented-singular geometries are counted "
            "separately and are not non-trivial). Second part (boundary geometries): 16 component/geometry pairs at the edge of "
            "a definition's domain (exactly collinear or opposite sites of an angle, an atom on the polar axis, a pair exactly at "
            "the cutoff for every coordination-type component and exponent choice, coordinates equal to the reference for the "
            "orientation-type components and rmsd) x {value alone, with a harmonic restraint}: the value must be the limit of the "
            "documented formula (never NaN) and the restraint energy finite; pair lists: 4 variants under rigid translation over 9 steps, and 4 variants "
            "defined at step 0..4 of a run x fresh arrays filled with 0 or 1 (the harness owns operator new[]): same value as when defined at the start",
    "assumptions": [
        "finite alphabet of reals: 3 generic 12-atom geometries, 3 mass/charge tables, 2 orthorhombic cells, fixed reference-position tables; nothing is claimed outside it",
        "conventions the manual leaves open are taken as: orientation = least-squares rotation from reference to current coordinates; dipole measured from the "
        "centre of mass; dipoleAngle between the dipole of group1 and the vector group2->group3; angle vertex at group2; distancePairs ordered group1-major; "
        "Euler angles z-y'-x''; cutoff3 scales each Cartesian component; differenceVector uses the second set after fitting it on the reference",
        "rotateToReference without centring is exercised only with reference positions whose centre is the origin (the manual does not say whether they are centred)",
        "coordNum/selfCoordNum 'tolerance' is evaluated on a pair-list rebuild step only",
        "duplicate listing is documented as 'counted once'; a rejected listing would be counted as rejected, not reported",
    ],
}
META = {
  "text": "Bounded-exhaustive exploration: every element of a finite product of documented component types, atom-group options, "
          "combinations, geometries, mass/charge tables and cells is evaluated by the real library (colvar::value() after calc() "
          "under the engine simulator) and by an independent plain-C++ implementation of the documented definition (own vector "
          "algebra, own Jacobi solver for the Horn/Kabsch problem); each base case is then re-evaluated under the whole "
          "transformation menu. Oracles: value == reference on every input; whenever the reference is numerically invariant under "
          "a transformation the library must be too (no hand-written invariance table); every least-squares rotation the library "
          "used is no worse than the reference optimum and than 12 perturbations of itself; a reused module reports the bit-identical "
          "base value again. The quantifier ranges over reals and all configurations, so the claim is limited to the alphabet.",
  "design_ref": "DESIGN.md section 3, C02",
  "note": "Trusted: the reference model (self-tested at start-up: known rotation recovered, optimum beats 200 perturbations, IUPAC dihedral "
          "sign, 24-element cube group) and the manual's formulas; conventions the manual leaves open are listed in the assumptions. Not covered: "
          "alpha, dihedralPC, groupCoord (undocumented), path/neural-network/volmap/scripted components, non-orthorhombic cells, scalable (engine-side) "
          "centres of mass. Both signs of the raw leading eigenvector are required to occur (vacuity guard).",
  "technique": "exhaustive enumeration of a finite configuration x input x transformation product against an independent reference model",
}
