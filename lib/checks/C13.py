from checkdef import part
SPEC = {
    "level": "model_checking",
    "parts": [part("c13_deps", "asan", ["c13_deps.cpp"], env={"ASAN_OPTIONS": "detect_leaks=0"}, timeout={"quick": 1500, "thorough": 7200})],
    "rule": "breadth-first enumeration of ALL enabled operation sequences of length <= 5 plus those of length 6 (thorough: 6 and 7) ending in a "
            "deletion or reset, over {define variable a (distance) / b (extended-Lagrangian distance) / c (distanceZ with total "
            "force), define bias h (harmonic, timeStepFactor 2) / w (walls) / hi (2-D histogram) / f (ABF) / m "
            "(metadynamics), delete bias x, delete variable x, reset, step}, each on a fresh module (ASan build) followed by "
            "two steps; in EVERY intermediate state: dependency invariant on every object, atoms held == atoms of live "
            "objects, no error from a legal operation; sequences with deletions are compared with the same history with the "
            "deleted objects' operations filtered out; states = distinct final observation records, transitions = operations"
            " Later additions: a sixth bias in the alphabet (two-variable ABF with hideJacobian sharing a variable with the one-variable one); every history of length <= 4 over {define an unnamed variable, delete the variable at position p} followed by one more unnamed definition.",
    "assumptions": ["a deletion of a variable deletes the biases that use it (documented behaviour): the filtered history drops them too",
                    "fixed object definitions (3 variables, 5 biases); positions and system forces scripted"],
}
META = {
  "text": "Explicit-state breadth-first search over operation histories (state = history replayed on a fresh module, live objects "
          "are not copyable), with an invariant evaluated in every state and a differential oracle (history vs filtered "
          "history) at the leaves; memory errors surface through AddressSanitizer/UBSan in forked batches.",
  "design_ref": "DESIGN.md section 3, C13",
  "note": "Trusted: the harness's reading of colvardeps private state (-fno-access-control); bounded depth and object menu.",
  "technique": "explicit-state BFS over define/delete/step histories on the real code with invariant + differential oracles",
}
