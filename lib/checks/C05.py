from checkdef import part
SPEC = {
    "level": "model_checking",
    "parts": [part("c05_meta", "asan", ["c05_meta.cpp"], timeout={"quick": 1500, "thorough": 7200})],
    "rule": "19 metadynamics configurations (a grid lying 0.4 to 6.6 bins above every value, plain and well-tempered; a hard boundary on one side only with the other side left, grid given by a grid { } block wider than the variables' boundaries in 1-D and 2-D, restart onto a narrower rebinned grid with kept hills, grids on/off, hillWidth vs gaussianSigmas, hill and grid-update frequencies, "
            "keepHills, well-tempered, expandBoundaries, periodic variable, two variables, 3-vector variable without grids) "
            "x ALL value words of length 4 (thorough 5) over {2 bin centres, off-centre, exact edge, just below grid} "
            "(thorough: + far below, above) x {one run, new run in the same process at every K, restart at every K}; after EVERY step energy "
            "and force on the variables are compared with a reference that keeps the explicit hill list and a tabulated "
            "marker; states = distinct reference hill lists, transitions = steps",
    "assumptions": ["Gaussians below exp(-11.5) may be dropped: comparison envelope n_hills*W*1.2e-5",
                    "with expandBoundaries the current grid boundaries are read from the implementation (only to decide "
                    "whether a value is inside the grid)",
                    "writing the state brings the grids up to date (all hills tabulated at a restart)"],
}
META = {
  "text": "Explicit enumeration of every bounded value history and run segmentation on the real metadynamics code (ASan build), "
          "with a reference bias (explicit hill list, tabulated/untabulated split, analytic evaluation off-grid, well-tempered "
          "heights) written from the statement and compared after every step.",
  "design_ref": "DESIGN.md section 3, C05",
  "note": "Trusted: the reference hill model; bounded history length; finite value alphabet.",
  "technique": "explicit-state enumeration of deposition histories on the real code vs a reference hill list",
}
