from checkdef import part
SPEC = {
    "level": "model_checking",
    "parts": [part("c12_threads", "shim", ["c12_threads.cpp", "sched_omp.cpp"], timeout={"quick": 1500, "thorough": 7200}),
              part("c12_tsan", "tsan", ["c12_threads.cpp", "sched_omp.cpp"], args=["--mode", "free"],
                   env={"TSAN_OPTIONS": "halt_on_error=1 exitcode=66 report_signal_unsafe=0"},
                   timeout={"quick": 1500, "thorough": 7200})],
    "rule": "7 configurations (3 variables sharing atoms + 3 biases; two-component variable + fitted rmsd + walls + "
            "metadynamics; scripted-force task before and after the biases; three-component variable with the first component switched off; "
            "multiple-time-step variables over 4 steps; two-component variable calculating total forces one step late) x T = 2..3 (thorough 2..4) threads x ALL schedules with at "
            "most 1 (thorough 2) preemptions of the library's own parallel loops, choice points at region start, thread "
            "start/end, every lock/critical/single/barrier operation and every work-item boundary; every execution on a "
            "fresh module, 2 steps, compared bit-for-bit with the serial run (explicit OpenMP reductions at 1e-12); plus a "
            "free-running pass of the same bodies under ThreadSanitizer; states = distinct schedules, transitions = choice points",
    "assumptions": ["the OpenMP runtime is replaced by the harness's stand-in (12 entry points); GCC's static loop schedule is "
                    "computed inline from the thread id, so the assignment of items to threads is the real one",
                    "unsynchronised accesses between choice points are the ThreadSanitizer pass's job",
                    "hardware memory-model effects are out of scope",
                    "OPES parallel regions are compiled only with -DOPES_THREADING, which is not defined in this build: not covered"],
}
META = {
  "text": "Stateless model checking of the implementation: the library's parallel regions run under a cooperative scheduler that "
          "owns every synchronisation point; all schedules up to the preemption bound are enumerated (iterative context "
          "bounding) and each complete execution is compared with the serial result; deadlock = no enabled thread.",
  "design_ref": "DESIGN.md section 2.3-B and section 3, C12",
  "note": "Trusted: the OpenMP stand-in (sched_omp.cpp); preemption bound and thread counts as stated; evidence reports the last "
          "completed bound per configuration.",
  "technique": "preemption-bounded exhaustive schedule enumeration under a controlled scheduler + TSan free-running pass",
}
