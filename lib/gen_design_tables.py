#!/usr/bin/env python3
"""Regenerates the tables between the AUTOGEN markers of DESIGN.md from known_findings.json and seeded/*/meta.json."""
import json, os, re, glob
V = "/verif"
kf = json.load(open(V + "/known_findings.json"))["findings"]
out = []
out.append("#### Defects repaired in /repo (one `fix:` commit each; every entry is `fixed:` in known_findings.json and suppresses nothing)\n")
out.append("| property | commit | what failed |\n|---|---|---|")
for f in kf:
    if f["status"] == "fixed":
        out.append("| %s | %s | %s |" % (f["property"], f.get("commit", ""), f["what"].replace("|", "/")))
out.append("\n#### Findings recorded, not repaired (printed as KNOWN-FINDING by the check, exit 0)\n")
out.append("| property | signature | what fails | why not repaired |\n|---|---|---|---|")
for f in kf:
    if f["status"] == "known":
        out.append("| %s | `%s` | %s | %s |" % (f["property"], f["sig"], f["what"].replace("|", "/"), f.get("why_not_fixed", "").replace("|", "/")))
out.append("\n#### Seeded changes (written by sub-agents that saw only the property text) and the check that reports them\n")
out.append("| seed | needs, to manifest | reported by |\n|---|---|---|")
for d in sorted(glob.glob(V + "/seeded/*")):
    m = json.load(open(d + "/meta.json"))
    out.append("| %s | %s | %s |" % (os.path.basename(d), m.get("needs_to_manifest", "").replace("|", "/"),
                                   ("" if m.get("detected_by_check") else "**NOT DETECTED** ") + m.get("caught_by", "").replace("|", "/")))
txt = "\n".join(out) + "\n"
p = V + "/DESIGN.md"
s = open(p).read()
a, b = "<!-- AUTOGEN:BEGIN -->", "<!-- AUTOGEN:END -->"
if a in s:
    s = s[:s.index(a) + len(a)] + "\n" + txt + s[s.index(b):]
    open(p, "w").write(s)
    print("DESIGN.md tables regenerated")
else:
    print(txt)
