#!/usr/bin/env python3
"""seedstore.py <name> <property> <srcdir> <detected:yes|no> <caught_by> <needs...>  — copy a confirmed seeded change into /verif/seeded/<name>/ with meta.json"""
import sys, os, shutil, json
name, prop, src, det, by = sys.argv[1:6]
needs = " ".join(sys.argv[6:])
dst = os.path.join("/verif/seeded", name)
os.makedirs(dst, exist_ok=True)
for f in os.listdir(src):
    p = os.path.join(src, f)
    if os.path.isfile(p) and os.path.getsize(p) < 2_000_000 and not f.endswith((".o", ".a")) and not os.access(p, os.X_OK) or f.endswith(".sh"):
        shutil.copy(p, dst)
notes = open(os.path.join(src, "notes.txt")).read() if os.path.exists(os.path.join(src, "notes.txt")) else ""
meta = {"property": prop, "breaks": notes[:1500], "needs_to_manifest": needs,
        "confirmed": "lib/seedcheck.sh %s seeded/%s/patch.diff : applied to a scratch worktree of /repo HEAD, repository suite 92/92 stable tests pass, "
                     "demonstration fails with the change and passes without it" % (prop, name),
        "detected_by_check": det == "yes", "caught_by": by}
json.dump(meta, open(os.path.join(dst, "meta.json"), "w"), indent=1)
print("stored", dst, sorted(os.listdir(dst)))
