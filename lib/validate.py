#!/usr/bin/env python3
import json, jsonschema, sys, os, glob
V = os.path.dirname(os.path.dirname(os.path.abspath(__file__)))
jsonschema.validate(json.load(open(V + "/MANIFEST.json")), json.load(open("/root/.vp/MANIFEST.schema.json")))
es = json.load(open("/root/.vp/EVIDENCE.schema.json"))
m = json.load(open(V + "/MANIFEST.json"))
bad = 0
for c in m["checks"]:
    p = os.path.join(V, c["evidence_file"])
    try:
        e = json.load(open(p)); jsonschema.validate(e, es)
        assert e["level"] == c["level_claimed"]["category"], "level mismatch"
        print("ok  ", c["property_id"], e["tier"], e["level"], "evals", e["coverage"].get("evaluations"), "viol", e.get("violations"))
    except Exception as ex:
        bad += 1; print("BAD ", c["property_id"], str(ex)[:200])
sys.exit(1 if bad else 0)
