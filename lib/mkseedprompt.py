#!/usr/bin/env python3
"""mkseedprompt.py <ID> <n> [hint]  -> prints the prompt for a seeded-change sub-agent (property text only)."""
import json, sys
pid, n = sys.argv[1], sys.argv[2]
hint = sys.argv[3] if len(sys.argv) > 3 else ""
for l in open("/verif/properties.jsonl"):
    p = json.loads(l)
    if p["id"] == pid: break
prop = "%s — %s\nStatement: %s\nScope (what it quantifies over): %s" % (p["id"], p["title"], p["statement"], p["quantifier"]["text"])
t = open("/verif/lib/seed_prompt_template.txt").read()
t = t.replace("__WT__", "/tmp/seedwt_%s_%s" % (pid, n)).replace("__OUT__", "/tmp/seedout_%s_%s" % (pid, n))
t = t.replace("__PROPERTY__", prop).replace("__HINT__", ("\nAdditional direction: " + hint + "\n") if hint else "")
print(t)
