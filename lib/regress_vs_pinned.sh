#!/bin/bash
# regress_vs_pinned.sh — differential run of the repository's 87 test configurations: library at the pinned commit vs the
# current /repo tree (which carries the "fix:" commits).  Every output file and the log are compared; differences are listed
# so that each can be attributed to a repair (or found to be a regression).  Investigation aid, not a registered check.
PIN=${PIN:-07eca0ee}
W=/tmp/regress_pinned
rm -rf $W; mkdir -p $W
git -C /repo worktree add --detach $W/src $PIN >/dev/null 2>&1 || exit 2
trap 'git -C /repo worktree remove --force $W/src >/dev/null 2>&1' EXIT
cmake -G Ninja -S $W/src/cmake -B $W/src/_build -DCMAKE_BUILD_TYPE=RelWithDebInfo >/dev/null 2>&1 && cmake --build $W/src/_build -j16 >/dev/null 2>&1 || { echo "pinned build failed"; exit 2; }
[ -x /repo/_build/tests/functional/run_colvars_test ] || { echo "current build missing: run baseline.sh first"; exit 2; }
for side in A B; do
  mkdir -p $W/$side; cp -r /repo/_build/tests/functional/. $W/$side/ 2>/dev/null
  rm -rf $W/$side/CMakeFiles $W/$side/run_colvars_test
done
exeA=$W/src/_build/tests/functional/run_colvars_test; exeB=/repo/_build/tests/functional/run_colvars_test
ndiff=0; n=0
for d in $(cd $W/A && ls -d */ | tr -d /); do
  [ -f $W/A/$d/test.in ] || continue
  n=$((n+1))
  (cd $W/A && timeout 300 $exeA $d/test.in trajectory.xyz $d/out > $d/LOG 2>&1; echo "rc=$?" >> $d/LOG)
  (cd $W/B && timeout 300 $exeB $d/test.in trajectory.xyz $d/out > $d/LOG 2>&1; echo "rc=$?" >> $d/LOG)
  for f in $(cd $W/A/$d && ls); do
    if ! cmp -s $W/A/$d/$f $W/B/$d/$f; then
      # ignore version banner / timing lines in logs
      if [ "$f" = LOG ]; then
        diff <(grep -v -i "version\|compiled\|please cite\|BibTeX" $W/A/$d/LOG) <(grep -v -i "version\|compiled\|please cite\|BibTeX" $W/B/$d/LOG) > $W/diff_$d.LOG.txt && { rm $W/diff_$d.LOG.txt; continue; }
        echo "DIFF $d/LOG ($(wc -l < $W/diff_$d.LOG.txt) diff lines)"
      else
        diff $W/A/$d/$f $W/B/$d/$f > $W/diff_$d.$f.txt 2>&1
        echo "DIFF $d/$f ($(wc -l < $W/diff_$d.$f.txt) diff lines)"
      fi
      ndiff=$((ndiff+1))
    fi
  done
  for f in $(cd $W/B/$d && ls); do [ -e $W/A/$d/$f ] || echo "NEWFILE $d/$f"; done
done
echo "configurations=$n differing_files=$ndiff  (details in $W/diff_*.txt)"
