#!/bin/bash
# seedcheck.sh <ID> <patch.diff> [tier]   — apply a seeded change to a scratch worktree of /repo (HEAD), run the
# repository's own suite there, then run the check <ID> against that tree.  Cleans up after itself.
# Prints: SUITE=pass|fail  CHECK=detected|missed|error
ID=$1; PATCH=$(readlink -f $2); TIER=${3:-quick}
WT=/tmp/seedverify_$$
git -C /repo worktree add --detach $WT HEAD >/dev/null 2>&1 || { echo "worktree failed"; exit 2; }
trap 'git -C /repo worktree remove --force $WT >/dev/null 2>&1; rm -rf $WT ${WT}_build' EXIT
git -C $WT apply $PATCH || git -C $WT apply --3way $PATCH || { echo "PATCH does not apply"; exit 2; }
if [ -z "$SKIP_SUITE" ]; then
  cmake -G Ninja -S $WT/cmake -B $WT/_build -DCMAKE_BUILD_TYPE=RelWithDebInfo >/dev/null 2>&1 && cmake --build $WT/_build -j16 >/dev/null 2>&1 || { echo "SUITE=build-failed"; }
  out=$(ctest --test-dir $WT/_build -j8 --timeout 900 2>&1)
  failed=$(echo "$out" | grep -E "^\s+[0-9]+ - .*\((Failed|Timeout|Not Run|SEGFAULT|Exception.*)\)" | grep -v "customfunction_harmonic-fixed" | wc -l)
  passed=$(echo "$out" | grep -c "Passed")
  if [ "$failed" = "0" ] && [ "$passed" -ge 92 ]; then echo "SUITE=pass ($passed)"; else echo "SUITE=fail (passed=$passed unexpected=$failed)"; fi
fi
# demonstration, both ways (patched tree must fail, /repo at HEAD must pass)
DEMODIR=$(dirname $PATCH)
run_demo() {  # $1 = built tree
  local t=$(mktemp -d /tmp/seeddemo_XXXX); cp -r $DEMODIR/* $t/; cd $t
  if [ -f demo.sh ]; then sh demo.sh $1 $1/_build/libcolvars.a >demo.log 2>&1; rc=$?;
  else g++ -std=c++17 -O1 -fopenmp -w -I$1/src -I$1/misc_interfaces/stubs demo.cpp $1/misc_interfaces/stubs/colvarproxy_stub.cpp $1/_build/libcolvars.a -o demo_exe >demo.log 2>&1 && ./demo_exe $([ -f demo.in ] && echo demo.in) >>demo.log 2>&1; rc=$?; fi
  grep -E "^(PASS|FAIL)" demo.log | tail -1
  cd /; rm -rf $t; return $rc
}
if [ -z "$SKIP_DEMO" ] && [ -f $DEMODIR/demo.cpp -o -f $DEMODIR/demo.sh ]; then
  run_demo $WT; r1=$?; run_demo /repo; r0=$?
  if [ $r1 -ne 0 ] && [ $r0 -eq 0 ]; then echo "DEMO=confirmed (patched rc=$r1, unchanged rc=$r0)"; else echo "DEMO=NOT-confirmed (patched rc=$r1, unchanged rc=$r0)"; fi
fi
cd /verif
VERIF_REPO=$WT VERIF_BUILD=${WT}_build ./vcheck $ID --tier $TIER --no-evidence > ${WT}_out.txt 2>&1; rc=$?
grep -E "^VIOLATION|^KNOWN|HARNESS|BUILD-ERROR" ${WT}_out.txt | cut -c1-220 | head -8
tail -1 ${WT}_out.txt | cut -c1-200
case $rc in 1) echo "CHECK=detected";; 0) echo "CHECK=missed";; *) echo "CHECK=error rc=$rc";; esac
rm -f ${WT}_out.txt
