#!/usr/bin/env python3
"""Regenerates MANIFEST.json from lib/registry.py (+ lib/manifest_meta.py)."""
import json, os, sys
VERIF = os.path.dirname(os.path.dirname(os.path.abspath(__file__)))
sys.path.insert(0, os.path.join(VERIF, "lib"))
from registry import CHECKS, METAS as META
from manifest_meta import PENDING, HOOK_COMMITS

ALL = ["C%02d" % i for i in range(1, 21)]
# only checks listed in lib/ready.txt (run to completion in both tiers on the unchanged tree) are claimed
READY = set(open(os.path.join(VERIF, "lib", "ready.txt")).read().split())
CHECKS = {k: v for k, v in CHECKS.items() if k in READY}
checks = []
for pid in ALL:
    if pid not in CHECKS: continue
    s = CHECKS[pid]; m = META[pid]
    checks.append({
        "property_id": pid,
        "quick_cmd": "./vcheck %s --tier quick" % pid,
        "thorough_cmd": "./vcheck %s --tier thorough" % pid,
        "evidence_file": "evidence/%s.json" % pid,
        "replay_cmd_template": "./vcheck %s --replay {path}" % pid,
        "engine": "vcheck",
        "level_claimed": {"category": s["level"], "text": m["text"], "design_ref": m["design_ref"]},
        "level_note": m["note"],
        "technique": m["technique"],
    })
na = [{"property_id": p, "reason": PENDING[p]} for p in ALL if p not in CHECKS]
man = {
    "version": 1,
    "setup_cmd": "./setup.sh",
    "hooks": {"guard": "COLVARS_VERIF",
              "enable": "vcheck compiles /repo/src/*.cpp out of tree into /verif/build/<variant>/ with -DCOLVARS_VERIF; "
                        "harness translation units use -fno-access-control to read private state",
              "baseline_off_cmd": "./baseline.sh",
              "source_commits": HOOK_COMMITS, "add_only": True},
    "engines": [{"name": "vcheck", "path": "vcheck", "serves_properties": [c["property_id"] for c in checks],
                 "kind_free_text": "bounded-exhaustive explorers (operation sequences, stop/crash points, thread schedules, "
                                   "walker interleavings, finite input products) driving the real Colvars code through a "
                                   "programmable engine simulator, with independent reference models as oracles"}],
    "checks": checks,
    "not_applicable": na,
    "notes": "All checks explore the implementation itself (no separate model); see DESIGN.md. known_findings.json lists "
             "genuine defects (fixed or recorded).",
}
json.dump(man, open(os.path.join(VERIF, "MANIFEST.json"), "w"), indent=1)
print("MANIFEST.json: %d checks, %d not_applicable" % (len(checks), len(na)))
