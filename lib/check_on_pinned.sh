#!/bin/bash
# check_on_pinned.sh [tier] — runs every claimed check against the library at the PINNED commit (before any "fix:" commit)
# and lists the violation signatures each reports: every signature must be one of the entries of known_findings.json
# (fixed or known).  Shows that the repaired defects are what the checks detect, and nothing else.
PIN=${PIN:-07eca0ee}; TIER=${1:-quick}
WT=/tmp/pinned_check
git -C /repo worktree add --detach $WT $PIN >/dev/null 2>&1 || exit 2
trap 'git -C /repo worktree remove --force $WT >/dev/null 2>&1; rm -rf ${WT}_build' EXIT
cd /verif
for id in $(cat lib/ready.txt); do
  VERIF_REPO=$WT VERIF_BUILD=${WT}_build timeout 3600 ./vcheck $id --tier $TIER --no-evidence > /tmp/pinned_$id.log 2>&1
  rc=$?
  nv=$(grep -c "^VIOLATION" /tmp/pinned_$id.log); nk=$(grep -c "^KNOWN-FINDING" /tmp/pinned_$id.log)
  echo "$id rc=$rc violations(unlisted-or-fixed)=$nv known=$nk $(grep -c 'HARNESS\|BUILD-ERROR' /tmp/pinned_$id.log | sed 's/^/harness-messages=/')"
  grep "^VIOLATION" /tmp/pinned_$id.log | sed 's/.*sig=//' | cut -c1-150 | sed 's/^/    /'
done
