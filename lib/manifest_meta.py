HOOK_COMMITS = []

_NOTYET = "check not built yet in this round (design in DESIGN.md section 3); model checking is applicable and will be claimed once the explorer exists"
PENDING = {("C%02d" % i): _NOTYET for i in range(1, 21)}

