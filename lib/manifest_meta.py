HOOK_COMMITS = []

_NOTYET = "check not built yet in this round (design in DESIGN.md section 3); model checking is applicable and will be claimed once the explorer exists"
PENDING = {("C%02d" % i): _NOTYET for i in range(1, 21)}

META = {
 "C18": {
  "text": "Bounded-exhaustive exploration: every ordered pair of a finite alphabet of values of each type (and every lambda of a "
          "5-point menu) is evaluated on the real dist2/dist2_grad/wrap/interpolate code and compared with an independent "
          "reference metric. The quantifier ranges over reals, so the claim is limited to the alphabet (which contains the "
          "coincident, antipodal, sign-flipped, half-period and many-period cases where shortcuts in the code live).",
  "design_ref": "DESIGN.md section 3, C18",
  "note": "Trusted: the harness's reference metric (self-tested against finite differences at start-up); finite alphabet; "
          "documented singular sets (antipodal unit vectors, quaternion cut locus, exact half period) exempt from the derivative clause only.",
  "technique": "exhaustive enumeration of all ordered value pairs of a finite alphabet against a reference metric",
 },
}
