"""Incremental out-of-tree build of /repo/src and of the harness executables.

Everything is rebuilt from /repo's *current working tree*; an unchanged tree
costs about a second (make finds nothing to do)."""
import os, subprocess, sys, glob

VERIF = os.path.dirname(os.path.dirname(os.path.abspath(__file__)))
REPO = os.environ.get("VERIF_REPO", "/repo")
BUILD = os.environ.get("VERIF_BUILD", os.path.join(VERIF, "build"))
GUARD = "COLVARS_VERIF"

VARIANTS = {
    # name: (compiler, flags for library objects, link flags)
    "plain": ("g++", "-O1 -g0 -fopenmp", "-fopenmp"),
    "asan": ("g++", "-O1 -g -fopenmp -fsanitize=address,undefined -fno-sanitize-recover=undefined -fno-omit-frame-pointer",
             "-fopenmp -fsanitize=address,undefined"),
    # library compiled with -fopenmp but linked WITHOUT libgomp: the harness supplies the runtime
    "shim": ("g++", "-O1 -g0 -fopenmp", "-pthread"),
    "tsan": ("g++", "-O1 -g -fopenmp -fsanitize=thread", "-pthread -fsanitize=thread"),
}

MAKEFILE = r"""
SRCS := $(sort $(wildcard {repo}/src/*.cpp))
OBJS := $(patsubst {repo}/src/%.cpp,%.o,$(SRCS))
CXX := {cxx}
FLAGS := -std=c++11 -D{guard} -DNDEBUG -w {flags} -I{repo}/src
libcolvars.a: $(OBJS)
	@rm -f $@
	@ar rcs $@ $(OBJS)
%.o: {repo}/src/%.cpp
	@$(CXX) $(FLAGS) -MMD -MP -c $< -o $@
-include $(wildcard *.d)
"""

def run(cmd, **kw):
    r = subprocess.run(cmd, shell=True, stdout=subprocess.PIPE, stderr=subprocess.STDOUT, text=True, **kw)
    return r.returncode, r.stdout

def build_lib(variant):
    cxx, flags, _ = VARIANTS[variant]
    d = os.path.join(BUILD, variant)
    os.makedirs(d, exist_ok=True)
    mk = MAKEFILE.format(repo=REPO, cxx=cxx, flags=flags, guard=GUARD)
    p = os.path.join(d, "Makefile")
    if not os.path.exists(p) or open(p).read() != mk:
        open(p, "w").write(mk)
    rc, out = run("make -j%d -C %s libcolvars.a" % (os.cpu_count() or 8, d))
    if rc != 0:
        sys.stderr.write(out[-4000:])
        raise SystemExit("BUILD-ERROR: library variant %s failed to build (exit 2)" % variant)
    return os.path.join(d, "libcolvars.a")

def build_harness(name, variant, sources, extra_flags="", extra_link=""):
    """Compile harness sources (with -fno-access-control) and link against the library variant."""
    cxx, flags, link = VARIANTS[variant]
    lib = build_lib(variant)
    d = os.path.join(BUILD, variant, "h")
    os.makedirs(d, exist_ok=True)
    hdir = os.path.join(VERIF, "harness")
    objs = []
    hdrs = glob.glob(os.path.join(hdir, "*.h"))
    libhdrs_m = max([os.path.getmtime(f) for f in glob.glob(REPO + "/src/*.h")] + [0])
    hm = max([os.path.getmtime(f) for f in hdrs] + [libhdrs_m])
    procs = []
    for s in sources:
        src = os.path.join(hdir, s)
        obj = os.path.join(d, s.replace(".cpp", "").replace("/", "_") + ("." + name if extra_flags else "") + ".o")
        objs.append(obj)
        if (not os.path.exists(obj)) or os.path.getmtime(obj) < max(os.path.getmtime(src), hm):
            hflags = flags
            if s.startswith("sched_") and variant == "tsan":
                hflags = flags.replace("-fsanitize=thread", "")
            cmd = "%s -std=c++17 -D%s -w %s %s -fno-access-control -I%s/src -I%s -c %s -o %s" % (
                cxx, GUARD, hflags, extra_flags, REPO, hdir, src, obj)
            procs.append((subprocess.Popen(cmd, shell=True, stdout=subprocess.PIPE, stderr=subprocess.STDOUT, text=True), s))
    for p, s in procs:
        out, _ = p.communicate()
        if p.returncode != 0:
            sys.stderr.write(out[-6000:])
            raise SystemExit("BUILD-ERROR: harness source %s failed to compile" % s)
    exe = os.path.join(BUILD, variant, name)
    need = (not os.path.exists(exe)) or any(os.path.getmtime(o) > os.path.getmtime(exe) for o in objs) \
        or os.path.getmtime(lib) > os.path.getmtime(exe)
    if need:
        rc, out = run("%s -o %s %s %s %s %s" % (cxx, exe, " ".join(objs), lib, link, extra_link))
        if rc != 0:
            sys.stderr.write(out[-6000:])
            raise SystemExit("BUILD-ERROR: link of %s failed" % name)
    return exe
