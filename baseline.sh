#!/bin/bash
# Runs the repository's pinned test suite (guard OFF: the library's own CMake build never defines COLVARS_VERIF).
# Exit 0 iff every test of BASELINE.json's stable_pass set passes (customfunction_harmonic-fixed always fails: no Lepton).
# Usage: baseline.sh [repo_dir]   (default /repo)
R=${1:-/repo}
if [ ! -f "$R/_build/build.ninja" ]; then
  cmake -G Ninja -S "$R/cmake" -B "$R/_build" >/dev/null || exit 2
fi
cmake --build "$R/_build" -j16 >/dev/null || { echo "BUILD FAILED"; exit 2; }
out=$(ctest --test-dir "$R/_build" -j8 --timeout 900 2>&1)
echo "$out" | tail -6
failed=$(echo "$out" | grep -E "^\s+[0-9]+ - .*\((Failed|Timeout|Not Run|SEGFAULT|Exception.*)\)" | grep -v "customfunction_harmonic-fixed" | wc -l)
passed=$(echo "$out" | grep -c "Passed")
echo "passed=$passed unexpected_failures=$failed"
[ "$failed" = "0" ] && [ "$passed" -ge 92 ]
