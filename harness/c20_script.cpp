// C20 — the scripting interface is total and agrees with the engine-side view.
// Part 1 (totality, depth 1): every registered command x every argument tuple of arity 0..max+1 over a fixed
//   alphabet of argument classes, in three module states, each on a fresh module (ASan+UBSan build, forked batches).
// Part 2 (agreement): script queries after every step against the engine-side arrays, internal members, own arithmetic.
// Part 3 (equivalence of paths): script-driven action vs the configuration-file / engine-driven path.
// Part 4 (sequences): all sequences over a reduced alphabet of script operations, script path vs direct path.
#include "c20_common.h"

// ------------------------------------------------------------------ command table, harvested from the script object
struct Cmd {
  std::string fn, sub;
  int kind = 0;  // 0 module, 1 colvar, 2 bias
  int nmin = 0, nmax = 0;
  std::vector<std::string> an, at;  // argument names and types from the help strings
  bool ro = false;                  // documented as a query (read-only) when called in its query form
};
static std::vector<Cmd> g_cmds;
static std::vector<std::string> g_cvfeat, g_bfeat;

static bool starts(std::string const &s, std::string const &p) { return s.compare(0, p.size(), p) == 0; }

static void harvest_commands(vproxy &px)
{
  colvarscript *s = px.script;
  SR lc = cvs(px, W({"cv", "listcommands"}));
  if (lc.rc != 0) herr("cv listcommands failed");
  std::istringstream is(lc.out);
  std::string fn;
  std::set<std::string> from_list;
  while (is >> fn) from_list.insert(fn);
  int n = cvscript_n_commands();
  char const **names = cvscript_command_names();
  if ((int) from_list.size() != n) herr("cv listcommands and cvscript_n_commands() disagree");
  static const char *ro_names[] = {"help", "version", "languageversion", "patchversion", "featurereport", "printframe", "printframelabels",
                                   "savetostring", "value", "width", "type", "state", "run_ave", "energy", "bin", "bincount", "binnum",
                                   "local_sample_count", "get", "frame", "molid", "targettemperature", "timestep", "units"};
  for (int i = 0; i < n; i++) {
    Cmd c;
    c.fn = names[i];
    if (!from_list.count(c.fn)) herr("command " + c.fn + " missing from cv listcommands");
    if (starts(c.fn, "cv_")) { c.kind = 0; c.sub = c.fn.substr(3); }
    else if (starts(c.fn, "colvar_")) { c.kind = 1; c.sub = c.fn.substr(7); }
    else if (starts(c.fn, "bias_")) { c.kind = 2; c.sub = c.fn.substr(5); }
    else herr("unexpected command name " + c.fn);
    c.nmin = s->get_command_n_args_min(names[i]);
    c.nmax = s->get_command_n_args_max(names[i]);
    for (int k = 0; k < c.nmax; k++) {
      std::string h = s->get_command_arghelp(names[i], k);
      size_t p = h.find(" : "), q = h.find(" - ");
      c.an.push_back(p == std::string::npos ? h : h.substr(0, p));
      c.at.push_back(p == std::string::npos || q == std::string::npos ? "" : h.substr(p + 3, q - (p + 3)));
    }
    c.ro = starts(c.sub, "get") || starts(c.sub, "list");
    for (const char *r : ro_names) if (c.sub == r) c.ro = true;
    g_cmds.push_back(c);
  }
}

// is this invocation the query form of the command?  (get/set commands are queries only without their optional argument)
static bool is_query(Cmd const &c, int arity)
{
  if (!c.ro) return false;
  if (c.sub == "frame" || c.sub == "molid" || c.sub == "targettemperature" || c.sub == "timestep" || c.sub == "units") return arity == 0;
  return true;
}

// ------------------------------------------------------------------ argument alphabet
struct Tok { std::string label, value; };

static std::vector<Tok> garbage(Scn const &sc)
{
  return {{"empty", ""}, {"colvarname", sc.cvn[0]}, {"biasname", sc.bn[0]}, {"unknown", "nosuch"}, {"0", "0"}, {"-1", "-1"},
          {"1e999", "1e999"}, {"lbrace", "{"}, {"quote", "\""}, {"4KB", std::string(4096, 'A')}};
}

static std::map<std::string, long> g_novalid;  // commands/arguments for which no valid value could be derived

// valid values of the expected kind, derived from the argument's name and type in the help string
static std::vector<Tok> valid_values(Scn const &sc, Cmd const &c, int slot, int obj)
{
  std::vector<Tok> v;
  std::string const &n = c.an[slot], &t = c.at[slot];
  auto add = [&](std::string const &l, std::string const &val) { v.push_back({"valid(" + l + ")", val}); };
  if (n == "conf" && t == "string") { add("bias", sc.xc); add("colvar", sc.zc); }
  else if (n == "conf_file") add("file", sc.conffile);
  else if (n == "command") { if (c.kind == 0) { add("list", "list"); add("colvar", "colvar"); add("bias", "bias"); } else add("cmd", c.kind == 1 ? "value" : "energy"); }
  else if (n == "param") { add("colvars", "colvars"); add("biases", "biases"); }
  else if (n == "prefix") {
    if (c.fn == "cv_load") add("state", sc.prefix);
    else if (c.fn == "bias_load") add("state", obj >= 0 ? sc.bprefix[obj] : sc.bprefix[0]);
    else add("out", "out_" + c.fn);
  }
  else if (n == "buffer") { if (c.kind == 0) add("state", sc.state3); else add("state", sc.bstate3[obj >= 0 ? obj : 0]); }
  else if (n == "units") add("real", "real");
  else if (n == "force") {
    // matches the dimensionality of the variable
    static const char *F[3][2] = {{"0.25", "0.1 0.2 0.3"}, {"0.25", "0.1 0.2 0.3 0.4"}, {"0.25", "0.1 0.2 0.3 0.4 0.5 0.6"}};
    int si = sc.id == "A" ? 0 : (sc.id == "B" ? 1 : 2);
    add("force", F[si][obj > 0 ? 1 : 0]);
    add("force-with-more-numbers-than-the-variable-has-components", "0.1 0.2 0.3 0.4 0.5 0.6 0.7 0.8");
  }
  else if (n == "flags") { add("on", "1"); add("off", "0"); }
  else if (n == "confs") { add("skip", "\"\""); add("coeff", "\"componentCoeff 2.0\""); }
  else if (n == "feature") { for (auto &f : (c.kind == 1 ? g_cvfeat : g_bfeat)) v.push_back({"feature(" + f + ")", f}); }
  else if (n == "value") { add("on", "1"); add("off", "0"); }
  else if (t == "float") add("float", n == "T" ? "300.0" : (n == "dt" ? "2.0" : "0.25"));
  else if (t == "integer") add("int", "1");
  else g_novalid[c.fn + ":" + n]++;
  return v;
}

static std::vector<Tok> slot_alphabet(Scn const &sc, Cmd const &c, int slot, int obj)
{
  std::vector<Tok> a = garbage(sc);
  if (slot < c.nmax) { std::vector<Tok> v = valid_values(sc, c, slot, obj); a.insert(a.end(), v.begin(), v.end()); }
  return a;
}

// ------------------------------------------------------------------ Part 1 cases
struct Case {
  uint8_t scn, state;
  int16_t cmd;        // index into g_cmds; -1 = raw dispatch case
  int16_t name;       // object commands: 0/1 existing object, >= 2: garbage name (index - 2); dispatch: case number
  uint8_t arity;
  uint8_t slot[3];
};

static std::vector<std::vector<std::string>> dispatch_words(Scn const &sc)
{
  std::vector<std::vector<std::string>> d;
  d.push_back({});
  d.push_back({"cv"});
  for (auto &g : garbage(sc)) {
    d.push_back({"cv", g.value});
    d.push_back({g.value, "version"});
    d.push_back({"cv", "colvar", g.value});
    d.push_back({"cv", "bias", g.value});
    d.push_back({"cv", "colvar", sc.cvn[0], g.value});
    d.push_back({"cv", "bias", sc.bn[0], g.value});
    d.push_back({"cv", "colvar", sc.cvn[0], g.value, g.value});
    d.push_back({"cv", "colvar", g.value, "help"});
    d.push_back({"cv", "bias", g.value, "help"});
    d.push_back({"cv", "colvar", g.value, "help", "value"});
    d.push_back({"cv", "bias", g.value, "help", "energy"});
  }
  d.push_back({"cv", "colvar"});
  d.push_back({"cv", "bias"});
  d.push_back({"cv", "cv_version"});
  d.push_back({"cv", "colvar_value"});
  return d;
}

static void build_cases(std::vector<Scn> const &scs, std::vector<int> const &use, std::vector<Case> &out)
{
  for (int si : use) {
    Scn const &sc = scs[si];
    size_t ng = garbage(sc).size();
    for (int st = 0; st < 3; st++) {
      size_t nd = dispatch_words(sc).size();
      for (size_t k = 0; k < nd; k++) { Case c{(uint8_t) si, (uint8_t) st, -1, (int16_t) k, 0, {0, 0, 0}}; out.push_back(c); }
      for (size_t ci = 0; ci < g_cmds.size(); ci++) {
        Cmd const &c = g_cmds[ci];
        int nobj = c.kind == 0 ? 1 : (st == 0 ? 0 : 2);
        for (int ob = 0; ob < nobj; ob++) {
          for (int ar = 0; ar <= c.nmax + 1; ar++) {
            std::vector<size_t> n(3, 1);
            for (int s = 0; s < ar; s++) n[s] = slot_alphabet(sc, c, s, c.kind == 0 ? -1 : ob).size();
            for (size_t i0 = 0; i0 < n[0]; i0++) for (size_t i1 = 0; i1 < n[1]; i1++) for (size_t i2 = 0; i2 < n[2]; i2++) {
              Case k{(uint8_t) si, (uint8_t) st, (int16_t) ci, (int16_t) ob, (uint8_t) ar, {(uint8_t) i0, (uint8_t) i1, (uint8_t) i2}};
              out.push_back(k);
            }
          }
        }
        if (c.kind != 0) {
          // names that do not resolve to an object of the right kind: the minimal well-formed call
          for (size_t g = 0; g < ng; g++) {
            Case k{(uint8_t) si, (uint8_t) st, (int16_t) ci, (int16_t) (2 + g), (uint8_t) c.nmin, {0, 0, 0}};
            for (int s = 0; s < c.nmin; s++) k.slot[s] = (uint8_t) ng;  // first valid value, if any
            out.push_back(k);
          }
        }
      }
    }
  }
}

static void case_words(std::vector<Scn> const &scs, Case const &k, std::vector<std::string> &w, std::string &fn, std::string &argl)
{
  Scn const &sc = scs[k.scn];
  w.clear();
  if (k.cmd < 0) {
    w = dispatch_words(sc)[k.name];
    fn = "dispatch";
    argl = "";
    for (size_t i = 0; i < w.size(); i++) argl += (i ? "," : "") + (w[i].size() > 12 ? std::string("4KB") : (w[i].empty() ? std::string("empty") : w[i]));
    if (w.empty()) argl = "no-words";
    return;
  }
  Cmd const &c = g_cmds[k.cmd];
  fn = c.fn;
  argl = "";
  w.push_back("cv");
  int obj = -1;
  if (c.kind != 0) {
    w.push_back(c.kind == 1 ? "colvar" : "bias");
    if (k.name < 2) { obj = k.name; w.push_back(c.kind == 1 ? sc.cvn[obj] : sc.bn[obj]); }
    else { Tok g = garbage(sc)[k.name - 2]; w.push_back(g.value); argl = "name=" + g.label + ";"; obj = -1; }
  }
  w.push_back(c.sub);
  std::string al;
  for (int s = 0; s < k.arity; s++) {
    std::vector<Tok> a = slot_alphabet(sc, c, s, c.kind == 0 ? -1 : (obj >= 0 ? obj : 0));
    Tok t = k.slot[s] < a.size() ? a[k.slot[s]] : a[0];
    w.push_back(t.value);
    al += (s ? "," : "") + t.label;
  }
  argl += "arg=" + (k.arity ? al : std::string("absent"));
}

// module in one of the three states; returns the next engine step
static vproxy *module_in_state(Scn const &sc, int state, long &next)
{
  vproxy *px = new_px(sc);
  next = 0;
  if (state >= 1) {
    if (px->config(all_conf(sc)) != 0) { fprintf(stderr, "HARNESS-ERROR: scenario %s rejected: %s\n", sc.id.c_str(), px->errtxt.c_str()); _exit(3); }
  }
  if (state == 2) {
    for (long s = 0; s < 3; s++) { place(*px, s); if (px->step(s) != 0) { fprintf(stderr, "HARNESS-ERROR: scenario %s step: %s\n", sc.id.c_str(), px->errtxt.c_str()); _exit(2); } }
    next = 3;
  }
  return px;
}

static std::map<int, std::string> g_base;  // (scn*3+state) -> record of the next step without any command

static std::string baseline(std::vector<Scn> const &scs, int si, int st)
{
  auto it = g_base.find(si * 3 + st);
  if (it != g_base.end()) return it->second;
  long next;
  vproxy *px = module_in_state(scs[si], st, next);
  place(*px, next);
  int rc = px->step(next);
  std::string o = "rc " + std::to_string(rc) + "\n" + observe(*px);
  delete px;
  g_base[si * 3 + st] = o;
  return o;
}

static std::string jwords(std::vector<std::string> const &w)
{
  std::string s = "[";
  for (size_t i = 0; i < w.size(); i++) s += std::string(i ? "," : "") + "\"" + jesc(w[i].size() > 200 ? w[i].substr(0, 40) + "...(" + std::to_string(w[i].size()) + " bytes)" : w[i]) + "\"";
  return s + "]";
}

static void run_case_p1(std::vector<Scn> const &scs, Case const &k, Result &r)
{
  std::vector<std::string> w;
  std::string fn, argl;
  case_words(scs, k, w, fn, argl);
  Scn const &sc = scs[k.scn];
  static const char *SN[3] = {"empty", "configured", "after-3-steps"};
  long next;
  vproxy *px = module_in_state(sc, k.state, next);
  SR s = cvs(*px, w);
  place(*px, next);
  size_t e0 = px->errtxt.size();
  int src = px->step(next);
  std::string steperr = px->errtxt.substr(e0, 300);
  std::string obs = "rc " + std::to_string(src) + "\n" + observe(*px);
  std::string lp = list_problem(*px);
  // a step that reports an error after an ACCEPTED state-changing command is the module telling the user about an
  // inconsistent request; the module must then at least be recoverable: reset + configuration + step
  std::string recover;
  if (src != 0) {
    SR rs = cvs(*px, W({"cv", "reset"}));
    int c2 = px->config(all_conf(sc));
    place(*px, next + 1);
    size_t e1 = px->errtxt.size();
    int s2 = px->step(next + 1);
    if (rs.rc != 0 || c2 != 0 || s2 != 0)
      recover = "cv reset returned " + std::to_string(rs.rc) + ", configuration " + std::to_string(c2) + ", step " + std::to_string(s2) + ": " + px->errtxt.substr(e1, 300);
  }
  delete px;

  r.count("evaluations");
  r.count("p1_cases");
  r.count("transitions", next + 2);
  std::string det = "{\"part\":1,\"scenario\":\"" + sc.id + "\",\"state\":\"" + SN[k.state] + "\",\"words\":" + jwords(w) +
                    ",\"returned\":" + std::to_string(s.rc) + ",\"result\":\"" + jesc(s.out.substr(0, 200)) + "\",\"messages\":\"" + jesc(s.msgs.substr(0, 300)) + "\"";
  bool dispatched = true;
  {
    std::string all = s.out + s.msgs;
    if (s.rc != 0 && (all.find("Too many arguments") != std::string::npos || all.find("Insufficient number of arguments") != std::string::npos ||
                      all.find("not found") != std::string::npos || all.find("Syntax error") != std::string::npos ||
                      all.find("Missing parameters") != std::string::npos || all.find("No commands given") != std::string::npos))
      dispatched = false;
  }
  if (dispatched) { r.seen("nontrivial", sc.id + SN[k.state] + jwords(w)); r.count("p1_reached_command_body"); }
  else r.count("p1_rejected_by_dispatch_or_arity");
  if (s.rc == 0) r.count("p1_returned_ok"); else r.count("p1_returned_error");

  bool query = k.cmd >= 0 && is_query(g_cmds[k.cmd], k.arity);
  std::string base = (query || k.cmd < 0 || !dispatched) ? baseline(scs, k.scn, k.state) : "";
  bool same = base.empty() ? true : (base == obs);
  r.seen("outcomes", fn + "|" + (s.rc == 0 ? "ok" : (s.rc == -1 ? "script-error" : "error-code")) + "|" + (s.out.size() + s.msgs.size() ? "text" : "silent") +
                         "|step" + std::to_string(src) + "|" + (base.empty() ? "-" : (same ? "same" : "changed")));
  r.seen("states", obs);

  if (s.rc != 0 && s.out.empty() && s.msgs.empty()) {
    std::string coarse = k.cmd < 0 ? argl : (k.arity == 0 ? "arg=absent" : (w.back().empty() || (k.arity > 1 && w[w.size() - k.arity].empty()) ? "arg=empty" : "arg=nonempty"));
    // an error code without text is still "an error" in the sense of the property: counted and noted, not a violation
    r.count("p1_error_returned_without_message");
    if (r.counters["p1_error_returned_without_message"] <= 1) r.notes.push_back("error returned without a message, e.g. " + fn + ":" + coarse);
  }
  if (src != 0) {
    std::string d2 = det + ",\"step_rc\":" + std::to_string(src) + ",\"step_error\":\"" + jesc(steperr) + "\"";
    if (s.rc != 0) {
      // one signature per command and kind of step error (the user's own text, which is quoted in messages, removed)
      std::string kk; bool inq = false;
      for (char ch : steperr) { if (ch == '"') { inq = !inq; continue; } if (inq) continue; if (isalpha((unsigned char) ch)) kk += ch; else if (kk.size() && kk.back() != '-') kk += '-'; if (kk.size() > 44) break; }
      r.violation("C20:step-fails-after-rejected-command:" + fn + ":" + kk, d2 + ",\"argument_class\":\"" + jesc(argl) + "\"}");
    }
    else r.count("p1_step_reports_error_after_accepted_command");
    if (!recover.empty()) r.violation("C20:module-not-recoverable-by-reset-after:" + fn + ":" + argl, d2 + ",\"recovery\":\"" + jesc(recover) + "\"}");
    if (s.rc == 0) r.seen("accepted_then_step_error", fn + ":" + argl);
  }
  if (!same) {
    if (query || k.cmd < 0) r.violation("C20:query-changed-the-run:" + fn + ":" + argl, det + ",\"first_difference\":\"" + jesc(first_diff(base, obs)) + "\"}");
    else r.violation("C20:call-rejected-before-the-command-body-changed-the-run:" + fn + ":" + argl, det + ",\"first_difference\":\"" + jesc(first_diff(base, obs)) + "\"}");
  }
  if (query) r.count("p1_query_compared_with_baseline");
  if (!lp.empty()) r.violation("C20:list-disagrees-with-internal-lists:after:" + fn + ":" + argl, det + ",\"problem\":\"" + jesc(lp) + "\"}");
  if ((k.cmd >= 0 && k.name == 0 && k.arity <= 1 && k.slot[0] % 5 == 0 && k.state == 2) && fn.size() % 3 == 0) r.sample(det + "}", 3);
}

// donor run: state strings, state files, configuration file, feature names
static void prepare(std::vector<Scn> &scs, std::string const &dir)
{
  for (auto &sc : scs) {
    vproxy *px = new_px(sc);
    if (px->config(all_conf(sc)) != 0) herr("scenario " + sc.id + " rejected: " + px->errtxt);
    if (g_cmds.empty()) harvest_commands(*px);
    if (sc.id == "A") {
      for (auto *f : px->cv(sc.cvn[0])->features()) g_cvfeat.push_back(f->description);
      for (auto *f : px->bias(sc.bn[0])->features()) g_bfeat.push_back(f->description);
    }
    for (long s = 0; s < 3; s++) { place(*px, s); if (px->step(s) != 0) herr("scenario " + sc.id + " step failed: " + px->errtxt); }
    sc.state3 = px->state_text();
    sc.prefix = dir + "/donor_" + sc.id;
    SR sv = cvs(*px, W({"cv", "save", sc.prefix}));
    if (sv.rc != 0) herr("donor cv save failed: " + sv.msgs);
    for (size_t b = 0; b < sc.bn.size(); b++) {
      SR bs = cvs(*px, W({"cv", "bias", sc.bn[b], "savetostring"}));
      if (bs.rc != 0 || bs.out.empty()) herr("donor bias savetostring failed");
      sc.bstate3.push_back(bs.out);
      sc.bprefix.push_back(dir + "/donor_" + sc.id + "_" + sc.bn[b]);
      SR bf = cvs(*px, W({"cv", "bias", sc.bn[b], "save", sc.bprefix.back()}));
      if (bf.rc != 0) herr("donor bias save failed: " + bf.msgs);
    }
    sc.conffile = dir + "/extra_" + sc.id + ".in";
    FILE *f = fopen(sc.conffile.c_str(), "w");
    if (!f) herr("cannot write " + sc.conffile);
    fputs(sc.zc.c_str(), f);
    fclose(f);
    // the extra pieces must be accepted
    if (px->config(sc.xc) != 0 || px->config(sc.zc) != 0) herr("extra configuration of " + sc.id + " rejected: " + px->errtxt);
    place(*px, 3);
    if (px->step(3) != 0) herr("scenario " + sc.id + " step with extras failed: " + px->errtxt);
    delete px;
  }
}

void part2(std::vector<Scn> const &scs, Args const &args, Result &total);
void part34(std::vector<Scn> const &scs, Args const &args, Result &total);

int main(int argc, char **argv)
{
  Args args(argc, argv);
  bool thorough = args.thorough();
  std::string scratch = args.kv.count("scratch") ? args.kv["scratch"] : ".";
  std::string only = args.kv.count("part") ? args.kv["part"] : (getenv("C20_PART") ? getenv("C20_PART") : "");
  std::vector<Scn> scs = make_scenarios();
  prepare(scs, scratch);
  if (g_cmds.size() != 87) fprintf(stderr, "note: %zu registered commands\n", g_cmds.size());

  Result total;
  bool exhaustive = true;
  double t0 = now();
  if (only.empty() || only == "1") {
    std::vector<int> use = thorough ? std::vector<int>{0, 1, 2} : std::vector<int>{0};
    std::vector<Case> cases;
    build_cases(scs, use, cases);
    // determinism of the baseline: twice in this process
    for (int si : use) for (int st = 0; st < 3; st++) {
      std::string a = baseline(scs, si, st);
      g_base.clear();
      if (a != baseline(scs, si, st)) herr("baseline run is not deterministic");
    }
    g_base.clear();
    bool ok = run_sharded(args.jobs, [&](int shard, int nsh, Result &r) {
      g_wdir = scratch + "/p1w" + std::to_string(shard) + "x";
      mkdir(g_wdir.c_str(), 0755);
      if (chdir(g_wdir.c_str()) != 0) herr("chdir");
      size_t const BATCH = 150;
      for (size_t b0 = shard * BATCH; b0 < cases.size(); b0 += nsh * BATCH) {
        size_t b1 = std::min(cases.size(), b0 + BATCH);
        run_cases_forked(b0, b1, [&](size_t i, Result &rr) { run_case_p1(scs, cases[i], rr); },
                         [&](size_t i, std::string const &kind, std::string const &tail) {
                           std::vector<std::string> w; std::string fn, argl;
                           case_words(scs, cases[i], w, fn, argl);
                           static const char *SN[3] = {"empty", "configured", "after-3-steps"};
                           r.count("p1_cases");
                           r.violation("C20:crash:" + fn + ":" + argl + ":" + kind,
                                       "{\"part\":1,\"scenario\":\"" + scs[cases[i].scn].id + "\",\"state\":\"" + SN[cases[i].state] + "\",\"words\":" + jwords(w) +
                                       ",\"death\":\"" + jesc(kind) + "\",\"report\":\"" + jesc(tail) + "\"}");
                         }, r);
      }
    }, total, 3600);
    if (!ok) return 2;
    total.notes.push_back("part 1: " + std::to_string(cases.size()) + " cases (" + std::to_string(g_cmds.size()) + " commands, " +
                          std::to_string(use.size()) + " scenario(s) x 3 module states), " + std::to_string((int) (now() - t0)) + " s");
    std::string nv;
    for (auto &kv : g_novalid) nv += kv.first + " ";
    total.notes.push_back("part 1: arguments without a derivable valid value: " + (nv.empty() ? std::string("none") : nv));
    total.notes.push_back("part 1: feature names harvested: " + std::to_string(g_cvfeat.size()) + " (variable), " + std::to_string(g_bfeat.size()) + " (bias)");
  }
  if (only.empty() || only == "2") { double t = now(); part2(scs, args, total); total.notes.push_back("part 2: " + std::to_string((int) (now() - t)) + " s"); }
  if (only.empty() || only == "3" || only == "4" || only == "34") { double t = now(); part34(scs, args, total); total.notes.push_back("parts 3-4: " + std::to_string((int) (now() - t)) + " s"); }
  write_result(args.out, "C20", args.tier, total, exhaustive);
  return 0;
}
