// C02 — independent reference model of the documented colvar component definitions.
// Plain C++ (own 3-vector / quaternion arithmetic, own cyclic Jacobi eigen-solver for the
// Horn quaternion formulation of the least-squares rotation).  Shares no code with /repo/src.
// Every function below is written from doc/colvars-refman-main.tex (section cited in comments).
#ifndef C02_REF_H
#define C02_REF_H

#include <cmath>
#include <cstdio>
#include <string>
#include <vector>
#include <algorithm>

namespace c02 {

static const double PI_ = 3.14159265358979323846;
static const double DEG = 180.0 / PI_;

struct V3 { double x = 0, y = 0, z = 0; };
static inline V3 mk(double x, double y, double z) { V3 v; v.x = x; v.y = y; v.z = z; return v; }
static inline V3 operator+(V3 a, V3 b) { return mk(a.x + b.x, a.y + b.y, a.z + b.z); }
static inline V3 operator-(V3 a, V3 b) { return mk(a.x - b.x, a.y - b.y, a.z - b.z); }
static inline V3 operator*(double s, V3 a) { return mk(s * a.x, s * a.y, s * a.z); }
static inline double dot(V3 a, V3 b) { return a.x * b.x + a.y * b.y + a.z * b.z; }
static inline V3 cross(V3 a, V3 b) { return mk(a.y * b.z - a.z * b.y, a.z * b.x - a.x * b.z, a.x * b.y - a.y * b.x); }
static inline double norm(V3 a) { return std::sqrt(dot(a, a)); }
static inline V3 unit(V3 a) { return (1.0 / norm(a)) * a; }
static inline double comp(V3 a, int k) { return k == 0 ? a.x : (k == 1 ? a.y : a.z); }

struct M3 { double a[3][3]; };
static inline V3 mul(M3 const &m, V3 v)
{
  return mk(m.a[0][0] * v.x + m.a[0][1] * v.y + m.a[0][2] * v.z,
            m.a[1][0] * v.x + m.a[1][1] * v.y + m.a[1][2] * v.z,
            m.a[2][0] * v.x + m.a[2][1] * v.y + m.a[2][2] * v.z);
}
static inline M3 mmul(M3 const &p, M3 const &q)
{
  M3 r;
  for (int i = 0; i < 3; i++) for (int j = 0; j < 3; j++) {
    r.a[i][j] = 0;
    for (int k = 0; k < 3; k++) r.a[i][j] += p.a[i][k] * q.a[k][j];
  }
  return r;
}
static inline M3 ident() { M3 r; for (int i = 0; i < 3; i++) for (int j = 0; j < 3; j++) r.a[i][j] = (i == j); return r; }
// Rodrigues formula: rotation by `ang` radians about unit axis u
static inline M3 axis_angle(V3 u, double ang)
{
  u = unit(u);
  double c = std::cos(ang), s = std::sin(ang), t = 1 - c;
  M3 r;
  r.a[0][0] = c + t * u.x * u.x;       r.a[0][1] = t * u.x * u.y - s * u.z; r.a[0][2] = t * u.x * u.z + s * u.y;
  r.a[1][0] = t * u.x * u.y + s * u.z; r.a[1][1] = c + t * u.y * u.y;       r.a[1][2] = t * u.y * u.z - s * u.x;
  r.a[2][0] = t * u.x * u.z - s * u.y; r.a[2][1] = t * u.y * u.z + s * u.x; r.a[2][2] = c + t * u.z * u.z;
  return r;
}

struct Q4 { double w = 1, x = 0, y = 0, z = 0; };
// rotation matrix of a unit quaternion (w, x, y, z) = (cos(t/2), sin(t/2) u): standard active rotation
static inline M3 qmat(Q4 q)
{
  M3 r;
  double w = q.w, x = q.x, y = q.y, z = q.z;
  r.a[0][0] = 1 - 2 * (y * y + z * z); r.a[0][1] = 2 * (x * y - w * z);     r.a[0][2] = 2 * (x * z + w * y);
  r.a[1][0] = 2 * (x * y + w * z);     r.a[1][1] = 1 - 2 * (x * x + z * z); r.a[1][2] = 2 * (y * z - w * x);
  r.a[2][0] = 2 * (x * z - w * y);     r.a[2][1] = 2 * (y * z + w * x);     r.a[2][2] = 1 - 2 * (x * x + y * y);
  return r;
}

// ---- cyclic Jacobi for a symmetric 4x4 matrix: A = V diag(w) V^T, eigenvectors in the columns of V ----
static inline void jacobi4(double A[4][4], double w[4], double V[4][4])
{
  for (int i = 0; i < 4; i++) for (int j = 0; j < 4; j++) V[i][j] = (i == j);
  for (int sweep = 0; sweep < 200; sweep++) {
    double off = 0, tot = 0;
    for (int p = 0; p < 4; p++) for (int q = 0; q < 4; q++) { tot += A[p][q] * A[p][q]; if (p != q) off += A[p][q] * A[p][q]; }
    if (off == 0.0 || off < 1e-66 * tot) break;
    for (int p = 0; p < 3; p++) for (int q = p + 1; q < 4; q++) {
      if (A[p][q] == 0.0) continue;
      double theta = (A[q][q] - A[p][p]) / (2.0 * A[p][q]);
      double t = (theta >= 0 ? 1.0 : -1.0) / (std::fabs(theta) + std::sqrt(theta * theta + 1.0));
      double c = 1.0 / std::sqrt(t * t + 1.0), s = t * c;
      for (int k = 0; k < 4; k++) { double akp = A[k][p], akq = A[k][q]; A[k][p] = c * akp - s * akq; A[k][q] = s * akp + c * akq; }
      for (int k = 0; k < 4; k++) { double apk = A[p][k], aqk = A[q][k]; A[p][k] = c * apk - s * aqk; A[q][k] = s * apk + c * aqk; }
      for (int k = 0; k < 4; k++) { double vkp = V[k][p], vkq = V[k][q]; V[k][p] = c * vkp - s * vkq; V[k][q] = s * vkp + c * vkq; }
    }
  }
  for (int i = 0; i < 4; i++) w[i] = A[i][i];
}

// Least-squares proper rotation: the unit quaternion q whose rotation R(q) minimises sum_i |R a_i - b_i|^2
// (Horn 1987 / Coutsias 2004: leading eigenvector of the 4x4 matrix built from S_jk = sum a_j b_k).
// relgap = (lambda_max - lambda_2) / (|lambda_max| + |lambda_2| + tiny): 0 means the optimum is not unique.
static inline Q4 best_rotation(std::vector<V3> const &a, std::vector<V3> const &b, double *relgap)
{
  double S[3][3] = {{0, 0, 0}, {0, 0, 0}, {0, 0, 0}};
  for (size_t i = 0; i < a.size(); i++)
    for (int j = 0; j < 3; j++) for (int k = 0; k < 3; k++) S[j][k] += comp(a[i], j) * comp(b[i], k);
  double N[4][4];
  N[0][0] = S[0][0] + S[1][1] + S[2][2];
  N[1][1] = S[0][0] - S[1][1] - S[2][2];
  N[2][2] = -S[0][0] + S[1][1] - S[2][2];
  N[3][3] = -S[0][0] - S[1][1] + S[2][2];
  N[0][1] = N[1][0] = S[1][2] - S[2][1];
  N[0][2] = N[2][0] = S[2][0] - S[0][2];
  N[0][3] = N[3][0] = S[0][1] - S[1][0];
  N[1][2] = N[2][1] = S[0][1] + S[1][0];
  N[1][3] = N[3][1] = S[2][0] + S[0][2];
  N[2][3] = N[3][2] = S[1][2] + S[2][1];
  double w[4], V[4][4];
  jacobi4(N, w, V);
  int best = 0;
  for (int i = 1; i < 4; i++) if (w[i] > w[best]) best = i;
  double second = -1e300;
  for (int i = 0; i < 4; i++) if (i != best && w[i] > second) second = w[i];
  if (relgap) *relgap = (w[best] - second) / (std::fabs(w[best]) + std::fabs(second) + 1e-300);
  Q4 q; q.w = V[0][best]; q.x = V[1][best]; q.y = V[2][best]; q.z = V[3][best];
  double n = std::sqrt(q.w * q.w + q.x * q.x + q.y * q.y + q.z * q.z);
  q.w /= n; q.x /= n; q.y /= n; q.z /= n;
  return q;
}

static inline double sq_dev(M3 const &R, std::vector<V3> const &a, std::vector<V3> const &b)
{
  double s = 0;
  for (size_t i = 0; i < a.size(); i++) { V3 d = mul(R, a[i]) - b[i]; s += dot(d, d); }
  return s;
}

// ---------------------------------------------------------------------------------------------
// Specification of a configuration (shared by the configuration writer and the reference)
// ---------------------------------------------------------------------------------------------
struct GroupSpec {
  std::string key;                 // group1, atoms, main, ...
  std::vector<int> atoms;          // 1-based atom numbers exactly as listed by the first atomNumbers keyword
  std::vector<int> extra;          // further listing through a second keyword (duplicate-listing transformations)
  int extra_style = 0;             // 1: second "atomNumbers", 2: "atomNumbersRange a-a" per entry
  bool dummy = false; V3 dummy_pos;
  bool has_fit = false;            // explicit fitting keywords are written
  bool center = false, rotate = false, center_origin = false;
  std::string raw_fit;             // when non-empty: written verbatim INSTEAD of the fitting keywords derived from the flags above
  std::vector<V3> refpos;          // group-level refPositions
  std::vector<int> fit_atoms;      // fittingGroup (empty: the group itself)
  std::vector<int> fit_extra;      // second atomNumbers keyword inside fittingGroup (duplicate-listing transformations)
  std::vector<int> all_fit_atoms() const { std::vector<int> r = fit_atoms; r.insert(r.end(), fit_extra.begin(), fit_extra.end()); return r; }
  std::vector<int> all_atoms() const { std::vector<int> r = atoms; r.insert(r.end(), extra.begin(), extra.end()); return r; }
};

struct CompSpec {
  std::string type, variant;
  std::vector<GroupSpec> groups;
  bool has_axis = false; V3 axis = mk(0, 0, 1);
  int exponent = 0;                       // distanceInv (0: default 6)
  int en = 0, ed = 0; double cutoff = 0;  // coordNum family (0: documented default)
  bool aniso = false; V3 cutoff3;
  int g2center = -1;                      // -1 unset
  double tolerance = 0;
  std::vector<V3> refpos;                 // component-level refPositions
  std::vector<V3> vec;                    // eigenvector "vector"
  bool normalize = false, diffvec = false;
  bool has_closest = false; double closest[4] = {1, 0, 0, 0};
  bool useX = true, useY = true, useZ = true;
  int acceptor = 0, donor = 0;
  bool no_pbc = false;
  double period = 0, wrap_center = 0;
  double coeff = 1.0; int cexp = 1;       // componentCoeff / componentExp
  std::vector<std::vector<int>> atom_perms;  // rmsd atomPermutation (atom numbers)
};

struct Sys {
  std::vector<V3> x; std::vector<double> m, q;
  bool pbc = false; double L[3] = {0, 0, 0};
};

enum Kind { K_SCALAR, K_PERIODIC, K_VEC, K_QUAT };

struct FitRecord {   // one least-squares rotation that enters the value: rotate a onto b
  std::string where; std::vector<V3> a, b; Q4 q; double relgap;
};

struct Val {
  Kind kind = K_SCALAR; double period = 0;
  std::vector<double> v;
  bool sign_tie = false;       // quaternion: inner product with the reference quaternion ~ 0
  double lo = -1e300, hi = 1e300;  // documented range of a scalar value
  std::vector<FitRecord> fits;
  std::string undefined;       // non-empty: the documented function is singular here
};

static inline std::vector<int> dedupe(std::vector<int> const &l)
{
  std::vector<int> r;
  for (int a : l) if (std::find(r.begin(), r.end(), a) == r.end()) r.push_back(a);  // "counted once" (sec. Atom selection keywords)
  return r;
}

struct RGroup {
  std::vector<V3> p; std::vector<double> m, q; bool dummy = false; V3 dpos;
  V3 cog() const { V3 s; for (auto &v : p) s = s + v; return (1.0 / p.size()) * s; }
  V3 com() const
  {
    if (dummy) return dpos;
    V3 s; double t = 0;
    for (size_t i = 0; i < p.size(); i++) { s = s + m[i] * p[i]; t += m[i]; }
    return (1.0 / t) * s;
  }
  double tq() const { double t = 0; for (double c : q) t += c; return t; }
  // dipole with respect to the centre of mass
  V3 dipole() const { V3 c = com(), s; for (size_t i = 0; i < p.size(); i++) s = s + q[i] * (p[i] - c); return s; }
};

static inline V3 mean(std::vector<V3> const &v) { V3 s; for (auto &a : v) s = s + a; return (1.0 / v.size()) * s; }

// Moving frame of reference (sec. "Moving frame of reference"): x' = R (x - xC) + xref, xC = geometric centre of the
// (fitting) group, R = optimal rotation onto the reference positions, xref = geometric centre of the reference positions.
// centerToOrigin: x' = R (x - xC).  Rotation without centring: "around the origin".
static inline RGroup make_group(GroupSpec const &g, Sys const &s, bool dflt_fit, std::vector<V3> const &dflt_ref, Val &out)
{
  RGroup r;
  if (g.dummy) { r.dummy = true; r.dpos = g.dummy_pos; return r; }
  std::vector<int> ids = dedupe(g.all_atoms());
  for (int a : ids) { r.p.push_back(s.x[a - 1]); r.m.push_back(s.m[a - 1]); r.q.push_back(s.q[a - 1]); }
  bool center = g.center || g.center_origin, rotate = g.rotate, origin = g.center_origin;
  std::vector<V3> ref = g.refpos;
  if (!g.has_fit && dflt_fit) { center = rotate = true; origin = false; ref = dflt_ref; }
  if (!center && !rotate) return r;
  std::vector<V3> fp;
  if (g.fit_atoms.size()) { for (int a : dedupe(g.all_fit_atoms())) fp.push_back(s.x[a - 1]); }
  else fp = r.p;
  V3 refcog = mean(ref);
  std::vector<V3> refc;
  for (auto &v : ref) refc.push_back(v - refcog);
  V3 shift = center ? mean(fp) : mk(0, 0, 0);
  M3 R = ident();
  if (rotate) {
    std::vector<V3> a;
    for (auto &v : fp) a.push_back(v - shift);
    FitRecord f; f.where = g.key; f.a = a; f.b = refc;
    f.q = best_rotation(a, refc, &f.relgap);
    R = qmat(f.q);
    out.fits.push_back(f);
  }
  V3 back = (center && !origin) ? refcog : mk(0, 0, 0);
  for (auto &v : r.p) v = mul(R, v - shift) + back;
  return r;
}

static inline V3 min_image(Sys const &s, V3 d, bool use)
{
  if (!s.pbc || !use) return d;
  d.x -= s.L[0] * std::nearbyint(d.x / s.L[0]);
  d.y -= s.L[1] * std::nearbyint(d.y / s.L[1]);
  d.z -= s.L[2] * std::nearbyint(d.z / s.L[2]);
  return d;
}

// switching function of coordNum (eq. cvc_coordNum), l = scaled distance
static inline double sw(double l, int n, int m) { return (1.0 - std::pow(l, n)) / (1.0 - std::pow(l, m)); }

static inline double wrap180(double a) { while (a > 180.0) a -= 360.0; while (a < -180.0) a += 360.0; return a; }

// ------------------------------------------------------------------------------------------------
// Value of ONE component
// ------------------------------------------------------------------------------------------------
static inline Val ref_component(CompSpec const &c, Sys const &s)
{
  Val out;
  std::string const &t = c.type;
  bool pbc = !c.no_pbc;
  bool dflt_fit = (t == "rmsd" || t == "eigenvector");
  std::vector<RGroup> G;
  for (auto &g : c.groups) G.push_back(make_group(g, s, dflt_fit, c.refpos, out));
  auto disp = [&](V3 from, V3 to) { return min_image(s, to - from, pbc); };
  V3 e = unit(c.axis);

  if (t == "distance" || t == "distanceVec" || t == "distanceDir") {
    V3 d = disp(G[0].com(), G[1].com());
    if (t == "distance") { out.v = {norm(d)}; out.lo = 0; }
    else if (t == "distanceVec") { out.kind = K_VEC; out.v = {d.x, d.y, d.z}; }
    else { if (norm(d) < 1e-6) out.undefined = "zero-distance"; d = unit(d); out.kind = K_VEC; out.v = {d.x, d.y, d.z}; }
  } else if (t == "distanceZ" || t == "distanceXY") {
    V3 r = G[0].com(), r1 = G[1].com(), d;
    double proj;
    if (G.size() > 2) {               // ref2: e = (r2-r1)/|r2-r1|; origin rm = (r1+r2)/2; value e.(r-rm)
      V3 r2 = G[2].com();
      if (norm(disp(r1, r2)) < 1e-6) out.undefined = "null-axis";
      e = unit(disp(r1, r2));
      // the midpoint is that of the minimum-image vector r1 -> r2 (so that a lattice translation of either group changes nothing)
      if (t == "distanceZ") d = disp(r1 + 0.5 * disp(r1, r2), r); else d = disp(r1, r);
    } else d = disp(r1, r);
    proj = dot(e, d);
    if (t == "distanceZ") {
      out.v = {proj};
      if (c.period != 0) { out.kind = K_PERIODIC; out.period = c.period; out.lo = c.wrap_center - 0.5 * c.period; out.hi = c.wrap_center + 0.5 * c.period; }
    } else { out.v = {norm(d - proj * e)}; out.lo = 0; }
  } else if (t == "distanceInv") {
    int n = c.exponent ? c.exponent : 6;
    double sum = 0;
    for (auto &a : G[0].p) for (auto &b : G[1].p) sum += std::pow(norm(disp(a, b)), -n);
    sum /= double(G[0].p.size() * G[1].p.size());
    out.v = {std::pow(sum, -1.0 / n)}; out.lo = 0;
  } else if (t == "distancePairs") {
    out.kind = K_VEC;
    for (auto &a : G[0].p) for (auto &b : G[1].p) out.v.push_back(norm(disp(a, b)));
  } else if (t == "angle") {
    V3 a = disp(G[1].com(), G[0].com()), b = disp(G[1].com(), G[2].com());
    out.v = {DEG * std::atan2(norm(cross(a, b)), dot(a, b))}; out.lo = 0; out.hi = 180;
    if (norm(cross(a, b)) < 1e-6 * norm(a) * norm(b) || norm(a) < 1e-6 || norm(b) < 1e-6) out.undefined = "collinear";
  } else if (t == "dipoleAngle") {
    V3 a = G[0].dipole(), b = disp(G[1].com(), G[2].com());
    out.v = {DEG * std::atan2(norm(cross(a, b)), dot(a, b))}; out.lo = 0; out.hi = 180;
    if (norm(cross(a, b)) < 1e-6 * norm(a) * norm(b) || norm(a) < 1e-6 || norm(b) < 1e-6) out.undefined = "collinear-or-null-dipole";
  } else if (t == "dihedral") {
    V3 b1 = disp(G[0].com(), G[1].com()), b2 = disp(G[1].com(), G[2].com()), b3 = disp(G[2].com(), G[3].com());
    V3 n1 = cross(b1, b2), n2 = cross(b2, b3);
    double y = dot(cross(n1, n2), unit(b2)), x = dot(n1, n2);
    out.kind = K_PERIODIC; out.period = 360; out.lo = -180; out.hi = 180;
    out.v = {DEG * std::atan2(y, x)};
    if (norm(n1) < 1e-6 * norm(b1) * norm(b2) || norm(n2) < 1e-6 * norm(b2) * norm(b3) || norm(n1) < 1e-9 || norm(n2) < 1e-9) out.undefined = "collinear";
  } else if (t == "polarTheta" || t == "polarPhi") {
    V3 p = G[0].com();
    if (norm(p) < 1e-6) out.undefined = "centre-at-origin";
    if (t == "polarTheta") { out.v = {DEG * std::atan2(std::sqrt(p.x * p.x + p.y * p.y), p.z)}; out.lo = 0; out.hi = 180; }
    else {
      out.kind = K_PERIODIC; out.period = 360; out.lo = -180; out.hi = 180; out.v = {DEG * std::atan2(p.y, p.x)};
      if (std::sqrt(p.x * p.x + p.y * p.y) < 1e-6 * std::max(1.0, norm(p))) out.undefined = "pole";
    }
  } else if (t == "coordNum" || t == "selfCoordNum" || t == "hBond") {
    int n = c.en ? c.en : 6, m = c.ed ? c.ed : (t == "hBond" ? 8 : 12);
    double d0 = c.cutoff ? c.cutoff : (t == "hBond" ? 3.3 : 4.0);
    auto pair = [&](V3 a, V3 b) {
      V3 d = min_image(s, b - a, true);   // "only minimum-image distances are used by this variable"
      double l = c.aniso ? std::sqrt((d.x / c.cutoff3.x) * (d.x / c.cutoff3.x) + (d.y / c.cutoff3.y) * (d.y / c.cutoff3.y) +
                                     (d.z / c.cutoff3.z) * (d.z / c.cutoff3.z))
                         : norm(d) / d0;
      if (std::fabs(l - 1.0) < 1e-7) out.undefined = "d=d0";
      double f = sw(l, n, m);
      if (c.tolerance > 0) { f = (f - c.tolerance) / (1.0 - c.tolerance); if (f < 0) f = 0; }  // keyword "tolerance"
      return f;
    };
    double sum = 0;
    if (t == "hBond") sum = pair(s.x[c.acceptor - 1], s.x[c.donor - 1]);
    else if (t == "selfCoordNum") {
      for (size_t i = 0; i < G[0].p.size(); i++) for (size_t j = i + 1; j < G[0].p.size(); j++) sum += pair(G[0].p[i], G[0].p[j]);
    } else {
      bool center_only = c.g2center >= 0 ? (c.g2center != 0) : G[1].dummy;   // dummyAtom => group2CenterOnly by default
      if (center_only) { for (auto &a : G[0].p) sum += pair(a, G[1].com()); }
      else for (auto &a : G[0].p) for (auto &b : G[1].p) sum += pair(a, b);
    }
    out.v = {sum}; out.lo = 0;
    if (t == "hBond") out.hi = 1;
  } else if (t == "gyration" || t == "inertia" || t == "inertiaZ") {
    V3 cg = G[0].cog();
    double sum = 0;
    for (auto &p : G[0].p) {
      V3 d = p - cg;
      sum += (t == "inertiaZ") ? dot(d, e) * dot(d, e) : dot(d, d);
    }
    out.v = {t == "gyration" ? std::sqrt(sum / G[0].p.size()) : sum}; out.lo = 0;
  } else if (t == "dipoleMagnitude") {
    out.v = {norm(G[0].dipole())}; out.lo = 0;
  } else if (t == "rmsd") {
    // positions in the (default: optimally fitted) frame against the component's reference positions; minimum over atomPermutation
    std::vector<int> ids = dedupe(c.groups[0].all_atoms());
    size_t N = ids.size();
    auto msd = [&](std::vector<size_t> const &perm) {
      double sum = 0;
      for (size_t i = 0; i < N; i++) { V3 d = G[0].p[i] - c.refpos[perm[i]]; sum += dot(d, d); }
      return sum / N;
    };
    std::vector<size_t> idp(N);
    for (size_t i = 0; i < N; i++) idp[i] = i;
    double best = msd(idp);
    for (auto &pl : c.atom_perms) {
      std::vector<size_t> perm;
      for (int a : pl) perm.push_back(std::find(ids.begin(), ids.end(), a) - ids.begin());
      best = std::min(best, msd(perm));
    }
    out.v = {std::sqrt(best)}; out.lo = 0;
  } else if (t == "eigenvector") {
    size_t N = G[0].p.size();
    std::vector<V3> v = c.vec, ref = c.refpos;
    if (c.diffvec) {
      // "vector" is a second set of positions B; v = B' - ref with B' fitted on ref like the atoms are; xi(B) = 1
      bool center = c.groups[0].has_fit ? (c.groups[0].center || c.groups[0].center_origin) : true;
      bool rotate = c.groups[0].has_fit ? c.groups[0].rotate : true;
      std::vector<V3> B = v, A = ref;
      V3 cb = mean(B), ca = mean(A);
      if (center) { for (auto &p : B) p = p - cb; for (auto &p : A) p = p - ca; }
      if (rotate) { double gap; M3 R = qmat(best_rotation(B, A, &gap)); for (auto &p : B) p = mul(R, p); }
      double n2 = 0;
      for (size_t i = 0; i < N; i++) { v[i] = B[i] - A[i]; n2 += dot(v[i], v[i]); }
      if (c.normalize) for (auto &p : v) p = (1.0 / std::sqrt(n2)) * p;
      else for (auto &p : v) p = (1.0 / n2) * p;
    } else {
      V3 cv = mean(v);                                   // "centers the v_i automatically"
      for (auto &p : v) p = p - cv;
      if (c.normalize) { double n2 = 0; for (auto &p : v) n2 += dot(p, p); for (auto &p : v) p = (1.0 / std::sqrt(n2)) * p; }
    }
    double sum = 0;
    for (size_t i = 0; i < N; i++) sum += dot(v[i], G[0].p[i] - ref[i]);
    out.v = {sum};
  } else if (t == "cartesian") {
    out.kind = K_VEC;
    for (auto &p : G[0].p) { if (c.useX) out.v.push_back(p.x); if (c.useY) out.v.push_back(p.y); if (c.useZ) out.v.push_back(p.z); }
  } else if (t == "orientation" || t == "orientationAngle" || t == "orientationProj" || t == "tilt" || t == "spinAngle" ||
             t == "eulerPhi" || t == "eulerTheta" || t == "eulerPsi") {
    // optimal rotation FROM the (centred) reference positions TO the (centred) current positions
    V3 cg = G[0].cog(), rc = mean(c.refpos);
    std::vector<V3> a, b;
    for (auto &p : c.refpos) a.push_back(p - rc);
    for (auto &p : G[0].p) b.push_back(p - cg);
    FitRecord f; f.where = "component"; f.a = a; f.b = b;
    f.q = best_rotation(a, b, &f.relgap);
    out.fits.push_back(f);
    Q4 q = f.q;
    M3 R = qmat(q);
    if (t == "orientation") {
      double in = q.w * c.closest[0] + q.x * c.closest[1] + q.y * c.closest[2] + q.z * c.closest[3];
      if (in < 0) { q.w = -q.w; q.x = -q.x; q.y = -q.y; q.z = -q.z; }
      out.sign_tie = std::fabs(in) < 1e-9;
      out.kind = K_QUAT; out.v = {q.w, q.x, q.y, q.z};
    } else if (t == "orientationAngle") {
      // rotation angle from the matrix: cos = (tr R - 1)/2, sin = |antisymmetric part|
      V3 as = mk(R.a[2][1] - R.a[1][2], R.a[0][2] - R.a[2][0], R.a[1][0] - R.a[0][1]);
      out.v = {DEG * std::atan2(0.5 * norm(as), 0.5 * (R.a[0][0] + R.a[1][1] + R.a[2][2] - 1.0))}; out.lo = 0; out.hi = 180;
      if (0.5 * norm(as) < 1e-6) out.undefined = "angle-0-or-180";
    } else if (t == "orientationProj") {
      out.v = {0.5 * (R.a[0][0] + R.a[1][1] + R.a[2][2] - 1.0)}; out.lo = -1; out.hi = 1;
    } else if (t == "tilt") {
      out.v = {dot(e, mul(R, e))}; out.lo = -1; out.hi = 1;   // cosine between e and the rotated e
    } else if (t == "spinAngle") {
      // swing-twist decomposition: twist about e is (q0, (qv.e) e) normalised; its angle is 2 atan2(qv.e, q0)
      double pe = q.x * e.x + q.y * e.y + q.z * e.z;
      out.kind = K_PERIODIC; out.period = 360; out.lo = -180; out.hi = 180;
      out.v = {wrap180(DEG * 2.0 * std::atan2(pe, q.w))};
      if (std::sqrt(pe * pe + q.w * q.w) < 1e-6) out.undefined = "tilt=-1";
    } else {
      // roll / pitch / yaw (z-y'-x'' Tait-Bryan angles) of the rotation matrix R = Rz(psi) Ry(theta) Rx(phi)
      double cth = std::sqrt(R.a[0][0] * R.a[0][0] + R.a[1][0] * R.a[1][0]);
      if (cth < 1e-6) out.undefined = "gimbal-lock";
      if (t == "eulerPhi") { out.kind = K_PERIODIC; out.period = 360; out.lo = -180; out.hi = 180; out.v = {DEG * std::atan2(R.a[2][1], R.a[2][2])}; }
      else if (t == "eulerPsi") { out.kind = K_PERIODIC; out.period = 360; out.lo = -180; out.hi = 180; out.v = {DEG * std::atan2(R.a[1][0], R.a[0][0])}; }
      else { out.v = {DEG * std::atan2(-R.a[2][0], cth)}; out.lo = -90; out.hi = 90; }
    }
  } else {
    out.undefined = "unknown-type";
  }
  for (auto &f : out.fits) if (f.relgap < 1e-4) out.undefined = "degenerate-rotation";
  return out;
}

// Value of the colvar: sum_i c_i q_i^n_i (eq. colvar_combination) for scalars; single component otherwise
static inline Val ref_colvar(std::vector<CompSpec> const &comps, Sys const &s)
{
  if (comps.size() == 1 && comps[0].coeff == 1.0 && comps[0].cexp == 1) return ref_component(comps[0], s);
  Val out; out.v = {0.0};
  for (auto &c : comps) {
    Val v = ref_component(c, s);
    if (v.undefined.size()) out.undefined = v.undefined;
    for (auto &f : v.fits) out.fits.push_back(f);
    out.v[0] += c.coeff * std::pow(v.v[0], c.cexp);
  }
  return out;
}

}  // namespace c02
#endif
