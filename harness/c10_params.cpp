// C10 — invalid parameter values are reported as errors and are never fatal.
//
// Explorer E + fork (DESIGN 3/C10).  Corpus = every loadable tests/input_files/*/test.in of the repository
// plus the feature-rich configurations of c10_extras.h, all on the 104-atom deca-alanine table.
// The keyword registry of every object type (module, colvar, every component type, atom group, fitting
// group, every bias type, grid) is harvested from colvarparse::allowed_keywords at the moment
// check_keywords() is called (link-time --wrap of that one symbol; the registry is cleared right after).
// Phase 1: every (block, keyword) x boundary value -> parse, 4 steps, state to string, output files,
//          end of run, module destruction, all in a forked child; the child's end is classified.
// Phase 1b: keywords that only became readable under a mutated value (e.g. after `extendedLagrangian on`)
//          are enumerated on top of that mutation (one closure level).
// Phase 2 (thorough): all pairs of divisor/size keywords of a configuration x {0,-1,1000000}^2.
// Phase 3: [valid A, step, rejected B, step, valid C, step] against the same run without B.
#include "vproxy.h"
#include "common.h"
#include "c10_extras.h"

#include <algorithm>
#include <dirent.h>
#include <fstream>
#include <poll.h>
#include <sys/stat.h>
#include <sys/mman.h>

using namespace vc;

// Sanitizer run-time defaults compiled in (so a bare run of the executable behaves like a vcheck run):
// one allocation above 1 GiB is reported (allocation-size-too-big) instead of being attempted.
extern "C" const char *__asan_default_options()
{
  return "detect_leaks=0:exitcode=77:allocator_may_return_null=0:max_allocation_size_mb=1024:"
         "malloc_context_size=6:handle_abort=1:detect_stack_use_after_return=0:quarantine_size_mb=8:symbolize=0";
}
extern "C" const char *__ubsan_default_options() { return "print_stacktrace=1:exitcode=77:symbolize=0"; }

// ------------------------------------------------------------------------------------------------
// keyword harvest: wrap colvarparse::check_keywords(std::string &, char const *)
// ------------------------------------------------------------------------------------------------
static bool g_harvest_on = false;
static std::vector<std::pair<std::string, std::vector<std::string>>> g_harvest;

extern "C" int
__real__ZN11colvarparse14check_keywordsERNSt7__cxx1112basic_stringIcSt11char_traitsIcESaIcEEEPKc(
    colvarparse *self, std::string &conf, char const *key);
extern "C" int
__wrap__ZN11colvarparse14check_keywordsERNSt7__cxx1112basic_stringIcSt11char_traitsIcESaIcEEEPKc(
    colvarparse *self, std::string &conf, char const *key)
{
  if (g_harvest_on) {
    std::vector<std::string> kws(self->allowed_keywords.begin(), self->allowed_keywords.end());
    g_harvest.push_back(std::make_pair(colvarparse::to_lower_cppstr(std::string(key)), kws));
  }
  return __real__ZN11colvarparse14check_keywordsERNSt7__cxx1112basic_stringIcSt11char_traitsIcESaIcEEEPKc(
      self, conf, key);
}

// ------------------------------------------------------------------------------------------------
// small utilities
// ------------------------------------------------------------------------------------------------
static std::string lower(std::string s)
{
  for (auto &c : s) c = (char) tolower((unsigned char) c);
  return s;
}
static std::string trim(std::string const &s)
{
  size_t a = s.find_first_not_of(" \t\r\n"), b = s.find_last_not_of(" \t\r\n");
  if (a == std::string::npos) return "";
  return s.substr(a, b - a + 1);
}
static std::vector<std::string> split_ws(std::string const &s)
{
  std::vector<std::string> v;
  std::istringstream is(s);
  std::string t;
  while (is >> t) v.push_back(t);
  return v;
}
static std::string read_file(std::string const &p, bool *ok = NULL)
{
  std::ifstream f(p.c_str(), std::ios::binary);
  if (ok) *ok = (bool) f;
  std::ostringstream os;
  os << f.rdbuf();
  return os.str();
}
static void write_file(std::string const &p, std::string const &s)
{
  std::ofstream f(p.c_str(), std::ios::binary);
  f << s;
}
[[noreturn]] static void harness_error(std::string const &m)
{
  fprintf(stderr, "HARNESS-ERROR: %s\n", m.c_str());
  fflush(NULL);
  exit(2);
}

// ------------------------------------------------------------------------------------------------
// configuration tree (own parser of the one-keyword-per-line layout; nothing shared with colvarparse)
// ------------------------------------------------------------------------------------------------
struct Node {
  std::string key;
  bool block = false;
  std::string value;
  std::vector<Node> kids;
};

static bool parse_line_into(std::string const &line, std::vector<std::string> const &lines, size_t &i,
                            Node &parent, std::string &err);

static bool parse_kids(std::vector<std::string> const &lines, size_t &i, Node &parent, bool top, std::string &err)
{
  while (i < lines.size()) {
    std::string l = lines[i];
    if (l.empty()) { i++; continue; }
    if (l == "}") {
      if (top) { err = "unbalanced }"; return false; }
      i++;
      return true;
    }
    i++;
    if (!parse_line_into(l, lines, i, parent, err)) return false;
  }
  if (!top) { err = "missing }"; return false; }
  return true;
}

static bool parse_line_into(std::string const &l, std::vector<std::string> const &lines, size_t &i,
                            Node &parent, std::string &err)
{
  size_t ke = l.find_first_of(" \t{");
  Node n;
  n.key = l.substr(0, ke);
  std::string rest = ke == std::string::npos ? "" : trim(l.substr(ke));
  if (rest.size() && rest[0] == '{') {
    long depth = 0;
    for (char c : rest) depth += (c == '{') - (c == '}');
    if (depth == 0) {
      // inline braces: a sub-block when the content starts with a keyword, otherwise a braced value
      std::string inner = trim(rest.substr(1, rest.rfind('}') - 1));
      if (inner.size() && isalpha((unsigned char) inner[0]) && inner.find_first_of(" \t{") != std::string::npos) {
        n.block = true;
        std::vector<std::string> one;
        size_t j = 0;
        if (!parse_line_into(inner, one, j, n, err)) return false;
      } else {
        n.value = rest;
      }
    } else if (rest == "{") {
      n.block = true;
      if (!parse_kids(lines, i, n, false, err)) return false;
    } else {
      err = "unsupported layout: " + l;
      return false;
    }
  } else {
    if (rest.find('{') != std::string::npos || rest.find('}') != std::string::npos) {
      err = "unsupported layout: " + l;
      return false;
    }
    n.value = rest;
  }
  parent.kids.push_back(n);
  return true;
}

static bool parse_tree(std::string const &text, Node &root, std::string &err)
{
  std::vector<std::string> lines;
  std::istringstream is(text);
  std::string l;
  while (std::getline(is, l)) {
    size_t c = l.find('#');
    if (c != std::string::npos) l.erase(c);
    lines.push_back(trim(l));
  }
  root = Node();
  root.key = "colvarmodule";
  root.block = true;
  size_t i = 0;
  return parse_kids(lines, i, root, true, err);
}

static void emit(Node const &n, int depth, std::string &out)
{
  for (auto const &k : n.kids) {
    out.append(2 * depth, ' ');
    if (k.block) {
      out += k.key + " {\n";
      emit(k, depth + 1, out);
      out.append(2 * depth, ' ');
      out += "}\n";
    } else {
      out += k.key;
      if (k.value.size()) out += " " + k.value;
      out += "\n";
    }
  }
}
static std::string emit(Node const &root)
{
  std::string s;
  emit(root, 0, s);
  return s;
}
static Node *walk(Node &root, std::vector<int> const &path)
{
  Node *n = &root;
  for (int i : path) n = &n->kids[i];
  return n;
}

// ------------------------------------------------------------------------------------------------
// fixture: 104-atom deca-alanine table with 5 frames, auxiliary files of the repository's test inputs
// ------------------------------------------------------------------------------------------------
struct Fixture {
  int natoms = 0;
  std::vector<std::vector<cvm::rvector>> frames;
  std::vector<double> mass, charge;
  std::map<std::string, std::string> files;  // name -> content (copied into every working directory)
};
static Fixture FX;

static void load_fixture(std::string const &repo)
{
  std::string dir = repo + "/tests/input_files";
  bool ok = false;
  std::string tr = read_file(dir + "/trajectory.xyz", &ok);
  if (!ok) harness_error("cannot read " + dir + "/trajectory.xyz");
  std::istringstream is(tr);
  std::string line;
  while (std::getline(is, line)) {
    int n = atoi(line.c_str());
    if (n <= 0) break;
    std::getline(is, line);
    std::vector<cvm::rvector> fr;
    for (int a = 0; a < n; a++) {
      std::getline(is, line);
      std::istringstream ls(line);
      std::string name;
      double x, y, z;
      ls >> name >> x >> y >> z;
      fr.push_back(cvm::rvector(x, y, z));
      if (FX.frames.empty()) {
        double m = 12.011;
        if (name[0] == 'H') m = 1.008;
        else if (name[0] == 'N') m = 14.007;
        else if (name[0] == 'O') m = 15.999;
        FX.mass.push_back(m);
        FX.charge.push_back(0.1 * ((a % 5) - 2));
      }
    }
    FX.frames.push_back(fr);
  }
  if (FX.frames.size() < 4) harness_error("trajectory.xyz has fewer than 4 frames");
  FX.natoms = (int) FX.frames[0].size();
  DIR *d = opendir(dir.c_str());
  if (!d) harness_error("cannot list " + dir);
  while (struct dirent *e = readdir(d)) {
    std::string p = dir + "/" + e->d_name;
    struct stat st;
    if (stat(p.c_str(), &st) == 0 && S_ISREG(st.st_mode) && st.st_size < (1 << 20)) FX.files[e->d_name] = read_file(p);
  }
  closedir(d);
  for (auto const &kv : c10_extra_files()) FX.files[kv.first] = kv.second;
  // auxiliary-file class of invalid input: every index file with one of its groups removed, or present but empty
  std::map<std::string, std::string> derived;
  for (auto const &kv : FX.files) {
    if (kv.first.size() < 5 || kv.first.substr(kv.first.size() - 4) != ".ndx") continue;
    std::vector<std::pair<std::string, std::string>> groups;  // name, body
    std::istringstream gs(kv.second);
    std::string ln;
    while (std::getline(gs, ln)) {
      std::string t = trim(ln);
      if (t.size() > 2 && t[0] == '[') { groups.push_back({trim(t.substr(1, t.find(']') - 1)), ""}); continue; }
      if (!groups.empty()) groups.back().second += ln + "\n";
    }
    for (size_t g = 0; g < groups.size(); g++)
      for (int empty = 0; empty <= 1; empty++) {
        std::string body;
        for (size_t h = 0; h < groups.size(); h++) {
          if (h == g && !empty) continue;
          body += "[ " + groups[h].first + " ]\n" + ((h == g) ? std::string("\n") : groups[h].second);
        }
        derived[kv.first + (empty ? ".__empty_" : ".__no_") + groups[g].first] = body;
      }
  }
  for (auto const &kv : derived) FX.files[kv.first] = kv.second;
}

// working directory of a shard: fixture files only; everything else is removed between cases
static void reset_workdir(std::string const &wd)
{
  mkdir(wd.c_str(), 0755);
  DIR *d = opendir(wd.c_str());
  if (d) {
    std::vector<std::string> rm;
    while (struct dirent *e = readdir(d)) {
      std::string n = e->d_name;
      if (n == "." || n == "..") continue;
      auto it = FX.files.find(n);
      struct stat st;
      if (it == FX.files.end() || lstat((wd + "/" + n).c_str(), &st) != 0 || !S_ISREG(st.st_mode) ||
          (size_t) st.st_size != it->second.size())
        rm.push_back(n);
    }
    closedir(d);
    for (auto const &n : rm) {
      std::string p = wd + "/" + n;
      struct stat st;
      if (lstat(p.c_str(), &st) == 0 && S_ISDIR(st.st_mode)) {
        std::string cmd = "rm -rf '" + p + "'";
        if (system(cmd.c_str())) {}
      } else unlink(p.c_str());
    }
  }
  for (auto const &kv : FX.files) {
    std::string p = wd + "/" + kv.first;
    struct stat st;
    if (stat(p.c_str(), &st) != 0) write_file(p, kv.second);
  }
}

// Engine simulator of this check.  vproxy copies NAMD's atom registration, where check_atom_id() reports the
// error and returns COLVARS_INPUT_ERROR (a positive constant, 4) which init_atom() then tests with "< 0": a
// non-existent atom number ends up registered as a new slot for atom id 4 (one more slot per invalid atom).
// That is a defect of the engine glue, not of the library, so this check uses what every engine interface
// (NAMD, LAMMPS, the stub) evidently intends: report the error, create no slot, return COLVARS_INPUT_ERROR.
// (error_return = false restores vproxy's behaviour; forces are summed over slots either way.)
class c10proxy : public vproxy {
public:
  bool error_return = false;
  explicit c10proxy(int n) : vproxy(n) {}
  int init_atom(int atom_number) override
  {
    if (!error_return) return vproxy::init_atom(atom_number);
    int aid = atom_number - 1;
    for (size_t i = 0; i < atoms_ids.size(); i++)
      if (atoms_ids[i] == aid) { atoms_refcount[i] += 1; return (int) i; }
    if (aid < 0 || aid >= natoms) {
      cvm::error("Error: invalid atom number specified, " + cvm::to_str(atom_number) + "\n", COLVARS_INPUT_ERROR);
      return COLVARS_INPUT_ERROR;
    }
    int const index = add_atom_slot(aid);
    atoms_masses[index] = m[aid];
    atoms_charges[index] = q[aid];
    atoms_positions[index] = x[aid];
    return index;
  }
  int step(long engine_step)
  {
    int rc = vproxy::step(engine_step);
    for (int a = 0; a < natoms; a++) fapp[a] = cvm::rvector(0, 0, 0);
    for (size_t i = 0; i < atoms_ids.size(); i++)
      if (atoms_ids[i] >= 0 && atoms_ids[i] < natoms) fapp[atoms_ids[i]] += atoms_new_colvar_forces[i];
    for (int a = 0; a < natoms; a++) prev_total[a] = fsys[a] + fapp[a];
    return rc;
  }
};
static bool g_error_return = true;

static c10proxy *make_proxy()
{
  c10proxy *px = new c10proxy(FX.natoms);
  px->error_return = g_error_return;
  px->alch_enabled = true;
  px->alch_lambda = 0.5;
  px->alch_dEdl = 1.25;
  for (int a = 0; a < FX.natoms; a++) {
    px->x[a] = FX.frames[0][a];
    px->m[a] = FX.mass[a];
    px->q[a] = FX.charge[a];
    px->fsys[a] = cvm::rvector(0.01 * ((a % 7) - 3), 0.02 * ((a % 3) - 1), -0.01 * ((a % 4) - 1.5));
  }
  px->set_smp_mode(colvarproxy_smp::smp_mode_t::none);
  px->set_target_temperature(300.0);
  px->set_prefixes("out");
  for (int i = 0; i < 64; i++) px->rng.push_back(0.25 * ((i * 7) % 9 - 4));
  return px;
}
static void load_frame(c10proxy *px, int f)
{
  f = f % (int) FX.frames.size();
  for (int a = 0; a < FX.natoms; a++) px->x[a] = FX.frames[f][a];
}

// ------------------------------------------------------------------------------------------------
// child runner: two pipes (fd 3 = report, fd 2 = stderr), wall timeout, RSS cap polled from the parent
// ------------------------------------------------------------------------------------------------
struct Outcome {
  std::string kind;    // "ok" | SIGxxx | asan:<kind> | ubsan:<kind> | abort:<exception> | timeout | rss-cap | exit-N
  std::string site;    // first frame inside the library sources: "function file:line"
  std::string func;    // function part of site
  std::string report;  // trimmed stderr
  std::string out;     // fd 3
  double secs = 0;
  long peak_rss_mb = 0;
};

static std::string slug(std::string s)
{
  size_t c = s.find(':');
  if (c != std::string::npos) s.erase(c);
  c = s.find(" for type");
  if (c != std::string::npos) s.erase(c);
  c = s.find(" of type");
  if (c != std::string::npos) s.erase(c);
  std::string o;
  bool quote = false;
  for (char ch : s) {
    if (ch == '\'') { quote = !quote; continue; }
    if (quote) continue;
    if (isalpha((unsigned char) ch)) o += ch;
    else if (o.size() && o.back() != '-') o += '-';
  }
  while (o.size() && o.back() == '-') o.pop_back();
  if (o.size() > 48) o.resize(48);
  return o;
}

// One llvm-symbolizer co-process per worker (children print raw module offsets: starting a symbolizer in
// every crashing child costs seconds on this binary).
struct Symbolizer {
  pid_t pid = -1;
  int to = -1, from = -1;
  std::string exe;
  std::map<std::string, std::vector<std::pair<std::string, std::string>>> fcache;  // offset -> frames
  pid_t owner = -1;
  void start()
  {
    char buf[4096];
    ssize_t n = readlink("/proc/self/exe", buf, sizeof(buf) - 1);
    if (n <= 0) return;
    buf[n] = 0;
    exe = buf;
    int a[2], b[2];
    if (pipe(a) != 0 || pipe(b) != 0) return;
    pid = fork();
    if (pid == 0) {
      dup2(a[0], 0);
      dup2(b[1], 1);
      close(a[1]); close(b[0]);
      int dn = open("/dev/null", O_WRONLY);
      dup2(dn, 2);
      unsetenv("ASAN_OPTIONS");
      execlp("llvm-symbolizer", "llvm-symbolizer", "--demangle", "--inlines", "--functions=linkage", (char *) NULL);
      _exit(127);
    }
    close(a[0]); close(b[1]);
    to = a[1];
    from = b[0];
    owner = getpid();
  }
  // all (function, file:line) frames of one address, innermost first
  std::vector<std::pair<std::string, std::string>> lookup(std::string const &off)
  {
    std::vector<std::pair<std::string, std::string>> v;
    if (owner != getpid()) { pid = -1; fcache.clear(); start(); }
    if (pid <= 0) return v;
    auto ci = fcache.find(off);
    if (ci != fcache.end()) return ci->second;
    std::string q = "\"" + exe + "\" " + off + "\n";
    if (write(to, q.data(), q.size()) != (ssize_t) q.size()) return v;
    // answer: pairs of lines, terminated by an empty line
    std::string acc;
    char c;
    double t0 = now();
    while (now() - t0 < 120) {
      ssize_t n = read(from, &c, 1);
      if (n <= 0) break;
      acc += c;
      size_t L = acc.size();
      if (L >= 2 && acc[L - 1] == '\n' && acc[L - 2] == '\n') break;
      if (acc == "\n") break;
    }
    std::istringstream is(acc);
    std::string f, l;
    while (std::getline(is, f) && std::getline(is, l)) {
      if (f.empty()) break;
      v.push_back(std::make_pair(f, l));
    }
    fcache[off] = v;
    return v;
  }
};
static Symbolizer SYM;

static void find_site(Outcome &o)
{
  // first stack frame (inlined frames included) whose source file is a library source (.../src/*)
  std::istringstream is(o.report);
  std::string l;
  std::string self = SYM.exe;
  int nframes = 0;
  while (std::getline(is, l) && nframes < 40) {
    size_t h = l.find('#');
    size_t op = l.rfind('('), pl = l.rfind("+0x"), cp = l.rfind(')');
    if (h == std::string::npos || op == std::string::npos || pl == std::string::npos || cp == std::string::npos || pl < op) continue;
    std::string mod = l.substr(op + 1, pl - op - 1), off = l.substr(pl + 1, cp - pl - 1);
    if (mod.find("c10_params") == std::string::npos) continue;
    nframes++;
    auto frames = SYM.lookup(off);
    for (auto const &fr : frames) {
      std::string fn = fr.first, loc = fr.second;
      if (loc.find("/src/") == std::string::npos || loc.find("/harness/") != std::string::npos) continue;
      size_t par = fn.find('(');
      if (par != std::string::npos) fn.erase(par);
      size_t sl = loc.rfind('/');
      if (sl != std::string::npos) loc.erase(0, sl + 1);
      size_t c1 = loc.find(':');
      if (c1 != std::string::npos) {
        size_t c2 = loc.find(':', c1 + 1);
        if (c2 != std::string::npos) loc.erase(c2);
      }
      std::string f2;
      int ang = 0;
      for (char ch : fn) {
        if (ch == '<') ang++;
        else if (ch == '>') ang--;
        else if (!ang) f2 += ch;
      }
      // drop a leading return type ("void colvarparse::mark_key_set_user")
      size_t sp = f2.rfind(' ');
      if (sp != std::string::npos && f2.find("operator") == std::string::npos) f2.erase(0, sp + 1);
      o.func = trim(f2);
      o.site = o.func + " " + loc;
      return;
    }
  }
}

static void classify(Outcome &o, int st, bool timed_out, bool rss_killed)
{
  if (timed_out) { o.kind = "timeout"; return; }
  if (rss_killed) { o.kind = "rss-cap"; return; }
  std::string const &e = o.report;
  auto after = [&](std::string const &tag) -> std::string {
    size_t p = e.find(tag);
    if (p == std::string::npos) return "";
    size_t q = e.find('\n', p);
    return e.substr(p + tag.size(), q == std::string::npos ? std::string::npos : q - p - tag.size());
  };
  if (WIFEXITED(st) && WEXITSTATUS(st) == 0) { o.kind = "ok"; return; }
  std::string ub = after("runtime error: ");
  std::string as = after("SUMMARY: AddressSanitizer: ");
  if (as.empty()) as = after("ERROR: AddressSanitizer: ");
  std::string exc = after("terminate called after throwing an instance of '");
  if (exc.size()) {
    // uncaught C++ exception (std::length_error, std::bad_alloc ...): abort(); ASan prints the stack
    o.kind = "abort:" + exc.substr(0, exc.find('\''));
  } else if (ub.size()) {
    std::string s = slug(ub);
    // integer division by zero is the only division UBSan's default set reports: SIGFPE on x86 without it
    o.kind = (s == "division-by-zero") ? "SIGFPE" : "ubsan:" + s;
  } else if (as.size()) {
    std::string k = as.substr(0, as.find_first_of(" \n"));
    if (k == "FPE") o.kind = "SIGFPE";
    else if (k == "SEGV") o.kind = "SIGSEGV";
    else if (k == "ABRT") o.kind = "SIGABRT";
    else o.kind = "asan:" + k;
  } else if (WIFSIGNALED(st)) {
    int sg = WTERMSIG(st);
    std::string ex = after("terminate called after throwing an instance of '");
    if (sg == SIGABRT && ex.size()) o.kind = "abort:" + ex.substr(0, ex.find('\''));
    else if (sg == SIGABRT) o.kind = "SIGABRT";
    else if (sg == SIGFPE) o.kind = "SIGFPE";
    else if (sg == SIGSEGV) o.kind = "SIGSEGV";
    else if (sg == SIGBUS) o.kind = "SIGBUS";
    else if (sg == SIGILL) o.kind = "SIGILL";
    else o.kind = "signal-" + std::to_string(sg);
  } else {
    o.kind = "exit-" + std::to_string(WEXITSTATUS(st));
  }
  find_site(o);
}

static long rss_mb(pid_t pid)
{
  char p[64];
  snprintf(p, sizeof(p), "/proc/%d/statm", (int) pid);
  FILE *f = fopen(p, "r");
  if (!f) return 0;
  long sz = 0, res = 0;
  if (fscanf(f, "%ld %ld", &sz, &res) != 2) res = 0;
  fclose(f);
  return res * (sysconf(_SC_PAGESIZE) / 1024) / 1024;
}

static double cpu_s(pid_t pid)
{
  char p[64];
  snprintf(p, sizeof(p), "/proc/%d/stat", (int) pid);
  FILE *f = fopen(p, "r");
  if (!f) return 0;
  char buf[2048];
  size_t n = fread(buf, 1, sizeof(buf) - 1, f);
  fclose(f);
  buf[n] = 0;
  char *r = strrchr(buf, ')');
  if (!r) return 0;
  // after ") ": state ppid pgrp session tty tpgid flags minflt cminflt majflt cmajflt utime stime
  unsigned long ut = 0, stt = 0;
  if (sscanf(r + 2, "%*c %*d %*d %*d %*d %*d %*u %*u %*u %*u %*u %lu %lu", &ut, &stt) != 2) return 0;
  return (double) (ut + stt) / (double) sysconf(_SC_CLK_TCK);
}

// limits: CPU seconds of the child (robust against a loaded machine) and a generous wall limit for a child
// that blocks without using CPU
static Outcome run_child(std::function<int()> fn, double cpu_limit_s, long rss_cap_mb)
{
  double const timeout_s = std::max(120.0, 20.0 * cpu_limit_s);
  Outcome o;
  int po[2], pe[2];
  if (pipe(po) != 0 || pipe(pe) != 0) harness_error("pipe failed");
  fflush(NULL);
  double t0 = now();
  pid_t pid = fork();
  if (pid < 0) harness_error("fork failed");
  if (pid == 0) {
    close(po[0]);
    close(pe[0]);
    dup2(po[1], 3);
    dup2(pe[1], 2);
    int dn = open("/dev/null", O_WRONLY);
    dup2(dn, 1);
    int di = open("/dev/null", O_RDONLY);
    dup2(di, 0);
    alarm(0);
    int rc = fn();
    fflush(NULL);
    _exit(rc);
  }
  close(po[1]);
  close(pe[1]);
  fcntl(po[0], F_SETFL, O_NONBLOCK);
  fcntl(pe[0], F_SETFL, O_NONBLOCK);
  bool timed_out = false, rss_killed = false;
  int st = 0;
  char buf[16384];
  auto drain = [&]() {
    ssize_t n;
    while ((n = read(po[0], buf, sizeof(buf))) > 0)
      if (o.out.size() < (8u << 20)) o.out.append(buf, n);
    while ((n = read(pe[0], buf, sizeof(buf))) > 0)
      if (o.report.size() < (1u << 20)) o.report.append(buf, n);
  };
  for (;;) {
    struct pollfd pf[2] = {{po[0], POLLIN, 0}, {pe[0], POLLIN, 0}};
    poll(pf, 2, 5);
    drain();
    pid_t r = waitpid(pid, &st, WNOHANG);
    if (r == pid) break;
    long rss = rss_mb(pid);
    if (rss > o.peak_rss_mb) o.peak_rss_mb = rss;
    if (rss > rss_cap_mb) { rss_killed = true; kill(pid, SIGKILL); waitpid(pid, &st, 0); break; }
    if (now() - t0 > timeout_s || cpu_s(pid) > cpu_limit_s) { timed_out = true; kill(pid, SIGKILL); waitpid(pid, &st, 0); break; }
  }
  drain();
  close(po[0]);
  close(pe[0]);
  o.secs = now() - t0;
  classify(o, st, timed_out, rss_killed);
  if (o.report.size() > 6000) o.report = o.report.substr(0, 4500) + "\n[...]\n" + o.report.substr(o.report.size() - 1200);
  return o;
}

// ------------------------------------------------------------------------------------------------
// corpus, harvest, cases
// ------------------------------------------------------------------------------------------------
struct Base {
  std::string name;
  Node tree;
  std::map<std::string, std::set<std::string>> kw;  // context key (lower case) -> keywords (lower case)
};
static std::vector<Base> BASES;
static std::map<std::string, std::string> CAMEL;   // lower-case keyword -> spelling used in the sources
static std::set<std::string> BLOCK_KEYS;           // keywords that are contexts somewhere in the corpus
static std::map<std::string, std::set<std::string>> GLOBAL_KW;  // union of the registries over all bases
static std::set<std::string> NESTED_NOTE;

struct Mut {
  std::vector<int> path;  // block that receives the mutation
  std::string ctx;        // context key of that block (lower case)
  std::string kw;         // keyword (lower case)
  int kid = -1;           // index of the present item, -1 = inserted
  std::string vclass, value;
  bool remove = false;
  // "swapped": second keyword set in the same block
  std::string kw2, value2;
  int kid2 = -1;
  bool two = false;
};
struct Case {
  int base = 0;
  std::vector<Mut> muts;
};

// registry key of a block: the two spellings of the histogram grid block share one registry
static std::string ctx_of(std::string const &block_key)
{
  std::string k = lower(block_key);
  return k == "histogramgrid" ? "grid" : k;
}
static std::string spell(std::string const &lk)
{
  auto it = CAMEL.find(lk);
  return it == CAMEL.end() ? lk : it->second;
}

static void apply(Node &root, Mut const &m)
{
  Node *b = walk(root, m.path);
  auto set1 = [&](int kid, std::string const &kw, std::string const &val) {
    if (kid >= 0) {
      Node &k = b->kids[kid];
      k.block = false;
      k.kids.clear();
      k.value = val;
    } else {
      Node n;
      n.key = spell(kw);
      n.value = val;
      b->kids.push_back(n);
    }
  };
  if (m.remove) { b->kids[m.kid].key = ""; return; }  // erased at emission (indices stay valid)
  set1(m.kid, m.kw, m.value);
  if (m.two) set1(m.kid2, m.kw2, m.value2);
}
static void drop_removed(Node &n)
{
  std::vector<Node> k2;
  for (auto &k : n.kids)
    if (k.key.size()) { drop_removed(k); k2.push_back(k); }
  n.kids.swap(k2);
}
static std::string case_config(Case const &c)
{
  Node t = BASES[c.base].tree;
  for (auto const &m : c.muts) apply(t, m);
  drop_removed(t);
  return emit(t);
}

static bool is_group_ctx(Base const &b, std::string const &ctx)
{
  auto it = b.kw.find(ctx);
  return it != b.kw.end() && it->second.count("atomnumbers") && it->second.count("indexgroup");
}
static std::string ctx_label(Base const &b, std::string const &ctx)
{
  if (ctx == "colvarmodule") return "module";
  if (ctx == "fittinggroup") return "fittingGroup";
  if (is_group_ctx(b, ctx)) return "atomGroup";
  return spell(ctx);
}
static std::string mut_label(Base const &b, Mut const &m)
{
  std::string s = ctx_label(b, m.ctx) + ":" + spell(m.kw) + "=" + m.vclass;
  return s;
}
static std::string case_label(Case const &c)
{
  std::string s;
  for (size_t i = 0; i < c.muts.size(); i++) s += (i ? "+" : "") + mut_label(BASES[c.base], c.muts[i]);
  return s;
}
static std::string path_str(std::vector<int> const &p)
{
  std::string s = "/";
  for (int i : p) s += std::to_string(i) + "/";
  return s;
}
static std::string case_id(Case const &c)
{
  std::string s = BASES[c.base].name;
  for (auto const &m : c.muts) s += "|" + path_str(m.path) + m.kw + "=" + m.vclass;
  return s;
}

// the phase-1 body executed in the child: returns a report on fd 3
static int child_body(std::string const &conf, bool with_harvest)
{
  double tb0 = now();
  c10proxy *px = make_proxy();
  g_harvest.clear();
  g_harvest_on = with_harvest;
  int rc = px->config(conf);
  long nerr_parse = px->n_errors;
  int src = 0;
  for (int s = 0; s < 4; s++) {
    load_frame(px, s);
    src |= px->step(s);
  }
  std::string st;
  cvm::clear_error();
  int wrc = px->colvars->write_restart_string(st);
  wrc |= cvm::get_error();
  cvm::clear_error();
  int orc = px->colvars->write_output_files();
  orc |= cvm::get_error();
  cvm::clear_error();
  int erc = px->end_run();
  long nerr = px->n_errors;
  size_t ncv = px->colvars->colvars.size(), nb = px->colvars->biases.size();
  bool unrec = px->errtxt.find("not recognized in this context") != std::string::npos;
  std::string first_err = px->errtxt.substr(0, px->errtxt.find('\n'));
  delete px;
  std::ostringstream os;
  os << "RC " << rc << " " << src << " " << wrc << " " << orc << " " << erc << " " << nerr_parse << " " << nerr
     << " " << ncv << " " << nb << " " << (unrec ? 1 : 0) << " " << st.size() << "\n";
  os << "E " << first_err << "\n";
  os << "MS " << (long) ((now() - tb0) * 1e6) << "\n";
  for (auto const &h : g_harvest) {
    os << "H " << h.first;
    for (auto const &k : h.second) os << " " << k;
    os << "\n";
  }
  os << "END\n";
  std::string s = os.str();
  if (write(3, s.data(), s.size()) < 0) return 3;
  return 0;
}

struct Rep {
  bool ok = false;
  int rc = 0, src = 0, wrc = 0, orc = 0, erc = 0;
  long nerr_parse = 0, nerr = 0, ncv = 0, nb = 0, unrec = 0, stsize = 0;
  std::string first_err;
  long body_us = 0;
  std::vector<std::pair<std::string, std::vector<std::string>>> harvest;
};
static Rep parse_rep(std::string const &out)
{
  Rep r;
  std::istringstream is(out);
  std::string l;
  bool end = false, rcl = false;
  while (std::getline(is, l)) {
    if (l.rfind("RC ", 0) == 0) {
      std::istringstream ls(l.substr(3));
      ls >> r.rc >> r.src >> r.wrc >> r.orc >> r.erc >> r.nerr_parse >> r.nerr >> r.ncv >> r.nb >> r.unrec >> r.stsize;
      rcl = true;
    } else if (l.rfind("E ", 0) == 0) r.first_err = l.substr(2);
    else if (l.rfind("MS ", 0) == 0) r.body_us = atol(l.c_str() + 3);
    else if (l.rfind("H ", 0) == 0) {
      auto t = split_ws(l.substr(2));
      if (t.size()) r.harvest.push_back(std::make_pair(t[0], std::vector<std::string>(t.begin() + 1, t.end())));
    } else if (l == "END") end = true;
  }
  r.ok = end && rcl;
  return r;
}

// scan the library sources for the spelling of keywords ("runAveStride")
static void load_spellings(std::string const &repo)
{
  std::string dir = repo + "/src";
  DIR *d = opendir(dir.c_str());
  if (!d) harness_error("cannot list " + dir);
  std::vector<std::string> names;
  while (struct dirent *e = readdir(d)) {
    std::string n = e->d_name;
    if (n.size() > 4 && (n.substr(n.size() - 4) == ".cpp" || n.substr(n.size() - 2) == ".h")) names.push_back(n);
  }
  closedir(d);
  std::sort(names.begin(), names.end());
  for (auto const &n : names) {
    std::string s = read_file(dir + "/" + n);
    size_t p = 0;
    while ((p = s.find('"', p)) != std::string::npos) {
      size_t q = p + 1;
      while (q < s.size() && (isalnum((unsigned char) s[q]) || s[q] == '_')) q++;
      if (q < s.size() && s[q] == '"' && q > p + 1) {
        std::string w = s.substr(p + 1, q - p - 1);
        std::string lw = lower(w);
        auto it = CAMEL.find(lw);
        // prefer a spelling with capitals inside (camelCase) over an all-lower-case one
        if (it == CAMEL.end() || (it->second == lw && w != lw)) CAMEL[lw] = w;
        p = q + 1;
      } else p = (q < s.size() && s[q] == '"') ? q + 1 : q;
    }
  }
}

// test inputs that cannot load in this build, with the reason (everything else must load: HARNESS-ERROR)
static std::map<std::string, std::string> const SKIP = {
    {"customfunction_harmonic-fixed", "needs Lepton (not compiled in)"},
    {"torchann-dihedral_harmonic-fixed", "needs libtorch (not compiled in)"},
};

static std::vector<std::string> const VALUES_QUICK = {
    "0", "-1", "1", "1000000", "9223372036854775807", "2305843009213693952", "1e300", "nan", "inf", "", "nonexistent_zz"};
static std::vector<std::string> const VCLASS_QUICK = {
    "0", "-1", "1", "1000000", "i64max", "2^61", "1e300", "nan", "inf", "empty", "noexist"};  // (2^61 x 1000 wraps to zero in 64 bits)
static std::vector<std::string> const VALUES_MORE = {"-1e300", "-inf", "2147483648", "0.5", "1e-300", "-1000000"};
static std::vector<std::string> const VCLASS_MORE = {"-1e300", "-inf", "2^31", "0.5", "1e-300", "-1000000"};

static bool is_size_keyword(std::string const &k)
{
  // frequencies, strides, widths, lengths, sizes, step counts, boundaries (what ends up as a divisor or a size)
  static const char *pat[] = {"freq", "stride", "width", "length", "size", "pace", "sigma", "steps", "stages",
                              "samples", "boundar", "every", "factor"};
  for (auto p : pat)
    if (k.find(p) != std::string::npos) return true;
  return false;
}

// enumerate the single-keyword cases of one block
static void enum_block(int bi, Node &blk, std::vector<int> const &path, bool thorough, std::vector<Case> &out,
                       std::set<std::string> const *only = NULL, std::vector<Mut> const *prefix = NULL)
{
  Base &b = BASES[bi];
  std::string ctx = ctx_of(blk.key);
  auto it = b.kw.find(ctx);
  if (it == b.kw.end()) {
    // e.g. components nested in a combination component: their registry is never checked by the library
    // when nested; use the registry of the same object type harvested from the other configurations
    auto g = GLOBAL_KW.find(ctx);
    if (g == GLOBAL_KW.end()) harness_error("no keyword registry harvested for block '" + blk.key + "' of " + b.name);
    b.kw[ctx] = g->second;
    it = b.kw.find(ctx);
    NESTED_NOTE.insert(b.name + ":" + blk.key);
  }
  std::map<std::string, int> present;
  for (size_t j = 0; j < blk.kids.size(); j++) present[lower(blk.kids[j].key)] = (int) j;
  std::set<std::string> kws = it->second;
  for (auto const &p : present)
    if (!kws.count(p.first)) harness_error("keyword '" + p.first + "' present in " + b.name + " block " + blk.key +
                                           " is not in the harvested registry");
  auto push = [&](Mut const &m) {
    Case c;
    c.base = bi;
    if (prefix) c.muts = *prefix;
    c.muts.push_back(m);
    out.push_back(c);
  };
  for (auto const &kw : kws) {
    if (only && !only->count(kw)) continue;
    Mut m;
    m.path = path;
    m.ctx = ctx;
    m.kw = kw;
    auto pi = present.find(kw);
    m.kid = pi == present.end() ? -1 : pi->second;
    bool present_block = m.kid >= 0 && blk.kids[m.kid].block;
    bool blocky = present_block || (m.kid < 0 && BLOCK_KEYS.count(kw));
    for (size_t v = 0; v < VALUES_QUICK.size(); v++) {
      if (blocky && !(VCLASS_QUICK[v] == "0" || VCLASS_QUICK[v] == "empty" || VCLASS_QUICK[v] == "noexist")) continue;
      m.value = VALUES_QUICK[v];
      m.vclass = VCLASS_QUICK[v];
      push(m);
    }
    if (thorough && !blocky)
      for (size_t v = 0; v < VALUES_MORE.size(); v++) {
        m.value = VALUES_MORE[v];
        m.vclass = VCLASS_MORE[v];
        push(m);
      }
    if (m.kid >= 0 && !present_block) {
      auto toks = split_ws(blk.kids[m.kid].value);
      if (toks.size() >= 1) {
        m.vclass = "long";
        m.value = blk.kids[m.kid].value + " " + toks.back();
        push(m);
      }
      if (toks.size() >= 2) {
        m.vclass = "short";
        m.value = "";
        for (size_t t = 0; t + 1 < toks.size(); t++) m.value += (t ? " " : "") + toks[t];
        push(m);
      }
    }
    if (m.kid >= 0) {
      Mut r = m;
      r.remove = true;
      r.vclass = "absent";
      r.value = "";
      push(r);
    }
    // special values of a few keywords
    if (kw == "indexfile" && m.kid >= 0 && !present_block) {
      // the index file with one group removed / emptied, for every group this configuration refers to
      // (by name, or through a "prefix" of group names)
      std::string f = trim(blk.kids[m.kid].value);
      std::string conf_text = emit(b.tree);
      std::vector<std::string> toks = split_ws(conf_text);
      std::set<std::string> words(toks.begin(), toks.end());
      std::vector<std::string> prefixes;
      for (size_t t = 0; t + 1 < toks.size(); t++) if (lower(toks[t]) == "prefix") prefixes.push_back(toks[t + 1]);
      for (auto const &kv : FX.files) {
        if (kv.first.rfind(f + ".__", 0) != 0) continue;
        std::string g = kv.first.substr(kv.first.find("_", f.size() + 3) + 1);
        bool used = words.count(g) > 0;
        for (auto const &pf : prefixes) if (g.rfind(pf, 0) == 0) used = true;
        if (!used) continue;
        m.value = kv.first;
        m.vclass = "ndx:" + kv.first.substr(f.size() + 3);
        push(m);
      }
    }
    if (kw == "refpositions" && m.kid >= 0 && !present_block) {
      // fewer reference positions than atoms (e.g. together with atomPermutation, which indexes them)
      m.value = "(0.0,0.0,0.0) (1.0,0.0,0.0)"; m.vclass = "two-positions"; push(m);
    }
    if (kw == "atomnumbersrange") {
      const char *sv[] = {"3-1", "5-1", "0-2", "1-1000000", "2-2"};
      for (auto s : sv) { m.value = s; m.vclass = std::string("range:") + s; push(m); }
    }
  }
  // boundaries in the wrong order
  for (auto const &kw : kws) {
    if (kw.rfind("lower", 0) != 0) continue;
    std::string up = "upper" + kw.substr(5);
    if (!kws.count(up)) continue;
    if (only && !only->count(kw) && !only->count(up)) continue;
    Mut m;
    m.path = path;
    m.ctx = ctx;
    m.kw = kw;
    m.kw2 = up;
    m.two = true;
    m.vclass = "swapped";
    auto p1 = present.find(kw), p2 = present.find(up);
    m.kid = p1 == present.end() ? -1 : p1->second;
    m.kid2 = p2 == present.end() ? -1 : p2->second;
    if (m.kid >= 0 && m.kid2 >= 0 && !blk.kids[m.kid].block && !blk.kids[m.kid2].block) {
      m.value = blk.kids[m.kid2].value;
      m.value2 = blk.kids[m.kid].value;
    } else {
      m.value = "7";
      m.value2 = "3";
    }
    push(m);
  }
}

static void enum_tree(int bi, Node &n, std::vector<int> &path, bool thorough, std::vector<Case> &out)
{
  enum_block(bi, n, path, thorough, out);
  for (size_t j = 0; j < n.kids.size(); j++)
    if (n.kids[j].block) {
      path.push_back((int) j);
      enum_tree(bi, n.kids[j], path, thorough, out);
      path.pop_back();
    }
}

// ------------------------------------------------------------------------------------------------
// phase 3: [A, step, rejected B, step, C, step] vs the same run without B
// ------------------------------------------------------------------------------------------------
static std::string record_step(c10proxy *px, std::vector<std::string> const &cvs, std::vector<std::string> const &bs)
{
  std::ostringstream os;
  os.precision(17);
  for (auto const &n : cvs) {
    colvar *c = px->cv(n);
    if (!c) { os << n << "=MISSING;"; continue; }
    os << n << "=" << cvm::to_str(c->value(), 0, 17) << ";";
  }
  for (auto const &n : bs) {
    colvarbias *b = px->bias(n);
    if (!b) { os << n << "=MISSING;"; continue; }
    os << n << ".E=" << b->get_energy() << ";";
  }
  // every object of the module, whoever defined it (a rejected configuration must leave none behind and
  // must not switch a surviving one off)
  os << "ALL:";
  for (auto *c : px->colvars->colvars)
    os << c->name << "=" << cvm::to_str(c->value(), 0, 17) << (c->is_enabled(colvardeps::f_cv_active) ? "" : "(inactive)") << ";";
  for (auto *b : px->colvars->biases)
    os << b->name << ".E=" << b->get_energy() << (b->is_enabled(colvardeps::f_cvb_active) ? "" : "(inactive)") << ";";
  os << "E=" << px->energy << ";F=";
  for (int a = 0; a < px->natoms; a++) os << px->fapp[a].x << "," << px->fapp[a].y << "," << px->fapp[a].z << " ";
  return os.str();
}

// objects of a state text whose name is listed; independent of other objects being present
static std::string state_of(std::string const &state, std::vector<std::string> const &names)
{
  // state text is a sequence of "<type> {\n  configuration {\n ... name <n>\n ...}\n ...}\n" blocks at depth 0
  std::string out;
  size_t i = 0;
  while (i < state.size()) {
    size_t ob = state.find('{', i);
    if (ob == std::string::npos) break;
    long depth = 0;
    size_t j = ob;
    for (; j < state.size(); j++) {
      if (state[j] == '{') depth++;
      else if (state[j] == '}') { depth--; if (!depth) break; }
    }
    std::string blk = state.substr(i, j + 1 - i);
    for (auto const &n : names) {
      size_t p = blk.find("name " + n + "\n");
      if (p != std::string::npos) { out += blk; break; }
    }
    i = j + 1;
  }
  return out;
}

struct SeqA { std::string name, conf; std::vector<std::string> cvs, biases; };
static std::vector<SeqA> seqA()
{
  std::vector<SeqA> v;
  v.push_back({"A1",
               "colvar {\n name A_d\n width 0.5\n lowerBoundary 0.0\n upperBoundary 30.0\n distance {\n group1 {\n atomNumbers 4 5 6\n }\n group2 {\n atomNumbers 99 100\n }\n }\n}\n"
               "harmonic {\n name A_h\n colvars A_d\n centers 12.0\n forceConstant 2.0\n}\n"
               "metadynamics {\n name A_m\n colvars A_d\n hillWeight 0.1\n hillWidth 2.0\n newHillFrequency 1\n}\n",
               {"A_d"}, {"A_h", "A_m"}});
  v.push_back({"A2",
               "colvar {\n name A_t\n width 5.0\n lowerBoundary -180.0\n upperBoundary 180.0\n dihedral {\n group1 {\n atomNumbers 5\n }\n group2 {\n atomNumbers 15\n }\n group3 {\n atomNumbers 25\n }\n group4 {\n atomNumbers 35\n }\n }\n}\n"
               "abf {\n name A_abf\n colvars A_t\n fullSamples 1\n}\n"
               "histogram {\n name A_hist\n colvars A_t\n}\n",
               {"A_t"}, {"A_abf", "A_hist"}});
  v.push_back({"A3",
               "colvar {\n name A_r\n rmsd {\n atoms {\n atomNumbers 1 5 15 25 35 45\n }\n refPositions (1,0,0) (0,1,0) (0,0,1) (2,1,0) (3,0,1) (4,1,1)\n }\n}\n"
               "colvar {\n name A_x\n extendedLagrangian on\n extendedFluctuation 0.2\n extendedTimeConstant 50\n extendedLangevinDamping 1.0\n distance {\n group1 {\n atomNumbers 10\n }\n group2 {\n atomNumbers 60\n }\n }\n}\n"
               "harmonicWalls {\n name A_w\n colvars A_r\n upperWalls 1.0\n upperWallConstant 3.0\n}\n"
               "linear {\n name A_l\n colvars A_x\n forceConstant 0.3\n centers 1.0\n}\n",
               {"A_r", "A_x"}, {"A_w", "A_l"}});
  return v;
}
static const char *SEQ_C =
    "colvar {\n name C_a\n angle {\n group1 {\n atomNumbers 2\n }\n group2 {\n atomNumbers 22\n }\n group3 {\n atomNumbers 42\n }\n }\n}\n"
    "harmonic {\n name C_h\n colvars C_a\n centers 90.0\n forceConstant 0.01\n}\n";

// one run: A(+prelude), step 0, [B], step 1, C, step 2.  Returns the record; rcB = error bits of B
static std::string seq_run(SeqA const &A, std::string const &prelude, std::string const *B, int &rcA, int &rcP,
                           int &rcB, int &rcC, std::string &errB)
{
  c10proxy *px = make_proxy();
  std::ostringstream rec;
  rcA = px->config(A.conf);
  rcP = prelude.size() ? px->config(prelude) : 0;
  load_frame(px, 0);
  int s0 = px->step(0);
  rec << "s0 rc=" << s0 << " " << record_step(px, A.cvs, A.biases) << "\n";
  rcB = 0;
  if (B) {
    size_t e0 = px->errtxt.size();
    rcB = px->config(*B);
    errB = px->errtxt.substr(e0, 300);
  }
  load_frame(px, 1);
  int s1 = px->step(1);
  rec << "s1 rc=" << s1 << " " << record_step(px, A.cvs, A.biases) << "\n";
  std::vector<std::string> names = A.cvs;
  names.insert(names.end(), A.biases.begin(), A.biases.end());
  rec << "state1 " << state_of(px->state_text(), names) << "\n";
  rcC = px->config(SEQ_C);
  load_frame(px, 2);
  int s2 = px->step(2);
  std::vector<std::string> cvs2 = A.cvs, bs2 = A.biases;
  cvs2.push_back("C_a");
  bs2.push_back("C_h");
  rec << "s2 rc=" << s2 << " " << record_step(px, cvs2, bs2) << "\n";
  names.push_back("C_a");
  names.push_back("C_h");
  rec << "state2 " << state_of(px->state_text(), names) << "\n";
  delete px;
  return rec.str();
}

// B of a case: the top-level item holding the mutation; prelude: the other top-level colvars + module keywords
static void seq_parts(Case const &c, std::string &prelude, std::string &B)
{
  Node t = BASES[c.base].tree;
  for (auto const &m : c.muts) apply(t, m);
  int top = c.muts.back().path.empty() ? -1 : c.muts.back().path[0];
  Node pre, b;
  for (size_t j = 0; j < t.kids.size(); j++) {
    Node const &k = t.kids[j];
    if (k.key.empty()) continue;
    bool is_target;
    if (top >= 0) is_target = ((int) j == top);
    else {
      // module-level mutation: the mutated line(s) (present ones by index, inserted ones are at the end)
      is_target = false;
      for (auto const &m : c.muts)
        if (m.path.empty() && (m.kid == (int) j || m.kid2 == (int) j || j >= BASES[c.base].tree.kids.size()))
          is_target = true;
    }
    if (is_target) b.kids.push_back(k);
    else if (!k.block || lower(k.key) == "colvar") pre.kids.push_back(k);
  }
  drop_removed(pre);
  drop_removed(b);
  prelude = emit(pre);
  B = emit(b);
}

static int seq_child(SeqA const &A, std::string const &prelude, std::string const &B)
{
  int rcA, rcP, rcB, rcC, d1, d2, d3, d4;
  std::string errB, e2;
  std::string T = seq_run(A, prelude, &B, rcA, rcP, rcB, rcC, errB);
  std::ostringstream os;
  if (rcA != 0) { os << "VERDICT harness-A-failed\n"; }
  else if (rcP != 0) { os << "VERDICT prelude-failed\n"; }
  else if (rcB == 0) { os << "VERDICT accepted\n"; }
  else {
    std::string R = seq_run(A, prelude, NULL, d1, d2, d3, d4, e2);
    if (d4 != 0) os << "VERDICT harness-C-failed\n";
    else if (rcC != 0) os << "VERDICT valid-config-refused-after-reject\n";
    else if (R == T) os << "VERDICT same\n";
    else {
      // first differing line
      std::istringstream a(R), b(T);
      std::string la, lb, what = "differs";
      while (std::getline(a, la) && std::getline(b, lb))
        if (la != lb) { what = la.substr(0, la.find(' ')); break; }
      // a previously defined object switched off by the rejected configuration
      size_t nR = 0, nT = 0;
      for (size_t p = 0; (p = R.find("(inactive)", p)) != std::string::npos; p++) nR++;
      for (size_t p = 0; (p = T.find("(inactive)", p)) != std::string::npos; p++) nT++;
      if (nT > nR) os << "VERDICT survivor-deactivated " << what << "\n";
      else if (what.rfind("state", 0) == 0) os << "VERDICT survivor-state-changed " << what << "\n";
      else os << "VERDICT survivor-behaviour-changed " << what << "\n";
      os << "R " << jesc(R.substr(0, 1500)) << "\nT " << jesc(T.substr(0, 1500)) << "\n";
    }
  }
  os << "ERRB " << jesc(errB) << "\nEND\n";
  std::string s = os.str();
  if (write(3, s.data(), s.size()) < 0) return 3;
  return 0;
}

// state shared by the forked workers: work queue (a fixed i % n split leaves one worker with the slow cases),
// labels already confirmed as hang / slow-but-completing (so the long replay is paid once per label), deadline
struct Shared {
  long next;
  long nconf;
  double deadline;  // absolute time after which no new case is started (0 = none)
  long cut;         // cases not started because of the deadline
  uint64_t conf[16384];
};
static Shared *SH = NULL;
static void queue_reset()
{
  if (!SH) {
    SH = (Shared *) mmap(NULL, sizeof(Shared), PROT_READ | PROT_WRITE, MAP_SHARED | MAP_ANONYMOUS, -1, 0);
    if (SH == MAP_FAILED) harness_error("mmap failed");
    memset(SH, 0, sizeof(Shared));
  }
  SH->next = 0;
}
static long queue_take(size_t n)
{
  long i = __atomic_fetch_add(&SH->next, 1, __ATOMIC_SEQ_CST);
  if ((size_t) i < n && SH->deadline > 0 && now() > SH->deadline) {
    __atomic_fetch_add(&SH->cut, 1, __ATOMIC_SEQ_CST);
    // drain the queue: every remaining index is counted as cut
    while ((size_t) (i = __atomic_fetch_add(&SH->next, 1, __ATOMIC_SEQ_CST)) < n)
      __atomic_fetch_add(&SH->cut, 1, __ATOMIC_SEQ_CST);
    return (long) n;
  }
  return i;
}
static bool confirmed_has(std::string const &k)
{
  uint64_t h = fnv(k);
  long n = __atomic_load_n(&SH->nconf, __ATOMIC_SEQ_CST);
  for (long i = 0; i < n && i < 16384; i++)
    if (__atomic_load_n(&SH->conf[i], __ATOMIC_SEQ_CST) == h) return true;
  return false;
}
static void confirmed_add(std::string const &k)
{
  long i = __atomic_fetch_add(&SH->nconf, 1, __ATOMIC_SEQ_CST);
  if (i < 16384) __atomic_store_n(&SH->conf[i], fnv(k), __ATOMIC_SEQ_CST);
}

static const char *SEP = " ## ";
static std::string raw_sig(std::string const &label, std::string const &kind, std::string const &func, bool q = true)
{
  // q: the case belongs to the quick tier's selection as well (preferred when naming a finding)
  return label + SEP + kind + SEP + func + SEP + (q ? "Q" : "T");
}
// order of value classes used to name a finding after its simplest trigger
static int vclass_rank(std::string const &label)
{
  static std::vector<std::string> order;
  if (order.empty()) {
    order = VCLASS_QUICK;
    for (auto s : {"long", "short", "absent", "swapped"}) order.push_back(s);
    for (auto const &s : VCLASS_MORE) order.push_back(s);
  }
  size_t e = label.rfind('=');
  std::string v = e == std::string::npos ? "" : label.substr(e + 1);
  int pairs = (int) std::count(label.begin(), label.end(), '+');
  for (size_t i = 0; i < order.size(); i++)
    if (order[i] == v) return (int) i + 100 * pairs;
  return 90 + 100 * pairs;
}

// One finding per crash site: all raw violations with the same (end kind, library function) are one
// signature, named after the simplest keyword/value that triggers it; the others are listed in the detail.
static void group_findings(Result &total)
{
  struct G { long count = 0; std::map<std::string, long> labels; std::set<std::string> qlabels; };
  std::map<std::string, G> groups;
  std::map<std::string, std::string> key_of_raw;
  std::set<std::string> singles;  // "kind@objecttype:keyword" of single-keyword cases
  for (auto const &kv : total.viol_count) {
    std::string raw = kv.first;
    size_t a = raw.find(SEP), b = raw.find(SEP, a + 4);
    if (a == std::string::npos || b == std::string::npos) continue;
    std::string label = raw.substr(0, a), kind = raw.substr(a + 4, b - a - 4);
    if (label.find('+') == std::string::npos) singles.insert(kind + "@" + label.substr(0, label.find('=')));
  }
  for (auto const &kv : total.viol_count) {
    std::string raw = kv.first;
    size_t a = raw.find(SEP), b = raw.find(SEP, a + 4);
    if (a == std::string::npos || b == std::string::npos) { groups[raw].count += kv.second; key_of_raw[raw] = raw; continue; }
    size_t c3 = raw.find(SEP, b + 4);
    std::string label = raw.substr(0, a), kind = raw.substr(a + 4, b - a - 4),
                func = raw.substr(b + 4, c3 == std::string::npos ? std::string::npos : c3 - b - 4);
    bool inq = c3 == std::string::npos || raw.substr(c3 + 4) == "Q";
    std::string key;
    if (func.size()) key = kind + "@" + func;
    else if (kind == "seq:survivor-deactivated-after-rejected-bias")
      key = kind + "@";  // one mechanism whatever the bias type and keyword
    else if (kind.rfind("seq:", 0) == 0)
      key = kind + "@" + label.substr(0, label.find(':'));  // per object type
    else if (kind == "timeout" || kind == "rss-cap" || kind.rfind("abort:", 0) == 0 || kind == "SIGABRT") {
      // no crash site: per object type and keyword; a pair is attributed to the component that produces
      // the same end on its own, if there is one
      std::string comp = label.substr(0, label.find('='));
      if (label.find('+') != std::string::npos) {
        std::string best_comp;
        size_t p0 = 0;
        while (p0 <= label.size()) {
          size_t p1 = label.find('+', p0);
          std::string part = label.substr(p0, p1 == std::string::npos ? std::string::npos : p1 - p0);
          std::string ck = part.substr(0, part.find('='));
          if (singles.count(kind + "@" + ck)) { best_comp = ck; break; }
          if (p1 == std::string::npos) break;
          p0 = p1 + 1;
        }
        if (best_comp.size()) comp = best_comp;
        else {
          // both keywords are needed: key on the pair of keywords
          comp.clear();
          p0 = 0;
          while (p0 <= label.size()) {
            size_t p1 = label.find('+', p0);
            std::string part = label.substr(p0, p1 == std::string::npos ? std::string::npos : p1 - p0);
            comp += (comp.size() ? "+" : "") + part.substr(0, part.find('='));
            if (p1 == std::string::npos) break;
            p0 = p1 + 1;
          }
        }
      }
      key = kind + "@" + comp;
    }
    else key = kind + "@?" + label.substr(0, label.find(':'));
    groups[key].count += kv.second;
    groups[key].labels[label] += kv.second;
    if (inq) groups[key].qlabels.insert(label);
    key_of_raw[raw] = key;
  }
  std::map<std::string, long> nc;
  std::vector<Violation> nv;
  for (auto const &g : groups) {
    if (g.second.labels.empty()) { nc[g.first] = g.second.count; continue; }
    std::string best;
    std::string lfunc = lower(g.first.substr(g.first.find('@') + 1));
    for (char &ch : lfunc) if (ch == '_') ch = ' ';
    std::string lf2;
    for (char ch : lfunc) if (ch != ' ') lf2 += ch;
    auto score = [&](std::string const &lab) {
      // smaller is better: single mutations first, then the object type named by the crashing function,
      // then the simplest value class (ties: alphabetical)
      std::string ctx = lower(lab.substr(0, lab.find(':')));
      bool named = ctx.size() > 2 && lf2.find(ctx) != std::string::npos;
      int pairs = (int) std::count(lab.begin(), lab.end(), '+');
      return 100000 * pairs + (named ? 0 : 1000) + (vclass_rank(lab) % 100);
    };
    for (auto const &l : g.second.labels) {
      // labels of cases the quick tier runs too come first (same name for the same site in both tiers)
      if (g.second.qlabels.size() && !g.second.qlabels.count(l.first)) continue;
      if (best.empty()) { best = l.first; continue; }
      int r1 = score(l.first), r0 = score(best);
      if (r1 < r0 || (r1 == r0 && l.first < best)) best = l.first;
    }
    std::string kind = g.first.substr(0, g.first.find('@'));
    std::string func = g.first.substr(g.first.find('@') + 1);
    bool site = func.size() && func[0] != '?' && g.first.find("@" + best.substr(0, best.find('='))) == std::string::npos;
    std::string sig = "C10:" + best + ":" + kind + (site ? "@" + func : "");
    // hm: seq verdicts are prefixed for readability
    if (kind.rfind("seq:", 0) == 0) sig = "C10:seq:" + best + ":" + kind.substr(4);
    if (kind == "seq:survivor-deactivated-after-rejected-bias") sig = "C10:seq:survivor-deactivated-after-rejected-bias";
    nc[sig] = g.second.count;
    // detail of the best label
    std::string detail;
    for (auto const &v : total.violations) {
      auto k = key_of_raw.find(v.sig);
      if (k == key_of_raw.end() || k->second != g.first) continue;
      if (v.sig.rfind(best + SEP, 0) == 0) { detail = v.detail; break; }
      if (detail.empty()) detail = v.detail;
    }
    std::string trig = "[";
    size_t n = 0;
    for (auto const &l : g.second.labels) {
      if (n++ >= 80) { trig += ",\"...\""; break; }
      trig += (n > 1 ? "," : "") + std::string("\"") + jesc(l.first) + "\"";
    }
    trig += "]";
    bool hard = !(kind.rfind("ubsan:", 0) == 0 && kind.find("null-pointer") == std::string::npos &&
                  kind.find("out-of-bounds") == std::string::npos);
    std::string extra = "\"n_cases\":" + std::to_string(g.second.count) + ",\"n_triggers\":" +
                        std::to_string(g.second.labels.size()) + ",\"severity\":\"" +
                        (kind.rfind("seq:", 0) == 0 || kind == "error-without-message" ? "semantic"
                         : hard ? "signal / memory error / hang in a production build"
                                : "undefined behaviour reported by UBSan (no signal in a production build); the abort hides what follows") +
                        "\",\"triggers\":" + trig + ",";
    if (detail.size() && detail[0] == '{') detail = "{" + extra + detail.substr(1);
    nv.push_back(Violation{sig, detail});
  }
  total.viol_count = nc;
  total.violations = nv;
}

// ------------------------------------------------------------------------------------------------
int main(int argc, char **argv)
{
  Args args(argc, argv);
  bool const thorough = args.thorough();
  std::string repo = args.kv.count("repo") ? args.kv["repo"] : "/repo";
  std::string scratch = args.kv.count("scratch") ? args.kv["scratch"] : ".";
  double const T_CASE = 2.0, T_RETRY = 40.0;  // CPU seconds of one child
  long const RSS_CAP_MB = 3072;
  double t_start = now();
  setenv("OMP_NUM_THREADS", "2", 1);
  // development switch: atom registration exactly as vproxy / the NAMD interface do it
  if (getenv("C10_ENGINE_ATOM_PROTOCOL")) g_error_return = false;

  load_fixture(repo);
  load_spellings(repo);

  // ---------------- corpus ----------------
  std::vector<std::pair<std::string, std::string>> corpus;
  {
    std::string dir = repo + "/tests/input_files";
    DIR *d = opendir(dir.c_str());
    std::vector<std::string> names;
    while (struct dirent *e = readdir(d)) {
      std::string p = dir + "/" + e->d_name + "/test.in";
      struct stat st;
      if (e->d_name[0] != '.' && stat(p.c_str(), &st) == 0) names.push_back(e->d_name);
    }
    closedir(d);
    std::sort(names.begin(), names.end());
    for (auto const &n : names) corpus.push_back(std::make_pair("tests/" + n, read_file(dir + "/" + n + "/test.in")));
    for (auto const &x : c10_extra_configs()) corpus.push_back(std::make_pair("extra/" + x.first, x.second));
  }

  // replay of one configuration text (file given with --replay): run the phase-1 body once and print the end
  if (args.replay.size()) {
    bool ok;
    std::string txt = read_file(args.replay, &ok);
    if (!ok) harness_error("cannot read " + args.replay);
    std::string txt0 = txt;
    // a vcheck replay file (JSON with case.config) or a plain configuration
    size_t p = txt.find("\"config\": \"");
    if (p != std::string::npos) {
      size_t q = p + 11, e = q;
      while (e < txt.size() && !(txt[e] == '"' && txt[e - 1] != '\\')) e++;
      txt = Result::junesc(txt.substr(q, e - q));
    }
    std::string wd = scratch + "/replay";
    reset_workdir(wd);
    if (chdir(wd.c_str())) harness_error("chdir");
    if (txt0.find("\"sequence\"") != std::string::npos) {
      auto field = [&](std::string const &k) {
        size_t a = txt0.find("\"" + k + "\": \"");
        if (a == std::string::npos) return std::string();
        size_t q = a + k.size() + 5, e = q;
        while (e < txt0.size() && !(txt0[e] == '"' && txt0[e - 1] != '\\')) e++;
        return Result::junesc(txt0.substr(q, e - q));
      };
      SeqA A;
      A.name = field("A");
      for (auto const &a : seqA()) if (a.name == A.name) A = a;
      std::string pre = field("prelude"), B = field("B");
      Outcome o = run_child([&]() { return seq_child(A, pre, B); }, T_RETRY, RSS_CAP_MB);
      printf("sequence replay end: %s site: %s\n%s\n%s\n", o.kind.c_str(), o.site.c_str(),
             Result::junesc(o.out).c_str(), o.report.c_str());
      Result r;
      r.count("evaluations");
      std::string verdict = o.out.substr(0, o.out.find('\n'));
      if (o.kind != "ok") r.violation("C10:replay:seq:" + o.kind + (o.func.size() ? "@" + o.func : ""), "{}");
      else if (verdict.find("VERDICT same") != 0 && verdict.find("VERDICT accepted") != 0)
        r.violation("C10:replay:seq:" + (verdict.size() > 8 ? verdict.substr(8, verdict.find(' ', 8) - 8) : std::string("?")), "{}");
      if (args.out.size()) write_result(args.out, "C10", args.tier, r, false);
      return 0;
    }
    double lim = getenv("C10_REPLAY_CPU") ? atof(getenv("C10_REPLAY_CPU")) : T_RETRY;
    Outcome o = run_child([&]() { return child_body(txt, false); }, lim, RSS_CAP_MB);
    printf("replay end: %s  site: %s  (%.2fs, peak rss %ld MB)\n%s\n%s\n", o.kind.c_str(), o.site.c_str(), o.secs,
           o.peak_rss_mb, o.out.c_str(), o.report.c_str());
    Result r;
    r.count("evaluations");
    if (o.kind != "ok") r.violation("C10:replay:" + o.kind + (o.func.size() ? "@" + o.func : ""), "{\"config\":\"" + jesc(txt) + "\"}");
    if (args.out.size()) write_result(args.out, "C10", args.tier, r, false);
    return 0;
  }

  // ---------------- harvest (each base in a child; the base must load and run) ----------------
  std::string wd0 = scratch + "/w_main";
  reset_workdir(wd0);
  if (chdir(wd0.c_str())) harness_error("chdir " + wd0);
  Result total;
  long skipped_bases = 0;
  std::string base_failures;
  for (auto const &cf : corpus) {
    std::string nm = cf.first.substr(cf.first.find('/') + 1);
    if (SKIP.count(nm)) {
      total.notes.push_back("corpus entry " + cf.first + " left out: " + SKIP.at(nm));
      skipped_bases++;
      continue;
    }
    Base b;
    b.name = cf.first;
    std::string err;
    if (!parse_tree(cf.second, b.tree, err)) harness_error("cannot parse layout of " + cf.first + ": " + err);
    std::string conf = emit(b.tree);
    reset_workdir(wd0);
    Outcome o = run_child([&]() { return child_body(conf, true); }, T_RETRY, RSS_CAP_MB);
    Rep r = parse_rep(o.out);
    if (o.kind != "ok") {
      // a valid configuration that ends abnormally is itself a violation of the property (replayed once);
      // it cannot serve as a base
      reset_workdir(wd0);
      Outcome o2 = run_child([&]() { return child_body(conf, false); }, T_RETRY, RSS_CAP_MB);
      if (o2.kind != "ok") {
        total.count("evaluations");
        total.count("bases_ending_abnormally");
        total.violation(raw_sig("base:" + cf.first + "=unchanged", o2.kind, o2.func),
                        "{\"base\":\"" + jesc(cf.first) + "\",\"mutation\":\"none (valid base configuration)\",\"end\":\"" +
                            jesc(o2.kind) + "\",\"site\":\"" + jesc(o2.site) + "\",\"replayed_end\":\"" + jesc(o.kind) +
                            "\",\"expected\":\"normal return\",\"report\":\"" + jesc(o2.report.substr(0, 2500)) +
                            "\",\"config\":\"" + jesc(conf) + "\"}");
        continue;
      }
      o = run_child([&]() { return child_body(conf, true); }, T_RETRY, RSS_CAP_MB);
      r = parse_rep(o.out);
    }
    if (o.kind != "ok" || !r.ok) {
      base_failures += "base configuration " + cf.first + " ended with " + o.kind + " " + o.site + "\n" + o.report.substr(0, 600) + "\n";
      continue;
    }
    if (r.rc != 0 || r.src != 0 || r.wrc != 0 || r.orc != 0 || r.erc != 0) {
      base_failures += "base configuration " + cf.first + " is not accepted (rc " + std::to_string(r.rc) + " steps " +
                       std::to_string(r.src) + " state " + std::to_string(r.wrc) + " out " + std::to_string(r.orc) +
                       " end " + std::to_string(r.erc) + "): " + r.first_err + "\n";
      continue;
    }
    for (auto const &h : r.harvest) {
      b.kw[h.first].insert(h.second.begin(), h.second.end());
      if (h.first != "colvarmodule") BLOCK_KEYS.insert(h.first);
    }
    BASES.push_back(b);
  }
  if (base_failures.size()) harness_error("base configurations must load and run cleanly:\n" + base_failures);
  if (BASES.size() < 20) harness_error("fewer than 20 usable base configurations");
  // bias types and component types are block keywords everywhere
  {
    std::set<std::string> all;
    for (auto const &b : BASES)
      for (auto const &kv : b.kw) {
        if (kv.first != "colvarmodule") all.insert(kv.first);
        GLOBAL_KW[kv.first].insert(kv.second.begin(), kv.second.end());
      }
    BLOCK_KEYS = all;
  }

  // ---------------- phase 1 cases ----------------
  std::vector<Case> cases, all_cases;
  for (size_t bi = 0; bi < BASES.size(); bi++) {
    std::vector<int> path;
    enum_tree((int) bi, BASES[bi].tree, path, thorough, cases);
  }
  // distinct object types and keywords (for the evidence)
  {
    std::set<std::string> ctxs, ctxkw;
    for (auto const &b : BASES)
      for (auto const &kv : b.kw) {
        ctxs.insert(ctx_label(b, kv.first));
        for (auto const &k : kv.second) ctxkw.insert(ctx_label(b, kv.first) + ":" + k);
      }
    total.count("bases", (long) BASES.size());
    total.count("bases_left_out", skipped_bases);
    total.count("object_types", (long) ctxs.size());
    total.count("object_type_keywords", (long) ctxkw.size());
  }
  // selection of the cases a tier runs (rules in the comments below).  The thorough tier also computes the
  // quick tier's selection: a finding is named after a case the quick tier runs too whenever there is one, so
  // that both tiers give the same signature to the same crash site.
  std::set<std::string> QUICK_IDS;
  auto select_cases = [&](bool thorough_rule, std::vector<Case> &keep) {
    // number of object types whose registry holds a keyword (shared component keywords: name, componentCoeff, ...)
    std::map<std::string, std::set<std::string>> kw_types;
    for (auto const &b : BASES)
      for (auto const &kv : b.kw)
        for (auto const &k : kv.second) kw_types[k].insert(ctx_label(b, kv.first));
    std::map<std::string, std::set<std::string>> shared_taken;
    std::set<std::string> seen;
    static const std::set<std::string> cross_classes = {"0", "-1", "1000000", "nan"};
    for (auto const &c : cases) {
      Mut const &m = c.muts[0];
      Node &t = BASES[c.base].tree;
      std::string const ctxl = ctx_label(BASES[c.base], m.ctx);
      bool take = false;
      if (!thorough_rule && std::find(VCLASS_MORE.begin(), VCLASS_MORE.end(), m.vclass) != VCLASS_MORE.end()) continue;
      if (thorough_rule) {
        std::string kv = m.kw + "=" + m.vclass;
        bool more = std::find(VCLASS_MORE.begin(), VCLASS_MORE.end(), m.vclass) != VCLASS_MORE.end();
        bool blocky_absent = m.kid < 0 && BLOCK_KEYS.count(m.kw);
        bool group = ctxl == "atomGroup" || ctxl == "fittingGroup";
        static const std::set<std::string> group_classes = {"0", "-1", "1000000", "nan", "empty", "noexist",
                                                            "absent", "long", "short", "swapped"};
        bool main_class = group_classes.count(m.vclass) || m.vclass.rfind("range:", 0) == 0;
        (void) more;
        std::string sig;
        if (!main_class || blocky_absent) {
          // value classes 1, 2^63-1, 1e300, inf and the additional ones of this tier, and component-type
          // keywords: once per object type; the main classes (0, -1, 10^6, nan, empty, non-existent name,
          // absent, list too long/short, swapped boundaries) once per signature below
          sig = ctxl;
        } else if (group) {
          // atom groups: once per chain of object types (colvar/component/group) for the main classes
          Node *n = &t;
          for (size_t d = 0; d < m.path.size(); d++) {
            n = &n->kids[m.path[d]];
            sig += (d + 1 == m.path.size() ? ctxl : lower(n->key)) + "/";
          }
        } else {
          // once per (chain of object types, keys present in the block, keyword, value class)
          Node *n = &t;
          for (int i : m.path) { n = &n->kids[i]; sig += lower(n->key) + "/"; }
          std::set<std::string> pk;
          for (auto const &k : n->kids) pk.insert(lower(k.key) + (k.block ? "{}" : ""));
          for (auto const &k : pk) sig += k + ",";
          // module and colvar keywords also once per set of bias types they act on
          if (ctxl == "module" || ctxl == "colvar") {
            std::set<std::string> bset;
            for (auto const &k : t.kids) if (k.block && lower(k.key) != "colvar") bset.insert(lower(k.key));
            for (auto const &k : bset) sig += "+" + k;
          }
        }
        take = seen.insert(sig + "|" + kv).second;
      } else {
        // quick: once per (object type, keyword, value class), in the first configuration that has it ...
        std::string kv = m.kw + "=" + m.vclass;
        if (ctxl == "module" || ctxl == "colvar") {
          take = seen.insert(ctxl + "|" + kv).second;
          // ... module and colvar keywords additionally once per set of bias types, for four value classes
          if (cross_classes.count(m.vclass) && !BLOCK_KEYS.count(m.kw)) {
            std::string bs;
            std::set<std::string> bset;
            for (auto const &k : t.kids) if (k.block && lower(k.key) != "colvar") bset.insert(lower(k.key));
            for (auto const &k : bset) bs += k + "+";
            if (seen.insert(bs + "|" + ctxl + "|" + kv).second) take = true;
          }
        } else if (kw_types[m.kw].size() > 10 && ctxl != "atomGroup" && ctxl != "fittingGroup") {
          // ... a keyword shared by more than 10 object types in the first 3 of them
          auto &tk = shared_taken[m.kw];
          if (tk.count(ctxl) || tk.size() < 3) {
            tk.insert(ctxl);
            take = seen.insert(ctxl + "|" + kv).second;
          }
        } else {
          take = seen.insert(ctxl + "|" + kv).second;
        }
      }
      if (take) keep.push_back(c);
    }
  };
  {
    std::vector<Case> keep, quick_keep;
    select_cases(thorough, keep);
    if (thorough) {
      select_cases(false, quick_keep);
      for (auto const &c : quick_keep) QUICK_IDS.insert(case_id(c));
      size_t both = 0;
      for (auto const &c : keep) both += QUICK_IDS.count(case_id(c));
      total.count("quick_tier_cases_contained_in_this_run", (long) both);
      total.count("quick_tier_cases", (long) quick_keep.size());
    }
    total.count("cases_deduplicated_away", (long) (cases.size() - keep.size()));
    all_cases = cases;
    cases.swap(keep);
  }

  auto detail_json = [&](Case const &c, std::string const &conf, Outcome const &o, Outcome const *o2) {
    std::string d = "{\"base\":\"" + jesc(BASES[c.base].name) + "\",\"mutation\":\"" + jesc(case_label(c)) + "\"";
    d += ",\"end\":\"" + jesc(o.kind) + "\",\"site\":\"" + jesc(o.site) + "\"";
    d += ",\"secs\":" + num(o.secs) + ",\"peak_rss_mb\":" + std::to_string(o.peak_rss_mb);
    if (o2) d += ",\"replayed_end\":\"" + jesc(o2->kind) + "\",\"replayed_site\":\"" + jesc(o2->site) + "\"";
    d += ",\"expected\":\"normal return: accepted, or rejected with an error message\"";
    d += ",\"report\":\"" + jesc(o.report.substr(0, 2500)) + "\"";
    d += ",\"config\":\"" + jesc(conf) + "\"}";
    return d;
  };

  // executes one list of cases sharded; discoveries of new keywords come back as notes "DISC\t…"
  auto run_cases = [&](std::vector<Case> &cs, std::string const &phase, Result &res) {
    // the cases that can be slow (value 10^6: large but legitimate sizes) go first so they do not form the tail
    std::stable_partition(cs.begin(), cs.end(), [](Case const &c) {
      for (auto const &m : c.muts) if (m.vclass == "1000000" || m.vclass == "-1000000") return true;
      return false;
    });
    queue_reset();
    return run_sharded(args.jobs, [&](int shard, int nsh, Result &r) {
      std::string wd = scratch + "/w" + std::to_string(shard);
      reset_workdir(wd);
      if (chdir(wd.c_str())) harness_error("chdir " + wd);
      std::set<std::string> disc_seen;
      std::map<std::string, int> confirmed;
      for (size_t i; (i = (size_t) queue_take(cs.size())) < cs.size();) {
        Case const &c = cs[i];
        std::string conf = case_config(c);
        reset_workdir(wd);
        if (getenv("C10_FORK_PROBE") && i % 50 == 0) {
          Outcome op = run_child([]() { return 0; }, 5, 1000);
          r.count("fork_probe_us", (long) (op.secs * 1e6));
          r.count("fork_probes");
          r.count("worker_rss_mb", rss_mb(getpid()));
        }
        if (i % 2000 == 0)
          fprintf(stderr, "  %s: %zu/%zu (%.0fs)\n", phase.c_str(), i, cs.size(), now() - t_start);
        Outcome o = run_child([&]() { return child_body(conf, true); }, T_CASE, RSS_CAP_MB);
        r.count("evaluations");
        r.count(phase + "_cases");
        r.count("transitions", 8);
        std::string lab = case_label(c);
        bool const inq = !thorough || (phase == "phase1" && QUICK_IDS.count(case_id(c)));
        if (o.kind == "ok") {
          Rep rep = parse_rep(o.out);
          if (!rep.ok) {
            r.violation(raw_sig(lab, "child-report-missing", "", inq), detail_json(c, conf, o, NULL));
            continue;
          }
          bool rejected = rep.rc != 0;
          r.count(rejected ? "parse_rejected" : "parse_accepted");
          if (rejected) r.notes.push_back("REJ\t" + phase + "\t" + std::to_string(i));
          r.count("child_body_ms", rep.body_us / 1000);
          r.count("child_wall_ms", (long) (o.secs * 1000));
          if (!rejected && (rep.src | rep.wrc | rep.orc | rep.erc)) r.count("accepted_then_runtime_error");
          if (rep.unrec) r.count("trivial_keyword_not_read");
          else r.seen("nontrivial", case_id(c));
          r.seen("outcomes", std::string(rejected ? "rejected:" : "accepted:") + (rep.unrec ? "unread" : "read") +
                                 (rep.src ? ":steperr" : ""));
          if ((rep.rc != 0 && rep.nerr_parse == 0) || ((rep.src | rep.wrc | rep.orc | rep.erc) && rep.nerr == 0)) {
            // the statement asks for an error message; cvm::log() followed by set_error_bits() (e.g. unknown
            // corrFuncType) does print one, only not through the error channel: counted, not a violation
            r.count("error_bits_without_error_channel_message");
            r.seen("error_bits_without_error_channel_message", mut_label(BASES[c.base], c.muts.back()));
          }
          if (r.samples.size() < 2 && i % 1553 == 3)
            r.sample("{\"base\":\"" + jesc(BASES[c.base].name) + "\",\"mutation\":\"" + jesc(lab) + "\",\"end\":\"" +
                     (rejected ? "rejected: " + jesc(rep.first_err) : std::string("accepted")) + "\"}");
          // keywords that became readable only under this mutation
          if (c.muts.size() == 1) {
            Base const &b = BASES[c.base];
            for (auto const &h : rep.harvest) {
              auto bk = b.kw.find(h.first);
              if (bk == b.kw.end()) continue;
              for (auto const &k : h.second)
                if (!bk->second.count(k) && disc_seen.insert(std::to_string(c.base) + "|" + h.first + "|" + k).second)
                  r.notes.push_back("DISC\t" + std::to_string(i) + "\t" + h.first + "\t" + k);
            }
          }
          continue;
        }
        // abnormal end: replay before reporting (a timeout is replayed with a longer limit); once the same
        // end at the same library function has been confirmed by two replays in this worker, further cases
        // ending there are counted without another replay
        r.seen("nontrivial", case_id(c));
        std::string okey = o.kind + "@" + o.func;
        // 10^6 is the "large but legitimately allocatable" class: when a case that contains it runs into the
        // allocation or memory cap (e.g. a 10^7 x 36-bin grid = 2.9 GB) that is a large request, not an
        // unchecked size; the sizes that can never succeed (2^31, 2^63-1, 1e300) stay violations
        bool has_large = false;
        for (auto const &m : c.muts)
          if (m.vclass == "1000000" || m.vclass == "-1000000") has_large = true;
        // a single request below 1 TiB is one that a large machine can satisfy: a large request whatever the
        // value class; at or above it (2^63-1 elements, 1e300 ...) it can never succeed and must be rejected
        bool satisfiable_request = false;
        if (o.kind == "asan:allocation-size-too-big") {
          size_t rp = o.report.find("requested allocation size 0x");
          if (rp != std::string::npos) {
            unsigned long long req = strtoull(o.report.c_str() + rp + 26, NULL, 16);
            satisfiable_request = req > 0 && req < (1ULL << 40);
          }
        }
        if (satisfiable_request ||
            (has_large && (o.kind == "asan:allocation-size-too-big" || o.kind == "asan:out-of-memory" || o.kind == "rss-cap" ||
                           o.kind == "abort:std::bad_alloc"))) {
          r.count("large_value_request_above_memory_cap_not_judged");
          if (!confirmed_has("bigq|" + lab)) {
            confirmed_add("bigq|" + lab);
            r.notes.push_back("large but satisfiable request above the memory cap (" + o.kind + " " + o.site + "), not judged: " + case_id(c));
          }
          continue;
        }
        if (o.func.size() && confirmed[okey] >= 2) {
          r.count("abnormal_ends");
          r.count("abnormal_ends_at_confirmed_site_not_replayed");
          r.seen("outcomes", "abnormal:" + o.kind);
          r.violation(raw_sig(lab, o.kind, o.func, inq), detail_json(c, conf, o, NULL));
          continue;
        }
        if (o.kind == "timeout" || o.kind == "rss-cap") {
          // the long replay of a hang / of a slow large-value case is paid once per label (object type,
          // keyword, value class) over all workers
          if (confirmed_has("slowok|" + lab)) { r.count("slow_with_large_value_completed"); continue; }
          if (confirmed_has("slowq|" + lab)) { r.count("slow_with_large_value_not_judged"); continue; }
          if (confirmed_has(o.kind + "|" + lab)) {
            r.count("abnormal_ends");
            r.count("abnormal_ends_at_confirmed_site_not_replayed");
            r.seen("outcomes", "abnormal:" + o.kind);
            r.violation(raw_sig(lab, o.kind, "", inq), detail_json(c, conf, o, NULL));
            continue;
          }
        }
        reset_workdir(wd);
        Outcome o2 = run_child([&]() { return child_body(conf, false); }, o.kind == "timeout" ? T_RETRY : T_CASE * 2,
                               RSS_CAP_MB);
        if (o2.kind == o.kind && o2.func == o.func) confirmed[okey]++;
        if (o2.kind == "timeout") {
          // the legitimately large value 10^6 may simply take long (e.g. a 10^7-bin grid written out): it is a
          // hang only if it does not end with ten times the limit either (thorough tier; not judged in quick)
          if (has_large) {
            if (!thorough) {
              r.count("slow_with_large_value_not_judged_in_quick");
              confirmed_add("slowq|" + lab);
              r.notes.push_back("slow with the large value, not judged in the quick tier: " + case_id(c));
              continue;
            }
            reset_workdir(wd);
            Outcome o3 = run_child([&]() { return child_body(conf, false); }, 10 * T_RETRY, RSS_CAP_MB);
            if (o3.kind == "ok") {
              r.count("slow_with_large_value_completed");
              confirmed_add("slowok|" + lab);
              r.notes.push_back("slow with the large value but completed in " + std::to_string((int) o3.secs) + " s: " + case_id(c));
              continue;
            }
            if (o3.kind == "timeout") {
              // work proportional to a 10^6-sized object that does not end within 400 s of CPU: large, not judged
              r.count("large_value_not_finished_in_400s_not_judged");
              confirmed_add("slowq|" + lab);
              r.notes.push_back("large value: not finished within " + std::to_string((int) (10 * T_RETRY)) + " s of CPU, not judged: " + case_id(c));
              continue;
            }
            o2 = o3;
          }
        }
        if (o2.kind == "ok") {
          r.count("abnormal_not_reproduced");
          r.notes.push_back("not reproduced on replay (" + o.kind + "): " + case_id(c));
          continue;
        }
        r.count("abnormal_ends");
        r.seen("outcomes", "abnormal:" + o2.kind);
        if (o2.kind == "timeout" || o2.kind == "rss-cap") confirmed_add(o2.kind + "|" + lab);
        r.violation(raw_sig(lab, o2.kind, o2.func, inq), detail_json(c, conf, o2, &o));
      }
    }, res, 7000);
  };

  // internal notes (prefix + tab) are taken out of the result
  auto take_notes = [&](std::string const &prefix) {
    std::vector<std::string> got, rest;
    for (auto const &n : total.notes) {
      if (n.rfind(prefix + "\t", 0) == 0) got.push_back(n);
      else rest.push_back(n);
    }
    total.notes = rest;
    return got;
  };
  std::set<size_t> rejected1, rejected1b;
  auto take_rejected = [&]() {
    for (auto const &n : take_notes("REJ")) {
      size_t a = n.find('\t'), b = n.find('\t', a + 1);
      std::string ph = n.substr(a + 1, b - a - 1);
      size_t idx = strtoul(n.c_str() + b + 1, NULL, 10);
      if (ph == "phase1") rejected1.insert(idx);
      else if (ph == "phase1b") rejected1b.insert(idx);
    }
  };
  if (NESTED_NOTE.size()) {
    std::string l;
    for (auto const &n : NESTED_NOTE) l += (l.size() ? ", " : "") + n;
    total.notes.push_back("blocks whose keyword registry the library never checks (nested components); registry of the same "
                          "object type taken from the other configurations: " + l);
  }
  // ---------------- phase 2 cases (thorough): pairs of divisor/size keywords ----------------
  std::vector<Case> cases2;
  if (thorough) {
    static const char *pv[] = {"0", "-1", "1000000"};
    std::set<std::string> seen;
    for (size_t bi = 0; bi < BASES.size(); bi++) {
      // single mutations (value class "0") of size keywords of this base, taken from the phase-1 list
      std::vector<Mut> sz;
      for (auto const &c : all_cases)
        if (c.base == (int) bi && c.muts.size() == 1 && c.muts[0].vclass == "0" && !c.muts[0].remove &&
            is_size_keyword(c.muts[0].kw) && !BLOCK_KEYS.count(c.muts[0].kw))
          sz.push_back(c.muts[0]);
      for (size_t i = 0; i < sz.size(); i++)
        for (size_t j = i + 1; j < sz.size(); j++) {
          // once per pair of (object type, keyword)
          std::string l1 = ctx_label(BASES[bi], sz[i].ctx), l2 = ctx_label(BASES[bi], sz[j].ctx);
          std::string key = l1 + ":" + sz[i].kw + "|" + l2 + ":" + sz[j].kw;
          if (!seen.insert(key).second) continue;
          for (auto a : pv)
            for (auto b : pv) {
              // 10^6 is paired with 0 only (a large size together with a zero divisor)
              if ((std::string(a) == "1000000" && std::string(b) != "0") ||
                  (std::string(b) == "1000000" && std::string(a) != "0")) continue;
              Case c;
              c.base = (int) bi;
              Mut m1 = sz[i], m2 = sz[j];
              m1.value = m1.vclass = a;
              m2.value = m2.vclass = b;
              c.muts.push_back(m1);
              c.muts.push_back(m2);
              cases2.push_back(c);
            }
        }
    }
  }
  bool exhaustive = true;
  fprintf(stderr, "bases: %zu, phase-1 cases: %zu, pair cases: %zu (setup %.1fs)\n", BASES.size(), cases.size(),
          cases2.size(), now() - t_start);
  // safety net: no new case is started after the tier's wall deadline, no phase after its start deadline
  queue_reset();
  double const hard_deadline = t_start + (thorough ? 1500.0 : 420.0);
  SH->deadline = hard_deadline;
  auto past_deadline = [&](char const *what) {
    if (now() < t_start + (thorough ? 1000.0 : 200.0)) return false;
    exhaustive = false;
    total.notes.push_back(std::string("deadline: ") + what + " not started");
    return true;
  };
  if (getenv("C10_COUNT_ONLY")) {
    std::map<std::string, long> per;
    for (auto const &c : cases) per[ctx_label(BASES[c.base], c.muts[0].ctx)]++;
    for (auto const &kv : per) fprintf(stderr, "  %-30s %ld\n", kv.first.c_str(), kv.second);
    return 0;
  }
  if (getenv("C10_LIMIT")) {
    size_t lim = strtoul(getenv("C10_LIMIT"), NULL, 10), stride = std::max<size_t>(1, cases.size() / std::max<size_t>(1, lim));
    std::vector<Case> k;
    for (size_t i = 0; i < cases.size(); i += stride) k.push_back(cases[i]);
    cases.swap(k);
    exhaustive = false;
    total.notes.push_back("C10_LIMIT set: development run on a subset");
  }
  if (cases.size())
    total.sample("{\"base\":\"" + jesc(BASES[cases[0].base].name) + "\",\"mutation\":\"" + jesc(case_label(cases[0])) +
                 "\",\"operations\":\"parse; 4 steps; state to string; output files; end of run; destroy module\",\"config\":\"" +
                 jesc(case_config(cases[0])) + "\"}");
  // ---------------- phase 0: listed invalid inputs (complete configurations; each in its own child) ----------------
  // Inputs that the keyword-by-keyword enumeration does not produce (a value that is only invalid in one place, or with one
  // other option).  Each must be refused with a message - never end the process, and not be accepted silently.
  {
    struct Listed { const char *name; std::string conf; };
    std::string g2 = " group2 {\n atomNumbers 10\n }\n";
    std::vector<Listed> listed = {
      {"atomNumbersRange-in-descending-order", "colvar {\n name d\n distance {\n group1 {\n atomNumbersRange 5-1\n }\n" + g2 + " }\n}\n"},
      {"atomNumbersRange-in-descending-order-after-atomNumbers", "colvar {\n name d\n distance {\n group1 {\n atomNumbers 7 8\n atomNumbersRange 5-1\n }\n" + g2 + " }\n}\n"},
      {"atomNumbersRange-in-descending-order-by-one", "colvar {\n name d\n distance {\n group1 {\n atomNumbers 7 8\n atomNumbersRange 3-2\n }\n" + g2 + " }\n}\n"},
      {"rmsd-two-reference-positions-for-four-atoms-with-atomPermutation",
       "colvar {\n name r\n rmsd {\n atoms {\n atomNumbers 1 2 3 4\n }\n refPositions (0.0, 0.0, 0.0) (1.0, 0.0, 0.0)\n atomPermutation 4 3 2 1\n }\n}\n"},
      {"variable-timeStepFactor-0-with-extendedLagrangian",
       "colvar {\n name d\n timeStepFactor 0\n extendedLagrangian on\n extendedFluctuation 0.2\n extendedTimeConstant 100.0\n extendedTemp 300.0\n distance {\n group1 {\n atomNumbers 1 2\n }\n" + g2 +
       " }\n}\nharmonic {\n colvars d\n centers 5.0\n forceConstant 1.0\n}\n"},
      // valid inputs that size an internal array from a quantity that can be zero (run under the address sanitizer)
      {"valid:coordNum-with-a-dummy-group2-and-a-pair-list",
       "colvar {\n name c\n coordNum {\n cutoff 4.0\n tolerance 0.01\n pairListFrequency 2\n group1 {\n atomNumbers 1 2 3 4 5 6 7 8 9 10 11 12\n }\n group2 {\n dummyAtom (1.0, 2.0, 3.0)\n }\n }\n}\nharmonic {\n colvars c\n centers 3.0\n forceConstant 1.0\n}\n"},
      {"valid:selfCoordNum-of-two-atoms-with-a-pair-list",
       "colvar {\n name c\n selfCoordNum {\n cutoff 4.0\n tolerance 0.01\n pairListFrequency 2\n group1 {\n atomNumbers 1 2\n }\n }\n}\nharmonic {\n colvars c\n centers 3.0\n forceConstant 1.0\n}\n"},
      {"colvarsTrajFrequency-2^61", "colvarsTrajFrequency 2305843009213693952\ncolvar {\n name d\n distance {\n group1 {\n atomNumbers 1 2\n }\n" + g2 + " }\n}\n"},
    };
    for (auto const &li : listed) {
      total.count("evaluations");
      total.count("phase0_listed_inputs");
      std::string conf = li.conf;
      Outcome o = run_child([&]() { return child_body(conf, false); }, T_RETRY, RSS_CAP_MB);
      total.seen("nontrivial", fnv(std::string("listed") + li.name));
      std::string det = "{\"listed_input\":\"" + std::string(li.name) + "\",\"config\":\"" + jesc(conf) + "\"";
      if (o.kind != "ok") {
        total.violation(std::string("C10:listed:") + li.name + ":" + o.kind, det + ",\"end\":\"" + jesc(o.kind) + "\",\"report_tail\":\"" + jesc(o.report.substr(o.report.size() > 600 ? o.report.size() - 600 : 0)) + "\"}");
        continue;
      }
      // "RC <parse> ..." first line of the child's answer
      int prc = -1;
      { size_t pz = o.out.find("RC "); if (pz != std::string::npos) prc = atoi(o.out.c_str() + pz + 3); }
      if (prc == 0 && std::string(li.name) != "colvarsTrajFrequency-2^61" && std::string(li.name).rfind("valid:", 0) != 0)
        total.violation(std::string("C10:listed:") + li.name + ":accepted-without-an-error", det + "}");
    }
  }
  if (!run_cases(cases, "phase1", total)) return 2;
  double t1 = now();
  fprintf(stderr, "phase1: %zu cases in %.1fs\n", cases.size(), t1 - t_start);

  // ---------------- phase 1b: one closure level over newly readable keywords ----------------
  std::vector<Case> cases1b;
  {
    take_rejected();
    std::set<std::string> done;
    std::vector<std::string> discs = take_notes("DISC");
    std::sort(discs.begin(), discs.end());
    // group: revealing case -> ctx -> new keywords; one revealing case per (base, ctx, keyword)
    std::map<size_t, std::map<std::string, std::set<std::string>>> by_case;
    // choose the smallest case index per (base, ctx, kw)
    std::map<std::string, size_t> first;
    for (auto const &d : discs) {
      std::istringstream is(d);
      std::string tag, idx, ctx, kw;
      std::getline(is, tag, '\t'); std::getline(is, idx, '\t'); std::getline(is, ctx, '\t'); std::getline(is, kw, '\t');
      size_t ci = strtoul(idx.c_str(), NULL, 10);
      std::string key = std::to_string(cases[ci].base) + "|" + ctx + "|" + kw;
      if (!first.count(key) || ci < first[key]) first[key] = ci;
    }
    std::set<std::string> newkw;
    for (auto const &f : first) {
      std::string key = f.first;
      size_t p1 = key.find('|'), p2 = key.find('|', p1 + 1);
      std::string ctx = key.substr(p1 + 1, p2 - p1 - 1), kw = key.substr(p2 + 1);
      // one revealing case per (object type, keyword)
      std::string dk = ctx_label(BASES[cases[f.second].base], ctx) + "|" + kw;
      if (!done.insert(dk).second) continue;
      by_case[f.second][ctx].insert(kw);
      newkw.insert(ctx_label(BASES[cases[f.second].base], ctx) + ":" + kw);
    }
    total.count("keywords_discovered_under_mutation", (long) newkw.size());
    for (auto const &bc : by_case) {
      Case const &rev = cases[bc.first];
      Node t = BASES[rev.base].tree;
      for (auto const &m : rev.muts) apply(t, m);  // not dropped: indices as in the base, inserted kids at the end
      for (auto const &cx : bc.second) {
        // block with this context: the one on the revealing path, else the first in document order
        std::vector<int> path, best;
        bool found = false;
        std::function<void(Node &)> rec = [&](Node &n) {
          if (ctx_of(n.key) == cx.first) {
            bool on_path = path.size() <= rev.muts[0].path.size() &&
                           std::equal(path.begin(), path.end(), rev.muts[0].path.begin());
            if (!found || on_path) { best = path; found = true; }
          }
          for (size_t j = 0; j < n.kids.size(); j++)
            if (n.kids[j].block && n.kids[j].key.size()) {
              path.push_back((int) j);
              rec(n.kids[j]);
              path.pop_back();
            }
        };
        rec(t);
        if (!found) continue;
        // temporarily extend the registry of the base so enum_block accepts the new keywords
        Base &b = BASES[rev.base];
        std::set<std::string> saved = b.kw[cx.first];
        b.kw[cx.first].insert(cx.second.begin(), cx.second.end());
        Node *blk = walk(t, best);
        // keys inserted by the revealing mutation are "present" in t but not in the base tree: enumerate against
        // the base block (kid indices must refer to the base) and skip the revealing keyword itself
        Node *bblk = walk(b.tree, best);
        std::set<std::string> only = cx.second;
        for (auto const &m : rev.muts) { only.erase(m.kw); if (m.two) only.erase(m.kw2); }
        (void) blk;
        enum_block(rev.base, *bblk, best, thorough, cases1b, &only, &rev.muts);
        b.kw[cx.first] = saved;
      }
    }
  }
  if (cases1b.size()) {
    if (!run_cases(cases1b, "phase1b", total)) return 2;
    // second-level discoveries are only counted
    take_rejected();
    long d2 = (long) take_notes("DISC").size();
    total.count("keywords_seen_only_at_closure_level_2_not_enumerated", d2);
  }
  double t2 = now();
  fprintf(stderr, "phase1b: %zu cases in %.1fs\n", cases1b.size(), t2 - t1);

  double t3 = now();
  // ---------------- phase 3: reject-then-continue sequences ----------------
  if (!past_deadline("phase 3 (sequences)")) {
    std::vector<SeqA> As = seqA();
    if (!thorough) As.resize(1);
    // B candidates: every phase-1/1b case whose configuration was rejected with a normal return
    // (quick: the first rejected value class per object type and keyword, after A1;
    //  thorough: every rejected value class per object type and keyword, A1..A3 in rotation)
    std::vector<Case> bs;
    {
      std::set<std::string> seenB;
      auto takeB = [&](Case const &c) {
        Mut const &m = c.muts.back();
        std::string k = ctx_label(BASES[c.base], m.ctx) + ":" + m.kw;
        if (thorough) k += "=" + m.vclass;
        if (!seenB.insert(k).second) return;
        bs.push_back(c);
      };
      for (size_t i : rejected1) takeB(cases[i]);
      for (size_t i : rejected1b) takeB(cases1b[i]);
    }
    total.count("rejected_configurations", (long) (rejected1.size() + rejected1b.size()));
    // one B per distinct (prelude, B) text
    std::vector<std::pair<std::string, std::string>> parts(bs.size());
    std::vector<size_t> order;
    {
      std::set<uint64_t> seen;
      for (size_t i = 0; i < bs.size(); i++) {
        seq_parts(bs[i], parts[i].first, parts[i].second);
        if (parts[i].second.empty()) continue;  // "absent" of a whole top-level object: nothing to submit
        if (seen.insert(fnv(parts[i].first + "\x01" + parts[i].second)).second) order.push_back(i);
      }
    }
    size_t const nA = 1;
    Result r3;
    queue_reset();
    bool ok = run_sharded(args.jobs, [&](int shard, int nsh, Result &r) {
      std::string wd = scratch + "/w" + std::to_string(shard);
      reset_workdir(wd);
      if (chdir(wd.c_str())) harness_error("chdir " + wd);
      for (size_t q; (q = (size_t) queue_take(order.size() * nA)) < order.size() * nA;) {
        size_t i = order[q / nA];
        SeqA const &A = As[q % As.size()];
        Case const &c = bs[i];
        reset_workdir(wd);
        Outcome o = run_child([&]() { return seq_child(A, parts[i].first, parts[i].second); }, T_CASE * 2, RSS_CAP_MB);
        r.count("evaluations");
        r.count("phase3_sequences");
        std::string lab = case_label(c);
        std::string verdict, line;
        std::istringstream is(o.out);
        std::string Rtxt, Ttxt, errB;
        while (std::getline(is, line)) {
          if (line.rfind("VERDICT ", 0) == 0) verdict = line.substr(8);
          else if (line.rfind("R ", 0) == 0) Rtxt = line.substr(2);
          else if (line.rfind("T ", 0) == 0) Ttxt = line.substr(2);
          else if (line.rfind("ERRB ", 0) == 0) errB = line.substr(5);
        }
        auto det = [&](std::string const &what) {
          return "{\"base\":\"" + jesc(BASES[c.base].name) + "\",\"mutation\":\"" + jesc(lab) + "\",\"A\":\"" + A.name +
                 "\",\"sequence\":\"config A+prelude; step 0; config B; step 1; config C; step 2\",\"observed\":\"" +
                 jesc(what) + "\",\"A_config\":\"" + jesc(A.conf) + "\",\"prelude\":\"" + jesc(parts[i].first) +
                 "\",\"B\":\"" + jesc(parts[i].second) + "\",\"B_error\":\"" + errB + "\",\"C\":\"" + jesc(SEQ_C) +
                 "\",\"without_B\":\"" + Rtxt + "\",\"with_B\":\"" + Ttxt + "\",\"end\":\"" + jesc(o.kind) +
                 "\",\"site\":\"" + jesc(o.site) + "\",\"report\":\"" + jesc(o.report.substr(0, 2000)) + "\"}";
        };
        if (o.kind != "ok") {
          // crash in the sequence: replay once
          reset_workdir(wd);
          Outcome o2 = run_child([&]() { return seq_child(A, parts[i].first, parts[i].second); },
                                 o.kind == "timeout" ? T_RETRY : T_CASE * 2, RSS_CAP_MB);
          if (o2.kind == "ok") { r.count("abnormal_not_reproduced"); continue; }
          r.count("seq_abnormal_ends");
          r.seen("nontrivial", "seq|" + A.name + "|" + case_id(c));
          r.violation(raw_sig(lab, o2.kind, o2.func, !thorough), det(o2.kind));
          continue;
        }
        if (verdict.empty()) { r.violation(raw_sig(lab, "seq:child-report-missing", "", !thorough), det("no verdict")); continue; }
        r.count("seq_" + verdict.substr(0, verdict.find(' ')));
        if (verdict == "harness-A-failed" || verdict == "harness-C-failed")
          harness_error("sequence configuration A/C not accepted: " + A.name);
        if (verdict == "accepted" || verdict == "prelude-failed") continue;
        r.count("transitions", 6);
        r.seen("nontrivial", "seq|" + A.name + "|" + case_id(c));
        r.seen("states", Ttxt.size() ? Ttxt : A.name + "|same");
        if (verdict == "same") {
          if (r.samples.size() < 3 && q % 337 == 5)
            r.sample("{\"sequence\":\"A=" + A.name + "; step; B=" + jesc(lab) + " of " + jesc(BASES[c.base].name) +
                     " (rejected: " + errB.substr(0, 120) + "); step; C; step\",\"end\":\"identical to the run without B\"}");
          continue;
        }
        std::string what = verdict.substr(0, verdict.find(' '));
        // known mechanism (C13): deleting a bias, here the rejected one, releases the only reference to its
        // variables' "active" feature.  All occurrences, whatever the bias type and keyword, are one signature.
        Mut const &mb = c.muts.back();
        bool b_is_bias = !mb.path.empty() && lower(BASES[c.base].tree.kids[mb.path[0]].key) != "colvar";
        if (what == "survivor-deactivated" && b_is_bias) what = "survivor-deactivated-after-rejected-bias";
        r.violation(raw_sig(lab, "seq:" + what, "", !thorough), det(verdict));
      }
    }, r3, 7000);
    if (!ok) return 2;
    total.merge(r3);
    fprintf(stderr, "phase3: %zu sequences in %.1fs\n", order.size() * nA, now() - t3);
  }

  double t4 = now();
  // ---------------- phase 2 (thorough): pairs of divisor/size keywords ----------------
  if (thorough && !past_deadline("phase 2 (pairs)")) {
    if (!run_cases(cases2, "phase2_pairs", total)) return 2;
    take_notes("DISC");
    take_notes("REJ");
  }
  double t3b = now();
  fprintf(stderr, "phase2: %zu cases in %.1fs\n", cases2.size(), t3b - t4);

  if (SH->cut > 0) {
    exhaustive = false;
    total.notes.push_back("deadline: " + std::to_string(SH->cut) + " cases were not started");
  }
  total.notes.push_back("per-case limits: " + std::to_string((int) T_CASE) + " s CPU time of the child (replayed with " +
                        std::to_string((int) T_RETRY) + " s before it is called a hang; wall limit 20x), " + std::to_string(RSS_CAP_MB) +
                        " MB resident (polled by the parent), 1024 MB per single allocation (ASan max_allocation_size_mb; "
                        "RLIMIT_AS is unusable under ASan)");
  total.notes.push_back("SIGFPE = integer division/modulo by zero, caught by UBSan in this build; every abnormal end was "
                        "replayed once in a fresh child before being reported");
  group_findings(total);
  // the example written out for a finding must itself have been replayed
  {
    reset_workdir(wd0);
    if (chdir(wd0.c_str())) harness_error("chdir " + wd0);
    for (auto &v : total.violations) {
      if (v.detail.find("\"replayed_end\"") != std::string::npos || v.detail.find("\"sequence\"") != std::string::npos) continue;
      size_t p = v.detail.find("\"config\":\"");
      if (p == std::string::npos) continue;
      size_t q = p + 10, e = v.detail.rfind("\"}");
      if (e == std::string::npos || e <= q) continue;
      std::string conf = Result::junesc(v.detail.substr(q, e - q));
      reset_workdir(wd0);
      Outcome o = run_child([&]() { return child_body(conf, false); }, T_RETRY, RSS_CAP_MB);
      v.detail = "{\"replayed_end\":\"" + jesc(o.kind) + "\",\"replayed_site\":\"" + jesc(o.site) + "\"," + v.detail.substr(1);
      total.count("final_example_replays");
      if (o.kind == "ok") total.notes.push_back("WARNING: example of " + v.sig + " did not reproduce in the final replay");
    }
  }
  for (auto const &kv : total.counters) fprintf(stderr, "  %-50s %ld\n", kv.first.c_str(), kv.second);
  for (auto const &kv : total.distinct) fprintf(stderr, "  distinct %-41s %zu\n", kv.first.c_str(), kv.second.size());
  for (auto const &kv : total.viol_count) fprintf(stderr, "  VIOL %-60s %ld\n", kv.first.c_str(), kv.second);
  write_result(args.out.size() ? args.out : "c10.raw.json", "C10", args.tier, total, exhaustive);
  return 0;
}
