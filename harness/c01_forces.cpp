// C01 — the forces Colvars hands to the engine are minus the gradient of the energy it reports.
//
// Explorer E (bounded-exhaustive product): component type x atom-group option x combination x bias x
// geometry x cell.  Oracle: for every atom Colvars requested from the engine and every axis,
//   fapp[atom][axis] + dE/dx[atom][axis] == 0
// with dE/dx from central finite differences at two step sizes (h, h/2; Richardson).  Every FD point is a
// FRESH module replaying the same history at fixed earlier coordinates, so history-dependent biases are
// frozen by construction.  Atoms Colvars never requested cannot influence the energy (the engine simulator
// never shows their coordinates to the library) and must receive no force: checked directly.
// No reference implementation of any component is needed; nothing is shared with /repo/src.
#include "vproxy.h"
#include "common.h"
#include <algorithm>
#include <fstream>

using namespace vc;

// ------------------------------------------------------------------------------------------------
// own 3-vector arithmetic
// ------------------------------------------------------------------------------------------------
struct V3 { double x = 0, y = 0, z = 0; };
static V3 operator+(V3 a, V3 b) { return V3{a.x + b.x, a.y + b.y, a.z + b.z}; }
static V3 operator-(V3 a, V3 b) { return V3{a.x - b.x, a.y - b.y, a.z - b.z}; }
static V3 operator*(double s, V3 a) { return V3{s * a.x, s * a.y, s * a.z}; }
static double dot(V3 a, V3 b) { return a.x * b.x + a.y * b.y + a.z * b.z; }
static V3 cross(V3 a, V3 b) { return V3{a.y * b.z - a.z * b.y, a.z * b.x - a.x * b.z, a.x * b.y - a.y * b.x}; }
static double norm(V3 a) { return std::sqrt(dot(a, a)); }
static double &comp(V3 &a, int k) { return k == 0 ? a.x : (k == 1 ? a.y : a.z); }
static double compc(V3 const &a, int k) { return k == 0 ? a.x : (k == 1 ? a.y : a.z); }
// Rodrigues rotation of v about unit(axis) by ang
static V3 rot_axis(V3 v, V3 axis, double ang)
{
  V3 k = (1.0 / norm(axis)) * axis;
  double c = std::cos(ang), s = std::sin(ang);
  return c * v + s * cross(k, v) + (dot(k, v) * (1 - c)) * k;
}
static std::string f17(double v)
{
  char b[40];
  snprintf(b, 40, "%.17g", v);
  return b;
}
static std::string v3txt(V3 a) { return "( " + f17(a.x) + " , " + f17(a.y) + " , " + f17(a.z) + " )"; }

// ------------------------------------------------------------------------------------------------
// alphabets of reals: 16 generic points, three geometries, two reference sets, masses, charges
// ------------------------------------------------------------------------------------------------
static const int NMAX = 16;
static const double BASE[NMAX][3] = {
  {3.818, 0.538, 1.014}, {6.175, 2.971, 1.253}, {2.088, 1.506, 3.784}, {4.484, 0.498, 5.042},
  {1.505, 0.198, 6.265}, {4.372, 3.487, 2.126}, {0.422, 2.251, 2.391}, {2.087, -0.058, 3.698},
  {4.161, 3.631, 5.257}, {1.650, 1.876, 0.806}, {4.740, 1.723, 2.750}, {4.945, -1.142, 4.323},
  {1.781, 2.686, 4.752}, {4.644, -0.553, 2.371}, {2.052, -0.806, 0.727}, {3.176, 2.605, 2.725}};
static const double MASS[NMAX] = {12.011, 1.008, 15.999, 14.007, 32.06, 1.008, 12.011, 30.974,
                                  15.999, 14.007, 12.011, 1.008, 35.45, 22.99, 12.011, 15.999};
static const double CHARGE[NMAX] = {-0.41, 0.27, 0.13, -0.62, 0.35, 0.09, -0.18, 0.52,
                                    -0.33, 0.21, 0.44, -0.15, -0.27, 0.31, 0.08, -0.29};
static const double BOX[3] = {20.0, 23.0, 26.0};

// deterministic small displacement field (amplitude amp) used to derive geometries from BASE
static V3 jitter(int tag, int atom, double amp)
{
  return V3{amp * std::sin(1.7 * tag + 2.3 * atom + 0.5), amp * std::sin(2.9 * tag + 1.3 * atom + 1.9),
            amp * std::sin(0.7 * tag + 3.1 * atom + 4.2)};
}
static V3 basept(int i) { return V3{BASE[i][0], BASE[i][1], BASE[i][2]}; }
static const V3 CENTER{3.2, 1.4, 3.3};

// geometry g in {0,1,2}; tags 10/11: reference sets A (group fit) and B (component reference)
static V3 geom_point(int g, int i)
{
  V3 p = basept(i);
  switch (g) {
  case 0: return p;
  case 1: return CENTER + rot_axis(p + jitter(13, i, 0.5) - CENTER, V3{0.3, -0.5, 0.8}, 0.7) + V3{0.4, -0.3, 0.2};
  case 2: return CENTER + rot_axis(p + jitter(26, i, 0.8) - CENTER, V3{-0.6, 0.2, 0.4}, 1.9) + V3{-0.5, 0.6, 0.1};
  case 10: return CENTER + rot_axis(p + jitter(24, i, 0.4) - CENTER, V3{0.5, 0.7, -0.2}, 1.2) + V3{0.2, 0.1, -0.3};
  case 11: return CENTER + rot_axis(p + jitter(9, i, 0.45) - CENTER, V3{-0.2, 0.4, 0.9}, -0.9) + V3{-0.1, 0.3, 0.2};
  // path frames (Cartesian path components): a smooth sequence around geometry 0
  case 20: return p + jitter(35, i, 0.6);
  case 21: return p + jitter(5, i, 0.25);
  case 22: return p + jitter(52, i, 0.7);
  }
  return p;
}

// lattice shifts that split groups across the cell boundary (cell variant)
static V3 cell_shift(int i)
{
  V3 s;
  if (i % 3 == 1) s.x += BOX[0];
  if (i % 4 == 2) s.y -= BOX[1];
  if (i % 5 == 3) s.z += BOX[2];
  if (i % 7 == 0) s.x -= BOX[0];
  return s;
}

// ------------------------------------------------------------------------------------------------
// component alphabet
// ------------------------------------------------------------------------------------------------
enum Opt { O_PLAIN, O_MASS, O_DUMMY, O_CENTER, O_ROTATE, O_BOTH, O_FITGRP, O_FITGRP_NOGRAD, O_BOTH_G1, N_OPT };
static const char *OPTN[N_OPT] = {"plain", "masses", "dummy2", "center", "rotate", "center+rotate",
                                  "fittingGroup", "fittingGroup/noFitGradients", "center+rotate(group2)"};
enum Comb { K_SINGLE, K_COEFF, K_EXP2, K_EXP3, K_SUM, N_COMB };
static const char *COMBN[N_COMB] = {"single", "coeff-2.5", "exp2", "exp3", "sum2"};
enum Bias { B_HARM, B_WALL_IN, B_WALL_LO, B_WALL_UP, B_LINEAR, B_HISTO, B_ABMD, B_ABMD_OFF, B_META, B_OPES, B_HISTO2, N_BIAS };
static const char *BIASN[N_BIAS] = {"harmonic", "harmonicWalls/inside", "harmonicWalls/below", "harmonicWalls/above",
                                    "linear", "histogramRestraint", "abmd/active", "abmd/inactive",
                                    "metadynamics/nogrid", "opes_metad", "histogramRestraint/two-variables"};
static const int N_GEOM = 3, N_CELL = 2;

enum VType { T_SCALAR, T_VEC3, T_UNIT, T_QUAT, T_VECTOR };
static const char *VTN[] = {"scalar", "3vector", "unit3vector", "quaternion", "vector"};

struct CompDef {
  std::string id;                        // unique name in the alphabet
  VType vt;
  int nsys;                              // atoms in the engine system (13 generic, 16 alpha)
  std::string tmpl;                      // component block; @G<k>@ = body of group k, @OPTS@ = coeff/exp lines,
                                         // @REFB:<k>@ = refPositions of group k from set B, @FITATOMS@ (paths)
  std::vector<std::vector<int>> groups;  // atom numbers (1-based) of each group; group 0 = main, group 1 = second
  bool fit_ok;                           // centre/rotate options applicable to group 0
  bool dummy_ok;                         // second group may be a dummyAtom
  bool fit1_ok;                          // centre/rotate applicable to group 1
  bool plain_excluded;                   // eigenvector: default self-fit excluded by documentation
  bool cart_path;                        // Cartesian path components: fit handled through fittingAtoms
  int self_hist;                         // preceding steps the component itself needs (pair lists)
};

static const std::vector<int> FITGRP = {9, 10, 11, 12};

static std::string nums(std::vector<int> const &a)
{
  std::string s;
  for (int i : a) s += " " + std::to_string(i);
  return s;
}

static std::vector<CompDef> build_components()
{
  std::vector<CompDef> C;
  auto add = [&](std::string id, VType vt, std::string tmpl, std::vector<std::vector<int>> groups, bool fit_ok,
                 bool dummy_ok, bool fit1_ok = true) {
    CompDef c;
    c.id = id; c.vt = vt; c.nsys = 13; c.tmpl = tmpl; c.groups = groups; c.fit_ok = fit_ok; c.dummy_ok = dummy_ok;
    c.fit1_ok = fit1_ok && groups.size() > 1; c.plain_excluded = false; c.cart_path = false; c.self_hist = 0;
    C.push_back(c);
    return &C.back();
  };
  // groups that may be fitted by an optimal rotation have >= 3 atoms (two atoms leave the rotation degenerate: documented singular case)
  std::vector<int> A = {1, 2, 3}, B = {4, 5, 6}, Cg = {7, 8}, A4 = {1, 2, 3, 4}, B3 = {4, 5, 6};
  std::string g12 = "group1 {\n@G0@}\ngroup2 {\n@G1@}\n";
  add("distance", T_SCALAR, "distance {\n@OPTS@" + g12 + "}\n", {A, B}, true, true);
  add("distanceVec", T_VEC3, "distanceVec {\n@OPTS@" + g12 + "}\n", {A, B}, true, true);
  add("distanceVec/forceNoPBC", T_VEC3, "distanceVec {\n@OPTS@forceNoPBC on\n" + g12 + "}\n", {A, B}, true, true);
  add("distanceDir", T_UNIT, "distanceDir {\n@OPTS@" + g12 + "}\n", {A, B}, true, true);
  add("distanceZ", T_SCALAR, "distanceZ {\n@OPTS@axis ( 0.3 , -0.5 , 0.8 )\nmain {\n@G0@}\nref {\n@G1@}\n}\n", {A, B}, true, true);
  add("distanceZ/ref2", T_SCALAR, "distanceZ {\n@OPTS@main {\n@G0@}\nref {\n@G1@}\nref2 {\n@G2@}\n}\n", {A, B, Cg}, true, true);
  add("distanceXY", T_SCALAR, "distanceXY {\n@OPTS@axis ( 0.3 , -0.5 , 0.8 )\nmain {\n@G0@}\nref {\n@G1@}\n}\n", {A, B}, true, true);
  add("distanceXY/ref2", T_SCALAR, "distanceXY {\n@OPTS@main {\n@G0@}\nref {\n@G1@}\nref2 {\n@G2@}\n}\n", {A, B, Cg}, true, true);
  add("polarTheta", T_SCALAR, "polarTheta {\n@OPTS@atoms {\n@G0@}\n}\n", {A}, true, false);
  add("polarPhi", T_SCALAR, "polarPhi {\n@OPTS@atoms {\n@G0@}\n}\n", {A}, true, false);
  add("distanceInv", T_SCALAR, "distanceInv {\n@OPTS@exponent 6\n" + g12 + "}\n", {A, B}, true, false);
  add("distancePairs", T_VECTOR, "distancePairs {\n@OPTS@" + g12 + "}\n", {A, B}, true, false);
  add("dipoleMagnitude", T_SCALAR, "dipoleMagnitude {\n@OPTS@atoms {\n@G0@}\n}\n", {A4}, true, false);
  add("cartesian", T_VECTOR, "cartesian {\n@OPTS@atoms {\n@G0@}\n}\n", {A}, true, false);
  add("coordNum", T_SCALAR, "coordNum {\n@OPTS@cutoff 3.5\n" + g12 + "}\n", {A, B3}, true, true);
  add("coordNum/aniso", T_SCALAR, "coordNum {\n@OPTS@cutoff3 ( 3.0 , 4.0 , 3.5 )\nexpNumer 4\nexpDenom 8\n" + g12 + "}\n", {A, B3}, true, true);
  add("coordNum/group2CenterOnly", T_SCALAR, "coordNum {\n@OPTS@cutoff 3.5\ngroup2CenterOnly on\n" + g12 + "}\n", {A, B3}, true, true);
  add("coordNum/pairlist", T_SCALAR, "coordNum {\n@OPTS@cutoff 3.5\ntolerance 0.01\npairListFrequency 2\n" + g12 + "}\n", {A, B3}, true, true)->self_hist = 1;
  add("selfCoordNum", T_SCALAR, "selfCoordNum {\n@OPTS@cutoff 3.2\ngroup1 {\n@G0@}\n}\n", {A4}, true, false);
  add("selfCoordNum/pairlist", T_SCALAR, "selfCoordNum {\n@OPTS@cutoff 3.2\ntolerance 0.01\npairListFrequency 2\ngroup1 {\n@G0@}\n}\n", {A4}, true, false)->self_hist = 1;
  // the same two evaluated on a step that REBUILDS the list (no preceding step)
  add("coordNum/pairlist-on-a-rebuild-step", T_SCALAR, "coordNum {\n@OPTS@cutoff 3.5\ntolerance 0.01\npairListFrequency 2\n" + g12 + "}\n", {A, B3}, true, true);
  add("selfCoordNum/pairlist-on-a-rebuild-step", T_SCALAR, "selfCoordNum {\n@OPTS@cutoff 3.2\ntolerance 0.01\npairListFrequency 2\ngroup1 {\n@G0@}\n}\n", {A4}, true, false);
  add("groupCoord", T_SCALAR, "groupCoord {\n@OPTS@cutoff 3.5\n" + g12 + "}\n", {A, B3}, true, false);
  add("groupCoord/aniso", T_SCALAR, "groupCoord {\n@OPTS@cutoff3 ( 3.0 , 4.0 , 3.5 )\n" + g12 + "}\n", {A, B3}, true, false);
  add("angle", T_SCALAR, "angle {\n@OPTS@group1 {\n@G0@}\ngroup2 {\n@G1@}\ngroup3 {\n@G2@}\n}\n", {A, B, Cg}, true, true);
  add("dipoleAngle", T_SCALAR, "dipoleAngle {\n@OPTS@group1 {\n@G0@}\ngroup2 {\n@G1@}\ngroup3 {\n@G2@}\n}\n", {A, B, Cg}, true, true);
  add("dihedral", T_SCALAR, "dihedral {\n@OPTS@group1 {\n@G0@}\ngroup2 {\n@G1@}\ngroup3 {\n@G2@}\ngroup4 {\n@G3@}\n}\n",
      {A, B, {7}, {8}}, true, true);
  // periodic components with a non-default centre of the wrapping interval (values and differences are reduced to
  // different images when wrapAround is not zero)
  add("dihedral/wrapAround180", T_SCALAR, "dihedral {\n@OPTS@wrapAround 180.0\ngroup1 {\n@G0@}\ngroup2 {\n@G1@}\ngroup3 {\n@G2@}\ngroup4 {\n@G3@}\n}\n",
      {A, B, {7}, {8}}, true, true);
  add("dihedral/wrapAround-120", T_SCALAR, "dihedral {\n@OPTS@wrapAround -120.0\ngroup1 {\n@G0@}\ngroup2 {\n@G1@}\ngroup3 {\n@G2@}\ngroup4 {\n@G3@}\n}\n",
      {A, B, {7}, {8}}, true, true);
  add("distanceZ/period+wrapAround", T_SCALAR, "distanceZ {\n@OPTS@axis ( 0.3 , -0.5 , 0.8 )\nperiod 5.0\nwrapAround 2.5\nmain {\n@G0@}\nref {\n@G1@}\n}\n", {A, B}, true, true);
  add("hBond", T_SCALAR, "hBond {\n@OPTS@acceptor 1\ndonor 8\ncutoff 3.3\n}\n", {}, false, false);
  {
    CompDef *a = add("alpha", T_SCALAR, "alpha {\n@OPTS@prefix alpha_\n}\n", {}, false, false);
    a->nsys = 16;
    a = add("alpha/hBondCoeff0.3", T_SCALAR, "alpha {\n@OPTS@prefix alpha_\nhBondCoeff 0.3\n}\n", {}, false, false);
    a->nsys = 16;
  }
  add("dihedralPC", T_SCALAR, "dihedralPC {\n@OPTS@prefix dihed_\nvector 0.3 -0.5 0.7 0.2\n}\n", {}, false, false);
  std::string ori = "@OPTS@atoms {\n@G0@}\n@REFB:0@";
  add("orientation", T_QUAT, "orientation {\n" + ori + "}\n", {A4}, true, false);
  add("orientation/closestToQuaternion", T_QUAT, "orientation {\n" + ori + "closestToQuaternion ( -1.0 , 0.0 , 0.0 , 0.0 )\n}\n", {A4}, true, false);
  add("orientationAngle", T_SCALAR, "orientationAngle {\n" + ori + "}\n", {A4}, true, false);
  add("orientationProj", T_SCALAR, "orientationProj {\n" + ori + "}\n", {A4}, true, false);
  add("tilt", T_SCALAR, "tilt {\n" + ori + "axis ( 0.3 , -0.5 , 0.8 )\n}\n", {A4}, true, false);
  add("spinAngle", T_SCALAR, "spinAngle {\n" + ori + "axis ( 0.3 , -0.5 , 0.8 )\n}\n", {A4}, true, false);
  add("eulerPhi", T_SCALAR, "eulerPhi {\n" + ori + "}\n", {A4}, true, false);
  add("eulerPsi", T_SCALAR, "eulerPsi {\n" + ori + "}\n", {A4}, true, false);
  add("eulerTheta", T_SCALAR, "eulerTheta {\n" + ori + "}\n", {A4}, true, false);
  add("rmsd", T_SCALAR, "rmsd {\n" + ori + "}\n", {A4}, true, false);
  add("rmsd/atomPermutation", T_SCALAR, "rmsd {\n" + ori + "atomPermutation 2 1 3 4\n}\n", {A4}, true, false);
  add("gyration", T_SCALAR, "gyration {\n@OPTS@atoms {\n@G0@}\n}\n", {A4}, true, false);
  add("inertia", T_SCALAR, "inertia {\n@OPTS@atoms {\n@G0@}\n}\n", {A4}, true, false);
  add("inertiaZ", T_SCALAR, "inertiaZ {\n@OPTS@axis ( 0.3 , -0.5 , 0.8 )\natoms {\n@G0@}\n}\n", {A4}, true, false);
  add("eigenvector", T_SCALAR,
      "eigenvector {\n" + ori + "vector ( 0.5 , -0.2 , 0.1 ) ( -0.3 , 0.4 , 0.2 ) ( 0.1 , 0.3 , -0.6 ) ( -0.2 , -0.4 , 0.35 )\n}\n",
      {A4}, true, false)->plain_excluded = true;
  // Cartesian path components (three reference frames in XYZ files written by the harness)
  for (std::string k : {"aspath", "azpath", "gspath", "gzpath"}) {
    CompDef *p = add(k, T_SCALAR,
                     k + " {\n@OPTS@atoms {\n@G0@}\n@FITATOMS@refPositionsFile1 c01_frame1.xyz\nrefPositionsFile2 c01_frame2.xyz\n"
                         "refPositionsFile3 c01_frame3.xyz\n" + (k[0] == 'a' ? std::string("lambda 0.3\n") : std::string("")) + "}\n",
                     {A4}, false, false);
    p->cart_path = true;
  }
  // components that nest other components
  std::string sub = "distance {\nname s1\ncomponentCoeff 1.5\ngroup1 {\n@G0@}\ngroup2 {\n@G1@}\n}\n"
                    "angle {\nname s2\ncomponentCoeff 0.0004\ncomponentExp 2\ngroup1 {\n@G2@}\ngroup2 {\n@G3@}\ngroup3 {\n@G4@}\n}\n";
  std::vector<std::vector<int>> subg = {A, B, {1, 7}, {8}, {2, 6}};
  add("linearCombination", T_SCALAR, "linearCombination {\n@OPTS@" + sub + "}\n", subg, true, true);
  add("linearCombination/distanceVec", T_VEC3,
      "linearCombination {\n@OPTS@distanceVec {\nname s1\ncomponentCoeff 1.5\ngroup1 {\n@G0@}\ngroup2 {\n@G1@}\n}\n"
      "distanceVec {\nname s2\ncomponentCoeff -0.5\ngroup1 {\n@G2@}\ngroup2 {\n@G3@}\n}\n}\n",
      {A, B, {1, 7}, {8}}, true, true);
  // components that accumulate their gradients while computing the value, nested
  add("linearCombination/coordNum+distance", T_SCALAR,
      "linearCombination {\n@OPTS@coordNum {\nname s1\ncomponentCoeff 1.0\ncutoff 3.5\ngroup1 {\n@G0@}\ngroup2 {\n@G1@}\n}\n"
      "distance {\nname s2\ncomponentCoeff 0.5\ngroup1 {\n@G2@}\ngroup2 {\n@G3@}\n}\n}\n",
      {A, B, {1, 7}, {8}}, true, true);
  add("linearCombination/selfCoordNum+distance", T_SCALAR,
      "linearCombination {\n@OPTS@selfCoordNum {\nname s1\ncomponentCoeff 1.0\ncutoff 3.2\ngroup1 {\n@G0@}\n}\n"
      "distance {\nname s2\ncomponentCoeff 0.5\ngroup1 {\n@G1@}\ngroup2 {\n@G2@}\n}\n}\n",
      {A4, {5, 6, 7}, {8}}, true, false);
  add("neuralNetwork", T_SCALAR,
      "neuralNetwork {\n@OPTS@output_component 0\nlayer1_WeightsFile c01_nn_w1.txt\nlayer1_BiasesFile c01_nn_b1.txt\nlayer1_activation tanh\n"
      "layer2_WeightsFile c01_nn_w2.txt\nlayer2_BiasesFile c01_nn_b2.txt\nlayer2_activation linear\n" + sub + "}\n",
      subg, true, true);
  for (std::string k : {"aspathCV", "azpathCV", "gspathCV", "gzpathCV"})
    add(k, T_SCALAR, k + " {\n@OPTS@pathFile c01_cvpath.txt\n" + (k[0] == 'a' ? std::string("lambda 0.02\n") : std::string("")) + sub + "}\n",
        subg, true, true);
  add("aspathCV/distanceVec", T_SCALAR,
      "aspathCV {\n@OPTS@pathFile c01_cvpath_vec.txt\nlambda 0.02\ndistanceVec {\nname s1\ngroup1 {\n@G0@}\ngroup2 {\n@G1@}\n}\n}\n",
      {A, B}, true, true);
  return C;
}

// ------------------------------------------------------------------------------------------------
// engine system + configuration of one case
// ------------------------------------------------------------------------------------------------
struct Sys {
  int n = 0;
  std::vector<V3> x;                    // coordinates of the final (evaluated) step
  std::vector<std::vector<V3>> hist;    // coordinates of the preceding steps (frozen)
  std::vector<int> hist_id;             // which history geometry each preceding step uses
  std::vector<double> m, q;
  bool pbc = false;
};

struct Point {
  int rc_conf = 0, rc_step = 0;
  double E = 0;
  std::vector<V3> F;
  std::vector<char> req;       // atom requested by Colvars
  std::vector<double> val;     // value of colvar "c" at the final step (probe only)
  double period = 0;
  std::string err;
};

static std::vector<double> cv_components(colvarvalue const &v)
{
  std::vector<double> r;
  switch (v.type()) {
  case colvarvalue::type_scalar: r = {v.real_value}; break;
  case colvarvalue::type_3vector:
  case colvarvalue::type_unit3vector:
  case colvarvalue::type_unit3vectorderiv: r = {v.rvector_value.x, v.rvector_value.y, v.rvector_value.z}; break;
  case colvarvalue::type_quaternion:
  case colvarvalue::type_quaternionderiv:
    r = {v.quaternion_value.q0, v.quaternion_value.q1, v.quaternion_value.q2, v.quaternion_value.q3}; break;
  case colvarvalue::type_vector:
    for (size_t i = 0; i < v.vector1d_value.size(); i++) r.push_back(v.vector1d_value[i]);
    break;
  default: break;
  }
  return r;
}

static long g_modules = 0;

// One execution: fresh module, same configuration, same history, final step at coordinates xf.
static Point run_point(Sys const &s, std::string const &conf, std::vector<V3> const &xf, bool probe)
{
  Point p;
  g_modules++;
  vproxy *px = new vproxy(s.n);
  std::vector<V3> const &x0 = s.hist.size() ? s.hist[0] : xf;
  for (int i = 0; i < s.n; i++) {
    px->x[i] = cvm::rvector(x0[i].x, x0[i].y, x0[i].z);
    px->m[i] = s.m[i];
    px->q[i] = s.q[i];
  }
  px->set_target_temperature(300.0);
  px->set_cell(s.pbc, BOX[0], BOX[1], BOX[2]);
  p.rc_conf = px->config(conf);
  if (p.rc_conf != 0) {
    p.err = px->errtxt;
    delete px;
    return p;
  }
  long step = 0;
  for (size_t h = 0; h < s.hist.size(); h++, step++) {
    for (int i = 0; i < s.n; i++) px->x[i] = cvm::rvector(s.hist[h][i].x, s.hist[h][i].y, s.hist[h][i].z);
    p.rc_step |= px->step(step);
  }
  for (int i = 0; i < s.n; i++) px->x[i] = cvm::rvector(xf[i].x, xf[i].y, xf[i].z);
  p.rc_step |= px->step(step);
  p.err = px->errtxt;
  p.E = px->energy;
  p.F.resize(s.n);
  p.req.assign(s.n, 0);
  for (int i = 0; i < s.n; i++) p.F[i] = V3{px->fapp[i].x, px->fapp[i].y, px->fapp[i].z};
  for (size_t k = 0; k < px->atoms_ids.size(); k++) p.req[px->atoms_ids[k]] = 1;
  if (probe) {
    colvar *cv = px->cv("c");
    if (cv) {
      p.val = cv_components(cv->value());
      p.period = cv->is_enabled(colvardeps::f_cv_periodic) ? cv->period : 0.0;
    }
  }
  delete px;
  return p;
}

// ------------------------------------------------------------------------------------------------
// configuration text
// ------------------------------------------------------------------------------------------------
static void replace_all(std::string &s, std::string const &a, std::string const &b)
{
  size_t p = 0;
  while ((p = s.find(a, p)) != std::string::npos) { s.replace(p, a.size(), b); p += b.size(); }
}

static std::string refpos_line(std::vector<int> const &atoms, int set)
{
  std::string s = "refPositions";
  for (int a : atoms) s += " " + v3txt(geom_point(set, a - 1));
  return s + "\n";
}

static std::string fit_lines(Opt o, std::vector<int> const &atoms)
{
  std::string b;
  switch (o) {
  case O_CENTER: b += "centerToReference on\n" + refpos_line(atoms, 10); break;
  case O_ROTATE: b += "rotateToReference on\n" + refpos_line(atoms, 10); break;
  case O_BOTH:
  case O_BOTH_G1: b += "centerToReference on\nrotateToReference on\n" + refpos_line(atoms, 10); break;
  case O_FITGRP:
  case O_FITGRP_NOGRAD:
    b += "centerToReference on\nrotateToReference on\nfittingGroup {\natomNumbers" + nums(FITGRP) + "\n}\n" + refpos_line(FITGRP, 10);
    if (o == O_FITGRP_NOGRAD) b += "enableFitGradients off\n";
    break;
  default: break;
  }
  return b;
}

static std::string component_text(CompDef const &c, Opt o, std::string const &opts)
{
  std::string t = c.tmpl;
  replace_all(t, "@OPTS@", opts);
  for (size_t g = 0; g < c.groups.size(); g++) {
    std::string body;
    if (g == 1 && o == O_DUMMY) {
      body = "dummyAtom ( 2.7 , 1.9 , 4.4 )\n";
    } else {
      body = "atomNumbers" + nums(c.groups[g]) + "\n";
      if (!c.cart_path) {
        if (g == 0 && o != O_BOTH_G1) body += fit_lines(o, c.groups[g]);
        if (g == 1 && o == O_BOTH_G1) body += fit_lines(o, c.groups[g]);
      }
    }
    replace_all(t, "@G" + std::to_string(g) + "@", body);
    replace_all(t, "@REFB:" + std::to_string(g) + "@", refpos_line(c.groups[g], 11));
  }
  replace_all(t, "@FITATOMS@", (c.cart_path && o == O_FITGRP) ? "fittingAtoms {\natomNumbers" + nums(FITGRP) + "\n}\n" : "");
  return t;
}

static bool opt_valid(CompDef const &c, Opt o)
{
  if (o == O_PLAIN) return !c.plain_excluded;
  if (o == O_MASS) return !c.plain_excluded;
  if (c.cart_path) return o == O_FITGRP;
  if (o == O_DUMMY) return c.dummy_ok && c.groups.size() > 1;
  if (o == O_BOTH_G1) return c.fit1_ok;
  return c.fit_ok;
}

static bool comb_valid(CompDef const &c, Comb k)
{
  if (k == K_SINGLE) return true;
  if (c.vt == T_UNIT || c.vt == T_QUAT) return false;   // linear combinations leave the manifold: not meaningful
  if (k == K_SUM) return c.vt == T_SCALAR || c.vt == T_VEC3;
  return true;
}

static std::string colvar_text(CompDef const &c, Opt o, Comb k)
{
  std::string opts;
  if (k == K_COEFF) opts = "componentCoeff -2.5\n";
  if (k == K_EXP2) opts = "componentExp 2\n";
  if (k == K_EXP3) opts = "componentCoeff 0.7\ncomponentExp 3\n";
  if (k == K_SUM) opts = "componentCoeff 1.3\n";
  std::string t = "colvar {\nname c\n" + component_text(c, o, opts);
  if (k == K_SUM) {
    if (c.vt == T_SCALAR) t += "distance {\ncomponentCoeff 0.5\ngroup1 {\natomNumbers 2\n}\ngroup2 {\natomNumbers 7\n}\n}\n";
    else t += "distanceVec {\ncomponentCoeff 0.5\ngroup1 {\natomNumbers 2\n}\ngroup2 {\natomNumbers 7\n}\n}\n";
  }
  return t + "}\n";
}

static std::string cvtxt(std::vector<double> const &v, VType vt)
{
  if (vt == T_SCALAR) return f17(v[0]);
  std::string s = "(";
  for (size_t i = 0; i < v.size(); i++) s += std::string(i ? " ," : "") + " " + f17(v[i]);
  return s + " )";
}

struct BiasPlan {
  std::string text;
  int nhist = 0;         // preceding steps the bias needs
  bool expect_zero = false;  // configured so that the energy is identically zero around the point
};

// Bias parameters are derived from the probed value v0 of the variable and its natural scale S (largest change
// of the value over the three history geometries, which are 0.15 A perturbations of the evaluated geometry).
static BiasPlan bias_text(Bias b, VType vt, std::vector<double> const &v0, double S, double period,
                          std::vector<std::vector<double>> const &vh)
{
  BiasPlan bp;
  size_t n = v0.size();
  static const double dirs[] = {0.5, -0.3, 0.8, 0.4, -0.6, 0.2, 0.7, -0.1, 0.35, -0.45, 0.55, -0.25};
  auto shifted = [&](double f) {
    std::vector<double> c = v0;
    double nn = 0;
    for (size_t i = 0; i < n; i++) nn += dirs[i % 12] * dirs[i % 12];
    for (size_t i = 0; i < n; i++) c[i] += (n == 1 ? f * S : f * S * dirs[i % 12] / std::sqrt(nn));
    if (vt == T_UNIT || vt == T_QUAT) {
      double q = 0;
      for (double d : c) q += d * d;
      for (double &d : c) d /= std::sqrt(q);
    }
    return c;
  };
  std::string head = " {\nname b\ncolvars c\n";
  switch (b) {
  case B_HARM:
    bp.text = "harmonic" + head + "centers " + cvtxt(shifted(1.0), vt) + "\nforceConstant " + f17(2.0 / (S * S)) + "\n}\n";
    break;
  case B_WALL_IN:
    bp.text = "harmonicWalls" + head + "lowerWalls " + f17(v0[0] - 2 * S) + "\nupperWalls " + f17(v0[0] + 2 * S) +
              "\nforceConstant " + f17(2.0 / (S * S)) + "\n}\n";
    bp.expect_zero = true;
    break;
  case B_WALL_LO:
    bp.text = "harmonicWalls" + head + "lowerWalls " + f17(v0[0] + S) + "\nupperWalls " + f17(v0[0] + 3 * S) +
              "\nlowerWallConstant " + f17(2.0 / (S * S)) + "\nupperWallConstant " + f17(5.0 / (S * S)) + "\n}\n";
    break;
  case B_WALL_UP:
    bp.text = "harmonicWalls" + head + "lowerWalls " + f17(v0[0] - 3 * S) + "\nupperWalls " + f17(v0[0] - S) +
              "\nlowerWallConstant " + f17(2.0 / (S * S)) + "\nupperWallConstant " + f17(5.0 / (S * S)) + "\n}\n";
    break;
  case B_LINEAR:
    bp.text = "linear" + head + "centers " + cvtxt(v0, vt) + "\nforceConstant " + f17(1.0 / S) + "\n}\n";
    break;
  case B_HISTO2:
  case B_HISTO: {
    double lo = v0[0], hi = v0[0];
    for (double d : v0) { lo = std::min(lo, d); hi = std::max(hi, d); }
    double Sh = std::max(S, (hi - lo) / 4.0);
    double L = lo - 2 * Sh, U = hi + 2 * Sh, w = (U - L) / 8.0;
    // (two variables: a second variable c2 defined like c is restrained together with it, see prepare())
    bp.text = "histogramRestraint" + (b == B_HISTO2 ? std::string(" {\nname b\ncolvars c c2\n") : head) + "lowerBoundary " + f17(L) + "\nupperBoundary " + f17(U) + "\nwidth " + f17(w) +
              "\ngaussianSigma " + f17(w) + "\nrefHistogram 0.02 0.05 0.1 0.3 0.25 0.15 0.08 0.05\nforceConstant " +
              f17(10.0 * w * w) + "\n}\n";
    break;
  }
  case B_ABMD:
  case B_ABMD_OFF: {
    // one preceding step sets the running extremum; the mode is chosen so that the bias is (in)active
    double d = vh[0][0] - v0[0];   // reference minus current
    bool want_active = (b == B_ABMD);
    bool decreasing = want_active ? (d < 0) : (d > 0);
    bp.text = "abmd" + head + "forceConstant " + f17(2.0 / (S * S)) + "\ndecreasing " + (decreasing ? "on" : "off") +
              "\nstoppingValue " + f17(v0[0] + (decreasing ? -1000.0 : 1000.0) * S) + "\n}\n";
    bp.nhist = 1;
    bp.expect_zero = !want_active;
    break;
  }
  case B_META:
    bp.text = "metadynamics" + head + "useGrids off\nhillWeight 1.0\nnewHillFrequency 2\ngaussianSigmas " + f17(0.75 * S) + "\n}\n";
    bp.nhist = 7;
    break;
  case B_OPES:
    bp.text = "opes_metad" + head + "newHillFrequency 2\nbarrier 5.0\ngaussianSigma " + f17(0.75 * S) + "\n}\n";
    bp.nhist = 7;
    break;
  default: break;
  }
  (void) period;
  return bp;
}

// ------------------------------------------------------------------------------------------------
// a case and its evaluation
// ------------------------------------------------------------------------------------------------
struct CaseId { int c, o, k, b, g, cell; };

static std::string case_name(std::vector<CompDef> const &C, CaseId const &id)
{
  return C[id.c].id + " | " + OPTN[id.o] + " | " + COMBN[id.k] + " | " + BIASN[id.b] + " | geom" + std::to_string(id.g) +
         " | " + (id.cell ? "cell" : "nocell");
}

static Sys make_sys(CompDef const &c, CaseId const &id)
{
  Sys s;
  s.n = c.nsys;
  s.pbc = id.cell != 0;
  s.x.resize(s.n); s.m.resize(s.n); s.q.resize(s.n);
  for (int i = 0; i < s.n; i++) {
    s.x[i] = geom_point(id.g, i);
    if (s.pbc) s.x[i] = s.x[i] + cell_shift(i);
    s.m[i] = (id.o == O_PLAIN) ? 1.0 : MASS[i];
    s.q[i] = CHARGE[i];
  }
  return s;
}

// history geometry h (1-based): 0.15 A perturbation of the evaluated geometry
static std::vector<V3> hist_geom(Sys const &s, int h)
{
  std::vector<V3> x = s.x;
  for (int i = 0; i < s.n; i++) x[i] = x[i] + jitter(100 + h, i, 0.15);
  return x;
}

static const double H1 = 1.0e-3;          // FD steps (A): h and h/2
static const double TOL_REL = 1.0e-6, TOL_ABS = 1.0e-8, SING_REL = 1.0e-3, SING_ABS = 1.0e-7;

struct Outcome {
  enum Kind { OK, REJECTED, SKIPPED_ALL, VIOLATION, HARNESS, CONSTANT } kind = OK;
  std::string what;        // rejection text / violation kind
  std::string detail;      // JSON for a violation
  long fd_coords = 0, fd_singular = 0, fd_checked = 0, unrequested = 0, nonzero = 0;
  bool nontrivial = false;
  double maxF = 0, worst = 0, margin = 0;
};

static std::string first_error_line(std::string const &e)
{
  // keep the first line that starts with "Error"
  std::istringstream is(e);
  std::string l, first;
  while (std::getline(is, l)) {
    if (l.find("Error") != std::string::npos || l.find("ERROR") != std::string::npos) { first = l; break; }
    if (first.empty() && l.size()) first = l;
  }
  if (first.size() > 160) first.resize(160);
  return first;
}

static std::string jvec(std::vector<V3> const &x)
{
  std::string s = "[";
  for (size_t i = 0; i < x.size(); i++)
    s += std::string(i ? "," : "") + "[" + num(x[i].x) + "," + num(x[i].y) + "," + num(x[i].z) + "]";
  return s + "]";
}

struct Prepared {
  bool ok = false;
  Outcome early;      // set when !ok
  Sys sys;
  std::string conf;
  bool expect_zero = false;
  std::vector<double> v0;
};

static std::string global_conf() { // colvarsRestartFrequency must be non-zero: opes_metad divides by it (save_state), a crash outside this property
  return "smp off\ncolvarsRestartFrequency 1000000\nindexFile c01_index.ndx\n"; }

// Build system + configuration of a case (probe run included).
static Prepared prepare(std::vector<CompDef> const &C, CaseId const &id)
{
  Prepared P;
  CompDef const &c = C[id.c];
  P.sys = make_sys(c, id);
  std::string cvconf = global_conf() + colvar_text(c, (Opt) id.o, (Comb) id.k);
  // probe: value of the variable at the evaluated geometry and at the history geometries
  Sys ps = P.sys;
  for (int h = 0; h < c.self_hist; h++) { ps.hist.push_back(hist_geom(P.sys, 1)); ps.hist_id.push_back(1); }
  Point p0 = run_point(ps, cvconf, P.sys.x, true);
  if (p0.rc_conf != 0) {
    P.early.kind = Outcome::REJECTED;
    P.early.what = "colvar: " + first_error_line(p0.err);
    return P;
  }
  if (p0.rc_step != 0 || p0.val.empty()) {
    P.early.kind = Outcome::HARNESS;
    P.early.what = "probe step failed: " + first_error_line(p0.err);
    return P;
  }
  P.v0 = p0.val;
  std::vector<std::vector<double>> vh;
  double S = 0;
  for (int h = 1; h <= 3; h++) {
    Point ph = run_point(ps, cvconf, hist_geom(P.sys, h), true);
    if (ph.rc_step != 0 || ph.val.size() != p0.val.size()) {
      P.early.kind = Outcome::HARNESS;
      P.early.what = "probe (history) step failed: " + first_error_line(ph.err);
      return P;
    }
    double d2 = 0;
    for (size_t i = 0; i < ph.val.size(); i++) {
      double d = ph.val[i] - p0.val[i];
      if (p0.period > 0) d = std::remainder(d, p0.period);
      d2 += d * d;
    }
    S = std::max(S, 2.0 * std::sqrt(d2));
    vh.push_back(ph.val);
  }
  if (!std::isfinite(S)) {
    P.early.kind = Outcome::HARNESS;
    P.early.what = "non-finite variable over the history geometries";
    return P;
  }
  if (!(S > 1e-7)) {
    // the variable is (numerically) constant around this geometry, e.g. a path variable saturated far from its
    // frames: no bias parameters can be derived; counted, listed, never a verdict
    P.early.kind = Outcome::CONSTANT;
    P.early.what = "variable constant over the history geometries (scale " + num(S) + ")";
    return P;
  }
  BiasPlan bp = bias_text((Bias) id.b, c.vt, p0.val, S, p0.period, vh);
  P.expect_zero = bp.expect_zero;
  int nh = std::max(bp.nhist, c.self_hist);
  // history: for abmd the single preceding step is history geometry 1; for hills, geometries 1,2,3 cycle
  for (int h = 0; h < nh; h++) {
    int which = (bp.nhist == 1 || nh == 1) ? 1 : 1 + ((h / 2) % 3);
    P.sys.hist.push_back(hist_geom(P.sys, which));
    P.sys.hist_id.push_back(which);
  }
  P.conf = cvconf + bp.text;
  if ((Bias) id.b == B_HISTO2) {
    // a copy of the variable under the name c2 (same atoms, same value): the restraint acts on both
    size_t cstart = cvconf.find("colvar {");
    std::string cv2 = cstart == std::string::npos ? cvconf : cvconf.substr(cstart);
    size_t a = cv2.find("name c\n");
    if (a != std::string::npos) cv2.replace(a, 7, "name c2\n");
    P.conf = cvconf + cv2 + bp.text;
  }
  P.ok = true;
  return P;
}

// Evaluate one prepared case with the FD oracle.
static Outcome evaluate(std::vector<CompDef> const &C, CaseId const &id, Prepared const &P)
{
  Outcome out;
  CompDef const &c = C[id.c];
  Sys const &s = P.sys;
  Point base = run_point(s, P.conf, s.x, false);
  if (base.rc_conf != 0) {
    out.kind = Outcome::REJECTED;
    out.what = "bias: " + first_error_line(base.err);
    return out;
  }
  if (base.rc_step != 0) {
    out.kind = Outcome::REJECTED;
    out.what = "at the first evaluation: " + first_error_line(base.err);
    return out;
  }
  bool finite = std::isfinite(base.E);
  for (int i = 0; i < s.n; i++) for (int k = 0; k < 3; k++) if (!std::isfinite(compc(base.F[i], k))) finite = false;
  std::string head = "{\"case\":\"" + jesc(case_name(C, id)) + "\",\"config\":\"" + jesc(P.conf) + "\",\"masses\":\"" +
                     (id.o == O_PLAIN ? "unit" : "table") + "\",\"cell\":" + (s.pbc ? "[20,23,26]" : "null") +
                     ",\"x\":" + jvec(s.x) + ",\"history_sequence\":[";
  {
    std::set<int> used;
    for (size_t h = 0; h < s.hist_id.size(); h++) { head += std::string(h ? "," : "") + std::to_string(s.hist_id[h]); used.insert(s.hist_id[h]); }
    head += "],\"history_geometries\":{";
    bool f1 = true;
    for (int u : used) {
      for (size_t h = 0; h < s.hist_id.size(); h++) if (s.hist_id[h] == u) { head += std::string(f1 ? "" : ",") + "\"" + std::to_string(u) + "\":" + jvec(s.hist[h]); f1 = false; break; }
    }
    head += "}";
  }
  head += ",\"energy\":" + num(base.E);
  if (!finite) {
    out.kind = Outcome::VIOLATION;
    out.what = "nonfinite";
    out.detail = head + ",\"forces\":" + jvec(base.F) + "}";
    return out;
  }
  // atoms never requested: no coordinate of theirs reaches the library; they must carry no force
  for (int i = 0; i < s.n; i++) {
    if (!base.req[i]) {
      out.unrequested++;
      if (base.F[i].x != 0 || base.F[i].y != 0 || base.F[i].z != 0) {
        out.kind = Outcome::HARNESS;
        out.what = "force on an atom Colvars never requested";
        return out;
      }
    }
  }
  // fitting-only atoms under enableFitGradients off: documented to receive no force (weaker oracle)
  std::vector<char> neglected(s.n, 0);
  if (id.o == O_FITGRP_NOGRAD) for (int a : FITGRP) neglected[a - 1] = 1;

  struct Rec { int a, k; double f, d1, d2, r; bool sing; };
  std::vector<Rec> recs;
  double scale = 0;
  for (int i = 0; i < s.n; i++) {
    if (!base.req[i]) continue;
    for (int k = 0; k < 3; k++) {
      double e[4];
      static const double hs[4] = {H1, -H1, 0.5 * H1, -0.5 * H1};
      bool okp = true;
      for (int t = 0; t < 4; t++) {
        std::vector<V3> x = s.x;
        comp(x[i], k) += hs[t];
        Point p = run_point(s, P.conf, x, false);
        if (p.rc_conf != 0 || p.rc_step != 0 || !std::isfinite(p.E)) okp = false;
        e[t] = p.E;
      }
      Rec r;
      r.a = i; r.k = k; r.f = compc(base.F[i], k);
      if (!okp) { r.d1 = r.d2 = r.r = NAN; r.sing = true; recs.push_back(r); continue; }
      r.d1 = (e[0] - e[1]) / (2 * H1);
      r.d2 = (e[2] - e[3]) / H1;
      r.r = (4 * r.d2 - r.d1) / 3.0;
      r.sing = false;
      scale = std::max(scale, std::max(std::fabs(r.f), std::fabs(r.r)));
      recs.push_back(r);
    }
  }
  out.maxF = scale;
  double worst = 0;
  Rec const *wr = NULL;
  std::string wkind;
  for (auto &r : recs) {
    out.fd_coords++;
    if (r.sing || std::fabs(r.d1 - r.d2) > SING_REL * scale + SING_ABS) { out.fd_singular++; continue; }
    out.fd_checked++;
    // The extrapolated value r = d2 + (d2 - d1)/3 is exact to O(h^4) for a smooth energy.  Energies that are only once
    // differentiable (ABMD at its running reference, walls at the wall, restraint on a clamped variable) make the central
    // difference converge at O(h) when the kink lies inside the stencil; the true derivative is then d2 - (d1 - d2), which is
    // 2/3 |d1 - d2| away from r.  Allowing |d1 - d2| covers both regimes; for smooth cases it is ~1e-6 of the scale.
    double tol = TOL_REL * scale + TOL_ABS + 1.0 * std::fabs(r.d1 - r.d2);
    if (std::fabs(r.f) > tol || std::fabs(r.r) > tol) out.nonzero++;
    double dev;
    std::string kind;
    if (neglected[r.a]) {
      dev = std::fabs(r.f);   // documented: no force on fitting-only atoms
      kind = "force-on-fitting-group-with-fit-gradients-off";
    } else {
      dev = std::fabs(r.f + r.r);
      if (std::fabs(r.f) <= tol && std::fabs(r.r) > tol) kind = "missing-force";
      else if (std::fabs(r.r) <= tol && std::fabs(r.f) > tol) kind = "unjustified-force";
      else kind = "force-mismatch";
    }
    out.margin = std::max(out.margin, dev / tol);
    if (dev > tol && dev / tol > worst) { worst = dev / tol; wr = &r; wkind = kind; }
  }
  out.worst = worst;
  out.nontrivial = out.nonzero > 0;
  if (wr) {
    out.kind = Outcome::VIOLATION;
    out.what = wkind;
    std::string rows = "[";
    bool first = true;
    for (auto &r : recs) {
      if (r.sing) continue;
      rows += std::string(first ? "" : ",") + "{\"atom\":" + std::to_string(r.a + 1) + ",\"axis\":" + std::to_string(r.k) +
              ",\"force\":" + num(r.f) + ",\"minus_dE_dx\":" + num(-r.r) + ",\"fd_h\":" + num(-r.d1) + ",\"fd_h2\":" + num(-r.d2) + "}";
      first = false;
    }
    rows += "]";
    out.detail = head + ",\"kind\":\"" + wkind + "\",\"worst\":{\"atom\":" + std::to_string(wr->a + 1) + ",\"axis\":" + std::to_string(wr->k) +
                 ",\"force_applied\":" + num(wr->f) + ",\"expected_minus_dE_dx\":" + num(-wr->r) + ",\"ratio_to_tolerance\":" + num(worst) +
                 "},\"scale\":" + num(scale) + ",\"fd_step\":" + num(H1) + ",\"table\":" + rows + "}";
    return out;
  }
  if (out.fd_checked == 0 && out.fd_coords > 0) out.kind = Outcome::SKIPPED_ALL;
  (void) c;
  return out;
}

// ------------------------------------------------------------------------------------------------
// documented reasons for which Colvars may refuse a configuration of the alphabet
// ------------------------------------------------------------------------------------------------
static bool rejection_documented(CompDef const &c, CaseId const &id, std::string const &why)
{
  bool scalar = (c.vt == T_SCALAR);
  Bias b = (Bias) id.b;
  // biases defined for scalar variables only
  if (!scalar && (b == B_WALL_IN || b == B_WALL_LO || b == B_WALL_UP || b == B_ABMD || b == B_ABMD_OFF || b == B_OPES)) return true;
  // histogramRestraint: scalar and generic-vector variables only
  if ((b == B_HISTO || b == B_HISTO2) && !(c.vt == T_SCALAR || c.vt == T_VECTOR)) return true;
  // polynomial combinations are defined for scalar components only
  if (!scalar && (id.k == K_EXP2 || id.k == K_EXP3)) return true;
  // linear restraints are not defined for periodic variables
  if (b == B_LINEAR && why.find("periodic") != std::string::npos) return true;
  // a variable that is numerically constant around the evaluated geometry (natural scale ~1e-8, e.g. a cubed
  // groupCoord far from its cutoff) makes the harness place both walls at the same number: the library refuses that
  if ((b == B_WALL_IN || b == B_WALL_LO || b == B_WALL_UP) && why.find("lower wall and upper wall are equal") != std::string::npos) return true;
  // explicit documented refusals about dummy atoms
  if (id.o == O_DUMMY && why.find("dummy") != std::string::npos) return true;
  return false;
}

// ------------------------------------------------------------------------------------------------
// enumeration
// ------------------------------------------------------------------------------------------------
static long g_pairs_dropped = 0, g_pairs_total = 0;
static std::vector<CaseId> pairwise_cover(std::vector<CompDef> const &C, std::vector<int> const &opts, std::vector<int> const &biases)
{
  // factors: 0 comp, 1 opt, 2 comb, 3 bias, 4 geom, 5 cell.  Greedy all-pairs with the validity constraints
  // (comp,opt) and (comp,comb); deterministic.
  std::vector<std::vector<int>> vals(6);
  for (size_t i = 0; i < C.size(); i++) vals[0].push_back(i);
  vals[1] = opts;
  for (int i = 0; i < N_COMB; i++) vals[2].push_back(i);
  vals[3] = biases;
  for (int i = 0; i < N_GEOM; i++) vals[4].push_back(i);
  for (int i = 0; i < N_CELL; i++) vals[5].push_back(i);
  auto valid = [&](int f1, int v1, int f2, int v2) {
    if (f1 > f2) { std::swap(f1, f2); std::swap(v1, v2); }
    if (f1 == 0 && f2 == 1) return opt_valid(C[v1], (Opt) v2);
    if (f1 == 0 && f2 == 2) return comb_valid(C[v1], (Comb) v2);
    return true;
  };
  std::set<std::vector<int>> uncovered;  // (f1, v1, f2, v2), f1<f2
  for (int f1 = 0; f1 < 6; f1++) for (int f2 = f1 + 1; f2 < 6; f2++)
    for (int v1 : vals[f1]) for (int v2 : vals[f2]) if (valid(f1, v1, f2, v2)) uncovered.insert({f1, v1, f2, v2});
  std::vector<CaseId> out;
  g_pairs_total = uncovered.size();
  while (!uncovered.empty()) {
    std::vector<int> seed = *uncovered.begin();
    int t[6] = {-1, -1, -1, -1, -1, -1};
    t[seed[0]] = seed[1];
    t[seed[2]] = seed[3];
    // choose the component first when it is not fixed (constraints hang on it)
    std::vector<int> order = {0, 1, 2, 3, 4, 5};
    for (int f : order) {
      if (t[f] >= 0) continue;
      int best = -1, bestn = -1;
      for (int v : vals[f]) {
        bool ok = true;
        int n = 0;
        for (int g = 0; g < 6; g++) {
          if (g == f || t[g] < 0) continue;
          if (!valid(f, v, g, t[g])) { ok = false; break; }
          int a = f, av = v, b2 = g, bv = t[g];
          if (a > b2) { std::swap(a, b2); std::swap(av, bv); }
          if (uncovered.count({a, av, b2, bv})) n++;
        }
        if (ok && n > bestn) { bestn = n; best = v; }
      }
      if (best < 0) { best = vals[f][0]; }
      t[f] = best;
    }
    // validity of the completed tuple (the seed pair is valid by construction; re-check the constraints)
    if (!opt_valid(C[t[0]], (Opt) t[1]) || !comb_valid(C[t[0]], (Comb) t[2])) {
      // cannot complete this seed consistently: drop the pair (only happens if the seed itself conflicts)
      uncovered.erase(seed);
      g_pairs_dropped++;
      continue;
    }
    for (int f1 = 0; f1 < 6; f1++) for (int f2 = f1 + 1; f2 < 6; f2++) uncovered.erase({f1, t[f1], f2, t[f2]});
    out.push_back(CaseId{t[0], t[1], t[2], t[3], t[4], t[5]});
  }
  return out;
}

static uint64_t case_key(CaseId const &c)
{
  return ((((((uint64_t) c.c * 16 + c.o) * 8 + c.k) * 16 + c.b) * 4 + c.g) * 2 + c.cell);
}

static void write_files()
{
  // index groups for alpha (16-atom system) and dihedralPC
  {
    std::ofstream f("c01_index.ndx");
    f << "[ alpha_CA ]\n1 2 3 4 5\n[ alpha_N ]\n6 7 8 9 10\n[ alpha_O ]\n11 12 13 14 15\n";
    f << "[ dihed_N ]\n1 4\n[ dihed_CA ]\n2 5\n[ dihed_C ]\n3 6\n";
  }
  for (int fr = 0; fr < 3; fr++) {
    std::ofstream f("c01_frame" + std::to_string(fr + 1) + ".xyz");
    f << 13 << "\nframe " << fr + 1 << "\n";
    for (int i = 0; i < 13; i++) {
      V3 p = geom_point(20 + fr, i);
      f << "X " << f17(p.x) << " " << f17(p.y) << " " << f17(p.z) << "\n";
    }
  }
  { std::ofstream f("c01_nn_w1.txt"); f << "0.7 -0.4\n0.2 0.9\n"; }
  { std::ofstream f("c01_nn_b1.txt"); f << "-3.0\n-2.5\n"; }
  { std::ofstream f("c01_nn_w2.txt"); f << "1.3 -0.8\n"; }
  { std::ofstream f("c01_nn_b2.txt"); f << "0.25\n"; }
  // path in the space of (1.5*distance, 0.0004*angle^2)
  { std::ofstream f("c01_cvpath.txt"); f << "3.0 1.5\n5.0 3.0\n7.5 5.5\n"; }
  { std::ofstream f("c01_cvpath_vec.txt"); f << "0.5 -0.5 2.0\n1.0 0.0 3.0\n1.5 0.8 4.5\n"; }
}

struct Tally {
  Result *r;
};

int main(int argc, char **argv)
{
  Args args(argc, argv);
  bool thorough = args.thorough();
  double t_start = now();
  std::vector<CompDef> C = build_components();
  write_files();

  // ---- alphabet sanity (harness error, never a verdict) ----
  for (int g : {0, 1, 2, 10, 11, 20, 21, 22})
    for (int i = 0; i < NMAX; i++) for (int j = i + 1; j < NMAX; j++)
      if (norm(geom_point(g, i) - geom_point(g, j)) < 1.2) {
        fprintf(stderr, "HARNESS-ERROR: geometry %d has atoms %d,%d closer than 1.2\n", g, i, j);
        return 2;
      }

  // ---- replay of a single case: --replay <file> is handled by vcheck passing the path; we accept
  //      "--case c,o,k,b,g,cell" for manual replays ----
  if (args.kv.count("case-name")) {
    // "component,option,combination,bias,geom,cell" by name
    std::vector<std::string> f;
    std::string t = args.kv["case-name"], cur;
    for (char ch : t) { if (ch == ',') { f.push_back(cur); cur.clear(); } else cur += ch; }
    f.push_back(cur);
    if (f.size() != 6) { fprintf(stderr, "HARNESS-ERROR: --case-name needs 6 fields\n"); return 2; }
    int ci = -1, oi = -1, ki = -1, bi = -1;
    for (size_t i = 0; i < C.size(); i++) if (C[i].id == f[0]) ci = i;
    for (int i = 0; i < N_OPT; i++) if (f[1] == OPTN[i]) oi = i;
    for (int i = 0; i < N_COMB; i++) if (f[2] == COMBN[i]) ki = i;
    for (int i = 0; i < N_BIAS; i++) if (f[3] == BIASN[i]) bi = i;
    if (ci < 0 || oi < 0 || ki < 0 || bi < 0) { fprintf(stderr, "HARNESS-ERROR: unknown name in --case-name\n"); return 2; }
    args.kv["case"] = std::to_string(ci) + "," + std::to_string(oi) + "," + std::to_string(ki) + "," + std::to_string(bi) + "," + f[4] + "," + f[5];
  }
  if (args.kv.count("case")) {
    CaseId id;
    if (sscanf(args.kv["case"].c_str(), "%d,%d,%d,%d,%d,%d", &id.c, &id.o, &id.k, &id.b, &id.g, &id.cell) != 6) return 2;
    Prepared P = prepare(C, id);
    printf("CASE %s\n", case_name(C, id).c_str());
    if (!P.ok) { printf("early outcome %d: %s\n", (int) P.early.kind, P.early.what.c_str()); return 0; }
    printf("%s", P.conf.c_str());
    Outcome o = evaluate(C, id, P);
    printf("outcome %d %s  coords %ld checked %ld singular %ld nonzero %ld maxF %g worst %g\n%s\n", (int) o.kind, o.what.c_str(),
           o.fd_coords, o.fd_checked, o.fd_singular, o.nonzero, o.maxF, o.worst, o.detail.c_str());
    return 0;
  }

  // ---- build the case list, level by level ----
  std::vector<int> all_opts, all_biases;
  for (int o = 0; o < N_OPT; o++) all_opts.push_back(o);
  for (int b = 0; b < N_BIAS; b++) all_biases.push_back(b);
  std::vector<std::vector<CaseId>> levels;
  std::set<uint64_t> seen;
  auto push_level = [&](std::vector<CaseId> const &v) {
    std::vector<CaseId> l;
    for (auto &c : v)
      if (opt_valid(C[c.c], (Opt) c.o) && comb_valid(C[c.c], (Comb) c.k) && seen.insert(case_key(c)).second) l.push_back(c);
    levels.push_back(l);
  };
  {
    // level 1: every component x every group option with harmonic (single, geometry 0, no cell), then all pairs
    std::vector<CaseId> l1;
    for (size_t c = 0; c < C.size(); c++) for (int o = 0; o < N_OPT; o++) l1.push_back(CaseId{(int) c, o, K_SINGLE, B_HARM, 0, 0});
    std::vector<CaseId> pw = pairwise_cover(C, all_opts, all_biases);
    l1.insert(l1.end(), pw.begin(), pw.end());
    push_level(l1);
  }
  if (thorough) {
    auto first_opt = [&](CompDef const &c) { for (int o = O_MASS; o < N_OPT; o++) if (opt_valid(c, (Opt) o)) return o; return (int) O_PLAIN; };
    std::vector<CaseId> l2, l3, l4;
    // level 2: component x option x bias
    for (size_t c = 0; c < C.size(); c++) for (int o = 0; o < N_OPT; o++) for (int b = 0; b < N_BIAS; b++)
      l2.push_back(CaseId{(int) c, o, K_SINGLE, b, 0, 0});
    // level 3: component x option x combination (harmonic) and component x combination x bias (table masses)
    for (size_t c = 0; c < C.size(); c++) for (int o = 0; o < N_OPT; o++) for (int k = 0; k < N_COMB; k++)
      l3.push_back(CaseId{(int) c, o, k, B_HARM, 0, 0});
    for (size_t c = 0; c < C.size(); c++) for (int k = 0; k < N_COMB; k++) for (int b = 0; b < N_BIAS; b++)
      l3.push_back(CaseId{(int) c, first_opt(C[c]), k, b, 0, 0});
    // level 4: component x option x geometry x cell (harmonic)
    for (size_t c = 0; c < C.size(); c++) for (int o = 0; o < N_OPT; o++)
      for (int g = 0; g < N_GEOM; g++) for (int cell = 0; cell < N_CELL; cell++) l4.push_back(CaseId{(int) c, o, K_SINGLE, B_HARM, g, cell});
    push_level(l2);
    push_level(l3);
    push_level(l4);
    // levels 5..10: the full product, one (cell, geometry) slice at a time
    for (int cell = 0; cell < N_CELL; cell++) for (int g = 0; g < N_GEOM; g++) {
      std::vector<CaseId> l;
      for (size_t c = 0; c < C.size(); c++) for (int o = 0; o < N_OPT; o++) for (int k = 0; k < N_COMB; k++) for (int b = 0; b < N_BIAS; b++)
        l.push_back(CaseId{(int) c, o, k, b, g, cell});
      push_level(l);
    }
  }

  if (args.replay.size()) {
    // vcheck --replay <file>: re-run the single case recorded in the replay artefact through the normal path
    std::ifstream rf(args.replay);
    if (!rf && args.kv.count("verif")) { rf.clear(); rf.open(args.kv["verif"] + "/" + args.replay); }   // the driver runs us in a scratch cwd
    std::string txt((std::istreambuf_iterator<char>(rf)), std::istreambuf_iterator<char>());
    size_t p0 = txt.find("\"case\": \"");
    if (p0 == std::string::npos) { p0 = txt.find("\"case\":\""); if (p0 != std::string::npos) p0 += 8; } else p0 += 9;
    if (p0 == std::string::npos) { fprintf(stderr, "HARNESS-ERROR: no case name in %s\n", args.replay.c_str()); return 2; }
    size_t p1 = txt.find('"', p0);
    std::string nm = txt.substr(p0, p1 - p0);
    std::vector<std::string> f;
    size_t q0 = 0;
    while (true) {
      size_t q1 = nm.find(" | ", q0);
      f.push_back(nm.substr(q0, q1 == std::string::npos ? std::string::npos : q1 - q0));
      if (q1 == std::string::npos) break;
      q0 = q1 + 3;
    }
    CaseId id{-1, -1, -1, -1, -1, -1};
    if (f.size() == 6) {
      for (size_t i = 0; i < C.size(); i++) if (C[i].id == f[0]) id.c = i;
      for (int i = 0; i < N_OPT; i++) if (f[1] == OPTN[i]) id.o = i;
      for (int i = 0; i < N_COMB; i++) if (f[2] == COMBN[i]) id.k = i;
      for (int i = 0; i < N_BIAS; i++) if (f[3] == BIASN[i]) id.b = i;
      if (f[4].size() == 5) id.g = f[4][4] - '0';
      id.cell = (f[5] == "cell") ? 1 : (f[5] == "nocell" ? 0 : -1);
    }
    if (id.c < 0 || id.o < 0 || id.k < 0 || id.b < 0 || id.g < 0 || id.g >= N_GEOM || id.cell < 0) {
      fprintf(stderr, "HARNESS-ERROR: cannot parse case \"%s\"\n", nm.c_str());
      return 2;
    }
    levels.clear();
    levels.push_back({id});
    fprintf(stderr, "replaying %s\n", case_name(C, id).c_str());
  }

  Result total;
  bool exhaustive = true;
  double budget = thorough ? 900.0 : 1e9;   // a level is started only if it is expected to end before this (seconds)
  std::vector<double> level_cost;
  for (size_t L = 0; L < levels.size(); L++) {
    std::vector<CaseId> const &cases = levels[L];
    if (L > 0) {
      // start the level only if it is expected to finish (cost per case measured on the previous levels)
      double el = now() - t_start;
      // average cost per case over everything run so far, with a 1.5 safety factor (the machine may get busier)
      size_t done_cases = 0;
      for (size_t M = 0; M < L; M++) done_cases += levels[M].size();
      double per_case = done_cases ? el / done_cases : 0.1;
      double expect = 1.5 * per_case * cases.size();
      if (el + expect > budget) {
        exhaustive = false;
        size_t rest = 0;
        for (size_t M = L; M < levels.size(); M++) rest += levels[M].size();
        total.notes.push_back("level " + std::to_string(L + 1) + " of " + std::to_string(levels.size()) + " (" + std::to_string(cases.size()) +
                              " cases) not started: estimated " + std::to_string((long) expect) + " s after " +
                              std::to_string((long) el) + " s elapsed exceeds the tier budget; levels 1.." + std::to_string(L) +
                              " completed, " + std::to_string(rest) + " cases of the full product not run");
        break;
      }
    }
    double t0 = now();
    Result lr;
    bool ok = run_sharded(args.jobs, [&](int shard, int nshards, Result &r) {
      for (size_t i = shard; i < cases.size(); i += nshards) {
        CaseId const &id = cases[i];
        CompDef const &c = C[id.c];
        r.count("evaluations");
        if (getenv("C01_TRACE")) { fprintf(stderr, "TRACE %d %d,%d,%d,%d,%d,%d %s\n", shard, id.c, id.o, id.k, id.b, id.g, id.cell, case_name(C, id).c_str()); fflush(stderr); }
        Prepared P = prepare(C, id);
        Outcome o = P.ok ? evaluate(C, id, P) : P.early;
        std::string co = c.id + "|" + OPTN[id.o];
        switch (o.kind) {
        case Outcome::HARNESS:
          r.count("harness_errors");
          r.notes.push_back("HARNESS: " + case_name(C, id) + ": " + o.what);
          break;
        case Outcome::REJECTED:
          if (!rejection_documented(c, id, o.what)) {
            r.count("harness_errors");
            r.notes.push_back("HARNESS: unexpected rejection of " + case_name(C, id) + ": " + o.what);
          } else {
            r.count("rejected");
            r.seen("rejected_reasons", std::string(VTN[c.vt]) + "|" + COMBN[id.k] + "|" + BIASN[id.b] + "|" + o.what);
            r.notes.push_back("rejected: " + std::string(VTN[c.vt]) + " variable, " + COMBN[id.k] + ", " + BIASN[id.b] + ": " + o.what);
          }
          break;
        case Outcome::CONSTANT:
          r.count("cases_constant_variable");
          r.notes.push_back("constant variable: " + case_name(C, id));
          break;
        case Outcome::SKIPPED_ALL:
          r.count("cases_all_coordinates_singular");
          r.notes.push_back("all FD coordinates near-singular: " + case_name(C, id));
          break;
        case Outcome::VIOLATION:
        case Outcome::OK: {
          r.count("cases_checked");
          r.count("fd_coordinates", o.fd_coords);
          r.count("fd_checked", o.fd_checked);
          r.count("fd_skipped_singular", o.fd_singular);
          r.count("fd_nonzero", o.nonzero);
          r.count("unrequested_atoms_checked", o.unrequested);
          r.seen("accepted_comp_opt", co);
          r.seen("accepted_comp_bias", c.id + "|" + BIASN[id.b]);
          if (P.expect_zero) r.count("cases_expected_zero");
          if (o.kind == Outcome::OK) {
            // how close passing cases come to the tolerance (deviation / tolerance, decimal bins)
            int bin = o.margin > 0 ? (int) std::floor(std::log10(o.margin)) : -99;
            r.count(bin <= -3 ? "pass_margin_le_1e-3" : (bin == -2 ? "pass_margin_1e-2" : (bin == -1 ? "pass_margin_1e-1" : "pass_margin_1e0")));
          }
          if (o.nontrivial) {
            r.seen("nontrivial", case_key(id));
            r.seen("nontrivial_comp_opt", co);
          } else if (!P.expect_zero && o.kind == Outcome::OK) {
            r.count("cases_zero_energy_unexpected");
            r.notes.push_back("energy independent of all checked coordinates although the bias is active: " + case_name(C, id));
          }
          if (o.kind == Outcome::VIOLATION) {
            // attribution by differential re-runs: the component alone (plain groups), the component with this
            // group option, the combination, the cell, else the bias
            std::string sig;
            CaseId core = id; core.k = K_SINGLE; core.b = B_HARM; core.cell = 0;
            CaseId coreplain = core;
            coreplain.o = opt_valid(c, O_PLAIN) ? O_PLAIN : id.o;
            CaseId nob = id; nob.b = B_HARM;
            CaseId nocell = id; nocell.b = B_HARM; nocell.cell = 0;
            auto outcome_of = [&](CaseId const &q) {
              if (case_key(q) == case_key(id)) return o;
              Prepared Q = prepare(C, q);
              if (!Q.ok) return Q.early;
              return evaluate(C, q, Q);
            };
            auto fails = [&](CaseId const &q) { return outcome_of(q).kind == Outcome::VIOLATION; };
            Outcome op = outcome_of(coreplain);
            if (o.what == "nonfinite") sig = "C01:nonfinite:" + c.id + ":" + OPTN[id.o];
            else if (op.kind == Outcome::VIOLATION) sig = "C01:cvc:" + c.id;
            else if (fails(core)) sig = "C01:cvc:" + c.id + ":" + OPTN[id.o];
            else if (fails(nocell)) sig = "C01:combination:" + std::string(COMBN[id.k]) + ":" + c.id;
            else if (fails(nob)) sig = "C01:cell:" + c.id + ":" + OPTN[id.o];
            else sig = "C01:bias:" + std::string(BIASN[id.b]) + ":" + VTN[c.vt];
            r.violation(sig, o.detail);
          }
          if (i % 97 == 0 && o.kind == Outcome::OK && o.nontrivial)
            r.sample("{\"case\":\"" + jesc(case_name(C, id)) + "\",\"config\":\"" + jesc(P.conf) + "\",\"fd_coordinates\":" +
                     std::to_string(o.fd_coords) + ",\"max_force\":" + num(o.maxF) + "}", 2);
          break;
        }
        }
      }
      r.count("modules_run", g_modules);
    }, lr, 7000);
    if (!ok) { fprintf(stderr, "HARNESS-ERROR: sharded run failed\n"); return 2; }
    double dt = now() - t0;
    level_cost.push_back(cases.size() ? dt / cases.size() : 0.0);
    lr.count("levels_completed");
    total.merge(lr);
    total.notes.push_back("level " + std::to_string(L + 1) + ": " + std::to_string(cases.size()) + " cases in " +
                          std::to_string((long) dt) + " s");
    fprintf(stderr, "level %zu: %zu cases, %.1f s\n", L + 1, cases.size(), dt);
  }

  // ---- harness errors are never verdicts ----
  if (total.counters["harness_errors"] > 0) {
    int shown = 0;
    for (auto &n : total.notes) if (n.rfind("HARNESS", 0) == 0 && shown++ < 20) fprintf(stderr, "HARNESS-ERROR: %s\n", n.c_str());
    fprintf(stderr, "HARNESS-ERROR: %ld case(s) could not be set up\n", total.counters["harness_errors"]);
    write_result(args.out + ".partial", "C01", args.tier, total, false);
    return 2;
  }
  // ---- vacuity guards: every valid (component, option) accepted and non-trivial at least once ----
  if (args.replay.empty()) {
    std::string missing;
    for (auto &c : C) for (int o = 0; o < N_OPT; o++) {
      if (!opt_valid(c, (Opt) o)) continue;
      std::string co = c.id + "|" + OPTN[o];
      if (!total.distinct["accepted_comp_opt"].count(fnv(co))) missing += " [" + co + " never accepted]";
      else if (!total.distinct["nontrivial_comp_opt"].count(fnv(co))) missing += " [" + co + " never non-trivial]";
    }
    if (missing.size()) total.notes.push_back("component/option pairs without a non-trivial accepted case:" + missing);
    std::string na;
    for (auto &c : C) {
      std::string l;
      for (int o = 0; o < N_OPT; o++) if (!opt_valid(c, (Opt) o)) l += std::string(l.size() ? "," : "") + OPTN[o];
      if (l.size()) na += " " + c.id + "{" + l + "}";
    }
    total.notes.insert(total.notes.begin(), "group options not applicable (not enumerated):" + na);
    total.notes.insert(total.notes.begin(), "all-pairs covering of level 1: " + std::to_string(g_pairs_total) + " valid value pairs of the six factors, " +
                       std::to_string(g_pairs_dropped) + " could not be placed in a valid case");
  }
  // aggregate the per-case notes by kind (the driver keeps 20 notes)
  {
    std::map<std::string, std::vector<std::string>> groups;
    std::vector<std::string> keep;
    for (auto &n : total.notes) {
      bool grouped = false;
      for (std::string pre : {"constant variable: ", "energy independent of all checked coordinates although the bias is active: ",
                              "all FD coordinates near-singular: "}) {
        if (n.rfind(pre, 0) == 0) { groups[pre].push_back(n.substr(pre.size())); grouped = true; break; }
      }
      if (!grouped) keep.push_back(n);
    }
    // rejected configurations: distinct (value type, combination, bias, error text) with counts
    {
      std::map<std::string, long> rej;
      std::vector<std::string> keep2;
      for (auto &n : keep) { if (n.rfind("rejected: ", 0) == 0) rej[n.substr(10)]++; else keep2.push_back(n); }
      keep = keep2;
      if (rej.size()) {
        std::map<std::string, long> bytext;   // error text only
        for (auto &kv : rej) { size_t p = kv.first.find(": "); bytext[p == std::string::npos ? kv.first : kv.first.substr(p + 2)] += kv.second; }
        std::string l = "configurations rejected by Colvars for a documented reason (" + std::to_string(rej.size()) + " distinct type/combination/bias/text):";
        for (auto &kv : bytext) l += " [" + std::to_string(kv.second) + "x " + kv.first + "]";
        keep.push_back(l);
      }
    }
    for (auto &g : groups) {
      std::sort(g.second.begin(), g.second.end());
      std::string l = g.first + std::to_string(g.second.size()) + " case(s), e.g.";
      for (size_t i = 0; i < g.second.size() && i < 6; i++) l += " [" + g.second[i] + "]";
      keep.push_back(l);
    }
    total.notes = keep;
  }
  // keep only informative notes first (cap handled by the driver)
  std::stable_sort(total.notes.begin(), total.notes.end(), [](std::string const &a, std::string const &b) {
    auto rank = [](std::string const &s) { return s.rfind("level", 0) == 0 ? 0 : (s.rfind("group options", 0) == 0 ? 1 : (s.rfind("component/option", 0) == 0 ? 2 : 3)); };
    return rank(a) < rank(b);
  });
  write_result(args.out, "C01", args.tier, total, exhaustive);
  return 0;
}
