// C01 (part b) — forces are the negative gradient of the reported energy, for orientation-type components evaluated AFTER a
// history in which the rigid body turns through 180 degrees (the quaternion that represents the optimal rotation follows
// the previous step's by continuity, so its sign depends on the path).
// Finite product: component menu x rotation axis x (angle at step 0 -> angle at step 1) x restraint; oracle: central
// differences of the energy received by the engine, every difference evaluation replaying the same two-step history.
#include "vproxy.h"
#include "common.h"

using namespace vc;
typedef cvm::rvector R;

static const double REFP[4][3] = {{0.3, -1.2, 0.8}, {1.9, 0.4, -0.6}, {-1.1, 1.5, 0.2}, {-0.7, -0.9, -1.4}};

static std::vector<R> rotated(int axis, double deg)
{
  double a = deg * PI / 180.0, c = std::cos(a), s = std::sin(a);
  R cen(0, 0, 0);
  for (int i = 0; i < 4; i++) cen += R(REFP[i][0], REFP[i][1], REFP[i][2]);
  cen /= 4.0;
  std::vector<R> out;
  for (int i = 0; i < 4; i++) {
    R d = R(REFP[i][0], REFP[i][1], REFP[i][2]) - cen, r;
    if (axis == 0) r = R(d.x, c * d.y - s * d.z, s * d.y + c * d.z);
    else if (axis == 1) r = R(c * d.x + s * d.z, d.y, -s * d.x + c * d.z);
    else r = R(c * d.x - s * d.y, s * d.x + c * d.y, d.z);
    // a small non-rigid distortion, so that the fit is not exact
    out.push_back(r + cen + R(0.03 * ((i * 7) % 3 - 1), -0.02 * (i % 2), 0.025 * ((i * 5) % 4 - 1.5)) + R(0.4, -0.3, 0.2));
  }
  return out;
}

struct Comp { const char *name; std::string body; std::string centers; double k; };

static bool run(Comp const &c, std::vector<R> const &x0, std::vector<R> const &x1, double &energy, std::vector<R> &forces, std::string &err)
{
  vproxy *px = new vproxy(4, true);
  for (int i = 0; i < 4; i++) px->x[i] = x0[i];
  std::string ref = " refPositions (0.3, -1.2, 0.8) (1.9, 0.4, -0.6) (-1.1, 1.5, 0.2) (-0.7, -0.9, -1.4)\n";
  std::string conf = "colvar {\n name c\n " + std::string(c.name) + " {\n atoms { atomNumbers 1 2 3 4 }\n" + ref + c.body + " }\n}\n"
                     "harmonic {\n colvars c\n centers " + c.centers + "\n forceConstant " + num(c.k) + "\n}\n";
  bool ok = px->config(conf) == 0;
  if (ok) ok = px->step(0) == 0;
  if (ok) { for (int i = 0; i < 4; i++) px->x[i] = x1[i]; ok = px->step(1) == 0; }
  if (!ok) err = px->errtxt.substr(0, 200);
  energy = px->energy;
  forces.assign(px->fapp.begin(), px->fapp.begin() + 4);
  delete px;
  return ok;
}

int main(int argc, char **argv)
{
  Args args(argc, argv);
  bool thorough = args.thorough();
  std::vector<Comp> comps = {
      {"orientationAngle", "", "100.0", 0.01},
      {"orientationProj", "", "0.3", 5.0},
      {"tilt", " axis (0.3, -0.5, 0.8)\n", "0.2", 5.0},
      {"spinAngle", " axis (0.3, -0.5, 0.8)\n", "40.0", 0.01},
      {"orientation", "", "(0.6, 0.3, -0.5, 0.55)", 5.0},
      {"eulerPhi", "", "30.0", 0.01},
      {"eulerPsi", "", "-20.0", 0.01},
      {"eulerTheta", "", "10.0", 0.01},
  };
  std::vector<std::pair<double, double>> paths = {{170, 190}, {190, 170}, {20, -20}, {150, 215}, {100, 260}};
  if (thorough) { paths.push_back({179, 181}); paths.push_back({-170, 170}); paths.push_back({60, 300}); }
  struct Job { size_t ci; int axis; size_t pi; };
  std::vector<Job> jobs;
  for (size_t ci = 0; ci < comps.size(); ci++) for (int ax = 0; ax < 3; ax++) for (size_t pi = 0; pi < paths.size(); pi++) jobs.push_back({ci, ax, pi});
  Result total;
  bool ok = run_sharded(std::min<int>(args.jobs, jobs.size()), [&](int shard, int nsh, Result &r) {
    for (size_t j = shard; j < jobs.size(); j += nsh) {
      Comp const &c = comps[jobs[j].ci];
      std::vector<R> x0 = rotated(jobs[j].axis, paths[jobs[j].pi].first), x1 = rotated(jobs[j].axis, paths[jobs[j].pi].second);
      std::string det = std::string("{\"component\":\"") + c.name + "\",\"rotation_axis\":" + std::to_string(jobs[j].axis) + ",\"angle_at_step_0\":" + num(paths[jobs[j].pi].first) +
                        ",\"angle_at_step_1\":" + num(paths[jobs[j].pi].second);
      r.count("evaluations");
      double e0; std::vector<R> f; std::string err;
      if (!run(c, x0, x1, e0, f, err)) { r.violation(std::string("C01:history:error:") + c.name, det + ",\"error\":\"" + jesc(err) + "\"}"); continue; }
      double fmax = 0;
      for (int i = 0; i < 4; i++) fmax = std::max(fmax, f[i].norm());
      bool bad = false;
      for (int i = 0; i < 4 && !bad; i++)
        for (int k = 0; k < 3 && !bad; k++) {
          auto fd = [&](double h) {
            std::vector<R> xp = x1, xm = x1;
            xp[i][k] += h; xm[i][k] -= h;
            double ep, em; std::vector<R> ff; std::string e2;
            run(c, x0, xp, ep, ff, e2); run(c, x0, xm, em, ff, e2);
            r.count("transitions", 4);
            return (ep - em) / (2 * h);
          };
          double d1 = fd(2e-4), d2 = fd(1e-4);
          double dEdx = (4 * d2 - d1) / 3;
          if (std::fabs(d1 - d2) > 1e-3 * std::max(fmax, 1e-6)) { r.count("singular_or_discontinuous_skipped"); continue; }
          if (!close_rel(f[i][k], -dEdx, std::max(fmax, 1e-9), 2e-5, 1e-9)) {
            r.violation(std::string("C01:history:force-is-not-minus-the-energy-gradient-after-a-turn-through-180-degrees:") + c.name,
                        det + ",\"atom\":" + std::to_string(i) + ",\"coordinate\":" + std::to_string(k) + ",\"applied_force\":" + num(f[i][k]) + ",\"minus_dE_dx\":" + num(-dEdx) + "}");
            bad = true;
          }
        }
      if (!(fmax > 1e-6)) r.count("zero_force_cases");
      r.seen("nontrivial", fnv(det));
      if (j == 0) r.sample(det + "}");
    }
  }, total, 3000);
  if (!ok) return 2;
  write_result(args.out, "C01", args.tier, total, true);
  return 0;
}
