// C15 (part 2) — grid files round-trip.
// Bounded-exhaustive: every grid shape with 1..3 points per dimension, 1..3 dimensions, every per-dimension
// kind (non-periodic variable / periodic variable on a sub-interval / periodic variable on a whole period)
// x every grid class (count, scalar, gradient, gradient+samples) x every file format
// (multicolumn -> file constructor, multicolumn -> read_multicol with and without "add", restart text/binary into a
// same-shaped or differently-shaped fresh grid, raw text (two float formats) / raw binary) x data patterns.
// Oracle: the harness keeps its own copy of what it put into the source grid (sizes, boundaries, flags, data) and
// compares the re-read grid with that copy; nothing of the comparison goes through Colvars code.
#include "vproxy.h"
#include "common.h"
#include "colvargrid.h"
#include "colvargrid_def.h"
#include "colvars_memstream.h"
#include <fstream>
#include <memory>

using namespace vc;

static const double PERIOD = 6.0;
static const double TWO_PI = 6.28318530717958647692;

static std::string g17(double v)
{
  char b[64];
  snprintf(b, 64, "%.17g", v);
  return b;
}

// ---- per-dimension option ----
struct DimOpt {
  int kind;     // 0 non-periodic variable; 1 periodic variable, grid on part of the period; 2 periodic variable, whole period
  int n;        // number of points
  double lower, width, upper;
  bool periodic_expected;
};

// colvar names by dimension slot and kind: n0,n1,n2 non-periodic; p0,p1,p2 period 6; r0,r1,r2 period 2*pi
static std::string cvname(int slot, int kind, bool radians)
{
  if (kind == 0) return "n" + std::to_string(slot);
  return (radians ? "r" : "p") + std::to_string(slot);
}

// lower-boundary / width menus; `variant` selects the alphabet (0: few digits, 1: many digits)
static DimOpt make_dim(int slot, int kind, int n, int variant)
{
  DimOpt d;
  d.kind = kind;
  d.n = n;
  static const double lowers0[3] = {-1.5, 0.25, 0.1};
  static const double widths0[3] = {0.5, 2.0, 0.1};
  static const double lowers1[3] = {-1.2345678901234, 3.14159265358979, -0.000123456789012345};
  static const double widths1[3] = {0.123456789012345, 1.0 / 3.0, 1.0e-3};
  double const per = (variant == 1) ? TWO_PI : PERIOD;
  if (kind == 0) {
    d.lower = variant ? lowers1[slot] : lowers0[slot];
    d.width = variant ? widths1[slot] : widths0[slot];
    d.periodic_expected = false;
  } else if (kind == 1) {
    d.lower = variant ? lowers1[slot] : lowers0[slot];
    d.width = variant ? per / 7.0 : 1.0;   // n*width never reaches a whole period for n <= 3
    d.periodic_expected = false;
  } else {
    d.lower = variant ? -0.5 * per : (slot == 0 ? -3.0 : (slot == 1 ? 0.25 : -1.0));
    d.width = per / n;
    d.periodic_expected = true;
  }
  d.upper = d.lower + n * d.width;
  return d;
}

struct Shape {
  std::vector<DimOpt> d;
  int variant;
  std::vector<std::string> names;
  std::string conf() const
  {
    std::string lb = "lowerBoundary", ub = "upperBoundary", w = "width";
    for (auto &x : d) { lb += " " + g17(x.lower); ub += " " + g17(x.upper); w += " " + g17(x.width); }
    return lb + "\n" + ub + "\n" + w + "\n";
  }
  // a different definition for the same variables (target grids that must be re-shaped by the file): the dimensions
  // in `mask` differ from the source, the others are identical to it.  `how`: 0 lower boundary, width and size differ;
  // 1 only the upper boundary (one more point); 2 only the width (same interval, twice the points)
  std::string other_conf(int mask, int how) const
  {
    std::string lb = "lowerBoundary", ub = "upperBoundary", w = "width";
    for (size_t i = 0; i < d.size(); i++) {
      DimOpt const &x = d[i];
      double l = x.lower, u = x.upper, wd = x.width;
      if (mask & (1 << i)) {
        if (how == 0) { l = x.lower + 0.5; wd = 0.25; u = l + (x.n + 1) * wd; }
        else if (how == 1) { u = x.lower + (x.n + 1) * x.width; }
        else { wd = 0.5 * x.width; }
      }
      lb += " " + g17(l); ub += " " + g17(u); w += " " + g17(wd);
    }
    return lb + "\n" + ub + "\n" + w + "\n";
  }
  size_t nt() const { size_t t = 1; for (auto &x : d) t *= x.n; return t; }
  std::string json() const
  {
    std::string s = "{\"variant\":" + std::to_string(variant) + ",\"dims\":[";
    for (size_t i = 0; i < d.size(); i++)
      s += std::string(i ? "," : "") + "{\"colvar\":\"" + names[i] + "\",\"kind\":" + std::to_string(d[i].kind) + ",\"n\":" +
           std::to_string(d[i].n) + ",\"lower\":" + g17(d[i].lower) + ",\"width\":" + g17(d[i].width) + ",\"upper\":" +
           g17(d[i].upper) + ",\"periodic\":" + (d[i].periodic_expected ? "1" : "0") + "}";
    return s + "]}";
  }
};

// data patterns: value of cell k (flattened, multiplicity included)
static double real_pattern(int pat, size_t k)
{
  switch (pat) {
  case 0: return (double(k) + 1.0) * 0.5 - 3.25;              // few decimal digits, both signs
  case 1: return (double(k) * 7.0 + 3.0) / 3.0 - 5.0;         // non-terminating decimals
  default: return (k % 2 ? -1.0 : 1.0) * 1.2345678901234e-7 * std::pow(10.0, double(k % 23)); // wide range
  }
}
static size_t count_pattern(int pat, size_t k)
{
  switch (pat) {
  case 0: return k + 1;
  case 1: return (k % 3 == 0) ? 0 : 2 * k + 1;                // with empty bins
  default: return size_t(1000000007ULL) * (k + 1);            // more than 32 bits
  }
}

struct Ctx {
  Result *r;
  vproxy *px;
  std::string scratch;
  int shard;
};

static std::vector<colvar *> get_cvs(Shape const &s)
{
  std::vector<colvar *> v;
  for (auto &n : s.names) {
    colvar *c = cvm::colvar_by_name(n);
    if (!c) { fprintf(stderr, "HARNESS-ERROR: colvar %s missing\n", n.c_str()); exit(2); }
    v.push_back(c);
  }
  return v;
}

static bool eq_rel(double a, double b, double rel)
{
  if (a == b) return true;
  if (std::isnan(a) || std::isnan(b)) return false;
  return std::fabs(a - b) <= rel * std::max(std::fabs(a), std::fabs(b));
}

// what the harness knows about the source grid
struct Expect {
  std::vector<int> nx;
  std::vector<double> lower, upper, width;
  std::vector<bool> periodic;
  size_t mult;
  std::vector<double> data;   // expected internal data of the re-read grid
};

template <class G>
static std::string grid_json(G const &g)
{
  std::string s = "{\"nx\":[";
  for (size_t i = 0; i < g.nx.size(); i++) s += (i ? "," : "") + std::to_string(g.nx[i]);
  s += "],\"lower\":[";
  for (size_t i = 0; i < g.lower_boundaries.size(); i++) s += (i ? "," : "") + g17(g.lower_boundaries[i].real_value);
  s += "],\"upper\":[";
  for (size_t i = 0; i < g.upper_boundaries.size(); i++) s += (i ? "," : "") + g17(g.upper_boundaries[i].real_value);
  s += "],\"widths\":[";
  for (size_t i = 0; i < g.widths.size(); i++) s += (i ? "," : "") + g17(g.widths[i]);
  s += "],\"periodic\":[";
  for (size_t i = 0; i < g.periodic.size() && i < g.nd; i++) s += (i ? "," : "") + std::string(g.periodic[i] ? "1" : "0");
  s += "],\"mult\":" + std::to_string(g.mult) + ",\"data\":[";
  for (size_t i = 0; i < g.data.size() && i < 64; i++) s += (i ? "," : "") + g17(double(g.data[i]));
  return s + "]}";
}

// compare a re-read grid with the expectation; returns the list of differing attributes
template <class G>
static std::vector<std::string> compare(G const &g, Expect const &e, double data_rel, double bound_rel, bool check_upper)
{
  std::vector<std::string> bad;
  if (g.nd != e.nx.size() || g.nx != e.nx) bad.push_back("sizes");
  if (g.mult != e.mult) bad.push_back("multiplicity");
  if (g.lower_boundaries.size() != e.lower.size()) bad.push_back("lower-boundaries");
  else for (size_t i = 0; i < e.lower.size(); i++)
    if (!eq_rel(g.lower_boundaries[i].real_value, e.lower[i], bound_rel)) { bad.push_back("lower-boundaries"); break; }
  if (check_upper) {
    if (g.upper_boundaries.size() != e.upper.size()) bad.push_back("upper-boundaries");
    else for (size_t i = 0; i < e.upper.size(); i++)
      if (!eq_rel(g.upper_boundaries[i].real_value, e.upper[i], bound_rel)) { bad.push_back("upper-boundaries"); break; }
  }
  if (g.widths.size() != e.width.size()) bad.push_back("widths");
  else for (size_t i = 0; i < e.width.size(); i++)
    if (!eq_rel(g.widths[i], e.width[i], bound_rel)) { bad.push_back("widths"); break; }
  // (a grid built from a configuration string carries 2*nd flags, the first nd being the meaningful ones;
  //  only those are part of the grid definition)
  if (g.periodic.size() < e.periodic.size()) bad.push_back("periodic-flags");
  else for (size_t i = 0; i < e.periodic.size(); i++)
    if (bool(g.periodic[i]) != bool(e.periodic[i])) { bad.push_back("periodic-flags"); break; }
  if (g.data.size() != e.data.size()) bad.push_back("data-size");
  else for (size_t i = 0; i < e.data.size(); i++)
    if (!eq_rel(double(g.data[i]), e.data[i], data_rel)) { bad.push_back("data"); break; }
  return bad;
}

static std::string exp_json(Expect const &e)
{
  std::string s = "{\"nx\":[";
  for (size_t i = 0; i < e.nx.size(); i++) s += (i ? "," : "") + std::to_string(e.nx[i]);
  s += "],\"lower\":[";
  for (size_t i = 0; i < e.lower.size(); i++) s += (i ? "," : "") + g17(e.lower[i]);
  s += "],\"upper\":[";
  for (size_t i = 0; i < e.upper.size(); i++) s += (i ? "," : "") + g17(e.upper[i]);
  s += "],\"widths\":[";
  for (size_t i = 0; i < e.width.size(); i++) s += (i ? "," : "") + g17(e.width[i]);
  s += "],\"periodic\":[";
  for (size_t i = 0; i < e.periodic.size(); i++) s += (i ? "," : "") + std::string(e.periodic[i] ? "1" : "0");
  s += "],\"mult\":" + std::to_string(e.mult) + ",\"data\":[";
  for (size_t i = 0; i < e.data.size() && i < 64; i++) s += (i ? "," : "") + g17(e.data[i]);
  return s + "]}";
}

// (the library never attaches a sample grid to a scalar grid: that class is defined but not enumerated)
enum GridClass { G_COUNT = 0, G_SCALAR, G_GRADIENT, G_GRADIENT_SAMPLES, G_NCLASS, G_SCALAR_SAMPLES };
static const char *gc_name[] = {"count", "scalar", "gradient", "gradient+samples", "scalar+samples"};

enum Format {
  F_MC_CTOR = 0, F_MC_READ, F_MC_READ_ADD, F_RST_TEXT_SAME, F_RST_TEXT_OTHER, F_RST_BIN_SAME, F_RST_BIN_OTHER,
  F_RAW_TEXT_SCI, F_RAW_TEXT_GEN, F_RAW_BIN, F_NFORMAT
};
static const char *fmt_name[] = {"multicol->file-constructor", "multicol->read_multicol", "multicol->read_multicol(add)",
                                 "restart-text->same-shape", "restart-text->other-shape", "restart-binary->same-shape",
                                 "restart-binary->other-shape", "raw-text(scientific,15 digits)", "raw-text(general,14 digits)",
                                 "raw-binary"};

static bool fmt_is_text(int f) { return f != F_RST_BIN_SAME && f != F_RST_BIN_OTHER && f != F_RAW_BIN; }

// the stream formatting that Colvars itself uses around these calls (colvarbias::write_state)
static void state_stream_format(std::ostream &os, bool general)
{
  os.setf(std::ios::scientific, std::ios::floatfield);
  os.precision(cvm::cv_prec);
  if (general) os.setf(std::ios::fmtflags(0), std::ios::floatfield);  // as colvarbias_histogram/abf::write_state_data
}

static int g_target_mask = 0;   // set by one_case(): see there
static void fail(Ctx &c, int gc, int f, Shape const &s, int pat, std::string const &what, std::string const &extra)
{
  std::string sig = std::string("C15:io:") + fmt_name[f] + ":" + gc_name[gc] + ":" + what;
  int const full = (1 << s.d.size()) - 1;
  if (g_target_mask && g_target_mask != full)
    sig += (g_target_mask & (1 << (s.d.size() - 1))) ? "/target-differs-in-a-subset-of-dimensions" : "/target-differs-in-non-last-dimensions-only";
  c.r->violation(sig, "{\"format\":\"" + std::string(fmt_name[f]) + "\",\"grid_class\":\"" + gc_name[gc] + "\",\"shape\":" + s.json() +
                          ",\"grid_config\":\"" + jesc(s.conf()) + "\",\"data_pattern\":" + std::to_string(pat) +
                          ",\"target_mask\":" + std::to_string(g_target_mask) +
                          (g_target_mask ? ",\"target_grid_config\":\"" + jesc(s.other_conf(g_target_mask, (g_target_mask + pat) % 3)) + "\"" : std::string()) + extra + "}");
}

// One round trip.  T = size_t for count grids, double otherwise.
// target_mask: for the "other-shape" restart paths, the set of dimensions in which the fresh target grid differs from
// the source (every non-empty subset is enumerated); 0 for the other paths.
static void one_case(Ctx &c, Shape const &s, int gc, int f, int pat, int target_mask = 0)
{
  g_target_mask = target_mask;
  Result &r = *c.r;
  vproxy &px = *c.px;
  std::vector<colvar *> cvs = get_cvs(s);
  std::string const conf = s.conf();
  size_t const nd = s.d.size();
  bool const with_samples = (gc == G_GRADIENT_SAMPLES || gc == G_SCALAR_SAMPLES);
  bool const is_count = (gc == G_COUNT);
  bool const other = (f == F_RST_TEXT_OTHER || f == F_RST_BIN_OTHER);
  // combinations that the library itself never forms are left out (and counted)
  if (with_samples && (f == F_RST_TEXT_SAME || f == F_RST_TEXT_OTHER || f == F_RST_BIN_SAME || f == F_RST_BIN_OTHER)) {
    r.count("combos_not_applicable");
    return;
  }
  r.count("evaluations");
  cvm::clear_error();
  px.errtxt.clear();

  // ---- source grids ----
  std::shared_ptr<colvar_grid_count> cnt, cnt2;
  std::unique_ptr<colvar_grid_scalar> sc, sc2;
  std::unique_ptr<colvar_grid_gradient> gr, gr2;
  if (is_count || with_samples) cnt.reset(new colvar_grid_count(cvs, conf));
  if (gc == G_SCALAR || gc == G_SCALAR_SAMPLES) sc.reset(new colvar_grid_scalar(cvs, nullptr, false, conf));
  if (gc == G_GRADIENT) gr.reset(new colvar_grid_gradient(cvs, nullptr, nullptr, conf));
  if (gc == G_GRADIENT_SAMPLES) gr.reset(new colvar_grid_gradient(cvs, cnt, nullptr, conf));
  if (gc == G_SCALAR_SAMPLES) sc->samples = cnt.get();
  if (cvm::get_error()) {
    fprintf(stderr, "HARNESS-ERROR: source grid construction failed for %s: %s\n", s.json().c_str(), px.errtxt.c_str());
    exit(2);
  }

  Expect e;
  for (auto &d : s.d) {
    e.nx.push_back(d.n); e.lower.push_back(d.lower); e.upper.push_back(d.upper); e.width.push_back(d.width);
    e.periodic.push_back(d.periodic_expected);
  }
  // the source grid itself must have the requested definition, otherwise the case is not the one we think
  {
    Expect e0 = e;
    std::vector<std::string> bad;
    if (cnt) { e0.mult = 1; e0.data.assign(s.nt(), 0.0); bad = compare(*cnt, e0, 0, 1e-14, true); }
    if (sc && bad.empty()) { e0.mult = 1; e0.data.assign(s.nt(), 0.0); bad = compare(*sc, e0, 0, 1e-14, true); }
    if (gr && bad.empty()) { e0.mult = nd; e0.data.assign(s.nt() * nd, 0.0); bad = compare(*gr, e0, 0, 1e-14, true); }
    if (!bad.empty()) {
      std::string what = "source-grid-definition:" + bad[0];
      fail(c, gc, f, s, pat, what, ",\"expected\":" + exp_json(e0) + ",\"observed\":" +
           (gr ? grid_json(*gr) : (sc ? grid_json(*sc) : grid_json(*cnt))));
      return;
    }
  }

  // ---- fill ----
  std::vector<double> counts(s.nt(), 0.0);
  if (cnt) {
    for (size_t k = 0; k < cnt->data.size(); k++) { cnt->data[k] = count_pattern(with_samples ? (pat == 2 ? 0 : pat) : pat, k); counts[k] = double(cnt->data[k]); }
    cnt->has_data = true;
  }
  std::vector<double> means;  // what value_output() shows for real grids
  colvar_grid<cvm::real> *rg = sc ? static_cast<colvar_grid<cvm::real> *>(sc.get()) : static_cast<colvar_grid<cvm::real> *>(gr.get());
  if (rg) {
    size_t const mult = rg->mult;
    means.resize(rg->data.size());
    for (size_t k = 0; k < rg->data.size(); k++) {
      double m = real_pattern(pat, k);
      if (with_samples) {
        double cn = counts[k / mult];
        if (cn == 0.0) m = 0.0;
        rg->data[k] = m * cn;   // internal sums
        means[k] = (cn > 0) ? rg->data[k] / cn : 0.0;
      } else {
        rg->data[k] = m;
        means[k] = m;
      }
    }
    rg->has_data = true;
  }
  e.mult = rg ? rg->mult : 1;
  if (is_count) e.data = counts;
  else e.data = rg->data;

  double data_rel = 0.0;   // exact unless the text format cannot carry the digits
  if (!is_count && fmt_is_text(f)) {
    if (f == F_RAW_TEXT_GEN) data_rel = (pat == 0 && !with_samples) ? 0.0 : 2e-13;
    else data_rel = (pat == 0 && !with_samples) ? 0.0 : 2e-14;
    if (with_samples) data_rel = std::max(data_rel, 1e-13);
  }
  if (!is_count && with_samples && !fmt_is_text(f)) data_rel = 4e-16;  // sum/count*count
  // text headers carry 15 significant digits; the parameter block of the binary restart form is text as well
  double bound_rel = (f == F_RAW_BIN ? 0.0 : 1e-14);
  // the parameter block of the restart forms (text and binary alike) is text with 14 significant digits, the
  // documented precision of Colvars text state: boundaries and widths are compared at 1e-13 relative there
  // (sizes, periodic flags and data stay exact)
  if (f == F_RST_TEXT_SAME || f == F_RST_TEXT_OTHER || f == F_RST_BIN_SAME || f == F_RST_BIN_OTHER) bound_rel = 1e-13;

  std::string const tag = c.scratch + "/io_s" + std::to_string(c.shard);
  std::string written;  // the text that went to the file/stream (for the replay record)
  std::vector<std::string> bad;
  std::string observed;
  std::string rerr;

  auto new_target = [&](bool use_other) {
    std::string const tconf = use_other ? s.other_conf(target_mask, (target_mask + pat) % 3) : conf;
    if (is_count || with_samples) cnt2.reset(new colvar_grid_count(cvs, tconf));
    if (gc == G_SCALAR || gc == G_SCALAR_SAMPLES) sc2.reset(new colvar_grid_scalar(cvs, nullptr, false, tconf));
    if (gc == G_GRADIENT) gr2.reset(new colvar_grid_gradient(cvs, nullptr, nullptr, tconf));
    if (gc == G_GRADIENT_SAMPLES) gr2.reset(new colvar_grid_gradient(cvs, cnt2, nullptr, tconf));
    if (gc == G_SCALAR_SAMPLES) sc2->samples = cnt2.get();
    if (cvm::get_error()) {
      fprintf(stderr, "HARNESS-ERROR: target grid construction failed for %s: %s\n", s.json().c_str(), px.errtxt.c_str());
      exit(2);
    }
  };

  bool check_upper = true;
  bool read_failed = false;

  if (f == F_MC_CTOR) {
    // write through the library's file interface, re-create from the file alone
    std::string const fn = tag + ".dat", fnc = tag + ".count.dat";
    int rc = 0;
    if (is_count) rc = cnt->write_multicol(fn, "grid file");
    else if (sc) rc = sc->write_multicol(fn, "grid file");
    else rc = gr->write_multicol(fn, "grid file");
    if (rc != COLVARS_OK || cvm::get_error()) { fail(c, gc, f, s, pat, "write-error", ",\"error\":\"" + jesc(px.errtxt) + "\""); cvm::clear_error(); return; }
    { std::ifstream in(fn); std::stringstream ss; ss << in.rdbuf(); written = ss.str(); }
    // (the format carries min, width and npoints: the upper boundary of the re-created grid is min + npoints * width)
    Expect em = e;
    if (!is_count) em.data = means;
    if (is_count) {
      colvar_grid<size_t> g2(fn, 1);
      read_failed = cvm::get_error() != 0;
      bad = compare(g2, em, 0, bound_rel, true);
      observed = grid_json(g2);
    } else if (sc) {
      colvar_grid_scalar g2(fn);
      read_failed = cvm::get_error() != 0;
      bad = compare(g2, em, data_rel, bound_rel, true);
      observed = grid_json(g2);
      if (bad.empty() && !read_failed) {
        // ... and the restart form of that grid (which has no variables attached) read into another one built from the same file
        std::ostringstream osr;
        state_stream_format(osr, false);
        g2.write_restart(osr);
        colvar_grid_scalar g3(fn);
        for (size_t k = 0; k < g3.data.size(); k++) g3.data[k] = -7.0;
        std::istringstream isr(osr.str());
        bool okr = bool(g3.read_restart(isr)) && cvm::get_error() == 0;
        bad = compare(g3, em, std::max(data_rel, 2e-14), 1e-13, true);   // (the restart form carries 14 digits)
        if (!okr && bad.empty()) bad.push_back("read-refused");
        if (!bad.empty()) { bad[0] = "restart-form-of-a-grid-built-from-a-file:" + bad[0]; observed = grid_json(g3); }
      }
    } else {
      colvar_grid_gradient g2(fn);
      read_failed = cvm::get_error() != 0;
      bad = compare(g2, em, data_rel, bound_rel, true);
      observed = grid_json(g2);
    }
    e = em;
    remove(fn.c_str());
  } else if (f == F_MC_READ || f == F_MC_READ_ADD) {
    bool const add = (f == F_MC_READ_ADD);
    new_target(false);
    std::ostringstream osc, os;
    if (cnt) cnt->write_multicol(osc);
    if (sc) sc->write_multicol(os);
    if (gr) gr->write_multicol(os);
    written = is_count ? osc.str() : os.str();
    if (cnt2) {
      std::istringstream is(osc.str());
      cnt2->read_multicol(is, add);
    }
    if (sc2) { std::istringstream is(os.str()); sc2->read_multicol(is, add); }
    if (gr2) { std::istringstream is(os.str()); gr2->read_multicol(is, add); }
    read_failed = cvm::get_error() != 0;
    if (is_count) { bad = compare(*cnt2, e, 0, bound_rel, true); observed = grid_json(*cnt2); }
    else if (sc2) { bad = compare(*sc2, e, data_rel, bound_rel, true); observed = grid_json(*sc2); }
    else { bad = compare(*gr2, e, data_rel, bound_rel, true); observed = grid_json(*gr2); }
    if (bad.empty() && with_samples) {
      Expect ec = e; ec.mult = 1; ec.data = counts;
      bad = compare(*cnt2, ec, 0, bound_rel, true);
      if (!bad.empty()) { bad[0] = "samples-" + bad[0]; observed = grid_json(*cnt2); }
    }
  } else if (f == F_RST_TEXT_SAME || f == F_RST_TEXT_OTHER) {
    new_target(other);
    std::ostringstream os;
    state_stream_format(os, false);
    if (is_count) cnt->write_restart(os);
    else if (sc) sc->write_restart(os);
    else gr->write_restart(os);
    written = os.str();
    std::istringstream is(written);
    bool ok;
    if (is_count) ok = bool(cnt2->read_restart(is));
    else if (sc2) ok = bool(sc2->read_restart(is));
    else ok = bool(gr2->read_restart(is));
    read_failed = !ok || cvm::get_error() != 0;
    if (is_count) { bad = compare(*cnt2, e, 0, bound_rel, true); observed = grid_json(*cnt2); }
    else if (sc2) { bad = compare(*sc2, e, data_rel, bound_rel, true); observed = grid_json(*sc2); }
    else { bad = compare(*gr2, e, data_rel, bound_rel, true); observed = grid_json(*gr2); }
  } else if (f == F_RST_BIN_SAME || f == F_RST_BIN_OTHER) {
    new_target(other);
    cvm::memory_stream ms;
    if (is_count) cnt->write_restart(ms);
    else if (sc) sc->write_restart(ms);
    else gr->write_restart(ms);
    written = "(binary, " + std::to_string(ms.length()) + " bytes)";
    cvm::memory_stream is(ms.length(), ms.input_buffer());
    bool ok;
    if (is_count) ok = bool(cnt2->read_restart(is));
    else if (sc2) ok = bool(sc2->read_restart(is));
    else ok = bool(gr2->read_restart(is));
    read_failed = !ok || cvm::get_error() != 0;
    if (is_count) { bad = compare(*cnt2, e, 0, bound_rel, true); observed = grid_json(*cnt2); }
    else if (sc2) { bad = compare(*sc2, e, data_rel, bound_rel, true); observed = grid_json(*sc2); }
    else { bad = compare(*gr2, e, data_rel, bound_rel, true); observed = grid_json(*gr2); }
  } else if (f == F_RAW_TEXT_SCI || f == F_RAW_TEXT_GEN) {
    new_target(false);
    std::ostringstream osc, os;
    state_stream_format(osc, f == F_RAW_TEXT_GEN);
    state_stream_format(os, f == F_RAW_TEXT_GEN);
    size_t const per_line = (f == F_RAW_TEXT_GEN) ? 8 : 3;
    if (cnt) cnt->write_raw(osc, per_line);
    if (sc) sc->write_raw(os, per_line);
    if (gr) gr->write_raw(os, per_line);
    written = is_count ? osc.str() : os.str();
    bool ok = true;
    if (cnt2) { std::istringstream is(osc.str()); ok = ok && bool(cnt2->read_raw(is)); }
    if (sc2) { std::istringstream is(os.str()); ok = ok && bool(sc2->read_raw(is)); }
    if (gr2) { std::istringstream is(os.str()); ok = ok && bool(gr2->read_raw(is)); }
    read_failed = !ok || cvm::get_error() != 0;
    if (is_count) { bad = compare(*cnt2, e, 0, bound_rel, true); observed = grid_json(*cnt2); }
    else if (sc2) { bad = compare(*sc2, e, data_rel, bound_rel, true); observed = grid_json(*sc2); }
    else { bad = compare(*gr2, e, data_rel, bound_rel, true); observed = grid_json(*gr2); }
  } else if (f == F_RAW_BIN) {
    new_target(false);
    cvm::memory_stream msc, ms;
    if (cnt) cnt->write_raw(msc);
    if (sc) sc->write_raw(ms);
    if (gr) gr->write_raw(ms);
    written = "(binary, " + std::to_string(is_count ? msc.length() : ms.length()) + " bytes)";
    bool ok = true;
    if (cnt2) { cvm::memory_stream is(msc.length(), msc.input_buffer()); ok = ok && bool(cnt2->read_raw(is)); }
    if (sc2) { cvm::memory_stream is(ms.length(), ms.input_buffer()); ok = ok && bool(sc2->read_raw(is)); }
    if (gr2) { cvm::memory_stream is(ms.length(), ms.input_buffer()); ok = ok && bool(gr2->read_raw(is)); }
    read_failed = !ok || cvm::get_error() != 0;
    if (is_count) { bad = compare(*cnt2, e, 0, bound_rel, true); observed = grid_json(*cnt2); }
    else if (sc2) { bad = compare(*sc2, e, data_rel, bound_rel, true); observed = grid_json(*sc2); }
    else { bad = compare(*gr2, e, data_rel, bound_rel, true); observed = grid_json(*gr2); }
  }
  rerr = px.errtxt;
  cvm::clear_error();

  r.seen("nontrivial", fnv(s.json() + "|" + gc_name[gc] + "|" + fmt_name[f] + "|" + std::to_string(pat) + "|" + std::to_string(target_mask)));
  std::string outcome = bad.empty() ? (read_failed ? "read-error-only" : "ok") : bad[0];
  r.seen("outcomes", std::string(fmt_name[f]) + outcome);
  std::string const wr = written.size() > 1500 ? written.substr(0, 1500) + "..." : written;
  for (auto &b : bad) r.count("io_diff_" + b);
  if (!bad.empty() || read_failed) {
    std::string what = bad.empty() ? "read-reports-error" : bad[0];
    bool const restart_form = (f == F_RST_TEXT_SAME || f == F_RST_TEXT_OTHER || f == F_RST_BIN_SAME || f == F_RST_BIN_OTHER);
    bool only_params = !bad.empty() && !read_failed, flags_lost = false;
    for (auto &b : bad) {
      if (b != "lower-boundaries" && b != "upper-boundaries" && b != "widths" && b != "periodic-flags") only_params = false;
      if (b == "periodic-flags") flags_lost = true;
    }
    std::string const more = ",\"differs\":\"" + jesc([&] { std::string a; for (auto &b : bad) a += b + " "; return a; }()) +
         "\",\"read_error\":\"" + jesc(rerr) + "\",\"expected\":" + exp_json(e) + ",\"observed\":" + observed +
         ",\"written\":\"" + jesc(wr) + "\"";
    if (restart_form && only_params && s.variant == 1) {
      // one defect, one signature (format and grid class are in the detail): the parameter block of the restart
      // form is written with the default stream precision
      std::string sig = flags_lost ? "C15:io:restart-form:periodic-flag-lost/parameters-written-with-6-digits"
                                   : "C15:io:restart-form:boundaries-and-widths-differ/parameters-written-with-6-digits";
      c.r->violation(sig, "{\"format\":\"" + std::string(fmt_name[f]) + "\",\"grid_class\":\"" + gc_name[gc] + "\",\"shape\":" + s.json() +
                          ",\"grid_config\":\"" + jesc(s.conf()) + "\",\"data_pattern\":" + std::to_string(pat) +
                          ",\"target_mask\":" + std::to_string(target_mask) + more + "}");
    } else {
      fail(c, gc, f, s, pat, what, more);
    }
  }
  if (r.samples.size() < 3 && c.shard == 0 && nd == 2 && f == int(r.samples.size()) * 3)
    r.sample("{\"format\":\"" + std::string(fmt_name[f]) + "\",\"grid_class\":\"" + gc_name[gc] + "\",\"shape\":" + s.json() +
             ",\"outcome\":\"" + outcome + "\",\"written\":\"" + jesc(wr.substr(0, 400)) + "\"}", 3);
}

int main(int argc, char **argv)
{
  Args args(argc, argv);
  // --replay <file>: re-run only the (shape, grid class, format, data pattern) of the record
  bool replay = false;
  int rp_variant = 0, rp_gc = -1, rp_f = -1, rp_pat = 0, rp_mask = 0;
  std::vector<int> rp_kind, rp_n;
  if (args.replay.size()) {
    std::ifstream in(args.replay);
    if (!in && args.replay[0] != '/') { in.clear(); in.open(args.kv["verif"] + "/" + args.replay); }
    if (!in) { fprintf(stderr, "HARNESS-ERROR: cannot open replay record %s\n", args.replay.c_str()); return 2; }
    std::stringstream ss; ss << in.rdbuf();
    std::string const txt = ss.str();
    if (txt.find("C15:io:") == std::string::npos) {  // a record of the other part: nothing to do here
      Result none; write_result(args.out, "C15", args.tier, none, true); return 0;
    }
    auto strfield = [&](std::string const &k) {
      size_t p = txt.find("\"" + k + "\":");
      if (p == std::string::npos) return std::string();
      p = txt.find('"', p + k.size() + 3);
      size_t e = txt.find('"', p + 1);
      return txt.substr(p + 1, e - p - 1);
    };
    auto intfields = [&](std::string const &k) {
      std::vector<int> v;
      size_t p = 0;
      while ((p = txt.find("\"" + k + "\":", p)) != std::string::npos) { p += k.size() + 3; v.push_back(atoi(txt.c_str() + p)); }
      return v;
    };
    std::string const fs = strfield("format"), gs = strfield("grid_class");
    for (int i = 0; i < F_NFORMAT; i++) if (fs == fmt_name[i]) rp_f = i;
    for (int i = 0; i < G_NCLASS; i++) if (gs == gc_name[i]) rp_gc = i;
    rp_kind = intfields("kind"); rp_n = intfields("n");
    std::vector<int> v = intfields("variant"), pt = intfields("data_pattern");
    if (rp_f < 0 || rp_gc < 0 || rp_kind.empty() || rp_kind.size() != rp_n.size() || v.empty() || pt.empty()) {
      fprintf(stderr, "HARNESS-ERROR: cannot interpret replay record %s\n", args.replay.c_str()); return 2;
    }
    rp_variant = v[0]; rp_pat = pt[0];
    { std::vector<int> mk = intfields("target_mask"); if (mk.size()) rp_mask = mk[0]; }
    if ((rp_f == F_RST_TEXT_OTHER || rp_f == F_RST_BIN_OTHER) && rp_mask == 0) rp_mask = (1 << rp_kind.size()) - 1;
    replay = true;
    args.jobs = 1;
  }
  bool const thorough = args.thorough();
  std::string scratch = args.kv.count("scratch") ? args.kv["scratch"] : ".";

  // ---- enumerate shapes ----
  std::vector<Shape> shapes;
  int const nvariants = 2;
  for (int variant = 0; variant < nvariants; variant++) {
    for (int nd = 1; nd <= 3; nd++) {
      int const opts = 9;  // kind(3) x n(3) per dimension
      long total = 1;
      for (int i = 0; i < nd; i++) total *= opts;
      for (long code = 0; code < total; code++) {
        Shape s;
        s.variant = variant;
        long cc = code;
        bool keep = true;
        for (int i = 0; i < nd; i++) {
          int o = cc % opts; cc /= opts;
          int kind = o / 3, n = o % 3 + 1;
          s.d.push_back(make_dim(i, kind, n, variant));
          s.names.push_back(cvname(i, kind, variant == 1));
          // quick tier: 3-D shapes without the "periodic variable on a sub-interval" kind and variant 0 only
          if (!thorough && nd == 3 && (kind == 1 || variant == 1)) keep = false;
        }
        if (keep) shapes.push_back(s);
      }
    }
  }
  int const npat = 3;
  std::vector<int> pats_for_tier;
  for (int p = 0; p < npat; p++) pats_for_tier.push_back(p);

  long ncases = 0;
  for (auto &sh : shapes) ncases += long(G_NCLASS) * npat * ((F_NFORMAT - 2) + 2 * ((1L << sh.d.size()) - 1));

  // configuration: nine variables
  std::string conf;
  auto add_cv = [&](std::string const &name, int a, double period, double center, double lb, double ub, double w) {
    conf += "colvar {\n name " + name + "\n width " + g17(w) + "\n lowerBoundary " + g17(lb) + "\n upperBoundary " + g17(ub) +
            "\n distanceZ {\n";
    if (period > 0) conf += " period " + g17(period) + "\n wrapAround " + g17(center) + "\n";
    conf += " main { atomNumbers " + std::to_string(a) + " }\n ref { atomNumbers " + std::to_string(a + 1) + " }\n }\n}\n";
  };
  for (int i = 0; i < 3; i++) {
    add_cv("n" + std::to_string(i), 1, 0, 0, -2.0 - i, 3.0 + i, 0.5);
    add_cv("p" + std::to_string(i), 1, PERIOD, i == 1 ? 3.0 : 0.0, i == 1 ? 0.0 : -3.0, i == 1 ? 6.0 : 3.0, 1.0);
    add_cv("r" + std::to_string(i), 1, TWO_PI, 0.0, -0.5 * TWO_PI, 0.5 * TWO_PI, TWO_PI / 8);
  }

  Result total;
  bool ok = run_sharded(args.jobs, [&](int shard, int nshards, Result &r) {
    vproxy *px = new vproxy(2);
    px->x[0] = cvm::rvector(0, 0, 0.75);
    px->x[1] = cvm::rvector(0, 0, 0);
    if (px->config(conf) != 0) { fprintf(stderr, "HARNESS-ERROR: configuration rejected: %s\n", px->errtxt.c_str()); exit(3); }
    for (auto n : {"n0", "p0", "r2"}) if (!px->cv(n)) { fprintf(stderr, "HARNESS-ERROR: colvar %s missing\n", n); exit(2); }
    if (!px->cv("p1")->is_enabled(colvardeps::f_cv_periodic) || px->cv("p1")->period != PERIOD) {
      fprintf(stderr, "HARNESS-ERROR: p1 not periodic as configured\n"); exit(2);
    }
    Ctx c{&r, px, scratch, shard};
    if (replay) {
      Shape s;
      s.variant = rp_variant;
      for (size_t i = 0; i < rp_kind.size(); i++) {
        s.d.push_back(make_dim((int) i, rp_kind[i], rp_n[i], rp_variant));
        s.names.push_back(cvname((int) i, rp_kind[i], rp_variant == 1));
      }
      one_case(c, s, rp_gc, rp_f, rp_pat, rp_mask);
      delete px;
      return;
    }
    long idx = 0;
    for (size_t si = 0; si < shapes.size(); si++)
      for (int gc = 0; gc < G_NCLASS; gc++)
        for (int f = 0; f < F_NFORMAT; f++)
          for (int p : pats_for_tier) {
            bool const other = (f == F_RST_TEXT_OTHER || f == F_RST_BIN_OTHER);
            int const full = (1 << shapes[si].d.size()) - 1;
            for (int mask = other ? 1 : 0; mask <= (other ? full : 0); mask++) {
              if ((idx++ % nshards) != shard) continue;
              one_case(c, shapes[si], gc, f, p, mask);
            }
          }
    delete px;
  }, total, thorough ? 1100 : 170);
  if (!ok) return 2;
  total.notes.push_back("io: " + std::to_string(shapes.size()) + " shapes x " + std::to_string(int(G_NCLASS)) + " grid classes x " +
                        std::to_string(int(F_NFORMAT)) + " formats x " + std::to_string(npat) + " data patterns (the two other-shape restart paths once per non-empty subset of "
                        "dimensions in which the target grid differs from the source) = " + std::to_string(ncases) + " combinations; restart formats with an attached sample grid are not formed by the library and are counted under combos_not_applicable");
  if (!thorough) total.notes.push_back("io quick tier: 3-D shapes restricted to kinds {non-periodic, whole period} and the short-digit parameter alphabet");
  total.notes.push_back("io: upper boundaries are not carried by the multicolumn format (min,width,npoints only) and are not compared for the file constructor");
  write_result(args.out, "C15", args.tier, total, true);
  return 0;
}
