// Engine simulator: a colvarproxy subclass that owns every input Colvars reads
// (atoms, cell, total forces under either timing convention, step protocol,
// random numbers, log) and records everything Colvars hands back.
// Compiled with -fno-access-control so harnesses can read private state.
#ifndef VPROXY_H
#define VPROXY_H

#include <deque>
#include <string>
#include <vector>
#include <cstdio>
#include <cmath>

#include "colvarmodule.h"
#include "colvarscript.h"
#include "colvaratoms.h"
#include "colvarproxy.h"
#include "colvar.h"
#include "colvarbias.h"

class vproxy : public colvarproxy {
public:
  // ---- engine-side system (driver writes these) ----
  int natoms;
  std::vector<cvm::rvector> x;     // positions, index = atom id (0-based); atom numbers are 1-based
  std::vector<cvm::rvector> fsys;  // system ("physical") force on each atom at the current step
  std::vector<double> m, q;
  bool tf_same_step = false;       // engine convention for total forces
  bool pbc = false;
  double box[3] = {0, 0, 0};
  std::deque<double> rng;          // scripted gaussian numbers; 0 when exhausted
  long rng_used = 0;

  // ---- records (driver reads these) ----
  double energy = 0.0;             // sum of add_energy() calls of the last step
  std::vector<cvm::rvector> fapp;  // Colvars force on each engine atom after the last step
  std::string logtxt, errtxt;
  bool keep_log = false;
  long n_errors = 0;

  // ---- engine protocol state ----
  bool first_call = true;
  long prev_engine_step = 0;
  std::vector<cvm::rvector> prev_total;  // fsys + fapp of the previous engine step
  bool have_prev_total = false;

  // alchemical seam
  double alch_lambda = 0.0, alch_dEdl = 0.0, alch_force = 0.0;
  bool alch_enabled = false;
  long alch_sent = 0;

  // script callback seam
  std::function<int()> force_callback;

  explicit vproxy(int n, bool same_step = false)
    : natoms(n), x(n), fsys(n), m(n, 1.0), q(n, 0.0), tf_same_step(same_step), fapp(n), prev_total(n)
  {
    version_int = get_version_from_string(COLVARS_VERSION);
    engine_name_ = "verif";
    // serial evaluation unless a check (C12) asks otherwise: with the default (smp cvcs) every one of the 16
    // worker processes would start a 16-thread OpenMP team
    smp_mode = smp_mode_t::none;
    b_simulation_running = true;
    updated_masses_ = updated_charges_ = true;
    angstrom_value_ = 1.0;
    kcal_mol_value_ = 1.0;
    boltzmann_ = 0.001987191;
    set_target_temperature(0.0);
    set_integration_timestep(1.0);
    boundaries_type = boundaries_non_periodic;
    reset_pbc_lattice();
    colvars = new colvarmodule(this);
    colvars->cv_traj_freq = 0;
    colvars->restart_out_freq = 0;
    cvm::rotation::monitor_crossings = false;
  }

  // destroy the module while this class's virtual functions (log/error capture) are still in place
  std::string dtor_errors;
  ~vproxy() override
  {
    if (colvars != NULL) {
      size_t const n0 = errtxt.size();
      delete colvars;
      colvars = NULL;
      dtor_errors = errtxt.substr(n0);
    }
  }

  // ---------------- seams ----------------
  int set_unit_system(std::string const &u, bool) override { units = u; return COLVARS_OK; }

  void log(std::string const &message) override { if (keep_log) logtxt += message; }
  void error(std::string const &message) override
  {
    n_errors++;
    add_error_msg(message);
    errtxt += message;
  }

  cvm::real rand_gaussian() override
  {
    rng_used++;
    if (rng.empty()) return 0.0;
    double r = rng.front();
    rng.pop_front();
    return r;
  }

  void add_energy(cvm::real e) override { energy += e; }

  void request_total_force(bool yesno) override { total_force_requested = yesno; }
  bool total_forces_enabled() const override { return total_force_requested; }
  bool total_forces_same_step() const override { return tf_same_step; }

  int check_atom_id(int atom_number) override
  {
    int const aid = atom_number - 1;
    if (aid < 0 || aid >= natoms) {
      cvm::error("Error: invalid atom number specified, " + cvm::to_str(atom_number) + "\n",
                 COLVARS_INPUT_ERROR);
      return COLVARS_INPUT_ERROR;
    }
    return aid;
  }

  int init_atom(int atom_number) override
  {
    int aid = atom_number - 1;
    for (size_t i = 0; i < atoms_ids.size(); i++) {
      if (atoms_ids[i] == aid) {
        atoms_refcount[i] += 1;
        return i;
      }
    }
    // As in the NAMD and LAMMPS proxies: check_atom_id() raises the error and returns the (positive) error code,
    // which is then used as an atom id; the library never checks init_atom()'s result (cvm::atom::atom), so
    // returning an error code without a slot would make it index the atom arrays out of bounds.
    aid = check_atom_id(atom_number);
    if (aid < 0) return COLVARS_INPUT_ERROR;
    if (aid >= natoms) aid = natoms - 1;
    int const index = add_atom_slot(aid);
    atoms_masses[index] = m[aid];
    atoms_charges[index] = q[aid];
    atoms_positions[index] = x[aid];
    return index;
  }

  int get_alch_lambda(cvm::real *l) override
  {
    if (!alch_enabled) return colvarproxy::get_alch_lambda(l);
    *l = alch_lambda;
    return COLVARS_OK;
  }
  int send_alch_lambda() override
  {
    if (!alch_enabled) return colvarproxy::send_alch_lambda();
    alch_lambda = cached_alch_lambda;
    alch_sent++;
    return COLVARS_OK;
  }
  int get_dE_dlambda(cvm::real *d) override
  {
    if (!alch_enabled) return colvarproxy::get_dE_dlambda(d);
    *d = alch_dEdl;
    return COLVARS_OK;
  }
  int apply_force_dE_dlambda(cvm::real *f) override
  {
    if (!alch_enabled) return colvarproxy::apply_force_dE_dlambda(f);
    alch_force += *f;
    return COLVARS_OK;
  }
  int get_d2E_dlambda2(cvm::real *d) override
  {
    if (!alch_enabled) return colvarproxy::get_d2E_dlambda2(d);
    *d = 0.0;
    return COLVARS_OK;
  }

  int run_force_callback() override
  {
    if (force_callback) return force_callback();
    return colvarproxy::run_force_callback();
  }

  // ---------------- driver API ----------------
  void set_cell(bool on, double bx = 0, double by = 0, double bz = 0)
  {
    pbc = on;
    box[0] = bx; box[1] = by; box[2] = bz;
    apply_cell();
  }

  void apply_cell()
  {
    if (pbc) {
      unit_cell_x.set(box[0], 0, 0);
      unit_cell_y.set(0, box[1], 0);
      unit_cell_z.set(0, 0, box[2]);
      boundaries_type = boundaries_pbc_ortho;
      colvarproxy_system::update_pbc_lattice();
    } else {
      boundaries_type = boundaries_non_periodic;
      reset_pbc_lattice();
    }
  }

  // Parse configuration text; returns error bits (and clears them)
  int config(std::string const &conf)
  {
    cvm::clear_error();
    int rc = colvars->read_config_string(conf);
    rc |= cvm::get_error();
    cvm::clear_error();
    return rc;
  }

  // Prepare output prefix etc.
  void set_prefixes(std::string const &out, std::string const &in = "")
  {
    if (in.size()) set_input_prefix(in);
    set_output_prefix(out);
    set_restart_output_prefix(out);
  }

  // One Colvars call at engine step `engine_step`, following the NAMD/LAMMPS protocol.
  // Returns error bits of this call (cleared afterwards).
  int step(long engine_step)
  {
    cvm::clear_error();
    if (first_call) {
      colvars->update_engine_parameters();
      colvars->setup_input();
      colvars->setup_output();
      first_call = false;
    } else {
      if (engine_step - prev_engine_step == 1) {
        colvars->it++;
        b_simulation_continuing = false;
      } else {
        b_simulation_continuing = true;
        colvars->setup_output();
      }
    }
    prev_engine_step = engine_step;
    apply_cell();

    for (size_t i = 0; i < atoms_ids.size(); i++) {
      int const aid = atoms_ids[i];
      atoms_positions[i] = x[aid];
      atoms_new_colvar_forces[i] = cvm::rvector(0, 0, 0);
      atoms_total_forces[i] = cvm::rvector(0, 0, 0);
    }
    if (total_force_requested) {
      if (tf_same_step) {
        for (size_t i = 0; i < atoms_ids.size(); i++) atoms_total_forces[i] = fsys[atoms_ids[i]];
      } else if (cvm::step_relative() > 0 && have_prev_total) {
        for (size_t i = 0; i < atoms_ids.size(); i++) atoms_total_forces[i] = prev_total[atoms_ids[i]];
      }
    }
    energy = 0.0;
    alch_force = 0.0;
    int rc = colvars->calc();
    rc |= cvm::get_error();
    cvm::clear_error();

    for (int a = 0; a < natoms; a++) fapp[a] = cvm::rvector(0, 0, 0);
    for (size_t i = 0; i < atoms_ids.size(); i++) {
      // (several slots can map to the same id after a rejected configuration with an invalid atom number)
      fapp[atoms_ids[i]] += atoms_new_colvar_forces[i];
    }
    for (int a = 0; a < natoms; a++) prev_total[a] = fsys[a] + fapp[a];
    have_prev_total = true;
    return rc;
  }

  // End of a run segment
  int end_run()
  {
    cvm::clear_error();
    int rc = post_run();
    rc |= cvm::get_error();
    cvm::clear_error();
    return rc;
  }

  std::string state_text()
  {
    std::ostringstream os;
    colvars->write_state(os);
    return os.str();
  }

  // ---- state save/load without files (same code paths as the state file: write_state / setup_input) ----
  std::vector<unsigned char> state_binary()
  {
    std::vector<unsigned char> buf;
    colvars->write_state_buffer(buf);
    return buf;
  }
  // queue a state to be loaded by the first step() of this (fresh) module
  void queue_state_text(std::string const &txt) { input_stream_from_string("input state string", txt); }
  void queue_state_binary(std::vector<unsigned char> const &b)
  {
    std::vector<unsigned char> c(b);
    colvars->set_input_state_buffer(c);
  }

  colvar *cv(std::string const &name) { return cvm::colvar_by_name(name); }
  colvarbias *bias(std::string const &name) { return cvm::bias_by_name(name); }
};

#endif
