// C12 — results do not depend on threading or on the order of evaluation.
// Explorer B: the library's own parallel loops (colvarproxy_smp::smp_loop / smp_biases_loop /
// smp_biases_script_loop, OPES parallel regions) run on T real threads serialised by the cooperative
// scheduler of sched_omp.cpp; ALL schedules with at most P preemptions are enumerated by DFS over choice
// vectors (iterative preemption bounding), each execution on a fresh module, and compared bit-for-bit with
// the serial run.  A separate part (--mode free) runs the same bodies free on pthreads under ThreadSanitizer.
#include "vproxy.h"
#include "common.h"
#include "sched_omp.h"
#include <fstream>
#include <fcntl.h>

using namespace vc;

class tproxy : public vproxy {
public:
  tproxy(int n) : vproxy(n) {}
  // the library's own loop, with a choice point at every work-item boundary
  int smp_loop(int n_items, std::function<int(int)> const &worker) override
  {
    std::function<int(int)> wrapped = [&](int i) {
      vsched_point();
      int r = worker(i);
      vsched_point();
      return r;
    };
    return colvarproxy::smp_loop(n_items, wrapped);
  }
};

struct Conf { const char *name; std::string body; bool script; bool reduction; int natoms; int long_run = 0; bool first_component_off = false; };

static std::vector<Conf> menu()
{
  std::vector<Conf> m;
  std::string cv3 =
      "colvar {\n name d1\n width 0.5\n lowerBoundary 0.0\n upperBoundary 6.0\n distance {\n group1 { atomNumbers 1 2 }\n group2 { atomNumbers 3 }\n }\n}\n"
      "colvar {\n name d2\n width 0.5\n distance {\n group1 { atomNumbers 3 }\n group2 { atomNumbers 4 }\n }\n}\n"
      "colvar {\n name a\n angle {\n group1 { atomNumbers 1 }\n group2 { atomNumbers 3 }\n group3 { atomNumbers 4 5 }\n }\n}\n";
  m.push_back({"three-variables-three-biases",
               cv3 + "harmonic {\n name h1\n colvars d1\n centers 1.0\n forceConstant 2.0\n}\n"
                     "harmonic {\n name h2\n colvars d1 a\n centers 2.0 80.0\n forceConstant 0.01\n}\n"
                     "histogram {\n name hi\n colvars d1\n}\n",
               false, false, 5});
  m.push_back({"two-component-variable-and-fit",
               "colvar {\n name s\n distance {\n componentCoeff 1.5\n group1 { atomNumbers 1 2 }\n group2 { atomNumbers 3 }\n }\n distance {\n componentCoeff -0.5\n group1 { atomNumbers 4 }\n group2 { atomNumbers 5 }\n }\n}\n"
               "colvar {\n name r\n rmsd {\n atoms { atomNumbers 1 2 3 4 }\n refPositions (0, 0, 0) (1.5, 0, 0) (0.2, 1.4, 0.3) (-0.4, 0.6, 1.6)\n }\n}\n"
               "harmonic {\n name h1\n colvars s\n centers 0.5\n forceConstant 2.0\n}\n"
               "harmonicWalls {\n name w\n colvars r\n upperWalls 0.2\n forceConstant 3.0\n}\n"
               "metadynamics {\n name m\n colvars s\n hillWeight 0.3\n hillWidth 2.0\n newHillFrequency 1\n useGrids off\n}\n",
               false, false, 5});
  m.push_back({"scripted-force-task",
               "scriptedColvarForces on\n" + cv3 + "harmonic {\n name h1\n colvars d1\n centers 1.0\n forceConstant 2.0\n}\n"
                                                    "harmonic {\n name h2\n colvars d2\n centers 2.0\n forceConstant 1.0\n}\n",
               true, false, 5});
  m.push_back({"scripted-force-task-after-biases",
               "scriptedColvarForces on\nscriptingAfterBiases on\n" + cv3 + "harmonic {\n name h1\n colvars d1\n centers 1.0\n forceConstant 2.0\n}\n"
                                                                             "harmonic {\n name h2\n colvars d2\n centers 2.0\n forceConstant 1.0\n}\n",
               true, false, 5});
  // a variable whose FIRST component is switched off from the script interface (cvcflags): the work items of the parallel
  // loop must be the components that are on
  {
    Conf c{"three-component-variable-first-switched-off",
           "colvar {\n name s\n distance {\n componentCoeff 1.5\n group1 { atomNumbers 1 }\n group2 { atomNumbers 2 }\n }\n"
           " distance {\n componentCoeff -0.5\n group1 { atomNumbers 3 }\n group2 { atomNumbers 4 }\n }\n"
           " distance {\n componentCoeff 2.0\n group1 { atomNumbers 4 }\n group2 { atomNumbers 5 }\n }\n}\n"
           "colvar {\n name d2\n distance {\n group1 { atomNumbers 3 }\n group2 { atomNumbers 4 }\n }\n}\n"
           "harmonic {\n name h1\n colvars s\n centers 0.5\n forceConstant 2.0\n}\n",
           false, false, 5};
    c.first_component_off = true;
    m.push_back(c);
  }
  // multiple-time-step variables: the set of variables that are awake, hence the list of work items, changes from step to
  // step (2 -> 3: d2 replaces d1 with the same number of components); explored over 4 steps (0..3) with few preemptions
  {
    Conf c{"multiple-time-step-variables",
           "colvar {\n name d1\n timeStepFactor 2\n distance {\n group1 { atomNumbers 1 2 }\n group2 { atomNumbers 3 }\n }\n}\n"
           "colvar {\n name d2\n timeStepFactor 3\n distance {\n group1 { atomNumbers 3 }\n group2 { atomNumbers 4 }\n }\n}\n"
           "colvar {\n name a\n angle {\n group1 { atomNumbers 1 }\n group2 { atomNumbers 3 }\n group3 { atomNumbers 4 5 }\n }\n}\n"
           "harmonic {\n name h1\n colvars d1\n timeStepFactor 2\n centers 1.0\n forceConstant 2.0\n}\n"
           "harmonic {\n name h2\n colvars d2\n timeStepFactor 3\n centers 2.0\n forceConstant 1.5\n}\n"
           "harmonic {\n name h3\n colvars a\n centers 80.0\n forceConstant 0.01\n}\n",
           false, false, 5};
    c.long_run = 4;
    m.push_back(c);
  }
  // total forces of a variable with several components under the one-step-late convention: every component's projection
  // of the total force is a work item of its own
  m.push_back({"two-component-variable-total-force",
               "colvar {\n name s\n outputTotalForce on\n distance {\n componentCoeff 1.5\n group1 { atomNumbers 1 2 }\n group2 { atomNumbers 3 }\n }\n distance {\n componentCoeff -0.5\n group1 { atomNumbers 4 }\n group2 { atomNumbers 5 }\n }\n}\n"
               "colvar {\n name d2\n outputTotalForce on\n distance {\n group1 { atomNumbers 3 }\n group2 { atomNumbers 4 }\n }\n}\n"
               "harmonic {\n name h1\n colvars s\n centers 0.5\n forceConstant 2.0\n}\n",
               false, false, 5});
  // (OPES' own parallel regions are compiled only with -DOPES_THREADING, which no build system of the
  //  repository defines: they are not part of this build and are left out)
  return m;
}

struct Outcome {
  std::vector<double> nums;   // values, energies, forces per step
  std::string state;
  long errors = 0;
  long depth = 0;
  std::string errtxt;
};

static void place(vproxy &px, long s)
{
  static const double P[5][3] = {{0, 0, 0}, {1.5, 0, 0}, {0.2, 1.4, 0.3}, {-0.4, 0.6, 1.6}, {1.1, -0.8, 0.9}};
  for (int a = 0; a < 5; a++)
    px.x[a] = cvm::rvector(P[a][0] + 0.13 * s * (a + 1), P[a][1] - 0.07 * s * a, P[a][2] + 0.05 * s * ((a * 7) % 3 - 1));
  // forces of the simulated system (they only matter to variables that calculate total forces)
  for (int a = 0; a < 5 && a < (int) px.fsys.size(); a++)
    px.fsys[a] = cvm::rvector(0.4 * (a + 1) - 0.3 * s, -0.2 * a + 0.15 * s * (a % 2), 0.1 * (a * a) - 0.25 * s);
}

static Outcome execute(Conf const &c, int mode, int T, std::vector<int> const &prefix, int nsteps, const char *smp_kw)
{
  Outcome o;
  vsched_configure(mode, T, prefix.data(), (int) prefix.size());
  tproxy *px = new tproxy(c.natoms);
  px->set_target_temperature(300.0);
  place(*px, 0);
  if (c.script)
    px->force_callback = [px]() {
      colvar *cv = px->cv("d2");
      if (cv) cv->add_bias_force(colvarvalue(0.35));
      return COLVARS_OK;
    };
  std::string conf = std::string("smp ") + smp_kw + "\n" + c.body;
  if (px->config(conf) != 0) { fprintf(stderr, "HARNESS-ERROR: %s rejected: %s\n", c.name, px->errtxt.c_str()); exit(3); }
  // run-time feature of the scripting interface ("cv colvar <name> set collect_gradient 1"): per-atom gradients of the
  // variable, accumulated from all its components
  for (auto *cv : *(px->colvars->variables()))
    if (cv->value().type() == colvarvalue::type_scalar) cv->enable(colvardeps::f_cv_collect_gradient);
  if (c.first_component_off) {
    std::vector<bool> flags = {false, true, true};
    px->cv("s")->set_cvc_flags(flags);
  }
  cvm::clear_error();
  for (long s = 0; s < nsteps; s++) {
    place(*px, s);
    int rc = px->step(s);
    if (rc != 0) o.errors++;
    for (auto *cv : *(px->colvars->variables())) {
      colvarvalue const &v = cv->value();
      if (v.type() == colvarvalue::type_scalar) o.nums.push_back(v.real_value);
      if (v.type() == colvarvalue::type_scalar && cv->is_enabled(colvardeps::f_cv_total_force_calc)) o.nums.push_back(cv->total_force().real_value);
      if (cv->is_enabled(colvardeps::f_cv_collect_gradient))
        for (auto const &g : cv->atomic_gradients) { o.nums.push_back(g.x); o.nums.push_back(g.y); o.nums.push_back(g.z); }
    }
    o.nums.push_back(px->energy);
    for (int a = 0; a < c.natoms; a++) { o.nums.push_back(px->fapp[a].x); o.nums.push_back(px->fapp[a].y); o.nums.push_back(px->fapp[a].z); }
  }
  o.state = px->state_text();
  o.depth = (long) cvm::depth();
  o.errtxt = px->errtxt;
  delete px;
  return o;
}

static std::string sched_str(std::vector<int> const &ch)
{
  std::string s = "[";
  for (size_t i = 0; i < ch.size(); i++) s += (i ? "," : "") + std::to_string(ch[i]);
  return s + "]";
}

struct Explorer {
  Conf const &c;
  int T, bound, nsteps;
  Outcome ref;
  Result &r;
  long executions = 0;
  std::set<uint64_t> outcomes;
  std::string schedfile;
  bool violated = false;
  double deadline;
  bool capped = false;

  Explorer(Conf const &cc, int t, int b, int ns, Result &rr, std::string const &sf, double dl)
      : c(cc), T(t), bound(b), nsteps(ns), r(rr), schedfile(sf), deadline(dl) {}

  bool same(Outcome const &a, Outcome const &b, std::string &what)
  {
    if (a.nums.size() != b.nums.size()) { what = "record-length"; return false; }
    for (size_t i = 0; i < a.nums.size(); i++) {
      bool eq = c.reduction ? close_rel(a.nums[i], b.nums[i], std::max(1.0, std::fabs(b.nums[i])), 1e-12, 1e-14)
                            : (memcmp(&a.nums[i], &b.nums[i], sizeof(double)) == 0);
      if (!eq) { what = "numbers"; return false; }
    }
    if (!c.reduction && a.state != b.state) { what = "saved-state"; return false; }
    if (a.errors != b.errors) { what = "error-state"; return false; }
    if (a.depth != b.depth) { what = "log-depth"; return false; }
    return true;
  }

  void run_and_branch(std::vector<int> const &prefix)
  {
    if (violated || capped) return;
    if (now() > deadline) { capped = true; return; }
    { FILE *f = fopen(schedfile.c_str(), "w"); if (f) { fprintf(f, "%s\n", sched_str(prefix).c_str()); fclose(f); } }
    Outcome o = execute(c, VSCHED_CONTROLLED, T, prefix, nsteps, c.reduction ? "inner_loop" : "cvcs");
    executions++;
    r.count("evaluations");
    r.count("transitions", vsched_npoints());
    int np = vsched_npoints();
    std::vector<VschedPoint> pts(np);
    std::vector<int> choices(np);
    for (int i = 0; i < np; i++) { pts[i] = vsched_get_point(i); choices[i] = pts[i].chosen; }
    {
      std::string h;
      for (double d : o.nums) h += num(d) + ",";
      outcomes.insert(fnv(h + o.state));
      r.seen("states", fnv(std::string(c.name) + std::to_string(T) + sched_str(choices)));
      bool real_choice = false;
      for (auto &p : pts) if (p.n_enabled > 1) real_choice = true;
      if (real_choice) r.seen("nontrivial", fnv(std::string(c.name) + std::to_string(T) + sched_str(choices)));
    }
    std::string what;
    if (!same(o, ref, what)) {
      r.violation(std::string("C12:schedule-dependent-result:") + c.name + ":" + what,
                  std::string("{\"config\":\"") + c.name + "\",\"threads\":" + std::to_string(T) + ",\"schedule\":" + sched_str(choices) +
                      ",\"errors\":\"" + jesc(o.errtxt.substr(0, 200)) + "\"}");
      violated = true;
      return;
    }
    // branch
    int pre = 0;
    for (int i = 0; i < np; i++) {
      if (i >= (int) prefix.size()) {
        int cost = pre + (pts[i].running_enabled ? 1 : 0);
        if (cost <= bound) {
          for (int alt = 1; alt < pts[i].n_enabled; alt++) {
            std::vector<int> p2(choices.begin(), choices.begin() + i);
            p2.push_back(alt);
            run_and_branch(p2);
            if (violated || capped) return;
          }
        }
      }
      if (pts[i].running_enabled && pts[i].chosen != 0) pre++;
    }
  }
};

int main(int argc, char **argv)
{
  Args args(argc, argv);
  bool thorough = args.thorough();
  std::string mode = args.kv.count("mode") ? args.kv["mode"] : "controlled";
  std::vector<Conf> confs = menu();
  int nsteps = 2;  // (free-running part; the controlled part sets it per job)

  if (mode == "free") {
    // ThreadSanitizer pass: same bodies, real concurrency; a report makes the process exit non-zero (halt_on_error)
    Result total;
    int reps = thorough ? 200 : 40;
    for (auto &c : confs)
      for (int T = 2; T <= 4; T++) {
        // one child per (configuration, thread count): a ThreadSanitizer report ends the child with exit code 66
        std::string repfile = std::string("tsan_") + c.name + "_" + std::to_string(T) + ".txt";
        std::string out;
        int rc = run_isolated([&]() {
          int fd = open(repfile.c_str(), O_WRONLY | O_CREAT | O_TRUNC, 0644);
          if (fd >= 0) { dup2(fd, 2); close(fd); }
          Result r;
          for (int k = 0; k < reps; k++) {
            std::vector<int> none;
            Outcome ref = execute(c, VSCHED_SERIAL, 1, none, c.long_run ? c.long_run : nsteps, "off");
            Outcome o = execute(c, VSCHED_FREE, T, none, c.long_run ? c.long_run : nsteps, c.reduction ? "inner_loop" : "cvcs");
            r.count("evaluations");
            r.count("transitions", nsteps);
            r.seen("nontrivial", fnv(std::string(c.name) + std::to_string(T)));
            r.seen("states", fnv(std::string(c.name) + std::to_string(T) + std::to_string(k)));
            bool eq = o.nums.size() == ref.nums.size();
            for (size_t i = 0; eq && i < o.nums.size(); i++)
              if (!close_rel(o.nums[i], ref.nums[i], std::max(1.0, std::fabs(ref.nums[i])), c.reduction ? 1e-12 : 0.0, c.reduction ? 1e-14 : 0.0)) eq = false;
            if (!eq || o.errors != ref.errors || o.depth != ref.depth)
              r.violation(std::string("C12:free-running-result-differs:") + c.name,
                          std::string("{\"config\":\"") + c.name + "\",\"threads\":" + std::to_string(T) + "}");
          }
          std::string t = r.ser();
          if (write(3, t.data(), t.size()) < 0) return 5;
          return 0;
        }, 3000, &out);
        if (rc == 0) total.deser(out);
        else if (rc == 66) {
          std::string rep, line, summary;
          std::ifstream f(repfile.c_str());
          int nl = 0;
          while (std::getline(f, line)) {
            if (line.find("SUMMARY:") != std::string::npos && summary.empty()) summary = line;
            if (nl++ < 12) rep += line + "\n";
          }
          total.count("evaluations");
          total.violation(std::string("C12:data-race-reported-by-ThreadSanitizer:") + c.name,
                          std::string("{\"config\":\"") + c.name + "\",\"threads\":" + std::to_string(T) + ",\"summary\":\"" + jesc(summary) + "\",\"report\":\"" + jesc(rep) + "\"}");
        } else { fprintf(stderr, "HARNESS-ERROR: free-running child for %s T=%d ended with %d\n", c.name, T, rc); return 2; }
      }
    total.sample("{\"mode\":\"free-running under ThreadSanitizer\",\"threads\":[2,3,4],\"repetitions\":" + std::to_string(reps) + "}");
    write_result(args.out, "C12", args.tier, total, true);
    return 0;
  }

  int Tmax = thorough ? 4 : 3;
  double budget = thorough ? 1000.0 : 120.0;
  struct Job { size_t ci; int T; int bound; int steps; };
  std::vector<Job> jobs;
  for (size_t ci = 0; ci < confs.size(); ci++)
    for (int T = 2; T <= Tmax; T++) {
      // two steps with two threads (run-to-run state carried over), one step with more threads
      int b = thorough ? (T <= 3 ? 2 : 1) : 1;
      if (confs[ci].long_run) { if (T == 2) jobs.push_back({ci, T, thorough ? 1 : 0, confs[ci].long_run}); continue; }
      jobs.push_back({ci, T, b, T == 2 ? 2 : 1});
    }

  Result total;
  bool all_complete = true;
  bool ok = run_sharded(std::min<int>(args.jobs, jobs.size()), [&](int shard, int nsh, Result &r) {
    for (size_t ji = shard; ji < jobs.size(); ji += nsh) {
      Conf const &c = confs[jobs[ji].ci];
      int T = jobs[ji].T;
      int bound = jobs[ji].bound;
      int nsteps = jobs[ji].steps;
      // each exploration in its own child: a deadlock or crash of the library kills only that child
      std::string sf = "sched_" + std::to_string(ji) + ".txt", rf = "res_" + std::to_string(ji) + ".txt";
      unlink(rf.c_str());
      int rc = run_isolated([&]() {
        Result rr;
        std::vector<int> none;
        Explorer ex(c, T, 0, nsteps, rr, sf, now() + budget);
        ex.ref = execute(c, VSCHED_SERIAL, 1, none, nsteps, "off");
        // determinism of the harness itself: the serial run and one threaded schedule, twice
        {
          Outcome again = execute(c, VSCHED_SERIAL, 1, none, nsteps, "off");
          std::string w;
          if (!ex.same(again, ex.ref, w)) { fprintf(stderr, "HARNESS-ERROR: serial run not reproducible (%s)\n", w.c_str()); return 2; }
        }
        // iterative preemption bounding: 0, 1, ... bound
        int completed = -1;
        for (int b = 0; b <= bound; b++) {
          ex.bound = b;
          long before = ex.executions;
          ex.run_and_branch(none);
          if (ex.violated) break;
          if (ex.capped) break;
          completed = b;
          rr.notes.push_back(std::string(c.name) + " T=" + std::to_string(T) + ": preemption bound " + std::to_string(b) + " completed, " +
                             std::to_string(ex.executions - before) + " schedules, " + std::to_string(ex.outcomes.size()) + " distinct outcome(s)");
        }
        rr.count(completed >= bound || ex.violated ? "explorations_complete" : "explorations_capped");
        if (ji == 0) rr.sample(std::string("{\"config\":\"") + c.name + "\",\"threads\":" + std::to_string(T) + ",\"preemption_bound\":" + std::to_string(bound) +
                               ",\"schedules\":" + std::to_string(ex.executions) + "}");
        FILE *f = fopen(rf.c_str(), "w");
        std::string ser = rr.ser();
        fwrite(ser.data(), 1, ser.size(), f);
        fclose(f);
        return 0;
      }, budget * (bound + 2) + 120.0);
      std::string sched;
      { FILE *f = fopen(sf.c_str(), "r"); if (f) { char b[4096]; if (fgets(b, sizeof(b), f)) sched = b; fclose(f); } }
      while (!sched.empty() && (sched.back() == '\n')) sched.pop_back();
      if (rc == 0) {
        FILE *f = fopen(rf.c_str(), "r");
        std::string txt;
        if (f) { char b[65536]; size_t n; while ((n = fread(b, 1, sizeof(b), f)) > 0) txt.append(b, n); fclose(f); }
        r.deser(txt);
      } else if (rc == 98) {
        r.violation(std::string("C12:deadlock:") + c.name, std::string("{\"config\":\"") + c.name + "\",\"threads\":" + std::to_string(T) + ",\"schedule_prefix\":" + (sched.empty() ? "[]" : sched) + "}");
      } else if (rc == 2 || rc == 96 || rc == 97) {
        fprintf(stderr, "HARNESS-ERROR: exploration child for %s T=%d ended with code %d (schedule %s)\n", c.name, T, rc, sched.c_str());
        exit(2);
      } else {
        r.violation(std::string("C12:crash-under-schedule:") + c.name + ":" + (rc < 0 ? "signal" + std::to_string(-rc) : "exit" + std::to_string(rc)),
                    std::string("{\"config\":\"") + c.name + "\",\"threads\":" + std::to_string(T) + ",\"schedule_prefix\":" + (sched.empty() ? "[]" : sched) + "}");
      }
      unlink(sf.c_str());
      unlink(rf.c_str());
    }
  }, total, 7200);
  if (!ok) return 2;
  all_complete = total.counters.count("explorations_capped") == 0;
  write_result(args.out, "C12", args.tier, total, all_complete);
  return 0;
}
