// C05 — the metadynamics bias is the sum of the hills deposited on schedule.
// Explorer A: ALL value words of length L over a 7-letter alphabet x configuration menu x segmentation
// (one run / new run in the same process at K / restart at K); reference = explicit hill list + "tabulated"
// marker, evaluated as the property states.
#include "vproxy.h"
#include "common.h"
#include "colvarbias_meta.h"
#include "colvargrid.h"

using namespace vc;

static const double KB = 0.001987191;
// grid on d: [1,3], width 0.5 (bins 0..3).  letters: bin centre 0, bin centre 1, off-centre in bin 1, exact edge 2.0,
// just below the grid, far below, above
static const double VAL[7] = {1.25, 1.75, 1.6, 2.0, 0.8, 0.2, 3.3};

struct Conf {
  const char *name;
  int kind;          // 0 scalar d; 1 periodic distanceZ [0,2); 2 two variables (d,e); 3 distanceVec without grids
  bool grids;
  int hill_freq, grid_freq;   // grid_freq 0 = default
  double hill_width;          // in grid points; 0 = use sigma
  double sigma;
  bool keep_hills, well_tempered, expand;
  double lower, upper;        // grid of d
  bool rebin = false;         // restart onto a narrower grid [1.5,2.5] with rebinGrids on (keepHills)
  int hard = 0;               // 1: hardLowerBoundary on (only); 2: hardUpperBoundary on (only) - the other side can be left
  bool gridblock = false;     // the grid [lower,upper] is given by a grid { } block of the bias; the variables' own boundaries are narrower
};

static std::string conf_text(Conf const &c, bool rebinned = false)
{
  std::string s;
  if (c.kind == 1) {
    s += "colvar {\n name d\n width 0.5\n lowerBoundary 0.0\n upperBoundary 2.0\n distanceZ {\n period 2.0\n wrapAround 1.0\n axis (1, 0, 0)\n main { atomNumbers 2 }\n ref { atomNumbers 1 }\n }\n}\n";
  } else if (c.kind == 3) {
    s += "colvar {\n name d\n width 0.5\n distanceVec {\n group1 { atomNumbers 1 }\n group2 { atomNumbers 2 }\n }\n}\n";
  } else {
    s += "colvar {\n name d\n width 0.5\n lowerBoundary " + num(rebinned || c.gridblock ? 1.5 : c.lower) + "\n upperBoundary " + num(rebinned || c.gridblock ? 2.5 : c.upper) + "\n" + (c.expand ? " expandBoundaries on\n" : "") + (c.hard == 1 ? " hardLowerBoundary on\n" : "") + (c.hard == 2 ? " hardUpperBoundary on\n" : "") +
         " distance {\n group1 { atomNumbers 1 }\n group2 { atomNumbers 2 }\n }\n}\n";
  }
  if (c.kind == 2)
    s += std::string("colvar {\n name e\n width 0.5\n lowerBoundary ") + (c.gridblock ? "1.5" : "1.0") + "\n upperBoundary 2.0\n distance {\n group1 { atomNumbers 3 }\n group2 { atomNumbers 4 }\n }\n}\n";
  s += std::string("metadynamics {\n name m\n colvars d") + (c.kind == 2 ? " e" : "") + "\n hillWeight 0.5\n newHillFrequency " + std::to_string(c.hill_freq) + "\n";
  if (c.hill_width > 0) s += " hillWidth " + num(c.hill_width) + "\n";
  else s += " gaussianSigmas " + num(c.sigma) + (c.kind == 2 ? " " + num(c.sigma) : "") + "\n";
  if (!c.grids) s += " useGrids off\n";
  if (c.grid_freq) s += " gridsUpdateFrequency " + std::to_string(c.grid_freq) + "\n";
  if (c.keep_hills) s += " keepHills on\n";
  if (rebinned) s += " rebinGrids on\n";
  if (c.well_tempered) s += " wellTempered on\n biasTemperature 1500.0\n";
  if (c.gridblock) s += " grid {\n lowerBoundary " + num(c.lower) + (c.kind == 2 ? " 1.0" : "") + "\n upperBoundary " + num(c.upper) + (c.kind == 2 ? " 2.0" : "") +
                         "\n width 0.5" + (c.kind == 2 ? " 0.5" : "") + "\n }\n";
  s += "}\n";
  return s;
}

struct Hill { long it; double w; std::vector<double> c; bool tab; };

struct RefMeta {
  Conf const &c;
  std::vector<Hill> hills;
  double lo, up;  // current grid boundaries along d (may expand)
  RefMeta(Conf const &cc) : c(cc), lo(cc.lower), up(cc.upper) {}
  double sigma() const { return c.hill_width > 0 ? 0.5 * c.hill_width / 2.0 : c.sigma; }
  int dim() const { return c.kind == 2 ? 2 : (c.kind == 3 ? 3 : 1); }
  double diff(int i, double a, double b) const
  {
    double d = a - b;
    if (c.kind == 1 && i == 0) d = std::remainder(d, 2.0);
    return d;
  }
  // Gaussian of one hill at point x, with derivative
  double g(Hill const &h, std::vector<double> const &x, std::vector<double> *grad) const
  {
    double s = sigma(), e = 0;
    for (int i = 0; i < dim(); i++) { double d = diff(i, x[i], h.c[i]); e += d * d / (s * s); }
    double v = h.w * std::exp(-0.5 * e);
    if (grad) for (int i = 0; i < dim(); i++) (*grad)[i] += -v * diff(i, x[i], h.c[i]) / (s * s);
    return v;
  }
  bool in_grid(std::vector<double> const &x, std::vector<double> &centre) const
  {
    if (!c.grids) return false;
    centre = x;
    double l0 = c.kind == 1 ? 0.0 : lo, u0 = c.kind == 1 ? 2.0 : up;
    int n0 = (int) std::floor((u0 - l0) / 0.5 + 0.5);
    double q = std::floor((x[0] - l0) / 0.5);
    if (q < 0 || q >= n0) return false;
    centre[0] = l0 + (q + 0.5) * 0.5;
    if (c.kind == 2) {
      double q1 = std::floor((x[1] - 1.0) / 0.5);
      if (q1 < 0 || q1 >= 2) return false;
      centre[1] = 1.0 + (q1 + 0.5) * 0.5;
    }
    return true;
  }
  // bias energy and force on the variables at x, as the property states
  double eval(std::vector<double> const &x, std::vector<double> &force) const
  {
    std::vector<double> centre, grad(dim(), 0.0);
    bool ing = in_grid(x, centre);
    double e = 0;
    for (auto &h : hills) {
      if (ing && h.tab) e += g(h, centre, &grad);
      else e += g(h, x, &grad);
    }
    force.assign(dim(), 0.0);
    for (int i = 0; i < dim(); i++) force[i] = -grad[i];
    return e;
  }
};

// the value a letter stands for: with a hard LOWER boundary the variable cannot be below the grid, the "just below" letter
// then stands for a value above the (open) upper boundary, so that the quick alphabet also leaves the grid there
static double val_of(Conf const &c, int letter) { return (c.hard == 1 && letter == 4) ? 3.3 : VAL[letter]; }

static std::vector<double> value_of(Conf const &c, int letter, long s)
{
  double v = val_of(c, letter);
  std::vector<double> x;
  if (c.kind == 1) x = {v - 2.0 * std::floor(v / 2.0)};
  else if (c.kind == 2) x = {v, (s % 3 == 1) ? 1.7 : 1.25};
  else if (c.kind == 3) x = {v, 0.3 * (s % 2), 0.0};
  else x = {v};
  return x;
}
static void place(vproxy &px, Conf const &c, int letter, long s)
{
  px.x[0] = cvm::rvector(0, 0, 0);
  px.x[1] = cvm::rvector(val_of(c, letter), c.kind == 3 ? 0.3 * (s % 2) : 0.0, 0);
  px.x[2] = cvm::rvector(0, 3, 0);
  px.x[3] = cvm::rvector((s % 3 == 1) ? 1.7 : 1.25, 3, 0);
}

int main(int argc, char **argv)
{
  Args args(argc, argv);
  bool thorough = args.thorough();
  int L_short = thorough ? 5 : 4;
  int L = L_short;
  int NL = thorough ? 7 : 5;  // quick: bin centres, off-centre, exact edge, just below the grid
  std::vector<Conf> confs = {
      {"grids-hw1-freq1", 0, true, 1, 0, 1.0, 0, false, false, false, 1.0, 3.0},
      {"grids-hw2-freq2-gridfreq4", 0, true, 2, 4, 2.0, 0, false, false, false, 1.0, 3.0},
      {"grids-sigma0.6-wide", 0, true, 1, 0, 0, 0.6, false, false, false, 1.0, 4.5},
      {"grids-keepHills", 0, true, 1, 0, 1.0, 0, true, false, false, 1.0, 3.0},
      {"grids-wellTempered", 0, true, 1, 0, 2.0, 0, false, true, false, 1.0, 3.0},
      {"grids-wellTempered-gridfreq2", 0, true, 1, 2, 2.0, 0, false, true, false, 1.0, 3.0},
      {"nogrids", 0, false, 2, 0, 2.0, 0, false, false, false, 1.0, 3.0},
      {"nogrids-wellTempered", 0, false, 1, 0, 2.0, 0, false, true, false, 1.0, 3.0},
      {"grids-periodic", 1, true, 1, 0, 2.0, 0, false, false, false, 0.0, 2.0},
      {"grids-2d", 2, true, 1, 0, 2.0, 0, false, false, false, 1.0, 3.0},
      {"nogrids-distanceVec", 3, false, 1, 0, 0, 0.4, false, false, false, 0, 0},
      {"grids-expandBoundaries", 0, true, 1, 0, 1.0, 0, false, false, true, 1.0, 3.0},
      {"grids-keepHills-rebin-narrower", 0, true, 1, 0, 1.0, 0, true, false, false, -4.0, 9.0, true},
      {"grids-hardLowerBoundary-only", 0, true, 1, 0, 1.0, 0, false, false, false, 0.0, 3.0, false, 1},
      {"grids-hardUpperBoundary-only-hw2", 0, true, 1, 0, 2.0, 0, false, false, false, 1.0, 3.5, false, 2},
      {"grids-hw1-variable-far-below-the-grid", 0, true, 1, 0, 1.0, 0, false, false, false, 3.5, 4.5},   // (0.4 to 6.6 bins outside: every hill is kept for analytic use)
      {"grids-wellTempered-variable-far-below-the-grid", 0, true, 1, 0, 2.0, 0, false, true, false, 3.5, 4.5},
      {"grids-from-a-grid-block", 0, true, 1, 0, 1.0, 0, false, false, false, 1.0, 3.0, false, 0, true},
      {"grids-2d-from-a-grid-block", 2, true, 1, 0, 2.0, 0, false, false, false, 1.0, 3.0, false, 0, true},
  };
  long nw = 1;
  for (int i = 0; i < L; i++) nw *= NL;
  std::string only = args.kv.count("only") ? args.kv["only"] : "";

  Result total;
  bool ok = run_sharded(args.jobs, [&](int shard, int nsh, Result &r) {
    for (size_t ci = 0; ci < confs.size(); ci++) {
      Conf const &c = confs[ci];
      if (only.size() && only != c.name) continue;
      std::string conf = conf_text(c);
      double T = c.well_tempered ? 300.0 : 0.0;
      // all words of length L, then two long scripted words (40 values; thorough 64) visiting the alphabet in a fixed
      // irregular order: tabulated bias, off-grid lists and well-tempered heights accumulate over many more hills
      long nlong = 2;
      for (long wq = shard; wq < nw + nlong; wq += nsh) {
        long w = wq;
        int L = L_short;
        std::vector<int> word;
        if (wq >= nw) {
          L = thorough ? 64 : 40;
          word.resize(L);
          for (int i = 0; i < L; i++) word[i] = (int) (((wq - nw + 2) * (long) i * i + 3 * i + (wq - nw)) % NL);
        } else {
          word.resize(L);
          long q = w;
          for (int i = 0; i < L; i++) { word[i] = q % NL; q /= NL; }
        }
        std::string wj = "[";
        for (int i = 0; i < L; i++) wj += (i ? "," : "") + num(val_of(c, word[i]));
        wj += "]";
        for (int mode = 0; mode <= 2; mode++)
          for (int K = (mode ? 1 : 0); K < (mode ? L - 1 : 1); K++) {
            r.count("evaluations");
            std::string det = std::string("{\"config\":\"") + c.name + "\",\"values\":" + wj + ",\"segmentation\":\"" +
                              (mode == 0 ? "one run" : (mode == 1 ? "new run at step " : "restart at step ")) + (mode ? std::to_string(K) : "") + "\"";
            vproxy *px = new vproxy(4);
            px->set_target_temperature(T);
            place(*px, c, word[0], 0);
            if (px->config(conf) != 0) { fprintf(stderr, "HARNESS-ERROR: %s rejected: %s\n", c.name, px->errtxt.c_str()); exit(3); }
            RefMeta ref(c);
            std::vector<long> calls;
            for (long s = 0; s < L; s++) { calls.push_back(s); if (mode && s == K) calls.push_back(s); }
            long prev = -1;
            bool failed = false;
            size_t nh_max = 0;
            for (size_t k = 0; k < calls.size() && !failed; k++) {
              long s = calls[k];
              bool repeat = (s == prev);
              if (repeat) {
                px->end_run();
                if (mode == 2) {
                  std::string st = px->state_text();
                  delete px;
                  px = new vproxy(4);
                  px->set_target_temperature(T);
                  place(*px, c, word[s], s);
                  if (px->config(c.rebin ? conf_text(c, true) : conf) != 0) { fprintf(stderr, "HARNESS-ERROR: %s rejected at restart: %s\n", c.name, px->errtxt.c_str()); exit(3); }
                  px->queue_state_text(st);
                  if (c.rebin) { ref.lo = 1.5; ref.up = 2.5; }
                  // saving the state tabulates every hill (documented: grids are brought up to date when written)
                  for (auto &h : ref.hills) h.tab = true;
                }
              }
              place(*px, c, word[s], s);
              if (px->step(s) != 0) {
                r.violation(std::string("C05:error-during-run:") + c.name, det + ",\"step\":" + std::to_string(s) + ",\"error\":\"" + jesc(px->errtxt.substr(0, 200)) + "\"}");
                failed = true;
                break;
              }
              r.count("transitions");
              std::vector<double> x = value_of(c, word[s], s);
              // ---- reference: deposition ----
              if (s >= 1 && !repeat && (s % c.hill_freq) == 0) {
                double wgt = 0.5;
                if (c.well_tempered) {
                  std::vector<double> ff;
                  double V = ref.eval(x, ff);
                  wgt *= std::exp(-V / (1500.0 * KB));
                }
                ref.hills.push_back(Hill{s, wgt, x, false});
              }
              // grid expansion (documented: boundaries are extended when the variable approaches them); follow the
              // implementation's current boundaries only to decide in/out of grid
              if (c.expand) {
                colvarbias_meta *m = dynamic_cast<colvarbias_meta *>(px->bias("m"));
                ref.lo = m->hills_energy->lower_boundaries[0].real_value;
                ref.up = m->hills_energy->upper_boundaries[0].real_value;
              }
              // tabulation on the grid-update schedule
              int gf = c.grid_freq ? c.grid_freq : c.hill_freq;
              if (c.grids && (s % gf) == 0) for (auto &h : ref.hills) h.tab = true;
              nh_max = std::max(nh_max, ref.hills.size());
              // ---- compare energy and force on the variables ----
              std::vector<double> fref;
              double eref = ref.eval(x, fref);
              double env = ref.hills.size() * 0.5 * 1.2e-5 + 1e-12;
              colvarbias *mb = px->bias("m");
              double e = mb->get_energy();
              std::vector<double> centre;
              bool ing = ref.in_grid(x, centre);
              std::string where = ing ? "in-grid" : (c.grids ? "off-grid" : "no-grid");
              if (std::fabs(e - eref) > env + 1e-10 * std::fabs(eref)) {
                r.violation(std::string("C05:energy-differs-from-sum-of-hills:") + c.name + ":" + where + (mode == 2 && s >= K ? ":after-restart" : ""),
                            det + ",\"step\":" + std::to_string(s) + ",\"energy\":" + num(e) + ",\"expected\":" + num(eref) + ",\"hills\":" + std::to_string(ref.hills.size()) + "}");
                failed = true;
                break;
              }
              for (int i = 0; i < ref.dim() && !failed; i++) {
                double f;
                if (c.kind == 3) { cvm::rvector fv = mb->colvar_forces[0].rvector_value; f = i == 0 ? fv.x : (i == 1 ? fv.y : fv.z); }
                else f = mb->colvar_forces[i].real_value;
                double fenv = env * 6.0 / ref.sigma();
                if (std::fabs(f - fref[i]) > fenv + 1e-10 * std::fabs(fref[i])) {
                  r.violation(std::string("C05:force-differs-from-sum-of-hills:") + c.name + ":" + where + (mode == 2 && s >= K ? ":after-restart" : ""),
                              det + ",\"step\":" + std::to_string(s) + ",\"force\":" + num(f) + ",\"expected\":" + num(fref[i]) + "}");
                  failed = true;
                }
              }
              prev = s;
            }
            // ---- hill list of the saved state (when hills are kept explicitly) ----
            if (!failed && (c.keep_hills || !c.grids)) {
              colvarbias_meta *m = dynamic_cast<colvarbias_meta *>(px->bias("m"));
              if (m->hills.size() != ref.hills.size()) {
                r.violation(std::string("C05:hill-list-differs:") + c.name, det + ",\"hills\":" + std::to_string(m->hills.size()) + ",\"expected\":" + std::to_string(ref.hills.size()) + "}");
              } else {
                size_t i = 0;
                for (auto &h : m->hills) {
                  // heights of well-tempered hills inherit the documented Gaussian cutoff (exp(-11.5)) through V
                  if (h.it != ref.hills[i].it || std::fabs(h.W - ref.hills[i].w) > 1e-9 + 0.5 * ref.hills.size() * 1.2e-5 / (1500.0 * KB)) {
                    r.violation(std::string("C05:hill-list-differs:") + c.name, det + ",\"index\":" + std::to_string(i) + "}");
                    break;
                  }
                  i++;
                }
              }
            }
            if (!failed) {
              std::string h;
              for (auto &hh : ref.hills) h += std::to_string(hh.it) + ":" + num(hh.c[0]) + ":" + num(hh.w) + ";";
              r.seen("states", fnv(std::string(c.name) + h));
              if (nh_max > 0) r.seen("nontrivial", fnv(det));
            }
            if (w == 100 % nw && mode == 0) r.sample(det + "}");
            delete px;
          }
      }
    }
  }, total, 7200);
  if (!ok) return 2;
  write_result(args.out, "C05", args.tier, total, true);
  return 0;
}
