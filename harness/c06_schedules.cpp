// C06 (part 2) — moving-restraint schedules are functions of the step number alone, whatever the run
// segmentation; accumulated work and staged TI output equal their definitions.
// Explorer A: every assignment of {no boundary, new run in the same process, restart from saved state} to the
// L-1 inter-step boundaries (3^(L-1) segmentations) x schedule menu x 2 trajectories x 2 state formats.
#include "vproxy.h"
#include "common.h"
#include "colvarbias_restraint.h"

using namespace vc;

enum Kind { C_CONT, C_STAGED, K_CONT, K_STAGED, K_SCHED, D_CONT, D_STAGED, W_KCONT, W_KASYM, W_DASYM, W_DUPPER };

// harmonicWalls: per-side scale factors of the force constant (1 for symmetric walls; for lowerWallConstant 1,
// upperWallConstant 4 the documented reference constant is the geometric mean 2 and the sides scale by 0.5 and 2)
static double wall_scale(Kind k, bool upper) { return (k == W_KASYM || k == W_DASYM) ? (upper ? 2.0 : 0.5) : 1.0; }
static bool is_walls(Kind k) { return k == W_KCONT || k == W_KASYM || k == W_DASYM || k == W_DUPPER; }

struct Sched {
  const char *name;
  Kind kind;
  int N, M, E;
  double alpha;
  bool acc_work;
  std::vector<double> lsched;
  long first = 0;         // step number of the first step of the simulation (the schedule counts from the step the restraint is created)
  bool periodic = false;  // the variable is a periodic distanceZ (period 4, values in [-2,2)): the moving centre crosses the boundary
  int tsf = 1;            // timeStepFactor of the restraint: it is updated at the steps that are multiples of tsf and holds its parameters in between
};
static const double PERIOD = 4.0;
static double img(double d, bool periodic) { return periodic ? d - PERIOD * std::floor(d / PERIOD + 0.5) : d; }

static const double WIDTH = 0.5, C0 = 1.0, C1 = 3.0, K0 = 2.0, K1 = 6.0;

static std::string conf_of(Sched const &s)
{
  std::string c = "colvar {\n name d\n width 0.5\n distance {\n group1 { atomNumbers 1 }\n group2 { atomNumbers 2 }\n }\n}\n";
  if (s.periodic) c = "colvar {\n name d\n width 0.5\n distanceZ {\n period 4.0\n axis (1, 0, 0)\n main { atomNumbers 2 }\n ref { atomNumbers 1 }\n }\n}\n";
  std::string b = is_walls(s.kind) ? std::string("harmonicWalls {\n name r\n colvars d\n") + (s.kind == W_DUPPER ? "" : " lowerWalls 1.8\n") + " upperWalls 2.4\n" : "harmonic {\n name r\n colvars d\n centers 1.0\n";
  if (s.kind == W_KASYM || s.kind == W_DASYM) b += " lowerWallConstant 1.0\n upperWallConstant 4.0\n";
  else if (s.kind == W_DUPPER) b += " upperWallConstant 2.0\n";   // one wall: its constant is the reference constant
  else b += " forceConstant 2.0\n";
  switch (s.kind) {
  case C_CONT: b += " targetCenters 3.0\n"; break;
  case C_STAGED: b += " targetCenters 3.0\n targetNumStages " + std::to_string(s.M) + "\n"; break;
  case K_CONT: case W_KCONT: case W_KASYM: b += " targetForceConstant 6.0\n"; break;
  case K_STAGED: b += " targetForceConstant 6.0\n targetNumStages " + std::to_string(s.M) + "\n"; break;
  case K_SCHED: {
    b += " targetForceConstant 6.0\n lambdaSchedule";
    for (double l : s.lsched) b += " " + num(l);
    b += "\n";
    break;
  }
  case D_CONT: case W_DASYM: case W_DUPPER: b += " decoupling on\n"; break;
  case D_STAGED: b += " decoupling on\n targetNumStages " + std::to_string(s.M) + "\n"; break;
  }
  b += " targetNumSteps " + std::to_string(s.N) + "\n";
  if (s.E) b += " targetEquilSteps " + std::to_string(s.E) + "\n";
  if (s.alpha != 1.0) b += " lambdaExponent " + num(s.alpha) + "\n";
  if (s.acc_work) b += " outputAccumulatedWork on\n";
  if (s.tsf > 1) b += " timeStepFactor " + std::to_string(s.tsf) + "\n";
  b += "}\n";
  return c + b;
}

struct Rec {
  long step = -1;
  double x = 0, center = 0, k = 0, W = 0, E = 0, F = 0;
  int stage = 0;
};

struct Run {
  std::vector<Rec> first, last;  // per absolute step: record at first and at last visit
  std::vector<std::pair<double, double>> ti;  // (lambda, dA/dlambda) lines in order of appearance
  bool ok = true;
  std::string err;
};

static const double TRAJ[2][12] = {{1.2, 2.6, 1.9, 3.1, 0.8, 2.2, 1.4, 2.9, 1.7, 2.4, 3.3, 1.1},
                                   {2.0, 2.0, 2.5, 1.5, 3.5, 3.0, 1.0, 2.2, 2.8, 1.9, 2.1, 2.7}};

// with a timeStepFactor the variable is only computed at the restraint's steps, and a restart refuses a value that is further
// than half a width from the one in the state file: those scenarios move in small steps
static double xat(Sched const &sc, int traj, long s) { return sc.tsf > 1 ? 2.0 + 0.03 * (TRAJ[traj][s] - 2.0) : TRAJ[traj][s]; }

static void parse_ti(std::string const &log, std::vector<std::pair<double, double>> &out)
{
  size_t p = 0;
  while ((p = log.find(" Lambda= ", p)) != std::string::npos) {
    double l = atof(log.c_str() + p + 9);
    size_t q = log.find("dA/dLambda= ", p);
    if (q == std::string::npos) break;
    double d = atof(log.c_str() + q + 12);
    out.push_back({l, d});
    p = q + 1;
  }
}

// seg[s] (s = 1..L-1): boundary AFTER step s: 0 none, 1 new run in the same process, 2 restart
static Run do_run(Sched const &sc, int traj, std::vector<int> const &seg, int L, bool binary, Result &r)
{
  Run out;
  out.first.resize(L);
  out.last.resize(L);
  std::string conf = conf_of(sc);
  vproxy *px = new vproxy(2);
  px->keep_log = true;
  px->x[1] = cvm::rvector(xat(sc, traj, 0), 0, 0);
  long const F = sc.first;
  if (F) px->colvars->set_initial_step(F);   // (as an engine does that is told to number its steps from F: known before the configuration is read)
  if (px->config(conf) != 0) { out.ok = false; out.err = px->errtxt; delete px; return out; }
  auto record = [&](long s) {
    Rec q;
    q.step = cvm::step_absolute();
    colvarbias *b = px->bias("r");
    q.x = px->cv("d")->value().real_value;
    auto *cm = dynamic_cast<colvarbias_restraint_centers *>(b);
    q.center = cm ? cm->colvar_centers[0].real_value : 0.0;
    q.k = dynamic_cast<colvarbias_restraint_k *>(b)->force_k;
    q.W = dynamic_cast<colvarbias_restraint_moving *>(b)->acc_work;
    q.stage = dynamic_cast<colvarbias_restraint_moving *>(b)->stage;
    q.E = px->energy;
    q.F = px->fapp[1].x;
    if (out.first[s].step < 0) out.first[s] = q;
    out.last[s] = q;
  };
  for (long s = 0; s < L; s++) {
    px->x[1] = cvm::rvector(xat(sc, traj, s), 0, 0);
    if (px->step(F + s) != 0) { out.ok = false; out.err = px->errtxt; break; }
    r.count("transitions");
    record(s);
    int b = (s >= 1 && s < L - 1) ? seg[s] : 0;
    if (b == 1) {
      px->end_run();
      if (px->step(F + s) != 0) { out.ok = false; out.err = px->errtxt; break; }
      r.count("transitions");
      record(s);
    } else if (b == 2) {
      px->end_run();
      std::string st;
      std::vector<unsigned char> sb;
      if (binary) sb = px->state_binary(); else st = px->state_text();
      parse_ti(px->logtxt, out.ti);
      delete px;
      px = new vproxy(2);
      px->keep_log = true;
      px->x[1] = cvm::rvector(xat(sc, traj, s), 0, 0);
      if (px->config(conf) != 0) { out.ok = false; out.err = px->errtxt; break; }
      if (binary) px->queue_state_binary(sb); else px->queue_state_text(st);
      if (px->step(F + s) != 0) { out.ok = false; out.err = px->errtxt; break; }
      r.count("transitions");
      if (cvm::step_absolute() != F + s) { out.ok = false; out.err = "step number after restart is " + std::to_string(cvm::step_absolute()); break; }
      record(s);
    }
  }
  parse_ti(px->logtxt, out.ti);
  delete px;
  return out;
}

static std::string seg_str(std::vector<int> const &seg, int L)
{
  std::string s = "\"";
  for (int i = 1; i < L - 1; i++) s += (seg[i] == 0 ? '-' : (seg[i] == 1 ? 'c' : 'R'));
  return s + "\"";
}

// ---- accumulated work of moving centres for vector-valued variables ----
// With the variable held fixed, the work done by moving the centre is the change of the restraint energy: whatever end of the
// step the force is taken at, the sum over steps of force times centre increment converges to it as the steps get small
// (3-vector: 0.3% off with 256 steps).  Checked with 256 steps and a tolerance of 3% of the energy change.
static void vector_work_part(Result &r)
{
  struct VW { const char *name; std::string var, c0, c1; };
  std::string const refp = " refPositions (0, 0, 0) (1.5, 0, 0) (0.2, 1.4, 0.3) (-0.4, 0.6, 1.6)\n";
  std::vector<VW> cases = {
      {"3vector", "distanceVec {\n group1 { atomNumbers 1 }\n group2 { atomNumbers 2 }\n }", "(1, 0, 0)", "(0, 1, 0)"},
      {"3vector-far-target", "distanceVec {\n group1 { atomNumbers 1 }\n group2 { atomNumbers 2 }\n }", "(1, 0.5, 0)", "(-2, 1, 3)"},
      {"unitvector", "distanceDir {\n group1 { atomNumbers 1 }\n group2 { atomNumbers 2 }\n }", "(1, 0, 0)", "(0, 1, 0)"},
      {"unitvector-short-move", "distanceDir {\n group1 { atomNumbers 1 }\n group2 { atomNumbers 2 }\n }", "(1, 0, 0)", "(0.9, 0.1, 0.2)"},
      {"quaternion", "orientation {\n atoms { atomNumbers 1 2 3 4 }\n" + refp + " }", "(1, 0, 0, 0)", "(0.7071067811865476, 0, 0, 0.7071067811865476)"},
      {"quaternion-short-move", "orientation {\n atoms { atomNumbers 1 2 3 4 }\n" + refp + " }", "(1, 0, 0, 0)", "(0.98, 0.1, 0.1, 0.1)"},
  };
  int const N = 256;
  for (auto const &c : cases) {
    vproxy *px = new vproxy(4);
    px->x[0] = cvm::rvector(0, 0, 0); px->x[1] = cvm::rvector(2 * std::cos(0.35), 2 * std::sin(0.35), 0);
    px->x[2] = cvm::rvector(0.2, 1.4, 0.3); px->x[3] = cvm::rvector(-0.4, 0.6, 1.6);
    std::string conf = "colvar {\n name u\n " + c.var + "\n}\nharmonic {\n name r\n colvars u\n centers " + c.c0 + "\n targetCenters " + c.c1 +
                       "\n forceConstant 2.0\n targetNumSteps " + std::to_string(N) + "\n outputAccumulatedWork on\n}\n";
    if (px->config(conf) != 0) { fprintf(stderr, "HARNESS-ERROR: vector work case %s rejected: %s\n", c.name, px->errtxt.c_str()); exit(3); }
    double e0 = 0, e1 = 0;
    bool ok = true;
    for (long st = 0; st <= N && ok; st++) {
      if (px->step(st) != 0) { r.violation(std::string("C06:work:vector-valued:step-fails:") + c.name, "{\"error\":\"" + jesc(px->errtxt.substr(0, 200)) + "\"}"); ok = false; }
      r.count("transitions");
      if (st == 0) e0 = px->energy;
      e1 = px->energy;
    }
    if (ok) {
      double W = dynamic_cast<colvarbias_restraint_moving *>(px->bias("r"))->acc_work, dU = e1 - e0;
      r.count("evaluations"); r.count("work_checked");
      r.seen("nontrivial", fnv(std::string("vw") + c.name));
      if (std::fabs(W - dU) > 0.03 * std::fabs(dU))
        r.violation(std::string("C06:work:accumulated-work-of-a-fixed-variable-is-not-the-energy-change:") + c.name,
                    std::string("{\"variable_type\":\"") + c.name + "\",\"centers\":\"" + c.c0 + "\",\"targetCenters\":\"" + c.c1 + "\",\"targetNumSteps\":" + std::to_string(N) +
                        ",\"accumulatedWork\":" + num(W) + ",\"energy_change\":" + num(dU) + "}");
    }
    delete px;
  }
}

int main(int argc, char **argv)
{
  Args args(argc, argv);
  bool thorough = args.thorough();
  int L = thorough ? 10 : 8;

  std::vector<Sched> menu = {
      {"centers-continuous", C_CONT, 4, 0, 0, 1.0, true, {}},
      {"centers-staged", C_STAGED, 2, 2, 0, 1.0, false, {}},
      {"centers-staged-one-step-stages", C_STAGED, 1, 3, 0, 1.0, false, {}},
      {"centers-continuous-across-the-periodic-boundary", C_CONT, 4, 0, 0, 1.0, true, {}, 0, true},
      {"centers-continuous-timeStepFactor3", C_CONT, 4, 0, 0, 1.0, true, {}, 0, false, 3},
      {"k-continuous-timeStepFactor3", K_CONT, 4, 0, 0, 1.0, true, {}, 0, false, 3},
      {"decoupling-continuous-timeStepFactor2", D_CONT, 3, 0, 0, 1.0, false, {}, 0, false, 2},
      {"k-staged-timeStepFactor2-stages-of-4-steps", K_STAGED, 4, 2, 0, 1.0, false, {}, 0, false, 2},
      {"k-staged-timeStepFactor2-stages-of-3-steps", K_STAGED, 3, 2, 0, 1.0, false, {}, 0, false, 2},
      {"centers-staged-timeStepFactor2-stages-of-3-steps", C_STAGED, 3, 2, 0, 1.0, false, {}, 0, false, 2},
      {"centers-staged-timeStepFactor2-stages-of-4-steps", C_STAGED, 4, 2, 0, 1.0, false, {}, 0, false, 2},
      {"k-continuous", K_CONT, 4, 0, 0, 1.0, true, {}},
      {"k-continuous-exp2", K_CONT, 5, 0, 0, 2.0, true, {}},
      {"k-staged", K_STAGED, 2, 2, 0, 1.0, false, {}},
      {"k-staged-equil1-exp2", K_STAGED, 3, 2, 1, 2.0, false, {}},
      {"k-staged-run-continues-after-last-stage", K_STAGED, 1, 2, 0, 1.0, false, {}},
      {"k-staged-equil1-simulation-starting-at-step-5", K_STAGED, 3, 2, 1, 1.0, false, {}, 5},
      {"k-staged-equil1-simulation-starting-at-step-7", K_STAGED, 3, 2, 1, 1.0, false, {}, 7},
      {"k-lambdaSchedule-equil2-simulation-starting-at-step-5", K_SCHED, 4, 1, 2, 1.0, false, {0.0, 1.0}, 5},
      {"centers-continuous-simulation-starting-at-step-7", C_CONT, 4, 0, 0, 1.0, true, {}, 7},
      {"k-lambdaSchedule", K_SCHED, 2, 2, 0, 1.0, false, {0.0, 0.3, 1.0}},
      {"k-lambdaSchedule-exp3-nonzero-start", K_SCHED, 2, 2, 0, 3.0, false, {0.2, 0.5, 1.0}},
      {"decoupling-continuous", D_CONT, 4, 0, 0, 2.0, true, {}},
      {"decoupling-staged", D_STAGED, 2, 3, 0, 1.0, false, {}},
      {"walls-k-continuous", W_KCONT, 4, 0, 0, 1.0, true, {}},
      {"walls-asymmetric-k-continuous", W_KASYM, 5, 0, 0, 1.0, true, {}},
      {"walls-asymmetric-decoupling-continuous", W_DASYM, 5, 0, 0, 1.0, true, {}},
      {"walls-upper-only-decoupling-continuous", W_DUPPER, 4, 0, 0, 2.0, true, {}},
  };

  long nseg = 1;
  for (int i = 0; i < L - 2; i++) nseg *= 3;

  if (args.kv.count("debug")) {
    // --debug <schedule name> --dtraj <0|1> --dseg <string over -cR of length L-2> [--dbin 1]
    Result r;
    for (auto &sc : menu) if (args.kv["debug"] == sc.name) {
      std::vector<int> seg(L, 0);
      std::string ds = args.kv["dseg"];
      for (int i = 1; i < L - 1 && i - 1 < (int) ds.size(); i++) seg[i] = ds[i - 1] == 'c' ? 1 : (ds[i - 1] == 'R' ? 2 : 0);
      Run run = do_run(sc, atoi(args.kv["dtraj"].c_str()), seg, L, args.kv.count("dbin") > 0, r);
      printf("%s ok=%d err=%s\n%s", sc.name, (int) run.ok, run.err.c_str(), conf_of(sc).c_str());
      for (int s2 = 0; s2 < L; s2++)
        printf("step %d x=%g | first: c=%g k=%g W=%.10g stage=%d E=%g | last: c=%g k=%g W=%.10g stage=%d E=%g\n", s2, run.last[s2].x,
               run.first[s2].center, run.first[s2].k, run.first[s2].W, run.first[s2].stage, run.first[s2].E, run.last[s2].center,
               run.last[s2].k, run.last[s2].W, run.last[s2].stage, run.last[s2].E);
      for (auto &t : run.ti) printf("TI lambda=%g dA=%g\n", t.first, t.second);
    }
    return 0;
  }

  Result total;
  bool ok = run_sharded(args.jobs, [&](int shard, int nsh, Result &r) {
    if (shard == 0) vector_work_part(r);
    for (size_t mi = 0; mi < menu.size(); mi++) {
      Sched const &sc = menu[mi];
      for (int traj = 0; traj < 2; traj++) {
        std::vector<int> none(L, 0);
        Run ref = do_run(sc, traj, none, L, false, r);
        if (!ref.ok) { fprintf(stderr, "HARNESS-ERROR: %s rejected: %s\n", sc.name, ref.err.c_str()); exit(3); }
        std::string base = std::string("{\"schedule\":\"") + sc.name + "\",\"trajectory\":" + std::to_string(traj);

        // ---------- closed forms on the unsegmented run (done once, by shard 0) ----------
        if (shard == 0) {
          r.count("evaluations");
          // (a) schedule value as a function of the step number
          bool stage_conv_ok[2] = {true, true};
          for (int s = 0; s < L; s++) {
            Rec const &q = ref.last[s];
            double lam = std::min(1.0, double(s - s % sc.tsf) / sc.N);   // (the value of the last step at which the restraint was updated)
            std::string det = base + ",\"step\":" + std::to_string(s);
            switch (sc.kind) {
            case C_CONT: {
              double c = C0 + lam * (C1 - C0);
              if (!close_rel(img(q.center - c, sc.periodic), 0.0, 3.0, 1e-13)) r.violation("C06:schedule:centers-continuous-closed-form", det + ",\"center\":" + num(q.center) + ",\"expected\":" + num(c) + "}");
              break;
            }
            case K_CONT: case W_KCONT: case W_KASYM: {
              double k = K0 + (K1 - K0) * std::pow(lam, sc.alpha);
              if (!close_rel(q.k, k, 6.0, 1e-13)) r.violation("C06:schedule:k-continuous-closed-form", det + ",\"k\":" + num(q.k) + ",\"expected\":" + num(k) + "}");
              break;
            }
            case D_CONT: case W_DASYM: case W_DUPPER: {
              double k = K0 * std::pow(1.0 - lam, sc.alpha);
              if (!close_rel(q.k, k, 6.0, 1e-13)) r.violation("C06:schedule:decoupling-continuous-closed-form", det + ",\"k\":" + num(q.k) + ",\"expected\":" + num(k) + "}");
              break;
            }
            default: {
              // staged: stage boundaries every N steps; either boundary convention (change seen at step kN or kN+1)
              for (int off = 0; off <= 1; off++) {
                int sa = s - s % sc.tsf;   // (the last step at which the restraint was updated)
                int stg = sa < off ? 0 : std::min(sc.M, (sa - off) / sc.N);
                double l = sc.kind == K_SCHED ? sc.lsched[stg] : double(stg) / sc.M;
                double val, got;
                if (sc.kind == C_STAGED) { val = C0 + l * (C1 - C0); got = q.center; }
                else if (sc.kind == D_STAGED) { val = K0 * std::pow(1.0 - l, sc.alpha); got = q.k; }
                else { val = K0 + (K1 - K0) * std::pow(l, sc.alpha); got = q.k; }
                if (!close_rel(got, val, 6.0, 1e-13)) stage_conv_ok[off] = false;
              }
            }
            }
          }
          if (sc.kind == C_STAGED || sc.kind == K_STAGED || sc.kind == K_SCHED || sc.kind == D_STAGED) {
            if (!stage_conv_ok[0] && !stage_conv_ok[1])
              r.violation(std::string("C06:schedule:staged-values-not-a-step-function-of-period-N:") + sc.name, base + "}");
          }
          // (b) energy closed form at every step with the recorded centre/k
          for (int s = 0; s < L; s++) {
            Rec const &q = ref.last[s];
            if (s % sc.tsf) continue;   // (between its steps a restraint with a timeStepFactor is not evaluated and reports no energy)
            double e;
            if (is_walls(sc.kind)) {
              double d = (q.x < 1.8 && sc.kind != W_DUPPER) ? q.x - 1.8 : (q.x > 2.4 ? q.x - 2.4 : 0.0);
              e = 0.5 * q.k * wall_scale(sc.kind, q.x > 2.4) * d * d / (WIDTH * WIDTH);
            } else { double dx = img(q.x - q.center, sc.periodic); e = 0.5 * q.k * dx * dx / (WIDTH * WIDTH); }
            if (!close_rel(q.E, e, std::max(1.0, e), 1e-12))
              r.violation("C06:energy:moving-restraint-closed-form", base + ",\"step\":" + std::to_string(s) + ",\"energy\":" + num(q.E) + ",\"expected\":" + num(e) + "}");
          }
          // (c) accumulated work
          if (sc.acc_work) {
            double WA = 0, WB = 0, WC = 0;  // force taken with the new / old / mid-point parameter
            bool okA = true, okB = true, okC = true;
            for (int s = 1; s < L; s++) {
              Rec const &q = ref.last[s], &p = ref.last[s - 1];
              if (sc.kind == C_CONT) {
                double dc = img(q.center - p.center, sc.periodic);
                WA += q.k * img(q.center - q.x, sc.periodic) / (WIDTH * WIDTH) * dc;
                WB += q.k * img(p.center - q.x, sc.periodic) / (WIDTH * WIDTH) * dc;
                WC += q.k * img(p.center + 0.5 * dc - q.x, sc.periodic) / (WIDTH * WIDTH) * dc;
              } else {
                double dk = q.k - p.k, dudk;
                if (is_walls(sc.kind)) {
                  double d = (q.x < 1.8 && sc.kind != W_DUPPER) ? q.x - 1.8 : (q.x > 2.4 ? q.x - 2.4 : 0.0);
                  dudk = 0.5 * wall_scale(sc.kind, q.x > 2.4) * d * d / (WIDTH * WIDTH);
                } else dudk = 0.5 * (q.x - q.center) * (q.x - q.center) / (WIDTH * WIDTH);
                WA += dudk * dk; WB = WA; WC = WA;
              }
              if (!close_rel(q.W, WA, std::max(1.0, std::fabs(WA)), 1e-12)) okA = false;
              if (!close_rel(q.W, WB, std::max(1.0, std::fabs(WB)), 1e-12)) okB = false;
              if (!close_rel(q.W, WC, std::max(1.0, std::fabs(WC)), 1e-12)) okC = false;
            }
            if (!okA && !okB && !okC)
              r.violation(std::string("C06:work:accumulated-work-differs-from-sum-of-force-times-increment:") + sc.name,
                          base + ",\"W_final\":" + num(ref.last[L - 1].W) + ",\"expected_final\":" + num(WA) + "}");
            r.count("work_checked");
          }
          // (d) staged TI output
          if (sc.kind == K_STAGED || sc.kind == K_SCHED || sc.kind == D_STAGED) {
            for (size_t i = 0; i < ref.ti.size(); i++) {
              int stg = (int) i;  // lines appear in stage order
              // a run that goes on after the last stage stays in it: further lines repeat its lambda, each with the mean
              // over its own targetNumSteps steps
              int stg_l = std::min(stg, sc.M);
              double l = sc.kind == K_SCHED ? sc.lsched[stg_l] : double(stg_l) / sc.M;
              if (sc.kind == D_STAGED) l = 1.0 - l;
              double kd = (sc.kind == D_STAGED) ? (K0 - 0.0) : (K1 - K0);
              auto mean_over = [&](int a, int b) {
                double sum = 0; int n = 0;
                for (int s = a; s <= b; s++) {
                  if (s < 0 || s >= L) return std::nan("");
                  Rec const &q = ref.last[s];
                  double dudk = 0.5 * (q.x - q.center) * (q.x - q.center) / (WIDTH * WIDTH);
                  sum += sc.alpha * std::pow(l, sc.alpha - 1.0) * kd * dudk;
                  n++;
                }
                return n ? sum / n : std::nan("");
              };
              double mA = mean_over(stg * sc.N + sc.E + 1, (stg + 1) * sc.N);
              double mB = mean_over(stg * sc.N + sc.E, (stg + 1) * sc.N - 1);
              double got = ref.ti[i].second;
              // the log prints 6-7 significant digits
              bool okA2 = close_rel(got, mA, std::max(1.0, std::fabs(mA)), 2e-6, 1e-9), okB2 = close_rel(got, mB, std::max(1.0, std::fabs(mB)), 2e-6, 1e-9);
              bool lam_ok = std::fabs(ref.ti[i].first - l) < 1e-6;
              r.count("ti_lines_checked");
              if (!lam_ok) r.violation(std::string("C06:ti:wrong-lambda-in-output:") + sc.name, base + ",\"stage\":" + std::to_string(stg) + "}");
              else if (!okA2 && !okB2)
                r.violation(std::string("C06:ti:dA/dLambda-differs-from-stage-mean") + (stg == 0 && sc.E == 0 ? "/first-stage-without-equilibration" : "") + (sc.tsf > 1 ? std::string(":") + sc.name : std::string()),
                            base + ",\"stage\":" + std::to_string(stg) + ",\"written\":" + num(got) + ",\"mean_steps_kN+E+1..(k+1)N\":" + num(mA) +
                                ",\"mean_steps_kN+E..(k+1)N-1\":" + num(mB) + "}");
            }
            if (ref.ti.empty()) r.violation(std::string("C06:ti:no-output:") + sc.name, base + "}");
          }
          if (mi < 3 && traj == 0) r.sample(base + ",\"segmentation\":\"none\",\"steps\":" + std::to_string(L) + "}");
        }

        // ---------- every segmentation: same function of the step number ----------
        for (long sg = shard; sg < nseg; sg += nsh) {
          if (sg == 0) continue;
          std::vector<int> seg(L, 0);
          long q = sg;
          bool has_restart = false;
          for (int i = 1; i < L - 1; i++) { seg[i] = q % 3; q /= 3; if (seg[i] == 2) has_restart = true; }
          for (int bin = 0; bin <= (has_restart ? 1 : 0); bin++) {
            r.count("evaluations");
            Run run = do_run(sc, traj, seg, L, bin != 0, r);
            std::string det = base + ",\"segmentation\":" + seg_str(seg, L) + ",\"format\":\"" + (bin ? "binary" : "text") + "\"";
            if (!run.ok) {
              r.violation(std::string("C06:segmentation:error-in-segmented-run:") + sc.name, det + ",\"error\":\"" + jesc(run.err.substr(0, 300)) + "\"}");
              continue;
            }
            std::string what;
            int at = -1;
            for (int s = 0; s < L && what.empty(); s++) {
              for (int pass = 0; pass < 2 && what.empty(); pass++) {
                Rec const &a = pass ? run.last[s] : run.first[s];
                Rec const &b = ref.last[s];
                std::string when = pass ? "" : "";
                if (!close_rel(a.center, b.center, 3.0, 1e-12)) what = "centre";
                else if (!close_rel(a.k, b.k, 6.0, 1e-12)) what = "force-constant";
                else if (a.stage != b.stage && pass == 1) what = "stage";
                else if (!close_rel(a.E, b.E, std::max(1.0, std::fabs(b.E)), 1e-11)) what = "energy";
                else if (!close_rel(a.F, b.F, std::max(1.0, std::fabs(b.F)), 1e-11)) what = "force";
                else if (sc.acc_work && !close_rel(a.W, b.W, std::max(1.0, std::fabs(b.W)), 1e-10)) what = "accumulated-work";
                if (!what.empty()) at = s;
              }
            }
            if (!what.empty()) {
              // classify by the kind of boundary that precedes the first deviation
              std::string cause = "after-";
              bool sawc = false, sawr = false;
              for (int i = 1; i <= at && i < L - 1; i++) { if (seg[i] == 1) sawc = true; if (seg[i] == 2) sawr = true; }
              cause += sawr && sawc ? "continuation-and-restart" : (sawr ? "restart" : (sawc ? "continuation" : "nothing"));
              r.violation(std::string("C06:segmentation:") + what + "-depends-on-run-segmentation:" + sc.name + ":" + cause,
                          det + ",\"step\":" + std::to_string(at) + ",\"centre\":" + num(run.last[at].center) + ",\"k\":" + num(run.last[at].k) +
                              ",\"W\":" + num(run.last[at].W) + ",\"unsegmented\":{\"centre\":" + num(ref.last[at].center) + ",\"k\":" + num(ref.last[at].k) +
                              ",\"W\":" + num(ref.last[at].W) + "}}");
            } else if (sc.kind == K_STAGED || sc.kind == K_SCHED || sc.kind == D_STAGED) {
              // every TI line printed must equal the unsegmented line of the same lambda
              for (auto &ln : run.ti) {
                bool found = false, match = false;
                for (auto &rl : ref.ti)
                  if (std::fabs(rl.first - ln.first) < 1e-6) {
                    found = true;
                    if (close_rel(ln.second, rl.second, std::max(1.0, std::fabs(rl.second)), 2e-6, 1e-9)) match = true;
                  }
                if (!found || !match) {
                  bool sawr = false;
                  for (int i = 1; i < L - 1; i++) if (seg[i] == 2) sawr = true;
                  r.violation(std::string("C06:ti:dA/dLambda-depends-on-run-segmentation:") + sc.name + (sawr ? ":with-restart" : ":continuation-only"),
                              det + ",\"lambda\":" + num(ln.first) + ",\"written\":" + num(ln.second) + "}");
                  break;
                }
              }
            }
            {
              std::string h;
              for (auto &q2 : run.last) h += num(q2.center) + num(q2.k) + num(q2.W) + "|";
              r.seen("states", fnv(h + seg_str(seg, L)));
            }
            r.seen("nontrivial", fnv(det));
          }
        }
      }
    }
  }, total);
  if (!ok) return 2;
  write_result(args.out, "C06", args.tier, total, true);
  return 0;
}
