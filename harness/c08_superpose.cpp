// C08 — bias contributions superpose; multiple-time-step scaling conserves impulse.
// Explorer A: all subsets (size <= K) of a 7-bias menu x all timeStepFactor tuples x every first step of the
// run x L scripted steps.  Oracles: (1) combined run == sum of the single-bias runs (forces per atom, energy);
// (2) a memoryless bias with factor n == n x its factor-1 force on multiples of n, nothing otherwise;
// (3) non-biasing members contribute exactly zero.
#include "vproxy.h"
#include "common.h"

using namespace vc;

static const int NB = 8;
static const char *BNAME[NB] = {"ha", "hb", "wl", "li", "hi", "ab", "me", "hs"};
static const bool MEMORYLESS[NB] = {true, true, true, true, false, false, false, true};
static const bool NONBIASING[NB] = {false, false, false, false, true, true, false, false};

static std::string colvars_conf(int tsf_d2)
{
  std::string s;
  s += "colvar {\n name d1\n width 0.5\n lowerBoundary 0.0\n upperBoundary 6.0\n distance {\n group1 { atomNumbers 1 }\n group2 { atomNumbers 2 }\n }\n}\n";
  s += "colvar {\n name d2\n width 0.5\n lowerBoundary 0.0\n upperBoundary 6.0\n";
  if (tsf_d2 > 1) s += " timeStepFactor " + std::to_string(tsf_d2) + "\n";
  s += " distance {\n group1 { atomNumbers 3 }\n group2 { atomNumbers 4 }\n }\n}\n";
  s += "colvar {\n name d3\n width 0.5\n lowerBoundary 0.0\n upperBoundary 6.0\n distance {\n group1 { atomNumbers 1 }\n group2 { atomNumbers 3 }\n }\n}\n";
  return s;
}

static std::string bias_conf(int b, int n)
{
  std::string t = n > 1 ? " timeStepFactor " + std::to_string(n) + "\n" : "";
  switch (b) {
  case 0: return "harmonic {\n name ha\n colvars d1\n centers 2.0\n forceConstant 3.0\n" + t + "}\n";
  case 1: return "harmonic {\n name hb\n colvars d1\n centers 1.0\n forceConstant 1.5\n" + t + "}\n";
  case 2: return "harmonicWalls {\n name wl\n colvars d2\n lowerWalls 1.5\n upperWalls 2.5\n forceConstant 4.0\n" + t + "}\n";
  case 3: return "linear {\n name li\n colvars d3\n centers 0.0\n forceConstant 0.7\n" + t + "}\n";
  case 4: return "histogram {\n name hi\n colvars d1\n" + t + "}\n";
  case 5: return "abf {\n name ab\n colvars d2\n applyBias off\n fullSamples 1\n" + t + "}\n";
  case 7: return "harmonic {\n name hs\n colvars d3\n centers 1.5\n forceConstant 2.5\n scaledBiasingForce on\n scaledBiasingForceFactorsGrid factors.grid\n" + t + "}\n";
  case 6: return "metadynamics {\n name me\n colvars d3\n hillWeight 0.5\n newHillFrequency 2\n hillWidth 1.0\n useGrids off\n" + t + "}\n";
  }
  return "";
}

// scripted trajectory: positions at absolute step s
static void place(vproxy &px, long s)
{
  static const double a[12] = {1.2, 2.6, 1.9, 3.1, 0.8, 2.2, 1.4, 2.9, 1.7, 2.4, 3.3, 1.1};
  double u = a[s % 12], v = a[(s * 5 + 3) % 12], w = a[(s * 7 + 1) % 12];
  px.x[0] = cvm::rvector(0, 0, 0);
  px.x[1] = cvm::rvector(u, 0.3, -0.2);
  px.x[2] = cvm::rvector(0.5, w, 0.4);
  px.x[3] = cvm::rvector(0.5 + 0.6 * v, w + 0.8 * v, 0.4);
  for (int i = 0; i < 4; i++) px.fsys[i] = cvm::rvector(0.1 * (i + 1) * (s % 3 - 1), -0.2 * i, 0.05 * s);
}

struct Trace {
  std::vector<std::vector<double>> f;  // per step: 12 force components
  std::vector<double> e;
  bool ok = true;
  bool config_ok = true;
  std::string err;
};

struct Case {
  std::vector<int> members;  // bias ids
  std::vector<int> tsf;
  int start;
  int L;
  int tsf_d2 = 1;
  int disable_at = -1;   // k >= 1: before the k-th step of the run the first member is switched off from the script interface (cv bias <name> set active 0)
  std::string json() const
  {
    std::string s = "{\"biases\":[";
    for (size_t i = 0; i < members.size(); i++)
      s += std::string(i ? "," : "") + "{\"bias\":\"" + BNAME[members[i]] + "\",\"timeStepFactor\":" + std::to_string(tsf[i]) + "}";
    s += "],\"first_step\":" + std::to_string(start) + ",\"steps\":" + std::to_string(L) +
         ",\"timeStepFactor_d2\":" + std::to_string(tsf_d2) +
         (disable_at >= 0 ? ",\"first_bias_switched_off_from_the_script_before_step\":" + std::to_string(start + disable_at) : std::string()) + "}";
    return s;
  }
};

static Trace run_case(Case const &c, Result &r)
{
  Trace t;
  vproxy *px = new vproxy(4);
  place(*px, c.start);
  std::string conf = colvars_conf(c.tsf_d2);
  for (size_t i = 0; i < c.members.size(); i++) conf += bias_conf(c.members[i], c.tsf[i]);
  if (px->config(conf) != 0) {
    t.ok = false;
    t.config_ok = false;
    t.err = px->errtxt;
    delete px;
    return t;
  }
  px->colvars->set_initial_step(c.start);
  for (int k = 0; k < c.L; k++) {
    long s = c.start + k;
    if (c.disable_at >= 0 && k == c.disable_at) {
      std::vector<std::string> wv = {"cv", "bias", BNAME[c.members[0]], "set", "active", "0"};
      std::vector<unsigned char *> av;
      for (auto &x : wv) av.push_back((unsigned char *) x.c_str());
      cvm::clear_error();
      int src = run_colvarscript_command((int) av.size(), av.data());
      cvm::clear_error();
      if (src != 0) { t.ok = false; t.err = "script command refused: " + px->errtxt; break; }
    }
    place(*px, s);
    int rc = px->step(s);
    if (rc != 0) { t.ok = false; t.err = px->errtxt; break; }
    r.count("transitions");
    std::vector<double> f;
    for (int a = 0; a < 4; a++) { f.push_back(px->fapp[a].x); f.push_back(px->fapp[a].y); f.push_back(px->fapp[a].z); }
    t.f.push_back(f);
    t.e.push_back(px->energy);
  }
  delete px;
  return t;
}

static std::string key_of(int b, int n, int start, int tsf_d2)
{
  return std::to_string(b) + ":" + std::to_string(n) + ":" + std::to_string(start) + ":" + std::to_string(tsf_d2);
}

int main(int argc, char **argv)
{
  Args args(argc, argv);
  bool thorough = args.thorough();
  int L = thorough ? 12 : 8;
  int maxn = thorough ? 5 : 4;
  int maxk = thorough ? 4 : 3;
  int nstart = thorough ? 7 : 5;

  // grid of force-scaling factors for bias "hs" (multicolumn format: 12 bins of width 0.5 on [0,6])
  {
    FILE *g = fopen("factors.grid", "w");
    if (!g) { perror("factors.grid"); return 2; }
    fprintf(g, "# 1\n# 0.0 0.5 12 0\n\n");
    for (int i = 0; i < 12; i++) fprintf(g, "%.2f %.3f\n", 0.25 + 0.5 * i, 0.4 + 0.15 * i);
    fclose(g);
  }

  // enumerate cases
  std::vector<Case> cases;
  for (int mask = 1; mask < (1 << NB); mask++) {
    std::vector<int> mem;
    for (int b = 0; b < NB; b++) if (mask & (1 << b)) mem.push_back(b);
    if ((int) mem.size() > maxk) continue;
    long ntup = 1;
    for (size_t i = 0; i < mem.size(); i++) ntup *= maxn;
    for (long tup = 0; tup < ntup; tup++) {
      std::vector<int> tsf;
      long q = tup;
      bool skip = false;
      for (size_t i = 0; i < mem.size(); i++) {
        int n = 1 + q % maxn;
        q /= maxn;
        if (mem[i] == 5 && n != 1) skip = true;  // ABF requires its factor to equal its variable's: covered below
        tsf.push_back(n);
      }
      if (skip) continue;
      for (int st = 0; st < nstart; st++) cases.push_back(Case{mem, tsf, st, L, 1});
    }
  }
  // variable-level factor: d2 with factor n carrying walls (factor n), alone and next to factor-1 biases on d1
  for (int n = 2; n <= maxn; n++)
    for (int st = 0; st < nstart; st++) {
      // (total-force measurement is documented as incompatible with a variable-level factor, so ABF is left out here)
      cases.push_back(Case{{2}, {n}, st, L, n});
      cases.push_back(Case{{0, 2}, {1, n}, st, L, n});
      cases.push_back(Case{{2, 4}, {n, 1}, st, L, n});
    }

  // "biases that are disabled contribute nothing": the first member of every case of one or two members is switched off from the
  // script interface before the 2nd or the 3rd step of the run (for a factor-2 bias one of them finds it asleep, the other awake)
  {
    size_t n0 = cases.size();
    for (size_t i = 0; i < n0; i++) {
      if (cases[i].members.size() > 2 || cases[i].tsf_d2 != 1) continue;
      for (int k = 1; k <= 2; k++) { Case c = cases[i]; c.disable_at = k; cases.push_back(c); }
    }
  }

  Result total;
  bool ok = run_sharded(args.jobs, [&](int shard, int nsh, Result &r) {
    std::map<std::string, Trace> singles;
    auto single = [&](int b, int n, int st, int tsf_d2) -> Trace & {
      std::string k = key_of(b, n, st, tsf_d2);
      auto it = singles.find(k);
      if (it == singles.end()) {
        Trace t = run_case(Case{{b}, {n}, st, L, tsf_d2}, r);
        if (!t.ok) { fprintf(stderr, "HARNESS-ERROR: single-bias configuration rejected (%s n=%d): %s\n", BNAME[b], n, t.err.c_str()); exit(3); }
        it = singles.insert({k, t}).first;
      }
      return it->second;
    };
    for (size_t ci = shard; ci < cases.size(); ci += nsh) {
      Case const &c = cases[ci];
      r.count("evaluations");
      Trace t = run_case(c, r);
      if (!t.config_ok) { fprintf(stderr, "HARNESS-ERROR: configuration rejected %s: %s\n", c.json().c_str(), t.err.c_str()); exit(3); }
      if (!t.ok) {
        // every member runs without error on its own (checked by single()), so an error here is an effect of the combination
        for (size_t i = 0; i < c.members.size(); i++) single(c.members[i], c.tsf[i], c.start, c.tsf_d2);
        r.violation(c.disable_at >= 0 ? std::string("C08:disabled-bias-still-contributes") + (c.tsf[0] > 1 ? ":bias-with-a-time-step-factor" : "") + ":error-at-a-later-step"
                                      : std::string("C08:superposition:error-in-combined-run-but-not-in-single-bias-runs"),
                    c.json().substr(0, c.json().size() - 1) + ",\"error\":\"" + jesc(t.err.substr(0, 300)) + "\"}");
        continue;
      }
      if (ci < 2 * (size_t) nsh && shard == 0) r.sample(c.json());
      if (c.disable_at >= 0) {
        // ---- oracle 4: from the step before which it was switched off, the first member contributes nothing ----
        for (int k = 0; k < c.L; k++) {
          std::vector<double> fs(12, 0.0);
          double es = 0, scale = 1e-300;
          for (size_t i = 0; i < c.members.size(); i++) {
            Trace &s1 = single(c.members[i], c.tsf[i], c.start, c.tsf_d2);
            for (int j = 0; j < 12; j++) scale = std::max(scale, std::fabs(s1.f[k][j]));
            scale = std::max(scale, std::fabs(s1.e[k]));
            if (i == 0 && k >= c.disable_at) continue;
            for (int j = 0; j < 12; j++) fs[j] += s1.f[k][j];
            es += s1.e[k];
          }
          bool bad = false;
          for (int j = 0; j < 12; j++) if (!close_rel(t.f[k][j], fs[j], scale, 1e-12, 1e-14)) bad = true;
          if (!close_rel(t.e[k], es, scale, 1e-12, 1e-14)) bad = true;
          if (bad) {
            r.violation(std::string("C08:disabled-bias-still-contributes") + (c.tsf[0] > 1 ? ":bias-with-a-time-step-factor" : "") + (k < c.disable_at ? ":before-it-was-switched-off" : ""),
                        c.json().substr(0, c.json().size() - 1) + ",\"step\":" + std::to_string(c.start + k) + ",\"energy\":" + num(t.e[k]) + ",\"expected\":" + num(es) + "}");
            break;
          }
        }
        r.seen("nontrivial", fnv(c.json()));
        continue;
      }
      // ---- oracle 1: superposition ----
      for (int k = 0; k < c.L; k++) {
        std::vector<double> fs(12, 0.0);
        double es = 0, scale = 1e-300;
        for (size_t i = 0; i < c.members.size(); i++) {
          Trace &s1 = single(c.members[i], c.tsf[i], c.start, c.tsf_d2);
          for (int j = 0; j < 12; j++) { fs[j] += s1.f[k][j]; scale = std::max(scale, std::fabs(s1.f[k][j])); }
          es += s1.e[k];
          scale = std::max(scale, std::fabs(s1.e[k]));
        }
        bool bad = false;
        for (int j = 0; j < 12; j++) if (!close_rel(t.f[k][j], fs[j], scale, 1e-12, 1e-14)) bad = true;
        if (bad) {
          r.violation("C08:superposition:force-differs-from-sum-of-single-bias-runs",
                      c.json().substr(0, c.json().size() - 1) + ",\"step\":" + std::to_string(c.start + k) + "}");
          break;
        }
        if (!close_rel(t.e[k], es, scale, 1e-12, 1e-14)) {
          r.violation("C08:superposition:energy-differs-from-sum-of-single-bias-runs",
                      c.json().substr(0, c.json().size() - 1) + ",\"step\":" + std::to_string(c.start + k) + ",\"energy\":" + num(t.e[k]) +
                          ",\"sum\":" + num(es) + ",\"single_energies\":[" + [&]() { std::string q; for (size_t i = 0; i < c.members.size(); i++) q += (i ? "," : "") + num(single(c.members[i], c.tsf[i], c.start, c.tsf_d2).e[k]); return q; }() + "]}");
          break;
        }
      }
      // distinct outcomes
      {
        std::string h;
        for (auto &f : t.f) for (double d : f) h += num(d) + ",";
        r.seen("states", fnv(h));
      }
      r.seen("nontrivial", fnv(c.json()));
      // ---- oracles 2 and 3 on single-member cases ----
      if (c.members.size() == 1) {
        int b = c.members[0], n = c.tsf[0];
        if (NONBIASING[b]) {
          for (int k = 0; k < c.L; k++) {
            double mx = std::fabs(t.e[k]);
            for (double d : t.f[k]) mx = std::max(mx, std::fabs(d));
            if (mx != 0.0) {
              r.violation(std::string("C08:non-biasing-member-contributes:") + BNAME[b],
                          c.json().substr(0, c.json().size() - 1) + ",\"step\":" + std::to_string(c.start + k) + "}");
              break;
            }
          }
        }
        if (n > 1 && !NONBIASING[b]) {
          Trace &t1 = single(b, 1, c.start, 1);
          for (int k = 0; k < c.L; k++) {
            long s = c.start + k;
            bool on = (s % n == 0);
            bool bad = false;
            double scale = 1e-300;
            for (double d : t1.f[k]) scale = std::max(scale, std::fabs(d) * n);
            std::string why;
            if (!on) {
              for (double d : t.f[k]) if (d != 0.0) bad = true;
              if (t.e[k] != 0.0) bad = true;
              why = std::string("applied-off-schedule") + (k == 0 ? "/first-step-of-run" : "");
            } else if (MEMORYLESS[b] && c.tsf_d2 == 1) {
              for (int j = 0; j < 12; j++) if (!close_rel(t.f[k][j], n * t1.f[k][j], scale, 1e-12, 1e-14)) bad = true;
              if (!close_rel(t.e[k], t1.e[k], std::max(1.0, std::fabs(t1.e[k])), 1e-12, 1e-14)) bad = true;
              why = "not-n-times-instantaneous-force";
            }
            if (bad) {
              r.violation("C08:mts:" + why,
                          c.json().substr(0, c.json().size() - 1) + ",\"step\":" + std::to_string(s) + ",\"force_x_atom2\":" + num(t.f[k][3]) +
                              ",\"factor1_force_x_atom2\":" + num(t1.f[k][3]) + "}");
              break;
            }
            r.count("mts_steps_checked");
          }
        }
      }
    }
  }, total);
  if (!ok) return 2;
  write_result(args.out, "C08", args.tier, total, true);
  return 0;
}
