// C15 (part 1) — every sample of a histogram lands in exactly one bin (or in none when out of range).
//
// The histogram bias is driven through real steps of the engine simulator.  Every variable is a distanceZ (or
// distance) between two single atoms placed on the z axis at dyadic coordinates, so that the value of the variable,
// the grid boundaries and the bin edges are all exact binary fractions and the reference can work in INTEGER
// arithmetic (unit 2^-44): no rounding anywhere in the oracle, no tolerance in the comparison.
//
// Enumerated:  sweep   - per grid definition, every value lower+(i+delta)*width, i=-2..n+1,
//                        delta in {0, 2^-40, 1/2, 1-2^-40}, +- whole periods for periodic variables; 1-3 dimensions;
//                        grid taken from the variables or from a custom `grid` / `histogramGrid` block;
//              words   - all words of length <= L over a small value alphabet x every run segmentation x stepZeroData,
//                        each on a fresh module;
//              dihedral- interior angles of a real dihedral (default periodic boundaries);
//              gather  - the documented gatherVectorColvars/weights configurations.
// Observed at: the private grid array after every step; the `grid` array of the saved state; the multicolumn
// output file; the array of a fresh module that loaded that state.
#include "vproxy.h"
#include "common.h"
#include "colvarbias_histogram.h"
#include "colvargrid.h"
#include <fstream>

using namespace vc;

typedef long long Q;  // exact dyadic number, unit 2^-44
static const int QB = 44;
static inline double qd(Q q) { return std::ldexp((double) q, -QB); }
static inline Q QC(double v)
{
  double s = std::ldexp(v, QB);
  Q q = (Q) std::llround(s);
  if ((double) q != s) { fprintf(stderr, "HARNESS-ERROR: constant %g is not a multiple of 2^-44\n", v); exit(2); }
  return q;
}
static Q qfloordiv(Q a, Q b)  // floor division, b > 0
{
  Q d = a / b;
  if ((a % b != 0) && (a < 0)) d--;
  return d;
}
static std::string qs(Q q)
{
  char b[64];
  snprintf(b, 64, "%.17g", qd(q));
  return b;
}

// ---------------- specification of one histogram dimension ----------------
struct Dim {
  int kind = 0;            // 0 distanceZ; 1 distanceZ with period; 2 distance
  Q P = 0, c = 0;          // period and wrapAround (kind 1)
  bool cv_bounds = true;   // the variable itself carries lowerBoundary/upperBoundary
  Q vlb = 0, vub = 0, vw = 0;  // boundaries and width given in the variable
  bool cv_lower_given = true;  // (kind 2: the lower boundary 0 is automatic when not given)
  int change = -1;             // -1: the grid along this dimension is the variable's own; otherwise what the custom block
                               // changes: 0 boundaries and width, 1 upper boundary only, 2 width only, 3 lower boundary only
  // effective grid of the histogram along this dimension
  Q lb = 0, w = 0;
  int n = 0;
  Q ub() const { return lb + n * w; }
  bool periodic_flag_expected() const { return kind == 1 && (ub() - lb) % P == 0; }
};

struct HistSpec {
  std::vector<Dim> d;
  int block = 0;   // 0: no custom block; 1: `grid { }`; 2: `histogramGrid { }`
  bool szd = false;
  std::string tag;  // class of configuration, for signatures
};

static std::string cv_conf(Dim const &d, int k)
{
  int const a = 2 * k + 1;
  std::string s = "colvar {\n name v" + std::to_string(k) + "\n width " + qs(d.vw) + "\n";
  if (d.cv_bounds) {
    if (d.cv_lower_given) s += " lowerBoundary " + qs(d.vlb) + "\n";
    s += " upperBoundary " + qs(d.vub) + "\n";
  }
  if (d.kind == 2) {
    s += " distance {\n group1 { atomNumbers " + std::to_string(a + 1) + " }\n group2 { atomNumbers " + std::to_string(a) + " }\n }\n}\n";
  } else {
    s += " distanceZ {\n";
    if (d.kind == 1) s += " period " + qs(d.P) + "\n wrapAround " + qs(d.c) + "\n";
    s += " main { atomNumbers " + std::to_string(a) + " }\n ref { atomNumbers " + std::to_string(a + 1) + " }\n }\n}\n";
  }
  return s;
}

static std::string hist_conf(HistSpec const &h)
{
  std::string s = "smp off\n";   // the engine simulator owns the schedule: no OpenMP teams (DESIGN 2.2)
  for (size_t k = 0; k < h.d.size(); k++) s += cv_conf(h.d[k], (int) k);
  s += "histogram {\n name h\n colvars";
  for (size_t k = 0; k < h.d.size(); k++) s += " v" + std::to_string(k);
  s += "\n";
  if (h.szd) s += " stepZeroData on\n";
  if (h.block) {
    s += h.block == 1 ? " grid {\n" : " histogramGrid {\n";
    std::string lb = " lowerBoundary", ub = " upperBoundary", w = " width";
    for (auto &d : h.d) { lb += " " + qs(d.lb); ub += " " + qs(d.ub()); w += " " + qs(d.w); }
    s += lb + "\n" + ub + "\n" + w + "\n }\n";
  }
  s += "}\n";
  return s;
}

// effective grid = variable's own parameters
static Dim from_cv(int kind, Q P, Q c, Q lb, Q w, int n)
{
  Dim d;
  d.kind = kind; d.P = P; d.c = c;
  d.cv_bounds = true; d.vlb = lb; d.vw = w; d.vub = lb + n * w;
  d.lb = lb; d.w = w; d.n = n;
  return d;
}
// effective grid from the custom block; the variable has other (or no) parameters
static Dim from_block(int kind, Q P, Q c, Q lb, Q w, int n, bool cv_has_bounds)
{
  Dim d;
  d.kind = kind; d.P = P; d.c = c;
  d.cv_bounds = cv_has_bounds;
  d.vlb = lb - QC(1.0); d.vw = w * 2; d.vub = d.vlb + 3 * d.vw;  // deliberately different from the block
  if (kind == 2 && d.vlb < 0) { d.vlb = 0; d.vub = 3 * d.vw; }
  d.lb = lb; d.w = w; d.n = n;
  d.change = 0;
  return d;
}
// the custom block changes exactly one aspect of the variable's own grid along this dimension
static Dim from_block_change(int kind, Q P, Q c, Q lb, Q w, int n, int change)
{
  if (change == 0) return from_block(kind, P, c, lb, w, n, true);
  Dim d;
  d.kind = kind; d.P = P; d.c = c;
  d.cv_bounds = true;
  d.lb = lb; d.w = w; d.n = n;
  d.vlb = lb; d.vw = w; d.vub = lb + n * w;
  if (change == 1) d.vub = lb + (n + 2) * w;             // the variable's grid has two more bins at the top
  else if (change == 2) d.vw = (n > 1) ? n * w : w / 2;   // same interval, other width (1 bin, or 2 bins when n == 1)
  else d.vlb = lb - w;                                    // the variable's grid has one more bin at the bottom
  d.change = change;
  return d;
}

// ---------------- reference ----------------
struct Ref {
  std::vector<Dim> d;
  std::vector<double> cnt;
  size_t nt = 1;
  void init(std::vector<Dim> const &dims)
  {
    d = dims;
    nt = 1;
    for (auto &x : d) nt *= x.n;
    cnt.assign(nt, 0.0);
  }
  // the value the variable must report for engine coordinate q; `alt` = the other end of the wrapping interval when
  // q falls exactly on it (the documentation does not say which end is taken)
  static void var_value(Dim const &x, Q q, Q &val, Q &alt, bool &has_alt)
  {
    has_alt = false;
    if (x.kind == 2) { val = q < 0 ? -q : q; return; }
    if (x.kind == 0) { val = q; return; }
    Q lo = x.c - x.P / 2;
    Q k = qfloordiv(q - lo, x.P);
    val = q - k * x.P;  // in [lo, lo+P)
    if (val == lo) { has_alt = true; alt = lo + x.P; }
  }
  // bin of a (wrapped) value; -1 when outside
  static int bin(Dim const &x, Q val)
  {
    Q b = qfloordiv(val - x.lb, x.w);
    if (b < 0 || b >= x.n) return -1;
    return (int) b;
  }
  long address(std::vector<Q> const &vals) const
  {
    long a = 0;
    for (size_t i = 0; i < d.size(); i++) {
      int b = bin(d[i], vals[i]);
      if (b < 0) return -1;
      a = a * d[i].n + b;   // C order: last variable fastest
    }
    return a;
  }
};

// classification of a value with respect to its grid interval (for signatures)
static std::string pos_class(Dim const &x, Q val)
{
  if (val < x.lb) return "below-grid";
  if (val >= x.ub()) return val == x.ub() ? "at-upper-boundary" : "above-grid";
  Q off = (val - x.lb) % x.w;
  if (off == 0) return val == x.lb ? "at-lower-boundary" : "at-inner-edge";
  if (off * 1024 < x.w) return "just-above-edge";
  if ((x.w - off) * 1024 < x.w) return "just-below-edge";
  return "interior";
}

static std::string spec_json(HistSpec const &h)
{
  std::string s = "{\"block\":" + std::to_string(h.block) + ",\"stepZeroData\":" + (h.szd ? "true" : "false") + ",\"dims\":[";
  for (size_t i = 0; i < h.d.size(); i++) {
    Dim const &d = h.d[i];
    s += std::string(i ? "," : "") + "{\"kind\":" + std::to_string(d.kind) + ",\"period\":" + qs(d.P) + ",\"wrapAround\":" + qs(d.c) +
         ",\"lower\":" + qs(d.lb) + ",\"width\":" + qs(d.w) + ",\"n\":" + std::to_string(d.n) +
         ",\"block_changes\":" + std::to_string(d.change) + "}";
  }
  return s + "]}";
}

static std::string sig_prefix(HistSpec const &h)
{
  bool per = false;
  for (auto &d : h.d) per = per || d.kind == 1;
  // which variables the custom block really changes: all of them (historic name, no suffix), only non-last ones, or
  // another proper subset
  std::string sub;
  if (h.block) {
    size_t nch = 0;
    for (auto &d : h.d) if (d.change >= 0) nch++;
    if (nch < h.d.size()) sub = (h.d.back().change < 0) ? "/changes-non-last-variables-only" : "/changes-a-subset-of-variables";
  }
  return "C15:hist:" + std::to_string(h.d.size()) + "d:" + (per ? "periodic" : "non-periodic") + ":" +
         (h.block == 0 ? "grid-from-variables" : (h.block == 1 ? "grid-block" : "histogramGrid-block")) + sub;
}

// ---------------- one running module with its reference ----------------
struct Run {
  vproxy *px = NULL;
  colvarbias_histogram *h = NULL;
  HistSpec spec;
  Ref ref;
  std::string conf;
  long engine_step = 0;
  bool started = false;
  std::vector<std::string> ops;   // replay record
  Result *r = NULL;
  long n_in_range_eligible = 0;
  std::vector<Q> last_q;
  std::string unit;   // replay handle: "s<index>" (sweep of grid definition <index>) or "W<space>:<word index>"

  // Guard cells: the histogram's array is re-seated inside a larger block owned by the harness, with sentinel cells
  // before and after it, so that a sample written just outside the array (an off-by-one range test) is SEEN instead
  // of silently corrupting the heap.  Only the three pointers of the std::vector are changed; they are restored
  // before anything can free or resize the array.
  static const int GUARD = 64;
  std::vector<double> block;
  double *save_start = NULL, *save_finish = NULL, *save_eos = NULL;
  bool guarded = false;
  static double sentinel() { return -7777.25; }
  void guard_on()
  {
    std::vector<double> &v = h->grid->data;
    size_t const n = v.size();
    block.assign(n + 2 * GUARD, sentinel());
    for (size_t i = 0; i < n; i++) block[GUARD + i] = v[i];
    save_start = v._M_impl._M_start; save_finish = v._M_impl._M_finish; save_eos = v._M_impl._M_end_of_storage;
    v._M_impl._M_start = block.data() + GUARD;
    v._M_impl._M_finish = v._M_impl._M_start + n;
    v._M_impl._M_end_of_storage = v._M_impl._M_finish;
    guarded = true;
  }
  void guard_off()
  {
    if (!guarded) return;
    std::vector<double> &v = h->grid->data;
    size_t const n = v.size();
    for (size_t i = 0; i < n; i++) save_start[i] = block[GUARD + i];
    v._M_impl._M_start = save_start; v._M_impl._M_finish = save_finish; v._M_impl._M_end_of_storage = save_eos;
    guarded = false;
  }
  // returns the offset (relative to the array, e.g. -1 or n) of a modified guard cell, or 0 if none
  long guard_check(bool &hit)
  {
    hit = false;
    if (!guarded) return 0;
    long where = 0;
    size_t const n = block.size() - 2 * GUARD;
    for (int i = 0; i < GUARD; i++) {
      if (block[i] != sentinel()) { hit = true; where = i - GUARD; block[i] = sentinel(); }
      if (block[GUARD + n + i] != sentinel()) { hit = true; where = (long) n + i; block[GUARD + n + i] = sentinel(); }
    }
    return where;
  }

  ~Run() { guard_off(); if (px) delete px; }

  bool start(HistSpec const &s, Result &res)
  {
    spec = s; r = &res;
    conf = hist_conf(s);
    px = new vproxy(2 * (int) s.d.size());
    for (int a = 0; a < px->natoms; a++) px->x[a] = cvm::rvector(0, 0, 0);
    // starting coordinates must give valid geometry for `distance`
    int rc = px->config(conf);
    if (rc != 0) {
      fprintf(stderr, "HARNESS-ERROR: configuration rejected (rc=%d): %s\n%s\n", rc, px->errtxt.c_str(), conf.c_str());
      exit(2);
    }
    h = dynamic_cast<colvarbias_histogram *>(px->bias("h"));
    if (!h || !h->grid) { fprintf(stderr, "HARNESS-ERROR: histogram not created\n%s\n", conf.c_str()); exit(2); }
    ref.init(s.d);
    bool ok = check_shape();
    if (ok) guard_on();
    return ok;
  }

  bool check_shape()
  {
    colvar_grid_scalar *g = h->grid;
    bool ok = g->nd == spec.d.size() && g->nx.size() == spec.d.size() && g->data.size() == ref.nt;
    std::string what = "grid-shape";
    for (size_t i = 0; ok && i < spec.d.size(); i++) {
      Dim const &d = spec.d[i];
      if (g->nx[i] != d.n || g->lower_boundaries[i].real_value != qd(d.lb) || g->widths[i] != qd(d.w) ||
          g->upper_boundaries[i].real_value != qd(d.ub())) ok = false;
      else if (bool(g->periodic[i]) != d.periodic_flag_expected()) { ok = false; what = "periodic-flag"; }
    }
    if (!ok) {
      std::string obs = "[";
      for (size_t i = 0; i < g->nx.size(); i++)
        obs += std::string(i ? "," : "") + "{\"lower\":" + num(g->lower_boundaries[i].real_value) + ",\"upper\":" +
               num(g->upper_boundaries[i].real_value) + ",\"width\":" + num(g->widths[i]) + ",\"n\":" + std::to_string(g->nx[i]) +
               ",\"periodic\":" + (g->periodic[i] ? "1" : "0") + "}";
      r->violation(sig_prefix(spec) + ":" + what, "{\"unit\":\"" + unit + "\",\"config\":\"" + jesc(conf) + "\",\"expected\":" + spec_json(spec) + ",\"observed\":" + obs + "]}");
    }
    return ok;
  }

  // one Colvars call with engine coordinates q (one per dimension); repeat = same engine step again (new run segment)
  void step(std::vector<Q> const &q, bool repeat, std::string const &case_key)
  {
    size_t const nd = spec.d.size();
    for (size_t k = 0; k < nd; k++) px->x[2 * k] = cvm::rvector(0, 0, qd(q[k]));
    last_q = q;
    bool first = !started;
    if (started && !repeat) engine_step++;
    started = true;
    {
      std::string o = std::string(first ? "first" : (repeat ? "repeat" : "advance")) + "(";
      for (size_t k = 0; k < nd; k++) o += (k ? "," : "") + qs(q[k]);
      ops.push_back(o + ")");
    }
    std::vector<double> before = h->grid->data;
    int rc = px->step(engine_step);
    r->count("transitions");
    if (rc != 0) {
      r->violation(sig_prefix(spec) + ":step-reports-error", detail(q, "\"error\":\"" + jesc(px->errtxt) + "\""));
      px->errtxt.clear();
    }
    // ---- reference ----
    bool const seg_first = first || repeat;
    bool const eligible = spec.szd || !seg_first;   // documented: no data before the first coordinate update of a run, unless stepZeroData
    std::vector<Q> vals(nd);
    bool ambiguous = false;
    std::string pcs;
    for (size_t k = 0; k < nd; k++) {
      Q v, alt; bool has_alt;
      Ref::var_value(spec.d[k], q[k], v, alt, has_alt);
      double const got = px->cv("v" + std::to_string(k))->value().real_value;
      if (got == qd(v)) vals[k] = v;
      else if (has_alt && got == qd(alt)) { vals[k] = alt; }
      else {
        r->violation("C15:hist:variable-value-differs-from-dictated-value",
                     detail(q, "\"variable\":" + std::to_string(k) + ",\"reported\":" + num(got) + ",\"expected\":" + qs(v)));
        // continue with what the variable reports if it is representable, else with our value
        vals[k] = v;
      }
      if (has_alt) { ambiguous = true; r->count("halfperiod_values"); }
      pcs += (k ? "," : "") + pos_class(spec.d[k], vals[k]);
    }
    long const addr = ref.address(vals);
    bool const expect_count = eligible && addr >= 0;
    if (expect_count) { ref.cnt[addr] += 1.0; n_in_range_eligible++; }
    r->count("evaluations");
    r->count(addr >= 0 ? (eligible ? "samples_in_range_eligible" : "samples_in_range_ineligible")
                       : (eligible ? "samples_out_of_range_eligible" : "samples_out_of_range_ineligible"));
    r->seen("nontrivial", fnv(case_key + "|" + ops.back() + (eligible ? "E" : "N")));
    (void) ambiguous;
    // ---- nothing may be written outside the array ----
    {
      bool hit;
      long where = guard_check(hit);
      if (hit)
        r->violation(sig_prefix(spec) + ":out-of-range-sample-written-outside-the-array",
                     detail(q, "\"array_offset_written\":" + std::to_string(where) + ",\"array_size\":" + std::to_string(ref.nt) + ",\"position\":\"" + pcs + "\""));
    }
    // ---- compare the whole array ----
    std::vector<double> const &now = h->grid->data;
    if (now != ref.cnt) {
      // classify
      long changed = -1; int nchanged = 0; double delta = 0;
      for (size_t i = 0; i < now.size(); i++) if (now[i] != before[i]) { nchanged++; changed = (long) i; delta = now[i] - before[i]; }
      std::string what;
      if (expect_count) {
        if (nchanged == 0) what = "in-range-sample-not-counted";
        else if (nchanged == 1 && changed != addr) what = "sample-counted-in-wrong-bin";
        else if (nchanged == 1 && delta != 1.0) what = "sample-counted-with-wrong-weight";
        else what = "several-bins-changed";
      } else {
        if (nchanged == 0) what = "array-differs-without-change";  // cannot happen after resync
        else if (addr < 0) what = "out-of-range-sample-counted";
        else what = "sample-counted-at-ineligible-step";
      }
      // one position class per signature: the most telling one among the dimensions (the full tuple is in the detail)
      std::string worst;
      for (char const *cl : {"below-grid", "above-grid", "at-upper-boundary", "at-lower-boundary", "at-inner-edge", "just-below-edge", "just-above-edge", "interior"})
        if (worst.empty() && ("," + pcs + ",").find(std::string(",") + cl + ",") != std::string::npos) worst = cl;
      std::string where = expect_count || addr < 0 ? worst : (first ? "first-step-of-run" : "first-step-of-continued-run");
      r->violation(sig_prefix(spec) + ":" + what + ":" + where,
                   detail(q, "\"expected_bin\":" + std::to_string(addr) + ",\"eligible\":" + (eligible ? "true" : "false") +
                              ",\"changed_bin\":" + std::to_string(changed) + ",\"delta\":" + num(delta) + ",\"position\":\"" + pcs + "\""));
      ref.cnt = now;  // resynchronise so that one fault is reported once
    }
    r->seen("outcomes", fnv(pcs + (expect_count ? "+" : "-") + (eligible ? "E" : "N")));
    // sum of counts
    double sum = 0;
    for (double v : now) sum += v;
    double rsum = 0;
    for (double v : ref.cnt) rsum += v;
    if (sum != rsum) r->violation(sig_prefix(spec) + ":sum-of-counts", detail(q, "\"sum\":" + num(sum) + ",\"expected\":" + num(rsum)));
  }

  std::string detail(std::vector<Q> const &q, std::string const &extra)
  {
    std::string s = "{\"unit\":\"" + unit + "\",\"config\":\"" + jesc(conf) + "\",\"grid\":" + spec_json(spec) + ",\"operations\":[";
    size_t const from = ops.size() > 12 ? ops.size() - 12 : 0;
    for (size_t i = from; i < ops.size(); i++) s += std::string(i > from ? "," : "") + "\"" + ops[i] + "\"";
    s += "],\"operations_omitted_before\":" + std::to_string(from) + ",\"coordinates_q44\":[";
    for (size_t i = 0; i < q.size(); i++) s += (i ? "," : "") + std::to_string(q[i]);
    s += "]," + extra + ",\"observed_array\":[";
    for (size_t i = 0; i < h->grid->data.size() && i < 80; i++) s += (i ? "," : "") + num(h->grid->data[i]);
    s += "],\"expected_array\":[";
    for (size_t i = 0; i < ref.cnt.size() && i < 80; i++) s += (i ? "," : "") + num(ref.cnt[i]);
    return s + "]}";
  }
};

// ---------------- independent readers of the documented outputs ----------------
// `grid` array of the histogram block of a state text
static bool parse_state_grid(std::string const &st, std::vector<double> &out)
{
  size_t p = st.find("histogram {");
  if (p == std::string::npos) return false;
  p = st.find("\ngrid", p);
  if (p == std::string::npos) return false;
  p += 5;
  size_t e = st.find('}', p);
  std::istringstream is(st.substr(p, e - p));
  double v;
  out.clear();
  while (is >> v) out.push_back(v);
  return true;
}

struct McFile { int nd = 0; std::vector<double> lower, width; std::vector<int> n, periodic; std::vector<std::vector<double>> rows; };
static bool parse_multicol(std::string const &path, McFile &m)
{
  std::ifstream in(path);
  if (!in) return false;
  std::string line;
  int header = 0;
  while (std::getline(in, line)) {
    std::istringstream is(line);
    std::string tok;
    if (!(is >> tok)) continue;  // blank
    if (tok == "#") {
      if (header == 0) { is >> m.nd; }
      else {
        double l, w; int n, p;
        if (!(is >> l >> w >> n >> p)) return false;
        m.lower.push_back(l); m.width.push_back(w); m.n.push_back(n); m.periodic.push_back(p);
      }
      header++;
    } else {
      std::vector<double> row;
      row.push_back(atof(tok.c_str()));
      double v;
      while (is >> v) row.push_back(v);
      m.rows.push_back(row);
    }
  }
  return header == m.nd + 1;
}

// After a run: saved state, output file, and a fresh module loading the state
static void check_outputs(Run &run, std::string const &scratch, int shard, std::string const &case_key)
{
  Result &r = *run.r;
  HistSpec const &spec = run.spec;
  std::string const prefix = scratch + "/h" + std::to_string(shard);
  run.guard_off();
  run.px->set_prefixes(prefix);
  run.px->colvars->setup_output();   // the module copies the prefix from the engine here
  std::string const st = run.px->state_text();
  std::vector<double> arr;
  r.count("state_array_checks");
  if (!parse_state_grid(st, arr) || arr != run.ref.cnt) {
    std::vector<Q> none;
    r.violation(sig_prefix(spec) + ":saved-state-grid-array-differs", run.detail(none, "\"state\":\"" + jesc(st.substr(0, 1500)) + "\""));
  }
  int rc = run.px->end_run();   // writes <prefix>.colvars.state and <prefix>.h.dat
  McFile m;
  r.count("output_file_checks");
  bool ok = rc == 0 && parse_multicol(prefix + ".h.dat", m) && m.nd == (int) spec.d.size() && m.rows.size() == run.ref.nt;
  std::string why = ok ? "" : "file missing or malformed";
  for (size_t i = 0; ok && i < spec.d.size(); i++) {
    Dim const &d = spec.d[i];
    if (m.lower[i] != qd(d.lb) || m.width[i] != qd(d.w) || m.n[i] != d.n) { ok = false; why = "header sizes/boundaries"; }
    else if (m.periodic[i] != (d.periodic_flag_expected() ? 1 : 0)) { ok = false; why = "header periodic flag"; }
  }
  for (size_t k = 0; ok && k < m.rows.size(); k++) {
    // C order, midpoints of the bins
    size_t rem = k;
    std::vector<int> ix(spec.d.size());
    for (int i = (int) spec.d.size() - 1; i >= 0; i--) { ix[i] = rem % spec.d[i].n; rem /= spec.d[i].n; }
    if (m.rows[k].size() != spec.d.size() + 1) { ok = false; why = "row length"; break; }
    for (size_t i = 0; i < spec.d.size(); i++) {
      double mid = qd(spec.d[i].lb) + (ix[i] + 0.5) * qd(spec.d[i].w);
      if (std::fabs(m.rows[k][i] - mid) > 1e-12 * std::max(1.0, std::fabs(mid))) { ok = false; why = "bin midpoint"; }
    }
    if (m.rows[k].back() != run.ref.cnt[k]) { ok = false; why = "count"; }
  }
  if (!ok) {
    std::vector<Q> none;
    std::string txt;
    { std::ifstream in(prefix + ".h.dat"); std::stringstream ss; ss << in.rdbuf(); txt = ss.str(); }
    r.violation(sig_prefix(spec) + ":output-file-differs:" + why, run.detail(none, "\"file\":\"" + jesc(txt.substr(0, 1500)) + "\",\"why\":\"" + why + "\""));
  }
  // ---- fresh module, load the state file, take one more sample ----
  std::vector<double> const saved = run.ref.cnt;
  long const last_step = run.engine_step;
  std::vector<double> run_last_values;
  for (size_t k = 0; k < spec.d.size(); k++) run_last_values.push_back(run.px->cv("v" + std::to_string(k))->value().real_value);
  std::string const conf = run.conf;
  delete run.px; run.px = NULL;
  {
    vproxy *px = new vproxy(2 * (int) spec.d.size());
    for (int a = 0; a < px->natoms; a++) px->x[a] = cvm::rvector(0, 0, 0);
    if (px->config(conf) != 0) { fprintf(stderr, "HARNESS-ERROR: configuration rejected on reload\n"); exit(3); }
    px->set_input_prefix(prefix);
    // the restarted run begins with the coordinates of the stop step (first call: not a new sample unless
    // stepZeroData), then moves to the middle of the first bin of every dimension
    std::vector<Q> const q0 = run.last_q;
    std::vector<Q> q(spec.d.size()), vals0(spec.d.size()), vals(spec.d.size());
    for (size_t k = 0; k < spec.d.size(); k++) {
      q[k] = spec.d[k].lb + spec.d[k].w / 2;
      Q alt; bool ha;
      Ref::var_value(spec.d[k], q[k], vals[k], alt, ha);
      Ref::var_value(spec.d[k], q0[k], vals0[k], alt, ha);
      double const got = run_last_values[k];
      if (ha && got == qd(alt)) vals0[k] = alt;
      px->x[2 * k] = cvm::rvector(0, 0, qd(q0[k]));
    }
    Ref ref; ref.init(spec.d); ref.cnt = saved;
    long const addr0 = ref.address(vals0), addr = ref.address(vals);
    int rc1 = px->step(last_step);       // the stop step again: first step of the new run
    if (spec.szd && addr0 >= 0) ref.cnt[addr0] += 1.0;
    for (size_t k = 0; k < spec.d.size(); k++) px->x[2 * k] = cvm::rvector(0, 0, qd(q[k]));
    int rc2 = px->step(last_step + 1);
    if (addr >= 0) ref.cnt[addr] += 1.0;
    r.count("transitions", 2);
    r.count("state_reload_checks");
    colvarbias_histogram *h2 = dynamic_cast<colvarbias_histogram *>(px->bias("h"));
    if (rc1 || rc2 || !h2 || h2->grid->data != ref.cnt) {
      std::string obs = "[";
      if (h2) for (size_t i = 0; i < h2->grid->data.size() && i < 80; i++) obs += (i ? "," : "") + num(h2->grid->data[i]);
      std::string exp = "[";
      for (size_t i = 0; i < ref.cnt.size() && i < 80; i++) exp += (i ? "," : "") + num(ref.cnt[i]);
      r.violation(sig_prefix(spec) + ":array-after-loading-saved-state-differs",
                  "{\"unit\":\"" + run.unit + "\",\"config\":\"" + jesc(conf) + "\",\"state\":\"" + jesc(st.substr(0, 1500)) + "\",\"rc\":[" + std::to_string(rc1) + "," +
                      std::to_string(rc2) + "],\"error\":\"" + jesc(px->errtxt) + "\",\"observed_array\":" + obs + "],\"expected_array\":" + exp + "]}");
    }
    delete px;
  }
  remove((prefix + ".h.dat").c_str());
  remove((prefix + ".colvars.state").c_str());
  (void) case_key;
}

// ---------------- value lists ----------------
static const Q D40 = 1LL << (QB - 40);   // 2^-40 (in width units this is multiplied by w/1)

// all engine coordinates to present along one dimension
static std::vector<Q> dim_values(Dim const &d, bool full, bool thorough)
{
  std::vector<Q> out;
  std::vector<int> is;
  if (full) for (int i = -2; i <= d.n + 1; i++) is.push_back(i);
  else { is = {-1, 0, d.n - 1, d.n}; if (d.n == 1) is = {-1, 0, 1}; }
  // delta*w as integers: w is a multiple of 2^-4, so w*2^-40 is an integer number of units
  Q const e = (d.w >> 40);
  if (e == 0 || (e << 40) != d.w) { fprintf(stderr, "HARNESS-ERROR: width too fine for the 2^-40 offset\n"); exit(2); }
  std::vector<Q> deltas = full ? std::vector<Q>{0, e, d.w / 2, d.w - e} : std::vector<Q>{0, d.w / 2, d.w - e};
  std::vector<int> shifts = {0};
  if (d.kind == 1) { shifts = full ? (thorough ? std::vector<int>{0, -2, -1, 1, 3} : std::vector<int>{0, -1, 1}) : std::vector<int>{0}; }
  for (int sh : shifts)
    for (int i : is)
      for (Q dl : deltas) out.push_back(d.lb + i * d.w + dl + sh * d.P);
  if (d.kind == 1 && !full) { out.push_back(d.lb + d.w / 2 + d.P); out.push_back(d.lb + d.w / 2 - d.P); }
  if (d.kind == 1) {
    // the ends of the wrapping interval themselves and their neighbours
    Q lo = d.c - d.P / 2;
    for (Q v : {lo, lo + e, lo + d.P - e, lo + d.P}) out.push_back(v);
  }
  return out;
}

// ---------------- configuration menus ----------------
static std::vector<HistSpec> one_d_specs(bool thorough)
{
  std::vector<HistSpec> v;
  std::vector<double> lowers = {0.0, -1.0, 0.25, -2.5};
  std::vector<double> widths = {1.0, 0.5, 0.25, 2.0};
  std::vector<int> ns = {1, 2, 3, 5};
  if (thorough) { lowers.push_back(7.0); widths.push_back(0.0625); ns.push_back(8); }
  for (double lo : lowers) for (double w : widths) for (int n : ns)
    for (int block = 0; block < 3; block++) for (int szd = 0; szd < 2; szd++) {
      HistSpec h; h.block = block; h.szd = szd;
      h.d.push_back(block ? from_block(0, 0, 0, QC(lo), QC(w), n, (n % 2) == 1) : from_cv(0, 0, 0, QC(lo), QC(w), n));
      v.push_back(h);
    }
  // distance variable (automatic lower boundary 0)
  for (double w : {0.5, 1.0}) for (int n : {2, 4}) for (int block = 0; block < 2; block++) {
    HistSpec h; h.block = block; h.szd = false;
    Dim d = block ? from_block(2, 0, 0, QC(w), QC(w), n, true) : from_cv(2, 0, 0, 0, QC(w), n);
    if (!block) d.cv_lower_given = false;
    h.d.push_back(d);
    v.push_back(h);
  }
  // periodic variables
  std::vector<double> Ps = {4.0, 8.0};
  for (double P : Ps) for (double c : {0.0, 2.0, -1.0, P / 2}) for (double w : {0.5, 1.0, 2.0})
    for (int gk = 0; gk < (thorough ? 5 : 4); gk++) for (int block = 0; block < 3; block++) {
      // gk: 0 whole wrapping interval; 1 sub-interval inside it; 2 whole period but shifted by one bin with respect to
      // the wrapping interval; 3 interval straddling the upper end of the wrapping interval; 4 two periods
      Q Pq = QC(P), cq = QC(c), wq = QC(w);
      Q lo = cq - Pq / 2;
      Q lb; int n;
      switch (gk) {
      case 0: lb = lo; n = (int) (Pq / wq); break;
      case 1: lb = lo + wq; n = (int) (Pq / wq) - 2; if (n < 1) n = 1; break;
      case 2: lb = lo + wq; n = (int) (Pq / wq); break;
      case 3: lb = lo + Pq - wq; n = 2; break;
      default: lb = lo - Pq / 2; n = (int) (2 * Pq / wq); break;
      }
      HistSpec h; h.block = block; h.szd = (gk % 2) == 1;
      h.d.push_back(block ? from_block(1, Pq, cq, lb, wq, n, true) : from_cv(1, Pq, cq, lb, wq, n));
      v.push_back(h);
    }
  return v;
}

// menu of per-dimension definitions for 2-D and 3-D products: (kind,P,c,lb,w,n)
struct DimDef { int kind; double P, c, lb, w; int n; };
static std::vector<DimDef> dim_menu(bool thorough)
{
  std::vector<DimDef> m = {
    {0, 0, 0, -1.0, 0.5, 3},
    {0, 0, 0, 0.0, 1.0, 1},
    {1, 4.0, 0.0, -2.0, 1.0, 4},   // whole wrapping interval
    {1, 4.0, 2.0, 1.0, 1.0, 2},    // sub-interval
  };
  if (thorough) {
    m.push_back({0, 0, 0, 0.25, 2.0, 2});
    m.push_back({1, 8.0, -1.0, -3.0, 2.0, 4});  // whole period, shifted against the wrapping interval [-5,3)
  }
  return m;
}

static std::vector<HistSpec> multi_d_specs(int nd, bool thorough)
{
  std::vector<HistSpec> v;
  std::vector<DimDef> menu = dim_menu(thorough);
  long total = 1;
  for (int i = 0; i < nd; i++) total *= (long) menu.size();
  int const full = (1 << nd) - 1;
  for (long code = 0; code < total; code++) {
    std::vector<DimDef> ms;
    bool first_three = true;   // all dimensions from the first three menu entries
    { long cc = code; for (int i = 0; i < nd; i++) { size_t k = cc % menu.size(); cc /= menu.size(); ms.push_back(menu[k]); if (k >= 3) first_three = false; } }
    // grid from the variables themselves
    {
      HistSpec h; h.block = 0; h.szd = (nd == 2) && (code % 2 == 1);
      for (int i = 0; i < nd; i++) h.d.push_back(from_cv(ms[i].kind, QC(ms[i].P), QC(ms[i].c), QC(ms[i].lb), QC(ms[i].w), ms[i].n));
      v.push_back(h);
    }
    // custom block: EVERY non-empty subset of the dimensions is changed by the block (the others keep the variable's own
    // lowerBoundary/upperBoundary/width, repeated verbatim in the block), for both block keywords
    for (int block = 1; block <= 2; block++)
      for (int mask = 1; mask <= full; mask++) {
        // what is changed: boundaries and width / upper boundary only / width only / lower boundary only.
        // 2-D: all four; 3-D: one of the four, rotating with the definition and the subset
        std::vector<int> changes;
        if (nd == 2) changes = {0, 1, 2, 3};
        else changes = {mask == full ? 0 : int((code + mask + block) % 4)};
        // quick tier, 3-D: proper subsets only over the first three menu entries; histogramGrid with all variables changed left to thorough
        if (!thorough && nd == 3 && mask != full && !first_three) continue;
        if (!thorough && nd == 3 && mask == full && block == 2) continue;
        for (int ch : changes) {
          HistSpec h; h.block = block; h.szd = (nd == 2) && ((code + block + mask) % 2 == 1);
          for (int i = 0; i < nd; i++) {
            DimDef const &m = ms[i];
            if (mask & (1 << i)) {
              if (mask == full && ch == 0) h.d.push_back(from_block(m.kind, QC(m.P), QC(m.c), QC(m.lb), QC(m.w), m.n, (i % 2) == 0));
              else h.d.push_back(from_block_change(m.kind, QC(m.P), QC(m.c), QC(m.lb), QC(m.w), m.n, ch));
            } else h.d.push_back(from_cv(m.kind, QC(m.P), QC(m.c), QC(m.lb), QC(m.w), m.n));
          }
          v.push_back(h);
        }
      }
  }
  return v;
}

// ---------------- isolation of a unit in a child process ----------------
// A unit whose outcome may be a memory error (a sample written far outside the array) runs in a forked child; the
// child sends its cumulative result at every checkpoint, the parent keeps the last complete one and reports a child
// that died or hung as a violation of its own (with the configuration), not as a harness error.
static std::function<void()> g_checkpoint;   // set inside a child
static void isolated(Result &r, std::string const &sig, std::string const &what_json, double timeout_s,
                     std::function<void(Result &)> body)
{
  std::string out;
  int rc = run_isolated([&]() {
    Result local;
    g_checkpoint = [&]() {
      std::string t = "BEGIN\n" + local.ser() + "END\n";
      size_t off = 0;
      while (off < t.size()) { ssize_t n = write(3, t.data() + off, t.size() - off); if (n <= 0) break; off += n; }
    };
    body(local);
    g_checkpoint();
    return 0;
  }, timeout_s, &out);
  size_t e = out.rfind("END\n");
  if (e != std::string::npos) {
    size_t b = out.rfind("BEGIN\n", e);
    if (b != std::string::npos) {
      Result part;
      part.deser(out.substr(b + 6, e - (b + 6)));
      r.merge(part);
    }
  }
  if (rc == 2) {   // the child itself declared a harness error (message already printed)
    fprintf(stderr, "HARNESS-ERROR: unit failed: %s\n", what_json.c_str());
    exit(2);
  }
  if (rc != 0) {
    r.count("units_crashed_or_hung");
    r.violation(sig + (rc == -1000 ? ":unit-hung" : ":unit-crashed"), "{\"exit\":" + std::to_string(rc) + "," + what_json + "}");
  }
}

// ---------------- sweep of one specification ----------------
static void sweep(HistSpec const &spec, Result &r, std::string const &scratch, int shard, bool thorough, std::string const &key)
{
  Run run;
  run.unit = key;
  if (!run.start(spec, r)) { r.count("specs_with_wrong_shape"); return; }
  r.count("grid_definitions");
  size_t const nd = spec.d.size();
  std::vector<std::vector<Q>> lists(nd);
  for (size_t k = 0; k < nd; k++) lists[k] = dim_values(spec.d[k], nd == 1, thorough);
  long ncombos = 1;
  for (size_t k = 0; k < nd; k++) ncombos *= (long) lists[k].size();
  std::vector<Q> prev;
  for (long t = 0; t < ncombos; t++) {
    std::vector<Q> q(nd);
    long rem = t;
    for (size_t k = nd; k-- > 0;) { q[k] = lists[k][rem % lists[k].size()]; rem /= (long) lists[k].size(); }
    // every 5th call is preceded by the first call of a new run segment: same engine step, same coordinates as the
    // previous call (the sample must not be taken again unless stepZeroData)
    if (t > 0 && t % 5 == 0) run.step(prev, true, key);
    run.step(q, false, key);
    prev = q;
  }
  if (r.samples.size() < 2 && shard == 0)
    r.sample("{\"kind\":\"sweep\",\"config\":\"" + jesc(run.conf) + "\",\"steps\":" + std::to_string(run.ops.size()) +
             ",\"in_range_eligible_samples\":" + std::to_string(run.n_in_range_eligible) + ",\"first_operations\":[\"" + run.ops[0] + "\",\"" +
             run.ops[1] + "\",\"" + run.ops[2] + "\"]}", 2);
  if (g_checkpoint) g_checkpoint();   // what the sweep itself found survives a crash in the output stage
  check_outputs(run, scratch, shard, key);
}

static void sweep_isolated(HistSpec const &spec, Result &r, std::string const &scratch, int shard, bool thorough, std::string const &key)
{
  isolated(r, sig_prefix(spec), "\"unit\":\"" + key + "\",\"config\":\"" + jesc(hist_conf(spec)) + "\"", 120,
           [&](Result &local) { sweep(spec, local, scratch, shard, thorough, key); });
}

// ---------------- words on fresh modules ----------------
struct WordSpace {
  HistSpec spec;                      // szd is overwritten per word
  std::vector<std::vector<Q>> alpha;  // letters: coordinates per dimension
  int L;
  long count() const
  {
    long n = 0;
    for (int l = 1; l <= L; l++) { long w = 1; for (int i = 0; i < l; i++) w *= (long) alpha.size(); n += w * (1L << (l - 1)) * 2; }
    return n;
  }
};

static void run_word(WordSpace const &ws, long idx, Result &r, std::string const &key)
{
  // decode idx -> (length, letters, segmentation bits, szd)
  int l = 1;
  long base = 0;
  for (;; l++) {
    long w = 1; for (int i = 0; i < l; i++) w *= (long) ws.alpha.size();
    long n = w * (1L << (l - 1)) * 2;
    if (idx < base + n) break;
    base += n;
  }
  long rem = idx - base;
  bool szd = rem % 2; rem /= 2;
  long seg = rem % (1L << (l - 1)); rem /= (1L << (l - 1));
  std::vector<int> letters(l);
  for (int i = 0; i < l; i++) { letters[i] = rem % ws.alpha.size(); rem /= ws.alpha.size(); }
  HistSpec spec = ws.spec;
  spec.szd = szd;
  Run run;
  run.unit = key + ":" + std::to_string(idx);
  if (!run.start(spec, r)) return;
  r.count("words");
  r.seen("nontrivial", fnv(key + ":" + std::to_string(idx)));
  for (int i = 0; i < l; i++) {
    bool repeat = i > 0 && ((seg >> (i - 1)) & 1);
    if (repeat) run.px->end_run();   // the engine ends the run before starting a new one
    run.step(ws.alpha[letters[i]], repeat, key + "|w");
  }
  std::string st;
  for (double v : run.h->grid->data) st += num(v) + ",";
  r.seen("word_final_arrays", key + st);
  if (r.samples.size() < 4 && idx % 977 == 5) {
    std::string ops;
    for (auto &o : run.ops) ops += (ops.size() ? "," : "") + ("\"" + o + "\"");
    r.sample("{\"kind\":\"word\",\"stepZeroData\":" + std::string(szd ? "true" : "false") + ",\"operations\":[" + ops + "],\"final_array\":[" +
             st.substr(0, st.size() - 1) + "]}", 4);
  }
}

// ---------------- dihedral: interior angles only ----------------
static void dihedral_part(Result &r, bool thorough)
{
  // atoms: 1 on a lattice around the axis, 2 = origin, 3 = (0,0,1), 4 on a lattice around the axis
  std::vector<double> widths = {30.0, 45.0, 60.0, 22.5};
  if (thorough) { widths.push_back(10.0); widths.push_back(90.0); }
  for (int variant = 0; variant < 3; variant++) {
    for (double w : widths) {
      // variant 0: default boundaries -180..180 ; 1: wrapAround 180 with boundaries 0..360 ; 2: custom block 0..180 on default variable
      vproxy *px = new vproxy(4);
      px->x[0] = cvm::rvector(1, 0, 0); px->x[1] = cvm::rvector(0, 0, 0); px->x[2] = cvm::rvector(0, 0, 1); px->x[3] = cvm::rvector(1, 1, 1);
      std::string conf = "smp off\ncolvar {\n name v0\n width " + num(w) + "\n";
      if (variant == 1) conf += " lowerBoundary 0\n upperBoundary 360\n";
      conf += " dihedral {\n";
      if (variant == 1) conf += " wrapAround 180\n";
      conf += " group1 { atomNumbers 1 }\n group2 { atomNumbers 2 }\n group3 { atomNumbers 3 }\n group4 { atomNumbers 4 }\n }\n}\n";
      conf += "histogram {\n name h\n colvars v0\n";
      double lb = variant == 1 ? 0.0 : -180.0, ub = variant == 1 ? 360.0 : 180.0;
      if (variant == 2) { conf += " grid {\n lowerBoundary 0\n upperBoundary 180\n width " + num(w) + "\n }\n"; lb = 0; ub = 180; }
      conf += "}\n";
      if (px->config(conf) != 0) { fprintf(stderr, "HARNESS-ERROR: dihedral configuration rejected: %s\n%s", px->errtxt.c_str(), conf.c_str()); exit(3); }
      colvarbias_histogram *h = dynamic_cast<colvarbias_histogram *>(px->bias("h"));
      int const n = (int) std::floor((ub - lb) / w + 0.5);
      bool const per_expected = (variant != 2);
      if (!h || (int) h->grid->nx[0] != n || h->grid->lower_boundaries[0].real_value != lb || bool(h->grid->periodic[0]) != per_expected) {
        r.violation(std::string("C15:hist:dihedral:") + (h && bool(h->grid->periodic[0]) != per_expected ? "periodic-flag" : "grid-shape"),
                    "{\"unit\":\"dihedral\",\"config\":\"" + jesc(conf) + "\",\"n_expected\":" + std::to_string(n) + ",\"n\":" + (h ? std::to_string(h->grid->nx[0]) : "null") + "}");
        delete px;
        continue;
      }
      r.count("grid_definitions");
      std::vector<double> ref(n, 0.0);
      long es = 0;
      bool first = true;
      for (int a = -3; a <= 3; a++) for (int b = -3; b <= 3; b++) {
        if (a == 0 && b == 0) continue;
        // atom 4 at (a,b,1), atom 1 at (1,0,0): dihedral about the z axis
        px->x[3] = cvm::rvector(a, b, 1);
        // own formula: signed angle from the projection of (atom1-atom2) to that of (atom4-atom3) about the axis 2->3
        double ang = std::atan2((double) b, (double) a) * 180.0 / 3.14159265358979323846;
        // the wrapping interval: [-180,180) or [0,360)
        if (variant == 1 && ang < 0) ang += 360.0;
        double t = (ang - lb) / w;
        double frac = t - std::floor(t);
        bool near_edge = frac < 1e-6 || frac > 1 - 1e-6 || std::fabs(std::fabs(ang) - 180.0) < 1e-6;
        int rc = px->step(first ? 0 : ++es);
        bool eligible = !first;
        first = false;
        r.count("transitions");
        double got = px->cv("v0")->value().real_value;
        if (near_edge) {
          r.count("dihedral_edge_values_skipped");
          ref = h->grid->data;  // whatever the code decided for a value within rounding of an edge
          continue;
        }
        r.count("evaluations");
        r.count("dihedral_samples");
        r.seen("nontrivial", fnv("dih" + std::to_string(variant) + num(w) + "," + std::to_string(a) + "," + std::to_string(b)));
        if (rc != 0 || std::fabs(got - ang) > 1e-9) {
          r.violation("C15:hist:dihedral:variable-value-differs-from-dictated-value",
                      "{\"unit\":\"dihedral\",\"config\":\"" + jesc(conf) + "\",\"atom4\":[" + std::to_string(a) + "," + std::to_string(b) + ",1],\"reported\":" + num(got) + ",\"expected\":" + num(ang) + "}");
          ref = h->grid->data;
          continue;
        }
        int bin = (int) std::floor(t);
        if (eligible && bin >= 0 && bin < n) ref[bin] += 1.0;
        if (h->grid->data != ref) {
          std::string obs, ex;
          for (int i = 0; i < n; i++) { obs += (i ? "," : "") + num(h->grid->data[i]); ex += (i ? "," : "") + num(ref[i]); }
          r.violation(std::string("C15:hist:dihedral:") + (bin >= 0 && bin < n ? "interior-sample-miscounted" : "out-of-range-sample-counted"),
                      "{\"unit\":\"dihedral\",\"config\":\"" + jesc(conf) + "\",\"atom4\":[" + std::to_string(a) + "," + std::to_string(b) + ",1],\"angle\":" + num(ang) +
                          ",\"expected_bin\":" + std::to_string(bin) + ",\"observed_array\":[" + obs + "],\"expected_array\":[" + ex + "]}");
          ref = h->grid->data;
        }
      }
      delete px;
    }
  }
}

// ---------------- decimal (non-dyadic) grid parameters: interior and far-away values only ----------------
// Bin edges are not exactly representable here, so only values a quarter bin or more away from every edge are used
// (the expected bin is then known without any rounding question), plus values far outside the grid.
static void decimal_part(Result &r, bool thorough)
{
  struct DG { double lb, w; int n; };
  std::vector<DG> gs = {{0.0, 0.1, 10}, {0.15, 0.1, 9}, {-0.7, 0.35, 4}, {1e-3, 2e-4, 5}, {100.1, 0.3, 3}, {-180.0, 7.2, 50}};
  if (thorough) { gs.push_back({-3.3, 1.1, 6}); gs.push_back({0.0, 1.0 / 3.0, 3}); gs.push_back({2.5e6, 1e-2, 7}); }
  for (auto &g : gs)
    for (int block = 0; block < 3; block++) {
      double const ub = g.lb + g.n * g.w;
      vproxy *px = new vproxy(2);
      px->x[0] = cvm::rvector(0, 0, 0); px->x[1] = cvm::rvector(0, 0, 0);
      char buf[512];
      std::string conf = "smp off\ncolvar {\n name v0\n";
      if (block == 0) { snprintf(buf, 512, " width %.17g\n lowerBoundary %.17g\n upperBoundary %.17g\n", g.w, g.lb, ub); conf += buf; }
      conf += " distanceZ {\n main { atomNumbers 1 }\n ref { atomNumbers 2 }\n }\n}\nhistogram {\n name h\n colvars v0\n";
      if (block) {
        snprintf(buf, 512, " %s {\n lowerBoundary %.17g\n upperBoundary %.17g\n width %.17g\n }\n", block == 1 ? "grid" : "histogramGrid", g.lb, ub, g.w);
        conf += buf;
      }
      conf += "}\n";
      if (px->config(conf) != 0) { fprintf(stderr, "HARNESS-ERROR: decimal configuration rejected: %s\n%s", px->errtxt.c_str(), conf.c_str()); exit(3); }
      colvarbias_histogram *h = dynamic_cast<colvarbias_histogram *>(px->bias("h"));
      if (!h || h->grid->nx.size() != 1 || h->grid->nx[0] != g.n || h->grid->lower_boundaries[0].real_value != g.lb || h->grid->widths[0] != g.w) {
        r.violation("C15:hist:decimal-parameters:grid-shape", "{\"unit\":\"decimal\",\"config\":\"" + jesc(conf) + "\",\"n_expected\":" + std::to_string(g.n) + ",\"n\":" +
                    (h && h->grid->nx.size() ? std::to_string(h->grid->nx[0]) : "null") + "}");
        delete px;
        continue;
      }
      r.count("grid_definitions");
      std::vector<double> ref(g.n, 0.0);
      long es = 0;
      bool first = true;
      std::vector<std::pair<double, int>> vals;   // value, expected bin (-1 none)
      for (int i = -2; i <= g.n + 1; i++)
        for (double f : {0.25, 0.5, 0.75}) vals.push_back({g.lb + (i + f) * g.w, (i >= 0 && i < g.n) ? i : -1});
      for (double far : {4294967296.5, -4294967296.5, 2147483648.25, -2147483649.25, 1.0e15, -1.0e15, 1.0e300})
        vals.push_back({g.lb + far * g.w, -1});
      for (auto &vb : vals) {
        px->x[0] = cvm::rvector(0, 0, vb.first);
        int rc = px->step(first ? 0 : ++es);
        bool eligible = !first;
        first = false;
        r.count("transitions");
        r.count("evaluations");
        r.count("decimal_samples");
        r.seen("nontrivial", fnv("dec" + num(g.lb) + num(g.w) + std::to_string(block) + num(vb.first)));
        if (eligible && vb.second >= 0) ref[vb.second] += 1.0;
        if (rc != 0 || px->cv("v0")->value().real_value != vb.first || h->grid->data != ref) {
          std::string obs, ex;
          for (int i = 0; i < g.n; i++) { obs += (i ? "," : "") + num(h->grid->data[i]); ex += (i ? "," : "") + num(ref[i]); }
          r.violation(std::string("C15:hist:decimal-parameters:") + (vb.second >= 0 ? "interior-sample-miscounted" : "out-of-range-sample-counted"),
                      "{\"unit\":\"decimal\",\"config\":\"" + jesc(conf) + "\",\"value\":" + num(vb.first) + ",\"expected_bin\":" + std::to_string(vb.second) + ",\"rc\":" +
                          std::to_string(rc) + ",\"observed_array\":[" + obs + "],\"expected_array\":[" + ex + "]}");
          ref = h->grid->data;
        }
      }
      delete px;
    }
}

// ---------------- vector variables gathered into one histogram ----------------
static void gather_part(Result &r)
{
  // documented in "Histogramming vector variables": gatherVectorColvars on, weights, single grid parameters
  struct G { std::string name, cvc; int nvals; };
  // atoms 1..4 on the z axis; values are exact
  std::vector<G> gs = {
    {"distancePairs", " distancePairs {\n group1 { atomNumbers 1 }\n group2 { atomNumbers 2 3 4 }\n }\n", 3},
    {"cartesian", " cartesian {\n atoms { atomNumbers 2 3 }\n }\n", 6},
  };
  for (auto &g : gs) {
    for (int block = 1; block <= 2; block++) {
      vproxy *px = new vproxy(4);
      double z[4] = {0.0, 0.5, 1.25, -3.0};
      for (int a = 0; a < 4; a++) px->x[a] = cvm::rvector(0, 0, z[a]);
      std::string wts;
      std::vector<double> wv;
      for (int i = 0; i < g.nvals; i++) { wv.push_back(double(1 << i)); wts += " " + num(wv.back()); }
      std::string conf = "smp off\ncolvar {\n name v\n" + g.cvc + "}\nhistogram {\n name h\n colvars v\n gatherVectorColvars on\n weights" + wts + "\n" +
                         (block == 1 ? " grid {\n" : " histogramGrid {\n") + " lowerBoundary 0\n upperBoundary 4\n width 0.5\n }\n}\n";
      r.count("gather_configurations");
      int rc = px->config(conf);
      colvarbias_histogram *h = dynamic_cast<colvarbias_histogram *>(px->bias("h"));
      if (rc != 0 || !h) {
        // A documented configuration of the scope ("vector variables gathered into one histogram", per-element weights) that
        // the library refuses: the clause cannot be exercised at all - reported (one signature for the feature as a whole)
        r.count("gather_vector_configs_rejected");
        r.violation("C15:hist:gatherVectorColvars:documented-configuration-refused",
                    "{\"unit\":\"gather\",\"component\":\"" + g.name + "\",\"config\":\"" + jesc(conf) + "\",\"error\":\"" + jesc(px->errtxt.substr(0, 400)) + "\"}");
        std::string e = px->errtxt;
        for (auto &ch : e) if (ch == '\n') ch = ' ';
        if (e.size() > 400) e = e.substr(0, 400) + "...";
        r.notes.push_back("gather: configuration with gatherVectorColvars on (" + g.name + ", " + (block == 1 ? "grid" : "histogramGrid") +
                          " block, weights) rejected with rc=" + std::to_string(rc) + ": " + e);
        delete px;
        continue;
      }
      r.count("evaluations");
      r.count("gather_vector_configs_accepted");
      // accepted: check the accumulation with weights at eligible steps
      r.seen("nontrivial", fnv("gather" + g.name + std::to_string(block)));
      std::vector<double> ref(8, 0.0);
      for (int s = 0; s < 4; s++) {
        // move atom 3 along the axis
        double z3[4] = {1.25, 1.5, 3.75, 4.0};
        px->x[2] = cvm::rvector(0, 0, z3[s]);
        bool repeat = (s == 2);
        px->step(repeat ? 1 : (s < 2 ? s : s - 1));
        r.count("transitions");
        bool eligible = s > 0 && !repeat;
        std::vector<double> vals;
        if (g.name == "distancePairs") for (int a = 1; a < 4; a++) vals.push_back(std::fabs((a == 2 ? z3[s] : z[a]) - z[0]));
        else { vals = {0, 0, z[1], 0, 0, z3[s]}; }
        if (eligible)
          for (size_t i = 0; i < vals.size(); i++) {
            int b = (int) std::floor(vals[i] / 0.5);
            if (b >= 0 && b < 8) ref[b] += wv[i];
          }
        if (h->grid->data != ref) {
          std::string obs, ex;
          for (int i = 0; i < 8; i++) { obs += (i ? "," : "") + num(h->grid->data[i]); ex += (i ? "," : "") + num(ref[i]); }
          r.violation(std::string("C15:hist:gatherVectorColvars:") + (eligible ? "weighted-accumulation-differs" : "accumulated-at-ineligible-step"),
                      "{\"unit\":\"gather\",\"component\":\"" + g.name + "\",\"config\":\"" + jesc(conf) + "\",\"step_index\":" + std::to_string(s) + ",\"observed_array\":[" + obs +
                          "],\"expected_array\":[" + ex + "]}");
          ref = h->grid->data;
        }
      }
      delete px;
    }
  }
}

int main(int argc, char **argv)
{
  Args args(argc, argv);
  // --replay <file>: re-run only the unit named in the replay record (with the tier recorded there)
  std::string replay_unit;
  if (args.replay.size()) {
    std::ifstream in(args.replay);
    if (!in && args.replay[0] != '/') { in.clear(); in.open(args.kv["verif"] + "/" + args.replay); }
    if (!in) { fprintf(stderr, "HARNESS-ERROR: cannot open replay record %s\n", args.replay.c_str()); return 2; }
    std::stringstream ss; ss << in.rdbuf();
    std::string const txt = ss.str();
    auto field = [&](std::string const &k) {
      size_t p = txt.find("\"" + k + "\":");
      if (p == std::string::npos) return std::string();
      p = txt.find('"', p + k.size() + 3);
      if (p == std::string::npos) return std::string();
      size_t e = txt.find('"', p + 1);
      return txt.substr(p + 1, e - p - 1);
    };
    replay_unit = field("unit");
    std::string t = field("tier");
    if (t == "quick" || t == "thorough") args.tier = t;
    if (replay_unit.empty()) {
      if (txt.find("C15:io:") != std::string::npos) {  // a record of the other part: nothing to do here
        Result none; write_result(args.out, "C15", args.tier, none, true); return 0;
      }
      fprintf(stderr, "HARNESS-ERROR: no unit in replay record %s\n", args.replay.c_str()); return 2;
    }
    args.jobs = 1;
  }
  bool const thorough = args.thorough();
  std::string const scratch = args.kv.count("scratch") ? args.kv["scratch"] : ".";

  // reference self-test: floor division and wrapping on a few hand-computed cases
  {
    Dim d = from_cv(1, QC(4.0), QC(2.0), QC(0.0), QC(1.0), 4);
    Q v, alt; bool ha;
    Ref::var_value(d, QC(5.5), v, alt, ha);
    bool ok = (v == QC(1.5)) && !ha;
    Ref::var_value(d, QC(-0.25), v, alt, ha);
    ok = ok && v == QC(3.75);
    Ref::var_value(d, QC(4.0), v, alt, ha);
    ok = ok && v == QC(0.0) && ha && alt == QC(4.0);
    ok = ok && Ref::bin(d, QC(3.75)) == 3 && Ref::bin(d, QC(4.0)) == -1 && Ref::bin(d, QC(-0.25)) == -1 && Ref::bin(d, 0) == 0;
    ok = ok && qfloordiv(-1, 4) == -1 && qfloordiv(-4, 4) == -1 && qfloordiv(3, 4) == 0;
    if (!ok) { fprintf(stderr, "HARNESS-ERROR: reference self-test failed\n"); return 2; }
  }

  std::vector<HistSpec> specs = one_d_specs(thorough);
  size_t const n1 = specs.size();
  { auto v = multi_d_specs(2, thorough); specs.insert(specs.end(), v.begin(), v.end()); }
  size_t const n2 = specs.size() - n1;
  { auto v = multi_d_specs(3, thorough); specs.insert(specs.end(), v.begin(), v.end()); }
  size_t const n3 = specs.size() - n1 - n2;

  // word spaces
  std::vector<WordSpace> wss;
  {
    WordSpace w; w.L = thorough ? 5 : 3;
    w.spec.block = 0; w.spec.d.push_back(from_cv(0, 0, 0, QC(-1.0), QC(0.5), 3));
    Q e = QC(0.5) >> 40;
    for (Q q : {QC(-1.5), QC(-1.0), QC(-0.75), QC(0.5) - e, QC(0.5), QC(2.0)}) w.alpha.push_back({q});
    wss.push_back(w);
  }
  {
    WordSpace w; w.L = thorough ? 4 : 3;
    w.spec.block = 2; w.spec.d.push_back(from_block(1, QC(4.0), QC(2.0), QC(0.0), QC(1.0), 4, true));
    Q e = QC(1.0) >> 40;
    for (Q q : {QC(0.0), QC(0.5), QC(4.0) - e, QC(4.0), QC(5.5), QC(-0.5)}) w.alpha.push_back({q});
    wss.push_back(w);
  }
  {
    WordSpace w; w.L = 3;
    w.spec.block = 1;
    w.spec.d.push_back(from_block(0, 0, 0, QC(0.0), QC(1.0), 2, true));
    w.spec.d.push_back(from_block(1, QC(4.0), QC(0.0), QC(-2.0), QC(2.0), 2, false));
    w.alpha = {{QC(0.5), QC(-1.0)}, {QC(1.0), QC(0.0)}, {QC(2.0), QC(1.0)}, {QC(1.5), QC(2.0)}, {QC(-0.5), QC(-1.0)}, {QC(0.0), QC(5.0)}};
    wss.push_back(w);
  }
  if (thorough) {
    WordSpace w; w.L = 3;
    w.spec.block = 0;
    for (int k = 0; k < 3; k++) w.spec.d.push_back(from_cv(k == 1 ? 1 : 0, QC(4.0), QC(0.0), QC(-2.0), QC(2.0), 2));
    w.alpha = {{QC(-1.0), QC(-1.0), QC(-1.0)}, {QC(0.0), QC(1.0), QC(-2.0)}, {QC(1.0), QC(3.0), QC(1.0)}, {QC(2.0), QC(0.0), QC(0.0)}, {QC(0.0), QC(0.0), QC(-2.5)}};
    wss.push_back(w);
  }
  std::vector<long> wbase;
  long nwords = 0;
  for (auto &w : wss) { wbase.push_back(nwords); nwords += w.count(); }

  long const nunits = (long) specs.size() + nwords;
  Result total;
  // determinism: the first and the last grid definition are swept twice; the two records must be identical
  if (replay_unit.empty()) {
    for (size_t u : {size_t(0), specs.size() - 1}) {
      Result a, b;
      sweep_isolated(specs[u], a, scratch, 99, thorough, "s" + std::to_string(u));
      sweep_isolated(specs[u], b, scratch, 99, thorough, "s" + std::to_string(u));
      if (a.ser() != b.ser()) { fprintf(stderr, "HARNESS-ERROR: two runs of unit s%zu differ (non-determinism)\n", u); return 2; }
    }
    total.count("determinism_replays", 2);
  }
  bool ok = run_sharded(args.jobs, [&](int shard, int nshards, Result &r) {
    if (replay_unit.size()) {
      if (replay_unit[0] == 's') {
        long u = atol(replay_unit.c_str() + 1);
        if (u < 0 || u >= (long) specs.size()) { fprintf(stderr, "HARNESS-ERROR: bad unit\n"); exit(2); }
        sweep_isolated(specs[u], r, scratch, shard, thorough, replay_unit);
      } else if (replay_unit[0] == 'W') {
        size_t s = atol(replay_unit.c_str() + 1);
        size_t c = replay_unit.find(':');
        if (s >= wss.size() || c == std::string::npos) { fprintf(stderr, "HARNESS-ERROR: bad unit\n"); exit(2); }
        run_word(wss[s], atol(replay_unit.c_str() + c + 1), r, "W" + std::to_string(s));
      } else if (replay_unit == "dihedral") isolated(r, "C15:hist:dihedral", "\"unit\":\"dihedral\"", 300, [&](Result &local) { dihedral_part(local, thorough); });
      else if (replay_unit == "decimal") isolated(r, "C15:hist:decimal", "\"unit\":\"decimal\"", 300, [&](Result &local) { decimal_part(local, thorough); });
      else if (replay_unit == "gather") isolated(r, "C15:hist:gather", "\"unit\":\"gather\"", 300, [&](Result &local) { gather_part(local); });
      else { fprintf(stderr, "HARNESS-ERROR: bad unit\n"); exit(2); }
      return;
    }
    // interleave heavy (3-D) specs over shards: unit u goes to shard u % nshards
    for (long u = 0; u < nunits; u++) {
      if (u % nshards != shard) continue;
      if (u < (long) specs.size()) {
        sweep_isolated(specs[u], r, scratch, shard, thorough, "s" + std::to_string(u));
      } else {
        long wi = u - (long) specs.size();
        size_t s = 0;
        while (s + 1 < wss.size() && wi >= wbase[s + 1]) s++;
        run_word(wss[s], wi - wbase[s], r, "W" + std::to_string(s));
      }
    }
    if (shard == nshards - 1) isolated(r, "C15:hist:dihedral", "\"unit\":\"dihedral\"", 300, [&](Result &local) { dihedral_part(local, thorough); });
    if (shard == 0) isolated(r, "C15:hist:gather", "\"unit\":\"gather\"", 300, [&](Result &local) { gather_part(local); });
    if (shard == 1 % nshards) isolated(r, "C15:hist:decimal", "\"unit\":\"decimal\"", 300, [&](Result &local) { decimal_part(local, thorough); });
  }, total, thorough ? 1100 : 170);
  if (!ok) return 2;
  total.notes.push_back("hist: " + std::to_string(n1) + " 1-D, " + std::to_string(n2) + " 2-D, " + std::to_string(n3) +
                        " 3-D grid definitions swept; " + std::to_string(nwords) + " words on fresh modules over " + std::to_string(wss.size()) + " word spaces");
  total.notes.push_back("hist: values exactly on an end of a periodic variable's wrapping interval accept either end (counted as halfperiod_values); "
                        "dihedral angles within 1e-6 bin widths of an edge are skipped (counted as dihedral_edge_values_skipped)");
  total.notes.push_back("hist: thermodynamic-integration sample grids (colvarbias_ti) are not covered here");
  write_result(args.out, "C15", args.tier, total, true);
  return 0;
}
