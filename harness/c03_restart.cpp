// C03 — a run resumed from a saved state is indistinguishable from an uninterrupted run.
// Explorer A (unmerged word tree): configuration menu x ALL trajectory words of length L over a 5-region
// alphabet (x 2 system forces where forces are read) x EVERY stop step K x {text, binary} x {lagged, same-step}.
#include "vproxy.h"
#include "common.h"
#include <algorithm>

using namespace vc;

// value regions for the variable d (grid [1,3], width 0.5): bin 0, bin 1, exact edge, below grid, above grid
static const double REG[5] = {1.2, 1.7, 2.0, 0.6, 3.4};
static const double FRC[2] = {-1.0, 2.0};

struct Conf {
  const char *name;
  std::string text;
  bool forces;   // reads total forces: alphabet is region x force
  bool two_d;    // uses second variable d2
  double temperature;
  bool centres_only = false;  // values at bin centres inside the grid only (binned == analytic evaluation)
  std::string resume_text;    // if set: the configuration the RESUMING instance is given (same objects, listed in another order); text states only
};

static const char *CV_D =
    "colvar {\n name d\n width 0.5\n lowerBoundary 1.0\n upperBoundary 3.0\n distance {\n group1 { atomNumbers 1 }\n group2 { atomNumbers 2 }\n }\n}\n";
static const char *CV_D_EXP =
    "colvar {\n name d\n width 0.5\n lowerBoundary 1.0\n upperBoundary 3.0\n expandBoundaries on\n distance {\n group1 { atomNumbers 1 }\n group2 { atomNumbers 2 }\n }\n}\n";
static const char *CV_D2 =
    "colvar {\n name d2\n width 0.5\n lowerBoundary 1.0\n upperBoundary 2.0\n distance {\n group1 { atomNumbers 3 }\n group2 { atomNumbers 4 }\n }\n}\n";
static const char *CV_D_EXT =
    "colvar {\n name d\n width 0.5\n lowerBoundary 1.0\n upperBoundary 3.0\n extendedLagrangian on\n extendedFluctuation 0.3\n extendedTimeConstant 20.0\n"
    " extendedLangevinDamping 0.0\n distance {\n group1 { atomNumbers 1 }\n group2 { atomNumbers 2 }\n }\n}\n";

static std::vector<Conf> menu()
{
  std::vector<Conf> m;
  std::string d = CV_D;
  m.push_back({"harmonic-fixed", d + "harmonic {\n colvars d\n centers 1.5\n forceConstant 2.0\n}\n", false, false, 0});
  m.push_back({"harmonic-centers-moving", d + "harmonic {\n colvars d\n centers 1.0\n targetCenters 3.0\n targetNumSteps 3\n forceConstant 2.0\n outputAccumulatedWork on\n}\n", false, false, 0});
  m.push_back({"harmonic-centers-staged", d + "harmonic {\n colvars d\n centers 1.0\n targetCenters 3.0\n targetNumSteps 2\n targetNumStages 2\n forceConstant 2.0\n}\n", false, false, 0});
  m.push_back({"harmonic-k-staged", d + "harmonic {\n colvars d\n centers 1.5\n forceConstant 2.0\n targetForceConstant 6.0\n targetNumSteps 2\n targetNumStages 2\n}\n", false, false, 0});
  m.push_back({"walls-k-moving", d + "harmonicWalls {\n colvars d\n lowerWalls 1.4\n upperWalls 1.9\n forceConstant 2.0\n targetForceConstant 5.0\n targetNumSteps 3\n outputAccumulatedWork on\n}\n", false, false, 0});
  m.push_back({"linear", d + "linear {\n colvars d\n centers 1.0\n forceConstant 1.5\n}\n", false, false, 0});
  m.push_back({"linear-k-staged", d + "linear {\n colvars d\n centers 1.0\n forceConstant 1.5\n targetForceConstant 4.5\n targetNumSteps 1\n targetNumStages 2\n}\n", false, false, 0});
  m.push_back({"linear-centers-staged", d + "linear {\n colvars d\n centers 1.0\n targetCenters 3.0\n targetNumSteps 1\n targetNumStages 2\n forceConstant 1.5\n}\n", false, false, 0});
  m.push_back({"abmd", d + "abmd {\n colvars d\n forceConstant 3.0\n stoppingValue 2.5\n}\n", false, false, 0});
  m.push_back({"alb", d + "ALB {\n colvars d\n centers 1.5\n updateFrequency 4\n forceRange 3.0\n}\n", false, false, 300});
  m.push_back({"histogram", d + "histogram {\n colvars d\n}\n", false, false, 0});
  m.push_back({"histogramRestraint", d + "histogramRestraint {\n colvars d\n lowerBoundary 0.0\n upperBoundary 4.0\n width 0.5\n gaussianSigma 0.6\n forceConstant 2.0\n refHistogram 0.1 0.2 0.5 0.6 0.3 0.2 0.1 0.0\n}\n", false, false, 0});
  m.push_back({"metadynamics-grids", d + "metadynamics {\n colvars d\n hillWeight 0.5\n hillWidth 1.0\n newHillFrequency 2\n}\n", false, false, 0});
  m.push_back({"metadynamics-nogrids", d + "metadynamics {\n colvars d\n hillWeight 0.5\n hillWidth 1.0\n newHillFrequency 2\n useGrids off\n}\n", false, false, 0});
  m.push_back({"metadynamics-keepHills", d + "metadynamics {\n colvars d\n hillWeight 0.5\n hillWidth 1.0\n newHillFrequency 2\n keepHills on\n}\n", false, false, 0});
  m.push_back({"metadynamics-keepHills-gridfreq3", d + "metadynamics {\n colvars d\n hillWeight 0.5\n hillWidth 1.0\n newHillFrequency 1\n gridsUpdateFrequency 3\n keepHills on\n}\n", false, false, 0, true});
  m.push_back({"metadynamics-gridfreq3", d + "metadynamics {\n colvars d\n hillWeight 0.5\n hillWidth 1.0\n newHillFrequency 1\n gridsUpdateFrequency 3\n}\n", false, false, 0, true});
  {
    // a wider grid whose lower boundary lies 3.6 bins below one of the values, and a non-integer hillWidth: hills in the band
    // between 3*floor(hillWidth) and 3*floor(hillWidth)+1 bins from a boundary are kept as explicit off-grid hills
    std::string dw = "colvar {\n name d\n width 0.5\n lowerBoundary 1.6\n upperBoundary 7.6\n distance {\n group1 { atomNumbers 1 }\n group2 { atomNumbers 2 }\n }\n}\n";
    m.push_back({"metadynamics-wide-grid-hillWidth1.9", dw + "metadynamics {\n colvars d\n hillWeight 0.5\n hillWidth 1.9\n newHillFrequency 1\n}\n", false, false, 0});
  }
  m.push_back({"metadynamics-wellTempered", d + "metadynamics {\n colvars d\n hillWeight 0.5\n hillWidth 1.0\n newHillFrequency 1\n wellTempered on\n biasTemperature 1500.0\n}\n", false, false, 300});
  m.push_back({"metadynamics-expandBoundaries", std::string(CV_D_EXP) + "metadynamics {\n colvars d\n hillWeight 0.5\n hillWidth 1.0\n newHillFrequency 2\n}\n", false, false, 0});
  m.push_back({"opes", d + "opes_metad {\n colvars d\n newHillFrequency 2\n barrier 5.0\n gaussianSigma 0.3\n}\n", false, false, 300});
  m.push_back({"opes-restartfreq2", "colvarsRestartFrequency 2\n" + d + "opes_metad {\n colvars d\n newHillFrequency 1\n barrier 5.0\n gaussianSigma 0.3\n}\n", false, false, 300});
  m.push_back({"abf-1d", d + "abf {\n colvars d\n fullSamples 2\n}\n", true, false, 300});
  m.push_back({"abf-1d-history", d + "abf {\n colvars d\n fullSamples 1\n maxForce 1.5\n hideJacobian on\n}\n", true, false, 300});
  m.push_back({"abf-2d", d + CV_D2 + "abf {\n colvars d d2\n fullSamples 1\n}\n", true, true, 300});
  m.push_back({"eabf-czar", std::string(CV_D_EXT) + "abf {\n colvars d\n fullSamples 1\n}\n", true, false, 300});
  {
    // a light, quickly moving fictitious coordinate: it leaves and re-enters the ABF grid within a few steps, out of phase with
    // the actual coordinate (the CZAR data are binned by the actual coordinate, the ABF data by the fictitious one)
    std::string fast = CV_D_EXT;
    size_t a = fast.find("extendedTimeConstant 20.0");
    fast.replace(a, strlen("extendedTimeConstant 20.0"), "extendedTimeConstant 3.0");
    m.push_back({"eabf-czar-fast-coordinate", fast + "abf {\n colvars d\n fullSamples 1\n}\n", true, false, 300});
  }
  m.push_back({"harmonic-ti", d + "harmonic {\n colvars d\n centers 1.5\n forceConstant 2.0\n writeTIPMF on\n}\n", true, false, 0});
  {
    // an extended-Lagrangian variable evaluated every second step (and its restraint with it): at odd stop steps it is asleep
    std::string mts = CV_D_EXT;
    size_t a = mts.find(" extendedLagrangian on");
    mts.insert(a, " timeStepFactor 2\n");
    m.push_back({"extended-Lagrangian-timeStepFactor2", mts + "harmonic {\n colvars d\n timeStepFactor 2\n centers 1.5\n forceConstant 2.0\n}\n", false, false, 300});
  }
  {
    // the resuming instance lists the same objects in another order (a text state is matched by name)
    std::string v1 = CV_D_EXT, v2 = CV_D2;
    std::string h1 = "harmonic {\n name h1\n colvars d\n centers 1.0\n targetCenters 3.0\n targetNumSteps 5\n forceConstant 2.0\n outputAccumulatedWork on\n}\n";
    std::string h2 = "harmonic {\n name h2\n colvars d2\n centers 1.2\n targetCenters 1.9\n targetNumSteps 4\n forceConstant 1.0\n outputAccumulatedWork on\n}\n";
    std::string m1 = "metadynamics {\n name m1\n colvars d\n hillWeight 0.5\n hillWidth 1.0\n newHillFrequency 2\n}\n";
    std::string m2 = "metadynamics {\n name m2\n colvars d2\n hillWeight 0.3\n hillWidth 1.0\n newHillFrequency 1\n}\n";
    Conf c{"objects-listed-in-another-order-on-resume", v1 + v2 + h1 + h2 + m1 + m2, false, true, 300};
    c.resume_text = v2 + v1 + h2 + h1 + m2 + m1;
    m.push_back(c);
  }
  // two-dimensional ABF whose bias is the PMF integrated on the fly every second step
  m.push_back({"abf-2d-pABFintegrateFreq2", d + CV_D2 + "abf {\n colvars d d2\n fullSamples 1\n pABFintegrateFreq 2\n}\n", true, true, 300});
  return m;
}

struct Obs { std::vector<double> v; };

struct Driver {
  Conf const &c;
  bool same_step;
  vproxy *px = NULL;
  Driver(Conf const &cc, bool ss) : c(cc), same_step(ss) {}
  ~Driver() { delete px; }
  void place(int letter, long s)
  {
    int reg = c.forces ? letter / 2 : letter;
    double f = c.forces ? FRC[letter % 2] : 0.0;
    px->x[0] = cvm::rvector(0, 0, 0);
    static const double CEN[5] = {1.25, 1.75, 2.25, 2.75, 1.25};
    px->x[1] = cvm::rvector(c.centres_only ? CEN[reg] : REG[reg], 0, 0);
    px->x[2] = cvm::rvector(0, 3, 0);
    px->x[3] = cvm::rvector((s % 2) ? 1.2 : 1.7, 3, 0);
    px->fsys[0] = cvm::rvector(-f, 0, 0);
    px->fsys[1] = cvm::rvector(f, 0, 0);
    px->fsys[2] = cvm::rvector(0.5, 0, 0);
    px->fsys[3] = cvm::rvector(-0.5 * f, 0, 0);
  }
  bool fresh(int first_letter, long s, std::string &err, bool resuming = false)
  {
    delete px;
    px = new vproxy(4, same_step);
    px->set_target_temperature(c.temperature);
    place(first_letter, s);
    if (px->config((resuming && c.resume_text.size()) ? c.resume_text : c.text) != 0) { err = px->errtxt; return false; }
    return true;
  }
  bool step(int letter, long s, Obs &o, std::string &err)
  {
    place(letter, s);
    if (px->step(s) != 0) { err = px->errtxt; return false; }
    o.v.clear();
    o.v.push_back(px->cv("d")->value().real_value);
    o.v.push_back(px->energy);
    for (int a = 0; a < 4; a++) { o.v.push_back(px->fapp[a].x); o.v.push_back(px->fapp[a].y); o.v.push_back(px->fapp[a].z); }
    return true;
  }
};

// token-wise comparison of two state texts with numeric tolerance; returns "" if equal, else first difference
static std::string state_diff(std::string const &a, std::string const &b, double rel)
{
  std::istringstream ia(a), ib(b);
  std::string ta, tb, ctx;
  long n = 0;
  while (true) {
    bool ga = bool(ia >> ta), gb = bool(ib >> tb);
    if (!ga && !gb) return "";
    if (ga != gb) return "different number of tokens (after " + std::to_string(n) + ", last keyword " + ctx + ")";
    n++;
    if (ta == tb) { if (isalpha((unsigned char) ta[0])) ctx = ta; continue; }
    char *ea, *eb;
    double da = strtod(ta.c_str(), &ea), db = strtod(tb.c_str(), &eb);
    if (*ea == 0 && *eb == 0) {
      double sc = std::max(1.0, std::max(std::fabs(da), std::fabs(db)));
      if (std::fabs(da - db) <= rel * sc) continue;
    }
    return "token " + std::to_string(n) + " after keyword '" + ctx + "': '" + ta + "' vs '" + tb + "'";
  }
}


// the top-level blocks of a state text ("colvar { ... }", "harmonic { ... }"), sorted: the same state whatever the order in
// which the configuration listed its objects
static std::string sorted_blocks(std::string const &t)
{
  std::vector<std::string> blocks;
  size_t i = 0;
  while (i < t.size()) {
    size_t b = t.find('{', i);
    if (b == std::string::npos) { blocks.push_back(t.substr(i)); break; }
    int depth = 0;
    size_t j = b;
    for (; j < t.size(); j++) {
      if (t[j] == '{') depth++;
      else if (t[j] == '}') { depth--; if (depth == 0) break; }
    }
    blocks.push_back(t.substr(i, j + 1 - i));
    i = j + 1;
  }
  auto squeeze = [](std::string const &x) { std::string o; for (char ch : x) if (!isspace((unsigned char) ch)) o += ch; return o; };
  std::sort(blocks.begin(), blocks.end(), [&](std::string const &a, std::string const &b2) { return squeeze(a).substr(0, 60) < squeeze(b2).substr(0, 60); });
  std::string o;
  for (auto &bl : blocks) o += bl + "\n";
  return o;
}

// ------------------------------------------------------------------------------------------------
// Long scripted history x EVERY stop step: one trajectory of LH steps in which the coordinate wanders in and out of the
// grid (and, for extended-Lagrangian variables, the fictitious coordinate does so out of phase), system forces vary, and
// the run is stopped at every step K, resumed from the text and from the binary state, and compared with the
// uninterrupted run step by step and in the final state.  Complements the short-word enumeration: data that live only in
// memory (stale caches, counters) need a longer past to differ.
// ------------------------------------------------------------------------------------------------
static void long_place(vproxy &px, long s)
{
  double v = 2.0 + 1.45 * std::sin(0.37 * s) + 0.3 * std::sin(1.3 * s);
  double f = 1.5 * std::sin(0.9 * s + 0.4);
  px.x[0] = cvm::rvector(0, 0, 0);
  px.x[1] = cvm::rvector(v, 0, 0);
  px.x[2] = cvm::rvector(0, 3, 0);
  px.x[3] = cvm::rvector(1.45 + 0.4 * std::sin(0.61 * s), 3, 0);
  px.fsys[0] = cvm::rvector(-f, 0, 0);
  px.fsys[1] = cvm::rvector(f, 0, 0);
  px.fsys[2] = cvm::rvector(0.5, 0, 0);
  px.fsys[3] = cvm::rvector(-0.5 * f, 0, 0);
}
static std::vector<double> long_obs(vproxy &px)
{
  std::vector<double> v;
  v.push_back(px.cv("d")->value().real_value);
  v.push_back(px.energy);
  for (int a = 0; a < 4; a++) { v.push_back(px.fapp[a].x); v.push_back(px.fapp[a].y); v.push_back(px.fapp[a].z); }
  return v;
}
static void long_history(Conf const &c, bool same_step, int LH, Result &r)
{
  auto fresh = [&](long s, bool resuming = false) {
    vproxy *px = new vproxy(4, same_step);
    px->set_target_temperature(c.temperature);
    long_place(*px, s);
    if (px->config((resuming && c.resume_text.size()) ? c.resume_text : c.text) != 0) { fprintf(stderr, "HARNESS-ERROR: %s rejected (long history): %s\n", c.name, px->errtxt.c_str()); exit(3); }
    return px;
  };
  // uninterrupted run
  std::vector<std::vector<double>> o0(LH);
  vproxy *px = fresh(0);
  for (long s = 0; s < LH; s++) { long_place(*px, s); if (px->step(s) != 0) { fprintf(stderr, "HARNESS-ERROR: %s long history step error: %s\n", c.name, px->errtxt.c_str()); exit(3); } o0[s] = long_obs(*px); r.count("transitions"); }
  px->end_run();
  std::string final0 = px->state_text();
  delete px;
  std::string base = std::string("{\"config\":\"") + c.name + "\",\"timing\":\"" + (same_step ? "same-step" : "lagged") + "\",\"history\":\"scripted, " + std::to_string(LH) + " steps\"";
  for (int K = 0; K < LH - 1; K++) {
    // first part: steps 0..K, end of run, state saved
    px = fresh(0);
    for (long s = 0; s <= K; s++) { long_place(*px, s); px->step(s); r.count("transitions"); }
    px->end_run();
    std::string st_text = px->state_text();
    std::vector<unsigned char> st_bin = px->state_binary();
    delete px;
    for (int bin = 0; bin <= 1; bin++) {
      r.count("evaluations");
      double rel = bin ? 1e-12 : 1e-9;
      std::string det = base + ",\"stop_step\":" + std::to_string(K) + ",\"format\":\"" + (bin ? "binary" : "text") + "\"";
      if (bin && c.resume_text.size()) continue;   // (the binary format is positional by design: same order only)
      px = fresh(K, true);
      if (bin) px->queue_state_binary(st_bin); else px->queue_state_text(st_text);
      bool bad = false;
      for (long s = K; s < LH && !bad; s++) {
        long_place(*px, s);
        if (px->step(s) != 0) { r.violation(std::string("C03:resumed-run-error:") + c.name, det + ",\"step\":" + std::to_string(s) + ",\"error\":\"" + jesc(px->errtxt.substr(0, 300)) + "\"}"); bad = true; break; }
        r.count("transitions");
        std::vector<double> o = long_obs(*px);
        double scale = 1.0;
        for (double x : o0[s]) scale = std::max(scale, std::fabs(x));
        for (size_t i = 0; i < o.size(); i++)
          if (!close_rel(o[i], o0[s][i], scale, rel, 1e-12)) {
            const char *what = i == 0 ? "value" : (i == 1 ? "energy" : "force");
            r.violation(std::string("C03:resumed-run-differs:") + c.name + ":" + what + ":" + ((s == K) ? "at-the-repeated-step" : "after-the-stop"),
                        det + ",\"step\":" + std::to_string(s) + ",\"resumed\":" + num(o[i]) + ",\"uninterrupted\":" + num(o0[s][i]) + "}");
            bad = true;
            break;
          }
      }
      if (!bad) {
        px->end_run();
        std::string df = c.resume_text.size() ? state_diff(sorted_blocks(final0), sorted_blocks(px->state_text()), rel) : state_diff(final0, px->state_text(), rel);
        if (df.size()) r.violation(std::string("C03:final-state-differs:") + c.name, det + ",\"difference\":\"" + jesc(df) + "\"}");
      }
      delete px;
      r.seen("nontrivial", fnv(det));
    }
  }
  r.seen("states", fnv(std::string(c.name) + "long" + final0));
}

int main(int argc, char **argv)
{
  Args args(argc, argv);
  bool thorough = args.thorough();
  std::vector<Conf> confs = menu();
  std::string only = args.kv.count("only") ? args.kv["only"] : "";

  struct Job { size_t ci; long word; };
  std::vector<Job> jobs;
  std::vector<int> Ls(confs.size());
  for (size_t ci = 0; ci < confs.size(); ci++) {
    if (only.size() && only != confs[ci].name) continue;
    int nl = confs[ci].forces ? 10 : 5;
    int L = confs[ci].forces ? (thorough ? 4 : 3) : (thorough ? 5 : 4);
    Ls[ci] = L;
    long nw = 1;
    for (int i = 0; i < L; i++) nw *= nl;
    for (long w = 0; w < nw; w++) jobs.push_back({ci, w});
  }

  Result total;
  bool ok = run_sharded(args.jobs, [&](int shard, int nsh, Result &r) {
    for (size_t ji = shard; ji < jobs.size(); ji += nsh) {
      Conf const &c = confs[jobs[ji].ci];
      int nl = c.forces ? 10 : 5, L = Ls[jobs[ji].ci];
      std::vector<int> word(L);
      long q = jobs[ji].word;
      for (int i = 0; i < L; i++) { word[i] = q % nl; q /= nl; }
      std::string wj = "[";
      for (int i = 0; i < L; i++)
        wj += std::string(i ? "," : "") + (c.forces ? "[" + num(REG[word[i] / 2]) + "," + num(FRC[word[i] % 2]) + "]" : num(REG[word[i]]));
      wj += "]";
      for (int ss = 0; ss <= (c.forces ? 1 : 0); ss++) {
        std::string err;
        // ---- R0: uninterrupted, nothing saved before the end ----
        Driver d0(c, ss != 0);
        if (!d0.fresh(word[0], 0, err)) { fprintf(stderr, "HARNESS-ERROR: %s rejected: %s\n", c.name, err.c_str()); exit(3); }
        std::vector<Obs> o0(L);
        std::vector<std::string> st_text(L);
        std::vector<std::vector<unsigned char>> st_bin(L);
        for (int s = 0; s < L; s++) {
          if (!d0.step(word[s], s, o0[s], err)) { fprintf(stderr, "HARNESS-ERROR: %s step error: %s\n", c.name, err.c_str()); exit(3); }
          r.count("transitions");
        }
        d0.px->end_run();
        st_text[L - 1] = d0.px->state_text();
        // ---- the first part of each interrupted run: steps 0..K, end of run, state saved (the way a real stop happens) ----
        for (int K = 0; K < L - 1; K++) {
          Driver dk(c, ss != 0);
          delete d0.px; d0.px = NULL;
          if (!dk.fresh(word[0], 0, err)) { fprintf(stderr, "HARNESS-ERROR: %s rejected\n", c.name); exit(3); }
          Obs ok;
          for (int s = 0; s <= K; s++) {
            if (!dk.step(word[s], s, ok, err)) { fprintf(stderr, "HARNESS-ERROR: %s step error: %s\n", c.name, err.c_str()); exit(3); }
            r.count("transitions");
          }
          dk.px->end_run();
          st_text[K] = dk.px->state_text();
          st_bin[K] = dk.px->state_binary();
        }
        {
          // K = L-1: state of the complete run in binary form
          Driver dk(c, ss != 0);
          delete d0.px; d0.px = NULL;
          dk.fresh(word[0], 0, err);
          Obs ok;
          for (int s = 0; s < L; s++) dk.step(word[s], s, ok, err);
          dk.px->end_run();
          st_bin[L - 1] = dk.px->state_binary();
        }
        std::string final0 = st_text[L - 1];
        delete d0.px;  // one module per process at a time
        d0.px = NULL;
        r.seen("states", fnv(std::string(c.name) + final0));
        r.count("evaluations");
        std::string base = std::string("{\"config\":\"") + c.name + "\",\"timing\":\"" + (ss ? "same-step" : "lagged") + "\",\"history\":" + wj;

        // ---- R1: stop at K, fresh module, load, continue ----
        // every (stop step, format) is judged on its own: a violation at one stop step must not hide the others
        for (int K = 0; K < L; K++) {
          // bin 2: text state loaded into an instance that has already evaluated its first step (an engine restarted at step K
          // that is told "run 0", then to load the Colvars state, then to run: the run repeats step K)
          for (int bin = 0; bin <= 2; bin++) {
           auto one_case = [&]() {
            bool const late_load = (bin == 2);
            if (late_load) bin = 0;
            struct Restore { int &b; bool l; ~Restore() { if (l) b = 2; } } restore_bin{bin, late_load};
            if (bin && c.resume_text.size()) return;   // (the binary format is positional by design: same order only)
            if (late_load && K == 0) return;             // (nothing to load at the first step)
            r.count("evaluations");
            double rel = bin ? 1e-12 : 1e-9;
            std::string det = base + ",\"stop_step\":" + std::to_string(K) + ",\"format\":\"" + (bin ? "binary" : "text") + "\"" + (late_load ? ",\"loaded\":\"after the instance evaluated step K once\"" : "");
            // second oracle: saving immediately after loading reproduces the loaded state
            {
              Driver d2(c, ss != 0);
              d2.fresh(word[K], K, err);
              if (bin) d2.px->queue_state_binary(st_bin[K]); else d2.px->queue_state_text(st_text[K]);
              cvm::clear_error();
              d2.px->colvars->setup_input();
              int e = cvm::get_error();
              cvm::clear_error();
              if (e) { r.violation(std::string("C03:load:error-loading-own-state:") + c.name, det + ",\"error\":\"" + jesc(d2.px->errtxt.substr(0, 300)) + "\"}"); return; }
              std::string again = d2.px->state_text();
              std::string df = state_diff(st_text[K], again, rel);
              if (df.size()) {
                r.violation(std::string("C03:load-then-save-differs:") + c.name, det + ",\"difference\":\"" + jesc(df) + "\"}");
                return;
              }
            }
            Driver d1(c, ss != 0);
            if (!d1.fresh(word[K], K, err, true)) { fprintf(stderr, "HARNESS-ERROR: %s rejected on restart\n", c.name); exit(3); }
            if (late_load) {
              Obs o0l;
              d1.px->colvars->set_initial_step(K);
              if (!d1.step(word[K], K, o0l, err)) { r.violation(std::string("C03:resumed-run-error:") + c.name + ":state-loaded-after-a-first-evaluation", det + ",\"error\":\"" + jesc(err.substr(0, 300)) + "\"}"); return; }
              r.count("transitions");
              d1.px->end_run();
              d1.px->queue_state_text(st_text[K]);
              cvm::clear_error();
              d1.px->colvars->setup_input();
              if (cvm::get_error()) { cvm::clear_error(); r.violation(std::string("C03:load:error-loading-own-state:") + c.name + ":state-loaded-after-a-first-evaluation", det + ",\"error\":\"" + jesc(d1.px->errtxt.substr(0, 300)) + "\"}"); return; }
            } else if (bin) d1.px->queue_state_binary(st_bin[K]); else d1.px->queue_state_text(st_text[K]);
            Obs o;
            for (int s = K; s < L; s++) {
              if (!d1.step(word[s], s, o, err)) {
                r.violation(std::string("C03:resumed-run-error:") + c.name, det + ",\"step\":" + std::to_string(s) + ",\"error\":\"" + jesc(err.substr(0, 300)) + "\"}");
                return;
              }
              r.count("transitions");
              if (cvm::step_absolute() != s) {
                r.violation(std::string("C03:resumed-run-step-number:") + c.name, det + "}");
                return;
              }
              double scale = 1.0;
              for (double x : o0[s].v) scale = std::max(scale, std::fabs(x));
              int which = -1;
              for (size_t i = 0; i < o.v.size(); i++) if (!close_rel(o.v[i], o0[s].v[i], scale, rel, 1e-12)) { which = i; break; }
              if (which >= 0) {
                const char *what = which == 0 ? "value" : (which == 1 ? "energy" : "force");
                std::string when = (s == K) ? "at-the-repeated-step" : "after-the-stop";
                r.violation(std::string("C03:resumed-run-differs:") + c.name + ":" + what + ":" + when + (late_load ? ":state-loaded-after-a-first-evaluation" : ""),
                            det + ",\"step\":" + std::to_string(s) + ",\"resumed\":" + num(o.v[which]) + ",\"uninterrupted\":" + num(o0[s].v[which]) + "}");
                return;
              }
            }
            std::string df = c.resume_text.size() ? state_diff(sorted_blocks(final0), sorted_blocks(d1.px->state_text()), rel) : state_diff(final0, d1.px->state_text(), rel);
            if (df.size()) {
              r.violation(std::string("C03:final-state-differs:") + c.name + (late_load ? ":state-loaded-after-a-first-evaluation" : ""), det + ",\"difference\":\"" + jesc(df) + "\"}");
            }
           };
           one_case();
          }
        }
        r.seen("nontrivial", fnv(base));
        if (ji % 997 == 0) r.sample(base + ",\"stops\":\"every K\",\"formats\":[\"text\",\"binary\"]}");
      }
    }
    // long scripted history, every stop step, for every configuration (one configuration x timing per work item)
    {
      int LH = thorough ? 64 : 40;
      size_t item = 0;
      for (size_t ci = 0; ci < confs.size(); ci++) {
        if (only.size() && only != confs[ci].name) continue;
        if (confs[ci].centres_only) continue;  // (these configurations are only meaningful on bin centres)
        for (int ss = 0; ss <= (confs[ci].forces ? 1 : 0); ss++, item++)
          if ((int) (item % nsh) == shard) long_history(confs[ci], ss != 0, LH, r);
      }
    }
  }, total, 7200);
  if (!ok) return 2;
  write_result(args.out, "C03", args.tier, total, true);
  return 0;
}
