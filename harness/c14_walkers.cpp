// C14 — multiple-walker sharing combines every walker's data exactly once.
// Explorer D: one Colvars module per process (the proxy pointer is static), so every walker is a forked child
// commanded over a socket by the controller, which is the scheduler.  Shared ABF: the children's replica
// send/receive/barrier calls are requests to the controller; ALL interleavings of walker steps and message
// deliveries (2 walkers; 3 walkers with a bounded number of deviations from the default order), with buffered
// and rendezvous send semantics, restart of a walker at an exchange boundary.  Multiple-walker metadynamics:
// walkers exchange through real files in one scratch directory; ALL interleavings of walker steps, plus the
// peer's hills file truncated at every byte (stride in quick) while a walker synchronises.
#include "vproxy.h"
#include "common.h"
#include "colvarbias_abf.h"
#include "colvarbias_meta.h"
#include "colvarbias_opes.h"
#include "colvargrid.h"
#include <sys/socket.h>
#include <fstream>

using namespace vc;

// ------------------------------------------------------------------ message helpers (length-prefixed frames)
static bool wr(int fd, std::string const &s)
{
  uint32_t n = s.size();
  std::string f((char *) &n, 4);
  f += s;
  size_t off = 0;
  while (off < f.size()) { ssize_t k = write(fd, f.data() + off, f.size() - off); if (k <= 0) return false; off += k; }
  return true;
}
static bool rd(int fd, std::string &s, double timeout = 60)
{
  auto rdn = [&](char *b, size_t n) {
    size_t off = 0;
    double t0 = now();
    while (off < n) {
      fd_set fs; FD_ZERO(&fs); FD_SET(fd, &fs);
      struct timeval tv = {1, 0};
      int q = select(fd + 1, &fs, NULL, NULL, &tv);
      if (q > 0) { ssize_t k = read(fd, b + off, n - off); if (k <= 0) return false; off += k; }
      else if (now() - t0 > timeout) return false;
    }
    return true;
  };
  uint32_t n = 0;
  if (!rdn((char *) &n, 4)) return false;
  s.resize(n);
  return n == 0 || rdn(&s[0], n);
}

// ------------------------------------------------------------------ walker side
static int g_sock = -1;     // child's end
static int g_index = 0, g_nrep = 1;

class wproxy : public vproxy {
public:
  wproxy(int n) : vproxy(n, true) {}
  int check_replicas_enabled() override { return COLVARS_OK; }
  int replica_index() override { return g_index; }
  int num_replicas() override { return g_nrep; }
  void replica_comm_barrier() override
  {
    wr(g_sock, "B");
    std::string r;
    if (!rd(g_sock, r, 600) || r != "G") _exit(71);
  }
  int replica_comm_recv(char *buf, int len, int src) override
  {
    wr(g_sock, "R" + std::to_string(src) + " " + std::to_string(len));
    std::string r;
    if (!rd(g_sock, r, 600) || r.empty() || r[0] != 'M') _exit(72);
    int n = std::min<int>(len, r.size() - 1);
    memcpy(buf, r.data() + 1, n);
    if (getenv("C14_DEBUG")) { fprintf(stderr, "[w%d step %ld] recv from %d len %d:", g_index, (long) cvm::step_absolute(), src, n); for (int k = 0; k < n / 8; k++) fprintf(stderr, " %ld/%g", ((long *) buf)[k], ((double *) buf)[k]); fprintf(stderr, "\n"); }
    return n;
  }
  int replica_comm_send(char *buf, int len, int dst) override
  {
    if (getenv("C14_DEBUG")) { fprintf(stderr, "[w%d step %ld] send to %d len %d:", g_index, (long) cvm::step_absolute(), dst, len); for (int k = 0; k < len / 8; k++) fprintf(stderr, " %ld/%g", ((long *) buf)[k], ((double *) buf)[k]); fprintf(stderr, "\n"); }
    wr(g_sock, "S" + std::to_string(dst) + " " + std::string(buf, len));
    std::string r;
    if (!rd(g_sock, r, 600) || r != "A") _exit(73);
    return len;
  }
};

struct WalkerSpec {
  std::string conf;
  std::string out_prefix;     // "" = none
  std::string state;          // state text to load at start ("" = none)
  bool state_is_binary = false;
  long first_step = 0;
  double temperature = 0.0;
};

static void place(vproxy &px, double value, double force)
{
  px.x[0] = cvm::rvector(0, 0, 0);
  px.x[1] = cvm::rvector(value, 0, 0);
  px.fsys[0] = cvm::rvector(-force, 0, 0);
  px.fsys[1] = cvm::rvector(force, 0, 0);
}

// child main loop; never returns
static void walker_main(WalkerSpec const &w, int index, int nrep, int sock)
{
  g_sock = sock;
  g_index = index;
  g_nrep = nrep;
  wproxy *px = new wproxy(2);
  px->set_target_temperature(w.temperature);
  place(*px, 1.2, 0);
  if (w.out_prefix.size()) px->set_prefixes(w.out_prefix);
  if (px->config(w.conf) != 0) { wr(sock, "E config: " + px->errtxt); _exit(3); }
  if (w.state.size()) {
    if (w.state_is_binary) px->queue_state_binary(std::vector<unsigned char>(w.state.begin(), w.state.end()));
    else px->queue_state_text(w.state);
  }
  wr(sock, "K");
  std::string cmd;
  while (rd(sock, cmd, 3600)) {
    if (cmd.empty()) continue;
    if (cmd[0] == 'T') {  // sTep: "T <step> <value> <force>"
      long s; double v, f;
      sscanf(cmd.c_str() + 1, "%ld %lf %lf", &s, &v, &f);
      place(*px, v, f);
      size_t e0 = px->errtxt.size();
      int rc = px->step(s);
      wr(sock, "D" + std::to_string(rc) + " " + px->errtxt.substr(e0, 300));
    } else if (cmd[0] == 'Q') {  // query ABF data
      colvarbias_abf *a = dynamic_cast<colvarbias_abf *>(px->bias("a"));
      std::string o;
      if (a) {
        int n = a->samples->number_of_points(0);
        for (int part = 0; part < 2; part++) {
          colvar_grid_count *sc = part == 0 ? a->samples.get() : a->local_samples.get();
          colvar_grid_gradient *gr = part == 0 ? a->gradients.get() : a->local_gradients.get();
          for (int b = 0; b < n; b++) {
            std::vector<int> ix(1, b);
            o += std::to_string(sc ? (long) sc->value(ix) : -1) + " " + num(gr ? gr->value(ix) : 0.0) + " ";
          }
        }
      }
      wr(sock, "V" + o);
    } else if (cmd[0] == 'G') {  // CZAR data: own z grids, then replica 0's global z grids
      colvarbias_abf *a = dynamic_cast<colvarbias_abf *>(px->bias("a"));
      std::string o;
      if (a && a->z_samples) {
        int n = a->z_samples->number_of_points(0);
        for (int part = 0; part < 2; part++) {
          colvar_grid_count *sc = part == 0 ? a->z_samples.get() : a->global_z_samples.get();
          colvar_grid_gradient *gr = part == 0 ? a->z_gradients.get() : a->global_z_gradients.get();
          for (int b = 0; b < n; b++) {
            std::vector<int> ix(1, b);
            o += std::to_string(sc ? (long) sc->value(ix) : -1) + " " + num(gr ? gr->value(ix) : 0.0) + " ";
          }
        }
      }
      wr(sock, "V" + o);
    } else if (cmd[0] == 'O') {  // OPES data: counter, sum of weights, zed, then every kernel (height, centre, sigma)
      colvarbias_opes *o = dynamic_cast<colvarbias_opes *>(px->bias("o"));
      std::string t;
      if (o) {
        t = std::to_string(o->m_counter) + " " + num(o->m_sum_weights) + " " + num(o->m_zed) + " " + std::to_string(o->m_kernels.size());
        for (auto const &k : o->m_kernels) t += " " + num(k.m_height) + " " + num(k.m_center[0]) + " " + num(k.m_sigma[0]);
      }
      wr(sock, "V" + t);
    } else if (cmd[0] == 'P') {  // probe metadynamics energy at given values: "P v1 v2 ..."
      colvarbias_meta *m = dynamic_cast<colvarbias_meta *>(px->bias("m"));
      std::string o;
      std::istringstream is(cmd.substr(1));
      double v;
      while (m && (is >> v)) {
        std::vector<colvarvalue> vals(1, colvarvalue(v));
        m->calc_energy(&vals);
        o += num(m->bias_energy) + " ";
      }
      wr(sock, "V" + o);
    } else if (cmd[0] == 'W') {  // heights of the walker's own hills kept in memory (keepHills on)
      colvarbias_meta *m = dynamic_cast<colvarbias_meta *>(px->bias("m"));
      std::string o;
      if (m) for (auto const &hh : m->hills) o += num(hh.W) + " ";
      wr(sock, "V" + o);
    } else if (cmd[0] == 'Z') {  // save state
      wr(sock, "V" + px->state_text());
    } else if (cmd[0] == 'Y') {  // save state, binary
      std::vector<unsigned char> b = px->state_binary();
      wr(sock, "V" + std::string(b.begin(), b.end()));
    } else if (cmd[0] == 'H') {  // what the script command "cv bias a share" does
      colvarbias *b = px->bias("a");
      cvm::clear_error();
      int rc = b ? b->replica_share() : 1;
      rc |= cvm::get_error();
      cvm::clear_error();
      wr(sock, "D" + std::to_string(rc));
    } else if (cmd[0] == 'N') {  // end of run
      int rc = px->end_run();
      wr(sock, "D" + std::to_string(rc));
    } else if (cmd[0] == 'X') {
      delete px;
      _exit(0);
    }
  }
  _exit(4);
}

// ------------------------------------------------------------------ controller side
enum WState { W_IDLE, W_RUNNING, W_RECV, W_SEND, W_BARRIER, W_DEAD };

struct Walker {
  pid_t pid = -1;
  int fd = -1;
  WState st = W_IDLE;
  int peer = -1;            // src (recv) or dst (send)
  std::string payload;      // pending send data
  long next_step = 0, last_step = 0;
  bool in_step = false;
  int errors = 0;
  std::string errtxt;
};

struct Controller {
  std::vector<Walker> w;
  std::vector<std::vector<std::string>> mailbox;  // mailbox[dst*n+src]
  bool rendezvous = false;
  int n = 0;
  std::string fatal;

  void spawn(std::vector<WalkerSpec> const &specs)
  {
    n = specs.size();
    w.assign(n, Walker());
    mailbox.assign(n * n, {});
    for (int i = 0; i < n; i++) spawn_one(i, specs[i]);
  }
  void spawn_one(int i, WalkerSpec const &spec)
  {
    int sv[2];
    if (socketpair(AF_UNIX, SOCK_STREAM, 0, sv) != 0) { perror("socketpair"); exit(2); }
    fflush(NULL);
    pid_t pid = fork();
    if (pid == 0) {
      close(sv[0]);
      for (auto &o : w) if (o.fd >= 0) close(o.fd);
      walker_main(spec, i, n, sv[1]);
    }
    close(sv[1]);
    w[i].pid = pid;
    w[i].fd = sv[0];
    w[i].st = W_IDLE;
    w[i].in_step = false;
    std::string r;
    if (!rd(w[i].fd, r) || r != "K") { fatal = "walker " + std::to_string(i) + " failed to start: " + r; w[i].st = W_DEAD; }
  }
  void kill_all()
  {
    for (auto &o : w) {
      if (o.fd >= 0) { wr(o.fd, "X"); close(o.fd); o.fd = -1; }
      if (o.pid > 0) { int st; double t0 = now(); while (waitpid(o.pid, &st, WNOHANG) == 0) { if (now() - t0 > 5) { kill(o.pid, SIGKILL); waitpid(o.pid, &st, 0); break; } usleep(500); } o.pid = -1; }
    }
  }
  // read the next event of walker i after it was given something to do
  void pump(int i)
  {
    std::string r;
    if (!rd(w[i].fd, r, 120)) { w[i].st = W_DEAD; fatal = "walker " + std::to_string(i) + " died or hung"; return; }
    char t = r[0];
    if (t == 'D') {
      int rc = atoi(r.c_str() + 1);
      if (rc != 0) { w[i].errors++; w[i].errtxt += r.substr(1); }
      w[i].st = W_IDLE;
      w[i].in_step = false;
    } else if (t == 'B') w[i].st = W_BARRIER;
    else if (t == 'R') { w[i].st = W_RECV; w[i].peer = atoi(r.c_str() + 1); }
    else if (t == 'S') {
      size_t sp = r.find(' ');
      int dst = atoi(r.c_str() + 1);
      std::string data = r.substr(sp + 1);
      if (rendezvous) { w[i].st = W_SEND; w[i].peer = dst; w[i].payload = data; }
      else { mailbox[dst * n + i].push_back(data); wr(w[i].fd, "A"); pump(i); }
    } else if (t == 'E') { w[i].st = W_DEAD; fatal = "walker " + std::to_string(i) + ": " + r; }
    else { w[i].st = W_DEAD; fatal = "unexpected message from walker " + std::to_string(i); }
  }
  void start_step(int i, long s, double v, double f)
  {
    char b[128];
    snprintf(b, sizeof(b), "T%ld %.17g %.17g", s, v, f);
    wr(w[i].fd, b);
    w[i].st = W_RUNNING;
    w[i].in_step = true;
    pump(i);
  }
  bool can_deliver(int i) const
  {
    if (w[i].st != W_RECV) return false;
    int src = w[i].peer;
    if (!mailbox[i * n + src].empty()) return true;
    return w[src].st == W_SEND && w[src].peer == i;
  }
  void deliver(int i)
  {
    int src = w[i].peer;
    std::string data;
    bool from_sender = false;
    if (!mailbox[i * n + src].empty()) { data = mailbox[i * n + src].front(); mailbox[i * n + src].erase(mailbox[i * n + src].begin()); }
    else { data = w[src].payload; from_sender = true; }
    wr(w[i].fd, "M" + data);
    w[i].st = W_RUNNING;
    if (from_sender) { wr(w[src].fd, "A"); w[src].st = W_RUNNING; }
    pump(i);
    if (from_sender && fatal.empty()) pump(src);
  }
  bool all_at_barrier() const
  {
    int nb = 0, alive = 0;
    for (auto &o : w) { if (o.st != W_DEAD) alive++; if (o.st == W_BARRIER) nb++; }
    return nb > 0 && nb == alive;
  }
  void release_barrier()
  {
    std::vector<int> who;
    for (int i = 0; i < n; i++) if (w[i].st == W_BARRIER) who.push_back(i);
    for (int i : who) { wr(w[i].fd, "G"); w[i].st = W_RUNNING; }
    for (int i : who) if (fatal.empty()) pump(i);
  }
  std::string query(int i, std::string const &cmd)
  {
    wr(w[i].fd, cmd);
    std::string r;
    if (!rd(w[i].fd, r, 60) || r.empty() || r[0] != 'V') { fatal = "query failed on walker " + std::to_string(i); return ""; }
    return r.substr(1);
  }
};

// =================================================================================================
// Part A: shared ABF
// =================================================================================================
static const double BINV[2] = {1.2, 1.7};  // grid [1,3] width 0.5: bins 0 and 1
static const double FRC[2] = {-1.0, 2.0};

static bool g_scripted_share = false;  // sharing is not configured; the script command "cv bias a share" triggers it
static std::string abf_conf(int freq, bool czar = false)
{
  if (g_scripted_share)
    return std::string("colvar {\n name d\n width 0.5\n lowerBoundary 1.0\n upperBoundary 3.0\n") +
           (czar ? " extendedLagrangian on\n extendedFluctuation 0.3\n extendedTimeConstant 40.0\n" : "") + " distance {\n group1 { atomNumbers 1 }\n group2 { atomNumbers 2 }\n }\n}\n"
           "abf {\n name a\n colvars d\n fullSamples 1\n outputFreq 100\n}\n";
  return std::string("colvar {\n name d\n width 0.5\n lowerBoundary 1.0\n upperBoundary 3.0\n") +
         (czar ? " extendedLagrangian on\n extendedFluctuation 0.3\n extendedTimeConstant 40.0\n" : "") + " distance {\n group1 { atomNumbers 1 }\n group2 { atomNumbers 2 }\n }\n}\n"
         "abf {\n name a\n colvars d\n fullSamples 1\n shared on\n sharedFreq " + std::to_string(freq) + "\n outputFreq " + std::to_string(freq) + "\n}\n";
}

static std::string opes_conf(int pace, bool adaptive = false)
{
  if (adaptive)
    return "colvar {\n name d\n width 0.5\n lowerBoundary 1.0\n upperBoundary 3.0\n distance {\n group1 { atomNumbers 1 }\n group2 { atomNumbers 2 }\n }\n}\n"
           "opes_metad {\n name o\n colvars d\n newHillFrequency " + std::to_string(pace) + "\n barrier 5.0\n adaptiveSigma on\n adaptiveSigmaStride " + std::to_string(pace) +
           "\n compressionThreshold 0\n multipleReplicas on\n}\n";
  return "colvar {\n name d\n width 0.5\n lowerBoundary 1.0\n upperBoundary 3.0\n distance {\n group1 { atomNumbers 1 }\n group2 { atomNumbers 2 }\n }\n}\n"
         "opes_metad {\n name o\n colvars d\n newHillFrequency " + std::to_string(pace) + "\n barrier 5.0\n gaussianSigma 0.1\n compressionThreshold 0\n multipleReplicas on\n}\n";
}
// positions of the OPES walkers: all different, so that every kernel can be attributed to (walker, step)
static double opes_pos(int w, long s) { return 1.1 + 0.37 * w + 0.09 * s + 0.013 * w * ((s * s) % 5); }

struct AbfCase {
  int n, L, freq;
  bool rendezvous;
  int restart_walker;   // -1 none; else walker restarted at the first exchange boundary (after step freq)
  std::vector<std::vector<int>> word;  // per walker per step: letter = bin*2 + force
  int bound;            // max deviations from the default order
  int rstep = 0;        // exchange step after which all walkers stop and restart (0 = the first one)
  bool scripted = false; // sharing triggered by the script command after step `freq` instead of being configured
  bool adaptive = false; // OPES: adaptiveSigma on (every walker measures its own kernel width)
  bool opes = false;    // OPES with multipleReplicas instead of shared ABF (freq = newHillFrequency)
  bool czar = false;    // extended-Lagrangian variable: the CZAR data are gathered on replica 0 when the output is written (end of run)
  int stop_step() const { return rstep ? rstep : freq; }
};

struct Point { int n_enabled, chosen; };

struct AbfOutcome {
  std::vector<Point> pts;
  std::string problem, sig;
  bool done = false;
  std::string data;
};

// reference: per-walker lists of (step, bin, force)
static void abf_reference(AbfCase const &c, int wi, std::vector<long> &cnt, std::vector<double> &grad, std::vector<long> &lcnt, std::vector<double> &lgrad)
{
  cnt.assign(4, 0); grad.assign(4, 0.0); lcnt.assign(4, 0); lgrad.assign(4, 0.0);
  long elast = ((c.L - 1) / c.freq) * c.freq;  // last exchange step reached (0 = none)
  for (int w = 0; w < c.n; w++)
    for (int s = 1; s < c.L; s++) {
      int bin = c.word[w][s] / 2;
      double f = FRC[c.word[w][s] % 2];
      bool shared = (s < elast);
      if (w == wi || shared) { cnt[bin]++; grad[bin] -= f; }
      if (w == wi && shared) { lcnt[bin]++; lgrad[bin] -= f; }
    }
}

static AbfOutcome abf_execute(AbfCase const &c, std::vector<int> const &prefix)
{
  AbfOutcome out;
  Controller ctl;
  ctl.rendezvous = c.rendezvous;
  g_scripted_share = c.scripted;
  std::vector<bool> shared_by_script(c.n, false);
  std::vector<WalkerSpec> specs(c.n);
  for (int i = 0; i < c.n; i++) { specs[i].conf = abf_conf(c.freq, c.czar); specs[i].out_prefix = "abf_w" + std::to_string(i); if (c.czar) specs[i].temperature = 300.0; }
  if (c.opes) for (int i = 0; i < c.n; i++) { specs[i].conf = opes_conf(c.freq, c.adaptive); specs[i].temperature = 300.0; }
  std::vector<bool> ended(c.n, false);
  ctl.spawn(specs);
  for (int i = 0; i < c.n; i++) { ctl.w[i].next_step = 0; ctl.w[i].last_step = c.restart_walker >= 0 ? c.stop_step() : c.L - 1; }
  std::vector<bool> restarted(c.n, false);
  size_t pos = 0;
  long guard = 0;
  while (ctl.fatal.empty() && guard++ < 10000) {
    // restart: ALL walkers stop after the exchange step (one engine job), save, and come back as new processes
    // loading their states; the stop step is repeated (engine protocol)
    if (c.restart_walker >= 0 && !restarted[0]) {
      bool all = true;
      for (auto &o : ctl.w) if (!(o.st == W_IDLE && o.next_step > o.last_step)) all = false;
      if (all) {
        for (int i = 0; i < c.n; i++) {
          wr(ctl.w[i].fd, "N"); ctl.pump(i);
          std::string st = ctl.query(i, c.restart_walker == 2 ? "Y" : "Z");
          wr(ctl.w[i].fd, "X"); close(ctl.w[i].fd); ctl.w[i].fd = -1;
          int stt; waitpid(ctl.w[i].pid, &stt, 0);
          WalkerSpec sp;
          sp.conf = abf_conf(c.freq);
          sp.out_prefix = "abf_w" + std::to_string(i);
          sp.state = st;
          sp.state_is_binary = (c.restart_walker == 2);
          if (c.restart_walker == 3) {
            // a state as written by earlier versions (no record of the last exchange) must still load
            size_t a = st.find("last_samples"), b = a == std::string::npos ? a : st.find('}', a);
            if (b != std::string::npos) sp.state = st.substr(0, a) + st.substr(b);  // (a library that writes no such record is run on its own state)
          }
          ctl.spawn_one(i, sp);
          ctl.w[i].next_step = c.stop_step();  // repeat the stop step
          ctl.w[i].last_step = c.L - 1;
          restarted[i] = true;
        }
      }
    }
    // enabled actions in canonical order
    struct Act { int kind, i; };
    std::vector<Act> acts;
    for (int i = 0; i < c.n; i++) if (ctl.w[i].st == W_IDLE && ctl.w[i].next_step <= ctl.w[i].last_step) acts.push_back({0, i});
    for (int i = 0; i < c.n; i++) if (ctl.can_deliver(i)) acts.push_back({1, i});
    if (ctl.all_at_barrier()) acts.push_back({2, 0});
    if (c.czar) for (int i = 0; i < c.n; i++) if (ctl.w[i].st == W_IDLE && ctl.w[i].next_step > ctl.w[i].last_step && !ended[i] && (!c.scripted || shared_by_script[i])) acts.push_back({3, i});
    // scripted sharing: every walker calls "cv bias a share" once, after it has completed all its steps and before the end of its run
    if (c.scripted) for (int i = 0; i < c.n; i++) if (ctl.w[i].st == W_IDLE && ctl.w[i].next_step > ctl.w[i].last_step && !shared_by_script[i]) acts.push_back({4, i});
    if (acts.empty()) {
      bool fin = true;
      for (auto &o : ctl.w) if (!(o.st == W_IDLE && o.next_step > o.last_step)) fin = false;
      if (fin && c.czar) for (int i = 0; i < c.n; i++) if (!ended[i]) fin = false;
      if (fin && (c.restart_walker < 0 || restarted[0])) { out.done = true; break; }
      if (fin) continue;
      out.problem = "deadlock: no enabled action; walker states:";
      for (auto &o : ctl.w) out.problem += " " + std::to_string((int) o.st);
      out.sig = "deadlock";
      break;
    }
    int ch = 0;
    if (pos < prefix.size()) ch = prefix[pos];
    if (ch >= (int) acts.size()) { out.problem = "HARNESS: schedule diverged"; out.sig = "harness"; break; }
    pos++;
    out.pts.push_back({(int) acts.size(), ch});
    Act a = acts[ch];
    if (a.kind == 0) {
      Walker &o = ctl.w[a.i];
      long s = o.next_step++;
      int letter = c.word[a.i][s];
      if (c.opes) ctl.start_step(a.i, s, opes_pos(a.i, s), 0.0);
      else ctl.start_step(a.i, s, BINV[letter / 2], FRC[letter % 2]);
    } else if (a.kind == 1) ctl.deliver(a.i);
    else if (a.kind == 3) { ended[a.i] = true; wr(ctl.w[a.i].fd, "N"); ctl.w[a.i].st = W_RUNNING; ctl.pump(a.i); }
    else if (a.kind == 4) { shared_by_script[a.i] = true; wr(ctl.w[a.i].fd, "H"); ctl.w[a.i].st = W_RUNNING; ctl.pump(a.i); }
    else ctl.release_barrier();
  }
  if (!ctl.fatal.empty() && out.problem.empty()) { out.problem = ctl.fatal; out.sig = "walker-died-or-hung"; }
  if (out.done && c.czar) {
    // union oracle: replica 0's gathered z data = sum of every walker's own z data (counted once each)
    std::vector<long> sum_n(4, 0), glob_n(4, -1);
    std::vector<double> sum_g(4, 0.0), glob_g(4, 0.0);
    long total = 0;
    for (int i = 0; i < c.n && out.problem.empty(); i++) {
      if (ctl.w[i].errors) { out.problem = "walker " + std::to_string(i) + " reported errors: " + ctl.w[i].errtxt; out.sig = "error-during-sharing"; break; }
      std::string d = ctl.query(i, "G");
      out.data += d + "|";
      std::istringstream is(d);
      for (int part = 0; part < 2; part++)
        for (int b = 0; b < 4; b++) {
          long k = -2; std::string g;
          is >> k >> g;
          if (part == 0) { sum_n[b] += k; sum_g[b] += atof(g.c_str()); total += k; }
          else if (i == 0) { glob_n[b] = k; glob_g[b] = atof(g.c_str()); }
        }
    }
    for (int b = 0; b < 4 && out.problem.empty(); b++)
      if (glob_n[b] != sum_n[b] || !close_rel(glob_g[b], sum_g[b], std::max(1.0, std::fabs(sum_g[b])), 1e-10)) {
        out.problem = "CZAR data gathered on replica 0, bin " + std::to_string(b) + ": count " + std::to_string(glob_n[b]) + " (sum over walkers " + std::to_string(sum_n[b]) +
                      "), gradient sum " + num(glob_g[b]) + " (sum over walkers " + num(sum_g[b]) + "); per-walker own z data then global: " + out.data;
        out.sig = "czar-data-on-replica-0-differs-from-sum-over-walkers";
      }
    if (out.problem.empty() && total == 0) { out.problem = "HARNESS: no CZAR samples collected"; out.sig = "harness"; }
  }
  if (out.done && c.opes) {
    // every walker must hold the same kernels: one for each (walker, deposition step), each exactly once
    std::vector<double> expect;
    for (long st = c.freq; st < c.L; st += c.freq) for (int w = 0; w < c.n; w++) expect.push_back(opes_pos(w, st));
    std::sort(expect.begin(), expect.end());
    std::string first;
    for (int i = 0; i < c.n && out.problem.empty(); i++) {
      if (ctl.w[i].errors) { out.problem = "walker " + std::to_string(i) + " reported errors: " + ctl.w[i].errtxt; out.sig = "error-during-sharing"; break; }
      std::string d = ctl.query(i, "O");
      out.data += d + "|";
      if (i == 0) first = d;
      else if (d != first) { out.problem = "OPES data of walker " + std::to_string(i) + " differ from walker 0: " + d + " vs " + first; out.sig = "opes:walkers-hold-different-kernels"; break; }
      std::istringstream is(d);
      long counter = 0, nk = 0; std::string sw, zed;
      is >> counter >> sw >> zed >> nk;
      std::vector<double> centres;
      for (long k = 0; k < nk; k++) { std::string h, cc, sg; is >> h >> cc >> sg; centres.push_back(atof(cc.c_str())); }
      std::sort(centres.begin(), centres.end());
      bool same = centres.size() == expect.size();
      for (size_t k = 0; same && k < centres.size(); k++) if (std::fabs(centres[k] - expect[k]) > 1e-9) same = false;
      if (c.adaptive) {
        // with adaptive widths the first depositions are skipped while the variance is being measured: the kernels present
        // must be one per walker for each of the LAST steps that deposited, and identical on all walkers (compared above)
        bool okc = centres.size() > 0 && (centres.size() % c.n) == 0 && centres.size() <= expect.size();
        if (okc) {
          std::vector<double> tailexp;
          long ndep = centres.size() / c.n, k = 0;
          for (long st = c.freq; st < c.L; st += c.freq, k++) if (k >= (long) (expect.size() / c.n) - ndep) for (int w = 0; w < c.n; w++) tailexp.push_back(opes_pos(w, st));
          std::sort(tailexp.begin(), tailexp.end());
          for (size_t q = 0; okc && q < centres.size(); q++) if (std::fabs(centres[q] - tailexp[q]) > 1e-9) okc = false;
        }
        if (!okc) { out.problem = "OPES kernels (adaptive widths) of walker " + std::to_string(i) + " are not one per walker and deposition step; data: " + d; out.sig = "opes:kernels-differ-from-union:adaptive-widths"; }
      } else if (!same) {
        out.problem = "OPES kernels of walker " + std::to_string(i) + ": " + std::to_string(centres.size()) + " kernels, expected " + std::to_string(expect.size()) + " (one per walker and deposition step); data: " + d;
        out.sig = std::string("opes:kernels-differ-from-union") + (centres.size() > expect.size() ? ":counted-more-than-once" : (centres.size() < expect.size() ? ":kernels-missing" : ":centres"));
      } else if (counter != 1 + (long) expect.size()) {
        out.problem = "OPES kernel counter of walker " + std::to_string(i) + " is " + std::to_string(counter) + ", expected " + std::to_string(1 + expect.size());
        out.sig = "opes:counter";
      }
    }
  }
  if (out.done && !c.czar && !c.opes) {
    for (int i = 0; i < c.n && out.problem.empty(); i++) {
      if (ctl.w[i].errors) { out.problem = "walker " + std::to_string(i) + " reported errors: " + ctl.w[i].errtxt; out.sig = "error-during-sharing"; break; }
      std::string d = ctl.query(i, "Q");
      out.data += d + "|";
      if (c.restart_walker == 3) continue;  // earlier-version state: only "loads and runs without error" is required
      std::istringstream is(d);
      std::vector<long> cnt, lcnt, rc, rl;
      std::vector<double> gr, lgr, rg, rlg;
      abf_reference(c, i, rc, rg, rl, rlg);
      for (int part = 0; part < 2 && out.problem.empty(); part++)
        for (int b = 0; b < 4; b++) {
          long k; std::string g;
          is >> k >> g;
          double gv = atof(g.c_str());
          long ek = part == 0 ? rc[b] : rl[b];
          double eg = part == 0 ? rg[b] : rlg[b];
          if (k != ek || !close_rel(gv, eg, std::max(1.0, std::fabs(eg)), 1e-12)) {
            out.problem = std::string(part == 0 ? "combined" : "own (local)") + " data of walker " + std::to_string(i) + " bin " + std::to_string(b) + ": count " + std::to_string(k) +
                          " (expected " + std::to_string(ek) + "), gradient sum " + num(gv) + " (expected " + num(eg) + ")";
            out.sig = std::string(part == 0 ? "combined-data-differs-from-union" : "own-contribution-not-recoverable") + (k > ek ? ":counted-more-than-once" : (k < ek ? ":samples-missing" : ":gradient"));
            break;
          }
        }
    }
  }
  ctl.kill_all();
  return out;
}

static void abf_explore(AbfCase const &c, std::vector<int> const &prefix, int devs, Result &r, bool &stop, long &nexec, std::set<uint64_t> &outcomes, std::string const &cj)
{
  if (stop) return;
  AbfOutcome o = abf_execute(c, prefix);
  nexec++;
  r.count("evaluations");
  r.count("transitions", o.pts.size());
  std::string sch = "[";
  for (size_t i = 0; i < o.pts.size(); i++) sch += (i ? "," : "") + std::to_string(o.pts[i].chosen);
  sch += "]";
  r.seen("states", fnv(cj + sch));
  outcomes.insert(fnv(o.data));
  bool real = false;
  for (auto &p : o.pts) if (p.n_enabled > 1) real = true;
  if (real) r.seen("nontrivial", fnv(cj + sch));
  if (!o.problem.empty()) {
    if (o.sig == "harness") { fprintf(stderr, "HARNESS-ERROR: %s\n", o.problem.c_str()); exit(2); }
    r.violation(std::string(c.opes ? "C14:" : "C14:abf:") + o.sig + (c.restart_walker >= 0 ? ":with-restart" : "") + (c.rendezvous ? ":rendezvous-send" : ":buffered-send"),
                cj.substr(0, cj.size() - 1) + ",\"schedule\":" + sch + ",\"problem\":\"" + jesc(o.problem.substr(0, 300)) + "\"}");
    stop = true;
    return;
  }
  for (size_t i = prefix.size(); i < o.pts.size(); i++) {
    if (devs >= c.bound) break;
    for (int alt = 1; alt < o.pts[i].n_enabled; alt++) {
      std::vector<int> p2;
      for (size_t k = 0; k < i; k++) p2.push_back(o.pts[k].chosen);
      p2.push_back(alt);
      abf_explore(c, p2, devs + 1, r, stop, nexec, outcomes, cj);
      if (stop) return;
    }
  }
}

// =================================================================================================
// Part B: multiple-walker metadynamics through files
// =================================================================================================
static bool g_meta_nogrids = false;  // explicit hills instead of grids (also in the mirrors of the peers)
static std::string meta_conf(std::string const &dir, int wi, int upd, int rfreq = 2)
{
  return "colvarsRestartFrequency " + std::to_string(rfreq) + "\n"
         "colvar {\n name d\n width 0.5\n lowerBoundary 0.0\n upperBoundary 12.0\n distance {\n group1 { atomNumbers 1 }\n group2 { atomNumbers 2 }\n }\n}\n"
         "metadynamics {\n name m\n colvars d\n hillWeight 1.0\n hillWidth 1.0\n newHillFrequency 1\n multipleReplicas on\n replicaID w" + std::to_string(wi) +
         "\n" + std::string(g_meta_nogrids ? " useGrids off\n" : "") + " replicasRegistry registry.txt\n replicaUpdateFrequency " + std::to_string(upd) + "\n}\n";
}
static double hill_centre(int w, int s, int L) { return 0.25 + 1.0 * ((w * (L - 1) + (s - 1)) % 12); }

struct MetaCase { int n, L, upd; int restart_walker; int extra; bool new_prefix = false; bool nogrids = false; int rfreq = 2; };  // rfreq: colvarsRestartFrequency (a walker starts a new hills file whenever it rewrites its state)

// multiplicity of every hill (walker p, step s) in walker w's total bias, by probing at the hill centres
static std::vector<std::vector<int>> meta_multiplicities(Controller &ctl, MetaCase const &c, int w, std::vector<std::vector<bool>> const &deposited, std::string &raw)
{
  std::string cmd = "P";
  for (int p = 0; p < c.n; p++) for (int s = 1; s < c.L; s++) cmd += " " + num(hill_centre(p, s, c.L));
  raw = ctl.query(w, cmd);
  std::istringstream is(raw);
  std::vector<std::vector<int>> m(c.n, std::vector<int>(c.L, 0));
  for (int p = 0; p < c.n; p++)
    for (int s = 1; s < c.L; s++) {
      std::string t;
      is >> t;
      double e = atof(t.c_str());
      m[p][s] = (int) std::floor(e + 0.5 - 0.02);  // neighbours 1.0 apart contribute ~3e-4 each
      (void) deposited;
    }
  return m;
}

static void meta_run(MetaCase const &c, std::vector<int> const &order, std::string const &dir, Result &r, std::string const &cj, long trunc_at, int trunc_before_action)
{
  g_meta_nogrids = c.nogrids;
  // order: sequence of walker indices (one entry per step action)
  std::string cmd = "rm -rf '" + dir + "' && mkdir -p '" + dir + "'";
  if (system(cmd.c_str()) || chdir(dir.c_str()) != 0) { fprintf(stderr, "HARNESS-ERROR: scratch\n"); exit(2); }
  // the walkers run inside `dir` (the replica list files are named relative to the working directory)
  Controller ctl;
  std::vector<WalkerSpec> specs(c.n);
  for (int i = 0; i < c.n; i++) { specs[i].conf = meta_conf(".", i, c.upd, c.rfreq); specs[i].out_prefix = "w" + std::to_string(i); specs[i].temperature = 0; }
  ctl.spawn(specs);
  if (!ctl.fatal.empty()) { fprintf(stderr, "HARNESS-ERROR: %s\n", ctl.fatal.c_str()); exit(2); }
  std::vector<long> next(c.n, 0);
  std::vector<std::vector<bool>> dep(c.n, std::vector<bool>(c.L + c.extra + 1, false));
  bool restarted = false;
  std::string sch = "[";
  for (size_t k = 0; k < order.size(); k++) sch += (k ? "," : "") + std::to_string(order[k]);
  sch += "]";
  std::string det = cj.substr(0, cj.size() - 1) + ",\"step_order\":" + sch + (trunc_at >= 0 ? ",\"peer_hills_file_truncated_to\":" + std::to_string(trunc_at) + ",\"before_action\":" + std::to_string(trunc_before_action) : "");
  bool failed = false;
  std::vector<long> last_sync(c.n, -1);     // last step at which each walker synchronised (and flushed its hills file)
  std::vector<bool> rewrote(c.n, false);    // the walker has rewritten its state file and recreated its hills file
  bool lag_reported = false;
  auto check_safety = [&](const char *when, int synced_walker) {
    for (int w = 0; w < c.n && !failed; w++) {
      std::string raw;
      auto m = meta_multiplicities(ctl, c, w, dep, raw);
      if (!ctl.fatal.empty()) { r.violation("C14:meta:walker-died-or-hung", det + ",\"problem\":\"" + jesc(ctl.fatal) + "\"}"); failed = true; return; }
      // timeliness: right after walker w synchronised, its bias must hold every hill that a peer had published (deposited
      // before the peer's own last synchronisation, at which it flushed its hills file)
      if (w == synced_walker && trunc_at < 0 && !lag_reported)
        for (int p = 0; p < c.n; p++) {
          if (p == w) continue;
          int missing = 0, first = -1;
          for (int s = 1; s < c.L && s < last_sync[p]; s++) if (dep[p][s] && m[p][s] == 0) { missing++; if (first < 0) first = s; }
          if (missing) {
            r.count("published_hills_missing_after_a_synchronisation", missing);
            r.violation(std::string("C14:meta:published-hills-missing-after-synchronisation") + (rewrote[p] ? ":peer-had-recreated-its-hills-file" : ":peer-never-rewrote-its-files") + (restarted ? ":after-restart" : ""),
                        det + ",\"walker\":" + std::to_string(w) + ",\"peer\":" + std::to_string(p) + ",\"peer_last_synchronised_at_step\":" + std::to_string(last_sync[p]) +
                        ",\"missing_hills\":" + std::to_string(missing) + ",\"first_missing_hill_step\":" + std::to_string(first) + "}");
            lag_reported = true;
            break;
          }
        }
      for (int p = 0; p < c.n && !failed; p++)
        for (int s = 1; s < c.L && !failed; s++) {
          bool d = dep[p][s];
          int mult = m[p][s];
          if (p == w && mult != (d ? 1 : 0)) {
            r.violation(std::string("C14:meta:own-hills-corrupted") + (trunc_at >= 0 ? ":peer-file-truncated" : "") + (restarted ? ":after-restart" : ""),
                        det + ",\"when\":\"" + when + "\",\"walker\":" + std::to_string(w) + ",\"hill_step\":" + std::to_string(s) + ",\"multiplicity\":" + std::to_string(mult) + "}");
            failed = true;
          } else if (p != w && (mult > 1 || (mult == 1 && !d) || mult < 0)) {
            r.violation(std::string("C14:meta:peer-hill-counted-") + (mult > 1 ? "more-than-once" : "before-it-was-deposited") + (trunc_at >= 0 ? ":peer-file-truncated" : "") + (restarted ? ":after-restart" : ""),
                        det + ",\"when\":\"" + when + "\",\"walker\":" + std::to_string(w) + ",\"peer\":" + std::to_string(p) + ",\"hill_step\":" + std::to_string(s) + ",\"multiplicity\":" + std::to_string(mult) + "}");
            failed = true;
          }
        }
    }
  };
  std::string saved_file, saved_path;
  for (size_t k = 0; k < order.size() && !failed; k++) {
    int i = order[k];
    long s = next[i]++;
    if (c.restart_walker == i && !restarted && s == 3) {
      // walker i stops after step 2 (a restart-frequency step) and comes back, repeating step 2
      wr(ctl.w[i].fd, "N"); ctl.pump(i);
      wr(ctl.w[i].fd, "X"); close(ctl.w[i].fd); ctl.w[i].fd = -1;
      int stt; waitpid(ctl.w[i].pid, &stt, 0);
      WalkerSpec sp;
      sp.conf = meta_conf(".", i, c.upd, c.rfreq);
      sp.out_prefix = "w" + std::to_string(i) + (c.new_prefix ? "r" : "");  // a restarted job usually writes under a new output prefix
      sp.temperature = 0;
      std::ifstream f(("w" + std::to_string(i) + ".colvars.state").c_str());
      std::stringstream ss; ss << f.rdbuf();
      sp.state = ss.str();
      ctl.spawn_one(i, sp);
      restarted = true;
      ctl.start_step(i, 2, hill_centre(i, 2, c.L), 0);
    }
    if (trunc_at >= 0 && (int) k == trunc_before_action) {
      // the peer (walker 0) is in the middle of writing its hills file: walker i sees a byte prefix of it
      saved_path = "w0.colvars.m.w0.hills";
      std::ifstream f(saved_path.c_str(), std::ios::binary);
      std::stringstream ss; ss << f.rdbuf();
      saved_file = ss.str();
      if ((long) saved_file.size() > trunc_at) { if (truncate(saved_path.c_str(), trunc_at) != 0) {} }
    }
    double v = s < c.L && s >= 1 ? hill_centre(i, s, c.L) : 11.75;
    ctl.start_step(i, s, v, 0);
    if (s >= 1 && s < c.L) dep[i][s] = true;
    r.count("transitions");
    if (!ctl.fatal.empty()) { r.violation("C14:meta:walker-died-or-hung", det + ",\"problem\":\"" + jesc(ctl.fatal) + "\"}"); failed = true; break; }
    if (trunc_at >= 0 && (int) k == trunc_before_action && saved_file.size()) {
      // the peer completes its write
      std::ofstream f(saved_path.c_str(), std::ios::binary | std::ios::trunc);
      f.write(saved_file.data(), saved_file.size());
    }
    if (ctl.w[i].errors && trunc_at < 0) {
      r.violation("C14:meta:error-reported-with-complete-peer-files", det + ",\"walker\":" + std::to_string(i) + ",\"error\":\"" + jesc(ctl.w[i].errtxt.substr(0, 200)) + "\"}");
      failed = true;
      break;
    }
    bool synced = (s > 0 && (s % c.upd) == 0);
    if (synced) last_sync[i] = s;
    if (s > 0 && (s % c.rfreq) == 0) rewrote[i] = true;  // colvarsRestartFrequency
    check_safety("after step action", synced ? i : -1);
  }
  // completeness at quiescence: every walker takes `extra` more steps (hills beyond L are not deposited at probe points)
  if (!failed) {
    int missing = 0;
    std::string raw_all;
    for (int w = 0; w < c.n; w++) {
      std::string raw;
      auto m = meta_multiplicities(ctl, c, w, dep, raw);
      raw_all += raw + "|";
      for (int p = 0; p < c.n; p++) for (int s = 1; s < c.L; s++) if (dep[p][s] && m[p][s] != 1) missing++;
    }
    r.seen("states", fnv(cj + raw_all));
    if (missing) {
      r.count("hills_missing_at_quiescence", missing);
      r.violation(std::string("C14:meta:hills-missing-at-quiescence") + (restarted ? ":after-restart" : "") + (trunc_at >= 0 ? ":after-truncated-read" : ""),
                  det + ",\"missing_hills\":" + std::to_string(missing) + ",\"extra_sync_steps\":" + std::to_string(c.extra) + "}");
    }
    r.seen("nontrivial", fnv(det));
  }
  ctl.kill_all();
  if (chdir("..") != 0) { fprintf(stderr, "HARNESS-ERROR: chdir\n"); exit(2); }
}

// ---- a walker outside the grid: there the bias is the analytic sum of the hills kept off the grid, its own and the peers' ----
// Walker 0 stays at `a` (inside the grid near the upper boundary 12, or outside), walker 1 at `b` outside; every hill of a walker is
// the same Gaussian, so walker 1's energy at b is (its own hills) + m * g(b - a) with m the number of walker 0's hills it counts:
// m must be a whole number, at most the hills walker 0 has deposited and, right after a synchronisation, at least those it had published.
struct OffCase { double a, b; bool b_deposits; int upd, rfreq, L, extra, pattern; };
static std::string off_conf(int wi, OffCase const &c)
{
  return "colvarsRestartFrequency " + std::to_string(c.rfreq) + "\n"
         "colvar {\n name d\n width 0.5\n lowerBoundary 0.0\n upperBoundary 12.0\n distance {\n group1 { atomNumbers 1 }\n group2 { atomNumbers 2 }\n }\n}\n"
         "metadynamics {\n name m\n colvars d\n hillWeight 1.0\n hillWidth 3.0\n newHillFrequency " + std::string(wi == 1 && !c.b_deposits ? "1000" : "1") + "\n multipleReplicas on\n replicaID w" + std::to_string(wi) +
         "\n replicasRegistry registry.txt\n replicaUpdateFrequency " + std::to_string(c.upd) + "\n}\n";
}
static void meta_offgrid_run(OffCase const &c, std::string const &dir, Result &r, std::string const &cj)
{
  g_meta_nogrids = false;
  std::string cmd = "rm -rf '" + dir + "' && mkdir -p '" + dir + "'";
  if (system(cmd.c_str()) || chdir(dir.c_str()) != 0) { fprintf(stderr, "HARNESS-ERROR: scratch\n"); exit(2); }
  Controller ctl;
  std::vector<WalkerSpec> specs(2);
  for (int i = 0; i < 2; i++) { specs[i].conf = off_conf(i, c); specs[i].out_prefix = "w" + std::to_string(i); specs[i].temperature = 0; }
  ctl.spawn(specs);
  if (!ctl.fatal.empty()) { fprintf(stderr, "HARNESS-ERROR: %s\n", ctl.fatal.c_str()); exit(2); }
  double const sigma = 0.75;
  double const pos[2] = {c.a, c.b};
  double const g = std::exp(-(c.a - c.b) * (c.a - c.b) / (2.0 * sigma * sigma));
  std::vector<int> order;
  for (int st = 0; st < c.L + c.extra; st++) {
    if (c.pattern == 0) { order.push_back(0); order.push_back(1); }
    else if (c.pattern == 1) { order.push_back(1); order.push_back(0); }
    else { order.push_back(0); if (st % 2) { order.push_back(1); order.push_back(1); } }
  }
  if (c.pattern == 2) while (std::count(order.begin(), order.end(), 1) < c.L + c.extra) order.push_back(1);
  long next[2] = {0, 0}, last_sync[2] = {-1, -1};
  int ndep[2] = {0, 0};
  std::vector<long> dep_steps[2];
  bool failed = false;
  std::string raw_all;
  for (size_t k = 0; k < order.size() && !failed; k++) {
    int i = order[k];
    long s = next[i]++;
    ctl.start_step(i, s, pos[i], 0);
    r.count("transitions");
    if (!ctl.fatal.empty()) { r.violation("C14:meta:walker-died-or-hung", cj.substr(0, cj.size() - 1) + ",\"problem\":\"" + jesc(ctl.fatal) + "\"}"); failed = true; break; }
    if (ctl.w[i].errors) {
      r.violation("C14:meta:error-reported-with-complete-peer-files", cj.substr(0, cj.size() - 1) + ",\"walker\":" + std::to_string(i) + ",\"error\":\"" + jesc(ctl.w[i].errtxt.substr(0, 200)) + "\"}");
      failed = true; break;
    }
    if (s >= 1 && (i == 0 || c.b_deposits)) { ndep[i]++; dep_steps[i].push_back(s); }   // (a hill at every step but the first)
    bool synced = (s > 0 && (s % c.upd) == 0);
    if (synced) last_sync[i] = s;
    // every walker that is outside the grid is examined
    for (int w = 0; w < 2 && !failed; w++) {
      if (pos[w] < 12.0) continue;
      if (next[w] == 0) continue;
      std::string raw = ctl.query(w, "P " + num(pos[w]));
      raw_all += raw + "|";
      double e = atof(raw.c_str());
      int p = 1 - w;
      double m = (e - ndep[w]) / g;
      long mr = std::lround(m);
      int published = 0;
      for (long ds : dep_steps[p]) if (ds < last_sync[p]) published++;
      std::string det = cj.substr(0, cj.size() - 1) + ",\"after_action\":" + std::to_string(k) + ",\"walker\":" + std::to_string(w) + ",\"energy_at_its_position\":" + num(e) + ",\"own_hills\":" + std::to_string(ndep[w]) +
                        ",\"one_peer_hill_there\":" + num(g) + ",\"peer_hills_counted\":" + num(m) + ",\"peer_hills_deposited\":" + std::to_string(ndep[p]) + ",\"peer_hills_published\":" + std::to_string(published) + "}";
      if (std::fabs(m - mr) > 1e-6) { r.violation("C14:meta:walker-outside-the-grid:energy-is-not-own-hills-plus-a-whole-number-of-peer-hills", det); failed = true; }
      else if (mr > ndep[p] || mr < 0) { r.violation("C14:meta:walker-outside-the-grid:peer-hills-counted-more-than-once", det); failed = true; }
      else if (w == i && synced && mr < published) { r.violation("C14:meta:walker-outside-the-grid:published-peer-hills-missing-after-synchronisation", det); failed = true; }
      r.count("offgrid_energies_checked");
    }
  }
  r.seen("states", fnv(cj + raw_all));
  r.seen("nontrivial", fnv(cj));
  ctl.kill_all();
  if (chdir("..") != 0) { fprintf(stderr, "HARNESS-ERROR: chdir\n"); exit(2); }
}

// ---- well-tempered heights with two walkers ----
// Both walkers sit at the same bin centre, so the bias there is the plain sum of the heights of the hills a walker knows of.
// The height of each hill (read from the walker's own hills file) must be hillWeight * exp(-V / k dT) with V the bias at the
// deposition point: its own earlier hills plus the first k hills of the peer, for some k between the number the peer had
// published when the walker last synchronised and the number the peer had deposited.
struct WtCase { int upd, L, pattern; };
static void meta_wt_run(WtCase const &c, std::string const &dir, Result &r, std::string const &cj)
{
  g_meta_nogrids = false;
  std::string cmd = "rm -rf '" + dir + "' && mkdir -p '" + dir + "'";
  if (system(cmd.c_str()) || chdir(dir.c_str()) != 0) { fprintf(stderr, "HARNESS-ERROR: scratch\n"); exit(2); }
  Controller ctl;
  std::vector<WalkerSpec> specs(2);
  for (int i = 0; i < 2; i++) {
    specs[i].conf = "colvarsRestartFrequency 1000\n"
                    "colvar {\n name d\n width 0.5\n lowerBoundary 0.0\n upperBoundary 12.0\n distance {\n group1 { atomNumbers 1 }\n group2 { atomNumbers 2 }\n }\n}\n"
                    "metadynamics {\n name m\n colvars d\n hillWeight 1.0\n hillWidth 1.0\n newHillFrequency 1\n wellTempered on\n biasTemperature 1500.0\n multipleReplicas on\n replicaID w" + std::to_string(i) +
                    "\n replicasRegistry registry.txt\n replicaUpdateFrequency " + std::to_string(c.upd) + "\n}\n";
    specs[i].out_prefix = "w" + std::to_string(i);
    specs[i].temperature = 300.0;
  }
  ctl.spawn(specs);
  if (!ctl.fatal.empty()) { fprintf(stderr, "HARNESS-ERROR: %s\n", ctl.fatal.c_str()); exit(2); }
  double const kdT = 0.001987191 * 1500.0;
  std::vector<int> order;
  for (int st = 0; st < c.L; st++) {
    if (c.pattern == 0) { order.push_back(0); order.push_back(1); }
    else if (c.pattern == 1) { order.push_back(1); order.push_back(0); }
    else { order.push_back(0); if (st % 2) { order.push_back(1); order.push_back(1); } }
  }
  if (c.pattern == 2) while (std::count(order.begin(), order.end(), 1) < c.L) order.push_back(1);
  long next[2] = {0, 0};
  int deposited[2] = {0, 0}, flushed[2] = {0, 0}, known_lo[2] = {0, 0};
  std::vector<std::pair<int, int>> range[2];   // per hill of each walker: [lo, hi] number of the peer's hills in V
  bool failed = false;
  for (size_t k = 0; k < order.size() && !failed; k++) {
    int i = order[k], p = 1 - i;
    long s = next[i]++;
    ctl.start_step(i, s, 5.25, 0);
    r.count("transitions");
    if (!ctl.fatal.empty()) { r.violation("C14:meta:walker-died-or-hung", cj.substr(0, cj.size() - 1) + ",\"problem\":\"" + jesc(ctl.fatal) + "\"}"); failed = true; break; }
    if (ctl.w[i].errors) { r.violation("C14:meta:error-reported-with-complete-peer-files", cj.substr(0, cj.size() - 1) + ",\"error\":\"" + jesc(ctl.w[i].errtxt.substr(0, 200)) + "\"}"); failed = true; break; }
    if (s >= 1) { range[i].push_back({known_lo[i], deposited[p]}); deposited[i]++; }
    if (s > 0 && (s % c.upd) == 0) { flushed[i] = deposited[i]; known_lo[i] = flushed[p]; }
  }
  // the heights of each walker's own hills, from its hills file (complete up to the walker's last synchronisation; the file is
  // started anew when the walker writes its state, which these short runs never do)
  std::vector<double> h[2];
  for (int i = 0; i < 2 && !failed; i++) {
    std::ifstream f(("w" + std::to_string(i) + ".colvars.m.w" + std::to_string(i) + ".hills").c_str());
    std::string tok;
    while (f >> tok) if (tok == "weight") { double w; if (f >> w) h[i].push_back(w); }
    if ((int) h[i].size() < flushed[i] || (int) h[i].size() > deposited[i]) {
      r.violation("C14:meta:well-tempered:hills-file-does-not-hold-the-published-hills", cj.substr(0, cj.size() - 1) + ",\"walker\":" + std::to_string(i) + ",\"hills_in_file\":" + std::to_string(h[i].size()) + ",\"published\":" + std::to_string(flushed[i]) + ",\"deposited\":" + std::to_string(deposited[i]) + "}");
      failed = true;
    }
  }
  std::string all;
  for (int i = 0; i < 2 && !failed; i++) {
    int p = 1 - i;
    double own = 0;
    for (size_t j = 0; j < h[i].size() && !failed; j++) {
      bool ok = false;
      double peer = 0, without_peer = std::exp(-own / kdT);
      for (int kk = 0; kk <= range[i][j].second && kk <= (int) h[p].size(); kk++) {
        if (kk > 0) peer += h[p][kk - 1];
        if (kk < range[i][j].first) continue;
        double want = std::exp(-(own + peer) / kdT);
        if (std::fabs(h[i][j] - want) <= 1e-9 * want) ok = true;
      }
      r.count("evaluations"); r.count("wt_heights_checked");
      all += num(h[i][j]) + " ";
      if (!ok) {
        r.violation(std::string("C14:meta:well-tempered:hill-height-is-not-scaled-with-the-bias-of-all-walkers") + (std::fabs(h[i][j] - without_peer) <= 1e-9 * without_peer ? ":own-hills-only" : ""),
                    cj.substr(0, cj.size() - 1) + ",\"walker\":" + std::to_string(i) + ",\"hill_number\":" + std::to_string(j + 1) + ",\"height\":" + num(h[i][j]) + ",\"height_from_own_hills_only\":" + num(without_peer) +
                        ",\"peer_hills_known_at_least\":" + std::to_string(range[i][j].first) + ",\"peer_hills_deposited\":" + std::to_string(range[i][j].second) + "}");
        failed = true;
      }
      own += h[i][j];
    }
  }
  r.seen("states", fnv(cj + all));
  r.seen("nontrivial", fnv(cj));
  ctl.kill_all();
  if (chdir("..") != 0) { fprintf(stderr, "HARNESS-ERROR: chdir\n"); exit(2); }
}

int main(int argc, char **argv)
{
  Args args(argc, argv);
  bool thorough = args.thorough();
    signal(SIGPIPE, SIG_IGN);

  // ---------------- Part A cases ----------------
  std::vector<AbfCase> abf;
  {
    std::vector<std::vector<int>> w2 = {{0, 1, 2, 3, 0, 3}, {3, 2, 0, 1, 2, 2}}, w3 = {{0, 1, 2, 3, 0}, {3, 2, 0, 1, 1}, {1, 3, 3, 0, 2}};
    for (int rv = 0; rv <= 1; rv++) {
      abf.push_back({2, 5, 2, rv != 0, -1, w2, 99});                    // all interleavings, 2 walkers
      abf.push_back({2, 5, 2, rv != 0, 1 + rv, w2, thorough ? 3 : 2});  // all walkers stop after the exchange step and restart (text / binary state)
      abf.push_back({3, thorough ? 5 : 4, 2, rv != 0, -1, w3, thorough ? 2 : 1});
      if (rv == 0) abf.push_back({2, 5, 2, false, 3, w2, 0});
    }
    std::vector<std::vector<int>> w4 = {{0, 1, 2, 3, 0, 2, 1}, {3, 2, 0, 1, 1, 0, 3}, {1, 3, 3, 0, 2, 1, 0}, {2, 0, 1, 2, 3, 3, 1}};
    for (int L = 3; L <= 7; L++) abf.push_back({2, L, 2, (L % 2) != 0, -1, w4, thorough ? 2 : 1});  // final state at every phase of the exchange cycle
    abf.push_back({2, 4, 1, false, -1, w2, 99});                      // exchange at every step
    abf.push_back({2, 4, 1, true, 1, w2, 2, 2});                      // ... restart after the second exchange
    abf.push_back({2, 7, 3, false, -1, w4, thorough ? 3 : 2});        // sharedFreq 3, two exchanges
    abf.push_back({2, 7, 2, true, 2, w4, thorough ? 2 : 1, 4});       // restart after the second of three exchanges
    {
      AbfCase z{2, 5, 2, false, -1, w4, thorough ? 3 : 2}; z.czar = true; abf.push_back(z);
      std::vector<std::vector<int>> wz = {{0, 1, 2, 3, 0, 2, 1}, {3, 2, 0, 1, 1, 0, 3}, {2, 3, 3, 2, 2, 3, 2}, {0, 0, 1, 0, 1, 1, 0}};
      AbfCase z3{3, 4, 2, true, -1, wz, thorough ? 2 : 1}; z3.czar = true; abf.push_back(z3); z3.rendezvous = false; abf.push_back(z3);
      AbfCase zs{2, 4, 2, false, -1, wz, thorough ? 2 : 1}; zs.czar = true; zs.scripted = true; abf.push_back(zs);
    }
    {
      AbfCase o2{2, 5, 2, false, -1, w4, thorough ? 2 : 1}; o2.opes = true; abf.push_back(o2);
      AbfCase o3{3, 5, 2, true, -1, w4, thorough ? 2 : 1}; o3.opes = true; abf.push_back(o3);
      AbfCase oa{2, 9, 2, false, -1, w4, thorough ? 1 : 0}; oa.opes = true; oa.adaptive = true; abf.push_back(oa);
      AbfCase oa3{3, 9, 2, true, -1, w4, 0}; oa3.opes = true; oa3.adaptive = true; abf.push_back(oa3);
    }
    if (thorough) {
      abf.push_back({4, 4, 2, false, -1, w4, 1});                     // four walkers
      abf.push_back({4, 4, 2, true, 1, w4, 1});
      abf.push_back({3, 5, 2, false, 1, w3, 1});
    }
    if (thorough) {
      // all sample words of 2 walkers x 3 steps under the default order
      for (int a = 0; a < 64; a++)
        for (int b = 0; b < 64; b += 7) {
          std::vector<std::vector<int>> ww = {{0, a % 4, (a / 4) % 4, a / 16}, {0, b % 4, (b / 4) % 4, b / 16}};
          abf.push_back({2, 4, 2, false, -1, ww, 0});
        }
    }
  }
  // ---------------- Part B cases ----------------
  struct MetaJob { MetaCase c; std::vector<int> order; long trunc; int before; };
  std::vector<MetaJob> mj;
  {
    for (int upd = 1; upd <= 2; upd++)
      for (int restart = -1; restart <= 1; restart += 2) {
      for (int np = 0; np <= (restart >= 0 ? 1 : 0); np++) {
        MetaCase c{2, thorough ? 6 : 5, upd, restart, 6};
        c.new_prefix = (np != 0);
       for (int ng = 0; ng <= ((upd == 1 && np == 0) ? 1 : 0); ng++) {
        c.nogrids = (ng != 0);
        // all interleavings of the two walkers' L step actions, followed by `extra` alternating quiescence steps
        int L = c.L;
        std::vector<int> base;
        for (int i = 0; i < L; i++) base.push_back(0);
        for (int i = 0; i < L; i++) base.push_back(1);
        std::sort(base.begin(), base.end());
        do {
          std::vector<int> o = base;
          for (int e = 0; e < c.extra; e++) { o.push_back(0); o.push_back(1); }
          // quick: skip three interleavings out of four (all are run in the thorough tier)
          if (!thorough && (fnv(std::string(o.begin(), o.end())) % 4) != 0) continue;
          mj.push_back({c, o, -1, -1});
        } while (std::next_permutation(base.begin(), base.end()));
       }
      }
      }
    // state files rewritten less often than the walkers synchronise (restart frequency 3 and 4, synchronisation every step): hills
    // published through the NEW hills file after a rewrite must be picked up at the next synchronisation
    for (int rf = 3; rf <= 4; rf++) {
      MetaCase cr{2, 6, 1, -1, 6};
      cr.rfreq = rf;
      for (int pat = 0; pat < 3; pat++) {
        std::vector<int> o;
        for (int st = 0; st < cr.L; st++) { if (pat == 0) { o.push_back(0); o.push_back(1); } else if (pat == 1) { o.push_back(1); o.push_back(0); } }
        if (pat == 2) { for (int st = 0; st < cr.L; st++) o.push_back(0); for (int st = 0; st < cr.L; st++) o.push_back(1); std::vector<int> o2; for (int st = 0; st < cr.L; st++) { o2.push_back(0); if (st % 2) { o2.push_back(1); o2.push_back(1); } } o2.push_back(1); o = o2; }
        for (int e = 0; e < cr.extra; e++) { o.push_back(0); o.push_back(1); }
        mj.push_back({cr, o, -1, -1});
      }
    }
    // truncated peer file: canonical alternating order; walker 1 synchronises while walker 0's hills file is cut at byte t
    MetaCase c{2, 5, 1, -1, 6};
    std::vector<int> o;
    for (int s = 0; s < c.L + c.extra; s++) { o.push_back(0); o.push_back(1); }
    for (int before : {5, 7})
      for (long t = 0; t < 400; t += (thorough ? 1 : 9)) mj.push_back({c, o, t, before});
    // three walkers, round-robin and reversed
    MetaCase c3{3, 4, 1, -1, 6};
    for (int rev = 0; rev <= 1; rev++) {
      std::vector<int> o3;
      for (int s = 0; s < c3.L + c3.extra; s++) for (int w = 0; w < 3; w++) o3.push_back(rev ? 2 - w : w);
      mj.push_back({c3, o3, -1, -1});
    }
  }

  std::vector<OffCase> offc;
  for (double a : {11.25, 11.75, 10.25, 12.25})
    for (double b : {12.3, 12.8})
      for (int bd = 0; bd <= 1; bd++)
        for (int upd = 1; upd <= 2; upd++)
          for (int rf = 2; rf <= 3; rf++)
            for (int pat = 0; pat < 3; pat++) {
              if (!thorough && (b > 12.5 || (rf == 3 && pat != 0))) continue;
              offc.push_back({a, b, bd != 0, upd, rf, thorough ? 7 : 5, 6, pat});
            }
  // both walkers far outside the grid (12.5 bins; hills are kept for analytic use up to 10 bins INSIDE the boundary and at any distance outside)
  for (int bd = 0; bd <= 1; bd++)
    for (int upd = 1; upd <= 2; upd++)
      for (int pat = 0; pat < (thorough ? 3 : 1); pat++) offc.push_back({18.25, 18.6, bd != 0, upd, 2, thorough ? 7 : 5, 6, pat});
  std::vector<WtCase> wtc;
  for (int upd = 1; upd <= 2; upd++) for (int pat = 0; pat < 3; pat++) wtc.push_back({upd, thorough ? 7 : 5, pat});
  if (getenv("C14_DEBUG")) {
    for (auto &c : abf) if (c.czar && c.n == 3 && !c.rendezvous) { std::vector<int> none; AbfOutcome o = abf_execute(c, none); fprintf(stderr, "problem: %s\n", o.problem.c_str()); }
    return 0;
  }
  Result total;
  size_t njobs = abf.size() + mj.size() + offc.size() + wtc.size();
  bool ok = run_sharded(args.jobs, [&](int shard, int nsh, Result &r) {
    std::string base = "sh" + std::to_string(shard) + "_dir";
    if (system(("rm -rf " + base + " && mkdir -p " + base).c_str()) || chdir(base.c_str()) != 0) { fprintf(stderr, "HARNESS-ERROR: scratch\n"); exit(2); }
    for (size_t j = shard; j < njobs; j += nsh) {
      if (j < abf.size()) {
        AbfCase const &c = abf[j];
        std::string cj = std::string("{\"part\":\"") + (c.opes ? "OPES multiple walkers" : "shared ABF") + "\",\"walkers\":" + std::to_string(c.n) + ",\"steps\":" + std::to_string(c.L) + ",\"sharedFreq\":" + std::to_string(c.freq) + (c.czar ? ",\"variable\":\"extended-Lagrangian (CZAR gathered at end of run)\"" : "") + (c.scripted ? ",\"sharing\":\"triggered by cv bias a share\"" : "") +
                         ",\"send\":\"" + (c.rendezvous ? "rendezvous" : "buffered") + "\",\"restart\":\"" + (c.restart_walker < 0 ? "none" : (c.restart_walker == 2 ? "all walkers, binary state" : (c.restart_walker == 3 ? "all walkers, text state without last-exchange record" : "all walkers, text state"))) + "\",\"restart_after_step\":" + std::to_string(c.restart_walker >= 0 ? c.stop_step() : -1) + ",\"deviation_bound\":" + std::to_string(c.bound) + "}";
        bool stop = false;
        long nexec = 0;
        std::set<uint64_t> outcomes;
        std::vector<int> none;
        abf_explore(c, none, 0, r, stop, nexec, outcomes, cj);
        if (c.bound > 0) r.notes.push_back(cj + ": " + std::to_string(nexec) + " schedules, " + std::to_string(outcomes.size()) + " distinct final data set(s)");
        if (j < 3) r.sample(cj);
      } else if (j >= abf.size() + mj.size() + offc.size()) {
        WtCase const &c = wtc[j - abf.size() - mj.size() - offc.size()];
        std::string cj = "{\"part\":\"multiple-walker metadynamics, well-tempered, both walkers at one bin centre\",\"replicaUpdateFrequency\":" + std::to_string(c.upd) + ",\"steps\":" + std::to_string(c.L) + ",\"order\":" + std::to_string(c.pattern) + "}";
        meta_wt_run(c, "mw", r, cj);
      } else if (j >= abf.size() + mj.size()) {
        OffCase const &c = offc[j - abf.size() - mj.size()];
        std::string cj = "{\"part\":\"multiple-walker metadynamics, a walker outside the grid\",\"walker0_at\":" + num(c.a) + ",\"walker1_at\":" + num(c.b) + ",\"walker1_deposits\":" + (c.b_deposits ? "true" : "false") +
                         ",\"replicaUpdateFrequency\":" + std::to_string(c.upd) + ",\"colvarsRestartFrequency\":" + std::to_string(c.rfreq) + ",\"steps\":" + std::to_string(c.L) + ",\"order\":" + std::to_string(c.pattern) + "}";
        r.count("evaluations");
        meta_offgrid_run(c, "mw", r, cj);
      } else {
        MetaJob const &m = mj[j - abf.size()];
        std::string cj = "{\"part\":\"multiple-walker metadynamics\",\"walkers\":" + std::to_string(m.c.n) + ",\"steps\":" + std::to_string(m.c.L) + ",\"replicaUpdateFrequency\":" +
                         std::to_string(m.c.upd) + ",\"restart_walker\":" + std::to_string(m.c.restart_walker) + (m.c.new_prefix ? ",\"restart_under_new_output_prefix\":true" : "") + (m.c.nogrids ? ",\"useGrids\":\"off\"" : "") + "}";
        r.count("evaluations");
        meta_run(m.c, m.order, "mw", r, cj, m.trunc, m.before);
        if (j == abf.size()) r.sample(cj);
      }
    }
    if (chdir("..") != 0 || system(("rm -rf " + base).c_str())) {}
  }, total, 7200);
  if (!ok) return 2;
  write_result(args.out, "C14", args.tier, total, thorough);
  return 0;
}
