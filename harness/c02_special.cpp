// C02 (part b) — boundary geometries: the documented value at the EDGES of each definition's domain.
// Finite product: component menu x special geometry (exactly collinear / antiparallel sites, a pair exactly at the cutoff,
// atoms on the polar axis, coordinates equal to the reference) x {value alone, value + harmonic restraint + one more step}.
// Oracle: the value equals the limit of the documented formula (never NaN), and the restraint step returns finite energy.
#include "vproxy.h"
#include "common.h"
#include <algorithm>

using namespace vc;

// Heap content is an input the harness owns: arrays the library allocates come back filled with the byte the case chooses,
// so that a value that depends on an array element read before it was ever written shows up the same way on every run.
static bool g_fill_on = false;
static unsigned char g_fill = 0;
void *operator new[](std::size_t n)
{
  void *p = malloc(n ? n : 1);
  if (!p) throw std::bad_alloc();
  if (g_fill_on) memset(p, g_fill, n);
  return p;
}
void operator delete[](void *p) noexcept { free(p); }
void operator delete[](void *p, std::size_t) noexcept { free(p); }

struct SCase { const char *name; std::string comp; std::vector<cvm::rvector> x; double expect; double tol; };

int main(int argc, char **argv)
{
  Args args(argc, argv);
  typedef cvm::rvector R;
  R p1(1.0, 0.2, -0.3), p2(-0.8, 1.1, 0.4);
  std::string g3 = " group1 { atomNumbers 1 }\n group2 { atomNumbers 2 }\n group3 { atomNumbers 3 }\n";
  std::string ref4 = " refPositions (0.3, -1.2, 0.8) (1.9, 0.4, -0.6) (-1.1, 1.5, 0.2) (-0.7, -0.9, -1.4)\n";
  std::vector<R> at_ref = {R(0.3, -1.2, 0.8), R(1.9, 0.4, -0.6), R(-1.1, 1.5, 0.2), R(-0.7, -0.9, -1.4)};
  std::vector<SCase> cases = {
      {"angle/collinear-same-side", "angle {\n" + g3 + "}\n", {p1, p2, p2 + 3.0 * (p1 - p2)}, 0.0, 1e-5},
      {"angle/collinear-opposite-sides", "angle {\n" + g3 + "}\n", {p1, p2, p2 - 2.0 * (p1 - p2)}, 180.0, 1e-5},
      {"angle/collinear-on-an-axis", "angle {\n" + g3 + "}\n", {R(1, 0, 0), R(0, 0, 0), R(3, 0, 0)}, 0.0, 1e-5},
      {"polarTheta/on-the-positive-z-axis", "polarTheta {\n atoms { atomNumbers 1 }\n}\n", {R(0, 0, 2.5)}, 0.0, 1e-5},
      {"polarTheta/on-the-negative-z-axis", "polarTheta {\n atoms { atomNumbers 1 }\n}\n", {R(0, 0, -1.5)}, 180.0, 1e-5},
      {"coordNum/pair-exactly-at-the-cutoff", "coordNum {\n cutoff 4.0\n group1 { atomNumbers 1 }\n group2 { atomNumbers 2 }\n}\n", {R(0, 0, 0), R(4, 0, 0)}, 0.5, 1e-12},
      {"coordNum/expNumer4-expDenom10-at-the-cutoff", "coordNum {\n cutoff 2.0\n expNumer 4\n expDenom 10\n group1 { atomNumbers 1 }\n group2 { atomNumbers 2 }\n}\n", {R(1, 1, 1), R(1, 3, 1)}, 0.4, 1e-12},
      {"coordNum/anisotropic-at-the-cutoff", "coordNum {\n cutoff3 (2.0, 3.0, 4.0)\n group1 { atomNumbers 1 }\n group2 { atomNumbers 2 }\n}\n", {R(0, 0, 0), R(0, 3, 0)}, 0.5, 1e-12},
      {"selfCoordNum/pair-exactly-at-the-cutoff", "selfCoordNum {\n cutoff 4.0\n group1 { atomNumbers 1 2 }\n}\n", {R(0, 0, 0), R(0, 0, 4)}, 0.5, 1e-12},
      {"groupCoord/centres-exactly-at-the-cutoff", "groupCoord {\n cutoff 4.0\n group1 { atomNumbers 1 }\n group2 { atomNumbers 2 }\n}\n", {R(0, 0, 0), R(4, 0, 0)}, 0.5, 1e-12},
      {"hBond/exactly-at-the-cutoff", "hBond {\n acceptor 1\n donor 2\n cutoff 3.3\n}\n", {R(0, 0, 0), R(3.3, 0, 0)}, 0.75, 1e-12},
      {"orientationAngle/coordinates-equal-to-the-reference", "orientationAngle {\n atoms { atomNumbers 1 2 3 4 }\n" + ref4 + "}\n", at_ref, 0.0, 1e-5},
      {"orientationProj/coordinates-equal-to-the-reference", "orientationProj {\n atoms { atomNumbers 1 2 3 4 }\n" + ref4 + "}\n", at_ref, 1.0, 1e-12},
      {"tilt/coordinates-equal-to-the-reference", "tilt {\n axis (0, 0, 1)\n atoms { atomNumbers 1 2 3 4 }\n" + ref4 + "}\n", at_ref, 1.0, 1e-12},
      {"rmsd/coordinates-equal-to-the-reference", "rmsd {\n atoms { atomNumbers 1 2 3 4 }\n" + ref4 + "}\n", at_ref, 0.0, 1e-7},
      {"eulerTheta/coordinates-equal-to-the-reference", "eulerTheta {\n atoms { atomNumbers 1 2 3 4 }\n" + ref4 + "}\n", at_ref, 0.0, 1e-5},
  };
  Result total;
  for (auto const &c : cases)
    for (int with_bias = 0; with_bias <= 1; with_bias++) {
      total.count("evaluations");
      std::string det = std::string("{\"case\":\"") + c.name + "\",\"with_harmonic_restraint\":" + (with_bias ? "true" : "false");
      vproxy *px = new vproxy((int) c.x.size(), true);
      for (size_t i = 0; i < c.x.size(); i++) px->x[i] = c.x[i];
      std::string conf = "colvar {\n name c\n " + c.comp + "}\n";
      if (with_bias) conf += "harmonic {\n colvars c\n centers " + num(c.expect + (c.expect > 90 ? -1.0 : 1.0) * 0.3) + "\n forceConstant 2.0\n}\n";
      if (px->config(conf) != 0) {
        total.violation(std::string("C02:boundary-geometry:configuration-refused:") + c.name, det + ",\"error\":\"" + jesc(px->errtxt.substr(0, 200)) + "\"}");
        delete px;
        continue;
      }
      int rc = px->step(0);
      total.count("transitions");
      double v = px->cv("c") ? px->cv("c")->value().real_value : NAN;
      if (rc != 0) total.violation(std::string("C02:boundary-geometry:error-at-the-step:") + c.name, det + ",\"error\":\"" + jesc(px->errtxt.substr(0, 200)) + "\"}");
      else if (!std::isfinite(v) || std::fabs(v - c.expect) > c.tol)
        total.violation(std::string("C02:boundary-geometry:value-is-not-the-limit-of-the-definition:") + c.name, det + ",\"value\":" + num(v) + ",\"expected\":" + num(c.expect) + "}");
      else if (with_bias && !std::isfinite(px->energy))
        total.violation(std::string("C02:boundary-geometry:restraint-energy-not-finite:") + c.name, det + ",\"energy\":" + num(px->energy) + "}");
      total.seen("nontrivial", fnv(det));
      delete px;
    }
  // ---- pair lists: between two rebuilds the value must be the same function of the coordinates as on a rebuild step.
  // A system translated rigidly from step to step has a constant coordination number (every variant, every step).
  {
    struct PL { const char *name; std::string opts; };
    std::vector<PL> pls = {
        {"coordNum/pairlist", " cutoff 3.5\n tolerance 0.001\n pairListFrequency 3\n"},
        {"coordNum/anisotropic+pairlist", " cutoff3 (3.0, 5.0, 7.0)\n tolerance 0.001\n pairListFrequency 3\n"},
        {"coordNum/anisotropic+pairlist+group2CenterOnly", " cutoff3 (3.0, 5.0, 7.0)\n tolerance 0.001\n pairListFrequency 4\n group2CenterOnly on\n"},
        {"coordNum/expNumer4-expDenom8+pairlist", " cutoff 3.5\n expNumer 4\n expDenom 8\n tolerance 0.002\n pairListFrequency 2\n"},
    };
    std::vector<R> base = {R(0.3, -1.2, 0.8), R(1.9, 0.4, -0.6), R(-1.1, 1.5, 0.2), R(-0.7, -0.9, -1.4), R(0.9, 0.6, 1.7), R(2.4, -1.8, 0.3), R(-2.0, 0.1, 1.1)};
    for (auto const &pl : pls) {
      total.count("evaluations");
      std::string det = std::string("{\"case\":\"") + pl.name + " under rigid translation, 9 steps\"";
      vproxy *px = new vproxy((int) base.size(), true);
      for (size_t i = 0; i < base.size(); i++) px->x[i] = base[i];
      std::string conf = "colvar {\n name c\n coordNum {\n" + pl.opts + " group1 { atomNumbers 1 2 3 }\n group2 { atomNumbers 4 5 6 7 }\n }\n}\n";
      if (px->config(conf) != 0) { total.violation(std::string("C02:pair-list:configuration-refused:") + pl.name, det + ",\"error\":\"" + jesc(px->errtxt.substr(0, 200)) + "\"}"); delete px; continue; }
      double v0 = 0;
      for (int st = 0; st < 9; st++) {
        for (size_t i = 0; i < base.size(); i++) px->x[i] = base[i] + (double) st * R(0.37, -0.21, 0.13);
        if (px->step(st) != 0) { total.violation(std::string("C02:pair-list:error-at-the-step:") + pl.name, det + "}"); break; }
        total.count("transitions");
        double v = px->cv("c")->value().real_value;
        if (st == 0) v0 = v;
        else if (!std::isfinite(v) || std::fabs(v - v0) > 1e-10 * std::max(1.0, std::fabs(v0))) {
          total.violation(std::string("C02:pair-list:value-changes-under-rigid-translation-between-rebuilds:") + pl.name,
                          det + ",\"step\":" + std::to_string(st) + ",\"value\":" + num(v) + ",\"value_at_step_0\":" + num(v0) + "}");
          break;
        }
      }
      if (!(v0 > 0.05)) total.violation(std::string("C02:pair-list:vacuous-case:") + pl.name, det + ",\"value\":" + num(v0) + "}");
      total.seen("nontrivial", fnv(det));
      delete px;
    }
  }
  // ---- a variable with a pair list defined in the MIDDLE of a run (its first evaluation is not a rebuild step): the value
  // must be the one the same variable has when defined at the start, whatever the freshly allocated list happened to contain.
  {
    struct PL { const char *name; std::string comp; };
    std::string g12 = " group1 { atomNumbers 1 2 3 }\n group2 { atomNumbers 4 5 6 7 }\n";
    std::vector<PL> pls = {
        {"coordNum/pairlist", "coordNum {\n cutoff 3.5\n tolerance 0.001\n pairListFrequency 5\n" + g12 + "}\n"},
        {"coordNum/anisotropic+pairlist", "coordNum {\n cutoff3 (3.0, 5.0, 7.0)\n tolerance 0.001\n pairListFrequency 5\n" + g12 + "}\n"},
        {"coordNum/pairlist+group2CenterOnly", "coordNum {\n cutoff 3.5\n tolerance 0.001\n pairListFrequency 5\n group2CenterOnly on\n" + g12 + "}\n"},
        {"selfCoordNum/pairlist", "selfCoordNum {\n cutoff 3.5\n tolerance 0.001\n pairListFrequency 5\n group1 { atomNumbers 1 2 3 4 5 }\n}\n"},
    };
    std::vector<R> base = {R(0.3, -1.2, 0.8), R(1.9, 0.4, -0.6), R(-1.1, 1.5, 0.2), R(-0.7, -0.9, -1.4), R(0.9, 0.6, 1.7), R(2.4, -1.8, 0.3), R(-2.0, 0.1, 1.1)};
    for (auto const &pl : pls) {
      double vref = NAN;
      for (int defined_at = 0; defined_at <= 4; defined_at++)
        for (int fill = 0; fill <= (defined_at ? 1 : 0); fill++) {
          total.count("evaluations");
          std::string det = std::string("{\"case\":\"") + pl.name + "\",\"defined_at_step\":" + std::to_string(defined_at) +
                            ",\"fresh_arrays_filled_with\":" + std::to_string(fill);
          vproxy *px = new vproxy((int) base.size(), true);
          for (size_t i = 0; i < base.size(); i++) px->x[i] = base[i];
          if (px->config("colvar {\n name d\n distance {\n group1 { atomNumbers 1 }\n group2 { atomNumbers 2 }\n }\n}\n") != 0) return 3;
          for (int st = 0; st < defined_at; st++) if (px->step(st) != 0) return 3;
          g_fill = (unsigned char) fill; g_fill_on = true;
          int rc = px->config("colvar {\n name c\n " + pl.comp + "}\n");
          g_fill_on = false;
          if (rc != 0) { total.violation(std::string("C02:pair-list:configuration-refused:") + pl.name, det + "}"); delete px; continue; }
          if (px->step(defined_at) != 0) { total.violation(std::string("C02:pair-list:error-at-the-step:") + pl.name, det + "}"); delete px; continue; }
          total.count("transitions");
          double v = px->cv("c")->value().real_value;
          if (defined_at == 0) { vref = v; if (!(v > 0.05)) total.violation(std::string("C02:pair-list:vacuous-case:") + pl.name, det + ",\"value\":" + num(v) + "}"); }
          else if (!std::isfinite(v) || std::fabs(v - vref) > 1e-10 * std::max(1.0, std::fabs(vref)))
            total.violation(std::string("C02:pair-list:value-of-a-variable-defined-in-the-middle-of-a-run-differs:") + pl.name,
                            det + ",\"value\":" + num(v) + ",\"value_when_defined_at_the_start\":" + num(vref) + "}");
          total.seen("nontrivial", fnv(det));
          delete px;
        }
    }
  }
  // ---- reference positions read from a file (refPositionsFile, XYZ): line n of the file belongs to atom number n (or, when the
  // file has exactly as many lines as the group has atoms, to the group's atoms in ascending order), whatever the order in which
  // the group lists its atoms.  ALL 120 listings of a 5-atom group x {file of all 6 atoms, file of the 5 atoms} x {rmsd,
  // orientationAngle}: the coordinates are the reference turned by 40 degrees about a tilted axis and translated.
  {
    std::vector<R> refp = {R(0.3, -1.2, 0.8), R(1.9, 0.4, -0.6), R(-1.1, 1.5, 0.2), R(-0.7, -0.9, -1.4), R(0.9, 0.6, 1.7), R(2.4, -1.8, 0.3)};
    int group_atoms[5] = {1, 2, 3, 5, 6};   // atom 4 is not in the group
    for (int full = 0; full <= 1; full++) {
      FILE *f = fopen(full ? "c02_ref_all.xyz" : "c02_ref_group.xyz", "w");
      if (!f) { perror("xyz"); return 2; }
      fprintf(f, "%d\nreference\n", full ? 6 : 5);
      for (int a = 1; a <= 6; a++) if (full || a != 4) fprintf(f, "C %.10f %.10f %.10f\n", refp[a - 1].x, refp[a - 1].y, refp[a - 1].z);
      fclose(f);
    }
    // current coordinates: rotation by 40 degrees about n = (0.3,-0.5,0.8)/|.|, then a translation
    R n(0.3, -0.5, 0.8); n = n / n.norm();
    double ang = 40.0 * 3.14159265358979323846 / 180.0, ca = std::cos(ang), sa = std::sin(ang);
    std::vector<R> cur(6);
    R cen(0, 0, 0);
    for (int k = 0; k < 5; k++) cen += refp[group_atoms[k] - 1];
    cen = cen / 5.0;
    for (int a = 0; a < 6; a++) {
      R v = refp[a] - cen;
      R vr = v * ca + cvm::rvector::outer(n, v) * sa + n * (n * v) * (1.0 - ca);
      cur[a] = vr + cen + R(0.7, -0.4, 1.1);
    }
    int perm[5] = {0, 1, 2, 3, 4};
    do {
      std::string listing;
      for (int k = 0; k < 5; k++) listing += " " + std::to_string(group_atoms[perm[k]]);
      for (int full = 0; full <= 1; full++)
        for (int comp = 0; comp < 2; comp++) {
          total.count("evaluations");
          std::string cname = comp ? "orientationAngle" : "rmsd";
          std::string det = "{\"case\":\"" + cname + " with refPositionsFile (" + (full ? "file of all atoms" : "file of the group's atoms") + ")\",\"atomNumbers\":\"" + listing + "\"";
          vproxy *px = new vproxy(6, true);
          for (int a = 0; a < 6; a++) px->x[a] = cur[a];
          std::string conf = "colvar {\n name c\n " + cname + " {\n atoms { atomNumbers" + listing + " }\n refPositionsFile " + (full ? "c02_ref_all.xyz" : "c02_ref_group.xyz") + "\n }\n}\n";
          if (px->config(conf) != 0) { total.violation("C02:refPositionsFile:configuration-refused:" + cname, det + ",\"error\":\"" + jesc(px->errtxt.substr(0, 200)) + "\"}"); delete px; continue; }
          if (px->step(0) != 0) { total.violation("C02:refPositionsFile:error-at-the-step:" + cname, det + "}"); delete px; continue; }
          total.count("transitions");
          double v = px->cv("c")->value().real_value, expect = comp ? 40.0 : 0.0;
          if (!std::isfinite(v) || std::fabs(v - expect) > 1e-6)
            total.violation("C02:refPositionsFile:value-depends-on-the-order-of-the-atom-list:" + cname, det + ",\"value\":" + num(v) + ",\"expected\":" + num(expect) + "}");
          total.seen("nontrivial", fnv(det));
          delete px;
        }
    } while (std::next_permutation(perm, perm + 5));
  }
  total.sample("{\"case\":\"coordNum/pair-exactly-at-the-cutoff\",\"expected\":0.5}");
  write_result(args.out, "C02", args.tier, total, true);
  return 0;
}
