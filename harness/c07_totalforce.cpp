// C07 — total-force measurement is the inverse of force application.
// Product enumerator + short histories: component menu x geometry x temperature x {hideJacobian, subtractAppliedForce}
// x force-timing convention.  Oracles: (1) feeding back exactly the atomic forces Colvars applied for a variable
// force f gives f (+ kT x Jacobian term), attributed to the step the forces acted on; (2) the reported total force
// is linear in the atomic forces and ignores atoms outside the variable's groups (every one of the 3N unit force
// fields is measured); (3) the Jacobian term equals the divergence of the measurement field itself (finite differences).
#include "vproxy.h"
#include "common.h"

using namespace vc;

static const double KB = 0.001987191;
static const int NAT = 7;  // atoms 1-6 used by the variables, atom 7 in no group

struct Comp { const char *name; std::string body; bool fitted; bool may_refuse = false; };  // may_refuse: a component that need not support total forces -
// it must either refuse outputTotalForce at configuration time or satisfy the statement like the others

static std::vector<Comp> menu()
{
  std::vector<Comp> m;
  m.push_back({"distance", " distance {\n group1 { atomNumbers 1 2 }\n group2 { atomNumbers 3 }\n }\n", false});
  m.push_back({"distance/oneSiteTotalForce", " distance {\n oneSiteTotalForce on\n group1 { atomNumbers 1 2 }\n group2 { atomNumbers 3 }\n }\n", false});
  m.push_back({"distanceZ", " distanceZ {\n main { atomNumbers 3 4 }\n ref { atomNumbers 1 2 }\n axis (0.3, -0.5, 1.0)\n }\n", false});
  m.push_back({"distanceXY", " distanceXY {\n main { atomNumbers 3 4 }\n ref { atomNumbers 1 2 }\n axis (0.3, -0.5, 1.0)\n }\n", false});
  m.push_back({"angle", " angle {\n group1 { atomNumbers 1 2 }\n group2 { atomNumbers 3 }\n group3 { atomNumbers 4 5 }\n }\n", false});
  m.push_back({"dihedral", " dihedral {\n group1 { atomNumbers 1 }\n group2 { atomNumbers 2 3 }\n group3 { atomNumbers 4 }\n group4 { atomNumbers 5 6 }\n }\n", false});
  m.push_back({"gyration", " gyration {\n atoms { atomNumbers 1 2 3 4 5 }\n }\n", false});
  m.push_back({"rmsd", " rmsd {\n atoms { atomNumbers 1 2 3 4 5 }\n refPositions (0, 0, 0) (1.4, 0.1, 0) (0.3, 1.5, 0.2) (-0.5, 0.7, 1.5) (1.2, -0.9, 0.8)\n }\n", true});
  // the reference lists atoms 1 and 2 exchanged; the permuted copy declared with atomPermutation is the one that matches
  m.push_back({"rmsd/atomPermutation-is-the-best-match", " rmsd {\n atoms { atomNumbers 1 2 3 4 5 }\n refPositions (1.4, 0.1, 0) (0, 0, 0) (0.3, 1.5, 0.2) (-0.5, 0.7, 1.5) (1.2, -0.9, 0.8)\n atomPermutation 2 1 3 4 5\n }\n", true});
  m.push_back({"eigenvector", " eigenvector {\n atoms { atomNumbers 1 2 3 4 5 }\n refPositions (0, 0, 0) (1.4, 0.1, 0) (0.3, 1.5, 0.2) (-0.5, 0.7, 1.5) (1.2, -0.9, 0.8)\n"
                              " vector (0.3, 0.1, -0.2) (-0.4, 0.2, 0.1) (0.1, -0.5, 0.3) (0.2, 0.3, -0.1) (-0.2, -0.1, -0.1)\n }\n", true});
  m.push_back({"distance-minus-distance", " distance {\n componentCoeff 1.0\n group1 { atomNumbers 1 2 }\n group2 { atomNumbers 3 }\n }\n distance {\n componentCoeff -1.0\n group1 { atomNumbers 4 }\n group2 { atomNumbers 5 6 }\n }\n", false});
  m.push_back({"distance-plus-distance", " distance {\n group1 { atomNumbers 1 2 }\n group2 { atomNumbers 3 }\n }\n distance {\n group1 { atomNumbers 4 }\n group2 { atomNumbers 5 6 }\n }\n", false});
  // components and group options for which total forces are not (or need not be) available: refused, or correct
  auto opt = [&](const char *name, std::string body) { Comp c{name, body, false}; c.may_refuse = true; m.push_back(c); };
  opt("inertia", " inertia {\n atoms { atomNumbers 1 2 3 4 5 }\n }\n");
  opt("inertiaZ", " inertiaZ {\n axis (0.3, -0.5, 1.0)\n atoms { atomNumbers 1 2 3 4 5 }\n }\n");
  opt("groupCoord", " groupCoord {\n cutoff 2.0\n group1 { atomNumbers 1 2 }\n group2 { atomNumbers 3 4 }\n }\n");
  opt("coordNum", " coordNum {\n cutoff 2.0\n group1 { atomNumbers 1 2 }\n group2 { atomNumbers 3 4 }\n }\n");
  opt("distance/dummy-first-group", " distance {\n group1 { dummyAtom (0.1, -0.2, 0.3) }\n group2 { atomNumbers 3 4 }\n }\n");
  opt("distance/dummy-first-group+oneSiteTotalForce", " distance {\n oneSiteTotalForce on\n group1 { dummyAtom (0.1, -0.2, 0.3) }\n group2 { atomNumbers 3 4 }\n }\n");
  opt("distance/dummy-second-group", " distance {\n group1 { atomNumbers 1 2 }\n group2 { dummyAtom (0.1, -0.2, 0.3) }\n }\n");
  opt("distanceZ/dummy-main-group+oneSiteTotalForce", " distanceZ {\n oneSiteTotalForce on\n main { dummyAtom (0.1, -0.2, 0.3) }\n ref { atomNumbers 1 2 }\n }\n");
  return m;
}

static void geometry(int g, cvm::rvector *x)
{
  static const double P[5][NAT][3] = {
      {{0, 0, 0}, {1.5, 0.2, 0}, {0.2, 1.4, 0.3}, {-0.4, 0.6, 1.6}, {1.1, -0.8, 0.9}, {2.0, 1.1, -0.7}, {5, 5, 5}},
      {{0.3, -0.2, 0.1}, {1.2, 0.9, -0.4}, {-0.7, 1.6, 0.8}, {0.1, 0.2, 2.1}, {1.9, -0.3, 1.2}, {2.4, 1.5, 0.2}, {-4, 3, 6}},
      {{-0.5, 0.4, 0.2}, {0.9, -0.6, 0.5}, {0.6, 1.9, -0.3}, {-1.1, 1.0, 1.4}, {0.7, -1.2, 1.8}, {1.6, 0.8, -1.3}, {6, -5, 4}},
      {{0.8, 0.1, -0.6}, {-0.7, 0.5, 0.3}, {0.4, -1.3, 1.1}, {1.7, 0.9, 0.6}, {-0.2, 1.8, -0.9}, {-1.5, -0.8, 1.2}, {4, 6, -5}},
      {{2.3, 1.1, 0.4}, {3.1, -0.2, 1.3}, {1.2, -0.9, 2.2}, {2.6, 0.7, 3.4}, {4.0, 1.6, 2.1}, {0.5, 0.3, 1.0}, {-6, 4, 5}}};
  for (int a = 0; a < NAT; a++) x[a] = cvm::rvector(P[g][a][0], P[g][a][1], P[g][a][2]);
}
static const double MASS[NAT] = {1.0, 12.0, 16.0, 14.0, 1.0, 32.0, 12.0};

struct Opt { double T; bool hide, subtract, same_step; bool walls = false; };

static std::string conf_text(Comp const &c, Opt const &o, bool with_bias)
{
  std::string s = std::string("colvar {\n name v\n width ") + (o.hide ? "100.0" : "1.0") + "\n outputTotalForce on\n";
  // hideJacobian is requested through an ABF bias (which here samples but applies nothing)
  if (o.hide) s += " lowerBoundary -400.0\n upperBoundary 400.0\n";
  if (o.subtract) s += " subtractAppliedForce on\n";
  s += c.body + "}\n";
  if (with_bias) s += "harmonic {\n colvars v\n centers 0.0\n targetCenters 6.0\n targetNumSteps 3\n forceConstant " + std::string(o.hide ? "15000.0" : "1.5") + "\n}\n";
  // a second bias of another kind: a wall far below the value, always active (harmonicWalls is the bias that by default
  // bypasses an extended-Lagrangian coordinate; its force is Colvars' own applied force like any other)
  if (with_bias && o.walls) s += "harmonicWalls {\n colvars v\n upperWalls -1000.0\n forceConstant " + std::string(o.hide ? "10.0" : "0.001") + "\n}\n";
  if (o.hide) s += "abf {\n colvars v\n applyBias off\n hideJacobian on\n fullSamples 1000\n}\n";
  return s;
}

// measure the reported total force for a given atomic force field under the same-step convention
static double measure(Comp const &c, Opt o, cvm::rvector const *x, std::vector<cvm::rvector> const &F, double *jd_out = NULL)
{
  o.same_step = true;
  o.hide = false;
  o.subtract = false;
  vproxy *px = new vproxy(NAT, true);
  px->set_target_temperature(o.T);
  for (int a = 0; a < NAT; a++) { px->x[a] = x[a]; px->m[a] = MASS[a]; }
  if (px->config(conf_text(c, o, false)) != 0) { fprintf(stderr, "HARNESS-ERROR: %s rejected: %s\n", c.name, px->errtxt.c_str()); exit(3); }
  for (int a = 0; a < NAT; a++) px->fsys[a] = F[a];
  double r = 0;
  for (int s = 0; s < 2; s++) {
    if (px->step(s) != 0) { fprintf(stderr, "HARNESS-ERROR: %s step error: %s\n", c.name, px->errtxt.c_str()); exit(3); }
    r = px->cv("v")->total_force().real_value;
  }
  if (jd_out) *jd_out = px->cv("v")->fj.real_value;
  delete px;
  return r;
}

int main(int argc, char **argv)
{
  Args args(argc, argv);
  bool thorough = args.thorough();
  std::vector<Comp> comps = menu();
  struct Job { size_t ci; int g; };
  std::vector<Job> jobs;
  for (size_t ci = 0; ci < comps.size(); ci++) for (int g = 0; g < (thorough ? 5 : 3); g++) jobs.push_back({ci, g});

  Result total;
  bool ok = run_sharded(std::min<int>(args.jobs, jobs.size()), [&](int shard, int nsh, Result &r) {
    for (size_t ji = shard; ji < jobs.size(); ji += nsh) {
      Comp const &c = comps[jobs[ji].ci];
      int g = jobs[ji].g;
      cvm::rvector x[NAT];
      geometry(g, x);
      std::string base = std::string("{\"component\":\"") + c.name + "\",\"geometry\":" + std::to_string(g);
      if (c.may_refuse) {
        // refused at configuration time: nothing to measure (counted); accepted: everything below applies
        Opt ot{0.0, false, false, true};
        vproxy *pt = new vproxy(NAT, true);
        for (int a = 0; a < NAT; a++) { pt->x[a] = x[a]; pt->m[a] = MASS[a]; }
        int rcfg = pt->config(conf_text(c, ot, false));
        bool step_ok = true;
        if (rcfg == 0) for (int s = 0; s < 2; s++) if (pt->step(s) != 0) step_ok = false;
        delete pt;
        r.count("evaluations");
        if (rcfg != 0) { r.count("components_refusing_total_forces"); r.seen("nontrivial", fnv(base + "refused")); continue; }
        if (!step_ok) {
          r.violation(std::string("C07:total-forces-accepted-at-configuration-but-an-error-at-every-step:") + c.name, base + "}");
          continue;
        }
      }

      // ---------- (2) linearity: the 3N unit force fields, T = 0 ----------
      Opt o0{0.0, false, false, true};
      std::vector<std::vector<double>> unit(NAT, std::vector<double>(3, 0.0));
      std::vector<cvm::rvector> F(NAT);
      double ft0 = measure(c, o0, x, F);
      r.count("evaluations");
      if (std::fabs(ft0) > 1e-12) r.violation(std::string("C07:nonzero-total-force-for-zero-atomic-forces:") + c.name, base + ",\"total_force\":" + num(ft0) + "}");
      for (int a = 0; a < NAT; a++)
        for (int k = 0; k < 3; k++) {
          for (int b = 0; b < NAT; b++) F[b] = cvm::rvector(0, 0, 0);
          F[a][k] = 1.0;
          unit[a][k] = measure(c, o0, x, F);
          r.count("evaluations");
          r.count("transitions", 2);
        }
      if (std::fabs(unit[NAT - 1][0]) + std::fabs(unit[NAT - 1][1]) + std::fabs(unit[NAT - 1][2]) > 1e-13)
        r.violation(std::string("C07:force-on-atom-outside-the-groups-is-measured:") + c.name, base + "}");
      double vnorm = 0;
      for (int a = 0; a < NAT; a++) for (int k = 0; k < 3; k++) vnorm += unit[a][k] * unit[a][k];
      if (vnorm < 1e-12) {
        // not linear-with-the-right-coefficients: forces on the group's own atoms are ignored altogether
        r.violation(std::string("C07:forces-on-the-variable's-atoms-give-zero-total-force:") + c.name, base + "}");
        continue;
      }
      for (int t = 0; t < 4; t++) {
        double expect = 0;
        for (int a = 0; a < NAT; a++) {
          F[a] = cvm::rvector(0.37 * ((a * 3 + t) % 5) - 0.8, -0.21 * ((a + 2 * t) % 7) + 0.5, 0.11 * ((a * a + t) % 4) - 0.2);
          for (int k = 0; k < 3; k++) expect += unit[a][k] * F[a][k];
        }
        double got = measure(c, o0, x, F);
        r.count("evaluations");
        if (!close_rel(got, expect, std::max(1.0, std::fabs(expect)), 1e-11, 1e-12))
          r.violation(std::string("C07:total-force-not-linear-in-atomic-forces:") + c.name, base + ",\"measured\":" + num(got) + ",\"linear_combination\":" + num(expect) + "}");
      }

      // ---------- (1) inverse of force application, over a 3-step history with a different f at each step ----------
      for (double T : {0.0, 300.0})
        for (int hide = 0; hide <= 1; hide++)
          for (int sub = 0; sub <= 1; sub++)
            for (int ssw = 0; ssw <= 3; ssw++) {
              int ss = ssw % 2;
              bool walls = ssw >= 2;
              if (walls && std::string(c.name) == "dihedral") continue;  // (walls on a periodic variable follow the closest-wall rule)
              if (!thorough && T == 0.0 && hide) continue;  // (hideJacobian is a no-op at T = 0)
              Opt o{T, hide != 0, sub != 0, ss != 0};
              o.walls = walls;
              std::string det = base + ",\"T\":" + num(T) + ",\"hideJacobian\":" + (hide ? "true" : "false") + ",\"subtractAppliedForce\":" + (sub ? "true" : "false") +
                                ",\"timing\":\"" + (ss ? "same-step" : "lagged") + "\"" + (walls ? ",\"second_bias\":\"harmonicWalls\"" : "");
              r.count("evaluations");
              // run A: positions fixed, harmonic with moving centre -> bias force fb(s) known in closed form; record applied atomic forces
              std::vector<std::vector<cvm::rvector>> applied;
              std::vector<double> fb, jd, val;
              {
                vproxy *px = new vproxy(NAT, ss != 0);
                px->set_target_temperature(T);
                for (int a = 0; a < NAT; a++) { px->x[a] = x[a]; px->m[a] = MASS[a]; }
                if (px->config(conf_text(c, o, true)) != 0) {
                  r.count("rejected_option_combinations");
                  r.notes.push_back(std::string(c.name) + ": rejected with " + det.substr(base.size()) + ": " + px->errtxt.substr(0, 120));
                  delete px;
                  continue;
                }
                bool failed = false;
                for (int s = 0; s < 4 && !failed; s++) {
                  if (ss && s >= 1) for (int a = 0; a < NAT; a++) px->fsys[a] = cvm::rvector(0, 0, 0);
                  // lagged timing: the geometry changes from step to step, so that the Jacobian term of the step at which
                  // the forces acted differs from the one of the step at which they are reported
                  if (!ss) for (int a = 0; a < NAT; a++) px->x[a] = x[a] + cvm::rvector(0.11 * s * ((a % 3) - 1), -0.07 * s * (a % 2), 0.05 * s * ((a * 5) % 4 - 1.5));
                  if (px->step(s) != 0) { r.violation(std::string("C07:error-during-run:") + c.name, det + ",\"error\":\"" + jesc(px->errtxt.substr(0, 200)) + "\"}"); failed = true; break; }
                  r.count("transitions");
                  colvar *cv = px->cv("v");
                  double xv = cv->value().real_value, cen = 6.0 * std::min(1.0, s / 3.0);
                  double diff = xv - cen;
                  if (std::string(c.name) == "dihedral") diff = std::remainder(diff, 360.0);
                  // (force constants are scaled with the square of the width; the wall at -1000 is always active)
                  fb.push_back(-1.5 * diff + (o.walls ? -0.001 * (xv + 1000.0) : 0.0));
                  val.push_back(xv);
                  jd.push_back(cv->fj.real_value);
                  std::vector<cvm::rvector> ap(NAT);
                  for (int a = 0; a < NAT; a++) ap[a] = px->fapp[a];
                  applied.push_back(ap);
                  if (!ss && s >= 1) {
                    // lagged: the forces applied at step s-1 come back now; attributed to step s-1
                    double kTjd = jd[s - 1];
                    double expect = (sub ? 0.0 : fb[s - 1]) + ((hide && sub) ? 0.0 : (hide ? 0.0 : kTjd));
                    double got = cv->total_force().real_value;
                    if (!close_rel(got, expect, std::max(1.0, std::fabs(expect)), 1e-9, 1e-10)) {
                      r.violation(std::string("C07:lagged:total-force-differs-from-applied-force-plus-jacobian:") + c.name + (hide ? ":hideJacobian" : "") + (sub ? ":subtractAppliedForce" : ""),
                                  det + ",\"step\":" + std::to_string(s) + ",\"reported\":" + num(got) + ",\"expected\":" + num(expect) + ",\"bias_force_previous_step\":" + num(fb[s - 1]) + ",\"kT_jacobian\":" + num(kTjd) + "}");
                      failed = true;
                    }
                  }
                }
                delete px;
                if (failed) continue;
              }
              if (ss) {
                // same step: feed, as system forces of step s, exactly what run A applied at step s
                vproxy *px = new vproxy(NAT, true);
                px->set_target_temperature(T);
                for (int a = 0; a < NAT; a++) { px->x[a] = x[a]; px->m[a] = MASS[a]; }
                if (px->config(conf_text(c, o, true)) != 0) { fprintf(stderr, "HARNESS-ERROR: second run rejected\n"); exit(3); }
                for (int s = 0; s < 4; s++) {
                  for (int a = 0; a < NAT; a++) px->fsys[a] = applied[s][a];
                  if (px->step(s) != 0) { r.violation(std::string("C07:error-during-run:") + c.name, det + "}"); break; }
                  r.count("transitions");
                  colvar *cv = px->cv("v");
                  double kTjd = cv->fj.real_value;
                  // The forces fed in correspond to the variable force fb, minus the compensating Jacobian force when hideJacobian
                  // is on.  A total force of the current step cannot contain anything Colvars applies at this step (no engine
                  // with this convention includes it), so there is nothing to undo: the report is the projected force of the
                  // atoms, plus the Jacobian term unless it is hidden; subtractAppliedForce changes nothing here.
                  double expect = hide ? fb[s] - kTjd : fb[s] + kTjd;
                  double got = cv->total_force().real_value;
                  if (s >= 1 && !close_rel(got, expect, std::max(1.0, std::fabs(expect)), 1e-9, 1e-10)) {
                    r.violation(std::string("C07:same-step:total-force-differs-from-applied-force-plus-jacobian:") + c.name + (hide ? ":hideJacobian" : "") + (sub ? ":subtractAppliedForce" : ""),
                                det + ",\"step\":" + std::to_string(s) + ",\"reported\":" + num(got) + ",\"expected\":" + num(expect) + ",\"bias_force\":" + num(fb[s]) + ",\"kT_jacobian\":" + num(kTjd) + "}");
                    break;
                  }
                }
                delete px;
              }
              r.seen("nontrivial", fnv(det));
              r.seen("states", fnv(det + num(fb.empty() ? 0 : fb.back())));
              if (ji == 0 && T > 0 && !hide && !sub && !ss) r.sample(det + ",\"bias_forces\":[" + num(fb[0]) + "," + num(fb[1]) + "," + num(fb[2]) + "]}");
            }

      // ---------- (3) Jacobian term = kT x divergence of the measurement field (finite differences, T = 300) ----------
      {
        Opt o3{300.0, false, false, true};
        double fj = 0;
        for (int b = 0; b < NAT; b++) F[b] = cvm::rvector(0, 0, 0);
        measure(c, o3, x, F, &fj);
        auto divergence = [&](double h) {
          double div = 0;
          for (int a = 0; a < NAT - 1; a++)
            for (int k = 0; k < 3; k++) {
              cvm::rvector xp[NAT], xm[NAT];
              for (int b = 0; b < NAT; b++) { xp[b] = x[b]; xm[b] = x[b]; }
              xp[a][k] += h;
              xm[a][k] -= h;
              for (int b = 0; b < NAT; b++) F[b] = cvm::rvector(0, 0, 0);
              F[a][k] = 1.0;
              div += (measure(c, o0, xp, F) - measure(c, o0, xm, F)) / (2 * h);
              r.count("evaluations", 2);
            }
          return div;
        };
        double d1 = divergence(1e-4), d2 = divergence(5e-5);
        double div = (4 * d2 - d1) / 3;
        std::string det = base + ",\"kT_jacobian_reported\":" + num(fj) + ",\"kT_divergence_of_measurement_field\":" + num(KB * 300.0 * div) + "}";
        if (std::fabs(d1 - d2) > 1e-5 * std::max(1.0, std::fabs(div))) r.count("jacobian_near_singular_skipped");
        else if (c.fitted) {
          // documented caveat: fitting options affect the Jacobian derivative in a way that is not taken into account
          r.count("jacobian_fitted_component_not_judged");
        } else if (!close_rel(fj, KB * 300.0 * div, std::max(1e-2, std::fabs(fj)), 1e-4, 1e-7))
          r.violation(std::string("C07:jacobian-term-differs-from-divergence-of-measurement-field:") + c.name, det);
        else r.count("jacobian_checked");
      }
    }
    // ---------- (4) alchemical variable: the "atoms" are the engine's lambda; its force is -dE/dlambda ----------
    if (shard == 0) {
      static const double G[3][5] = {{0, 0, 0, 0, 0}, {0.8, -0.3, 1.7, 0.4, -1.1}, {-1.6, 0.6, -3.4, -0.8, 2.2}};  // dE/dlambda histories; G[2] = -2 G[1]
      for (int sub = 0; sub <= 1; sub++)
        for (int ss = 0; ss <= 1; ss++) {
          std::vector<std::vector<double>> tot(3);
          bool failed = false;
          for (int gi = 0; gi < 3 && !failed; gi++) {
            std::string det = std::string("{\"component\":\"alchLambda (extended-Lagrangian)\",\"subtractAppliedForce\":") + (sub ? "true" : "false") + ",\"timing\":\"" + (ss ? "same-step" : "lagged") +
                              "\",\"dE_dlambda_history\":[" + num(G[gi][0]) + "," + num(G[gi][1]) + "," + num(G[gi][2]) + "," + num(G[gi][3]) + "," + num(G[gi][4]) + "]";
            r.count("evaluations");
            vproxy *px = new vproxy(2, ss != 0);
            px->set_target_temperature(300.0);
            px->alch_enabled = true;
            px->alch_lambda = 0.3;
            std::string conf = std::string("colvar {\n name l\n width 0.1\n lowerBoundary 0.0\n upperBoundary 1.0\n extendedLagrangian on\n extendedMass 2000.0\n") +
                               (sub ? " subtractAppliedForce on\n" : "") + " alchLambda {\n }\n}\nharmonic {\n name h\n colvars l\n centers 0.7\n forceConstant 0.02\n}\n";
            if (px->config(conf) != 0) {
              // the engine simulator supports alchemy: a refusal means the variable cannot measure its total force at all
              r.violation("C07:alchLambda:variable-cannot-be-defined", det + ",\"error\":\"" + jesc(px->errtxt.substr(0, 200)) + "\"}");
              delete px; failed = true; break;
            }
            for (int st = 0; st < 5 && !failed; st++) {
              px->alch_dEdl = G[gi][st];
              if (px->step(st) != 0) { r.violation("C07:error-during-run:alchLambda", det + ",\"error\":\"" + jesc(px->errtxt.substr(0, 200)) + "\"}"); failed = true; break; }
              r.count("transitions");
              colvar *cv = px->cv("l");
              double xl = cv->value().real_value;                 // extended coordinate at this step
              double fb = -(0.02 / (0.1 * 0.1)) * (xl - 0.7);     // restraint force (force constant scaled with the width)
              // the engine applies nothing on Colvars' behalf here (lambda is driven, not pushed): the force acting on the
              // variable at this step is the engine's -dE/dlambda alone, whatever the bias does to the fictitious mass
              (void) fb;
              double expect = -G[gi][st];
              double got = cv->total_force().real_value;
              tot[gi].push_back(got);
              if (!close_rel(got, expect, std::max(1.0, std::fabs(expect)), 1e-10, 1e-12)) {
                r.violation(std::string("C07:alchLambda:total-force-differs-from-minus-dE-dlambda-of-the-same-step") + (sub ? ":subtractAppliedForce" : ""),
                            det + ",\"step\":" + std::to_string(st) + ",\"reported\":" + num(got) + ",\"expected\":" + num(expect) + ",\"bias_force\":" + num(fb) + "}");
                failed = true;
              }
            }
            if (!failed) { r.seen("nontrivial", fnv(det)); r.seen("states", fnv(det + num(tot[gi].back()))); }
            delete px;
          }
        }
    }
  }, total, 7200);
  if (!ok) return 2;
  write_result(args.out, "C07", args.tier, total, true);
  return 0;
}
