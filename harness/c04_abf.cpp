// C04 — ABF stores the per-bin mean force and applies its smoothed negative.
// Explorer A: ALL words of length L over (value region x system force) x configuration menu x timing x
// segmentation (one run / new run in the same process at K / restart at K), against a reference ABF
// (a map bin -> list of samples) written from the property statement.
#include "vproxy.h"
#include "common.h"
#include "colvarbias_abf.h"

using namespace vc;

static const double REG[5] = {1.2, 1.7, 2.0, 0.6, 3.4};  // bin 0, bin 1, exact edge (bin 2), below, above  (grid [1,3] w 0.5)
static const double FRC[2] = {-1.0, 2.0};
static const double KB = 0.001987191;

struct Conf {
  const char *name;
  int nd;            // 1 or 2 variables
  bool periodic;     // variable is a periodic distanceZ on [0,2)
  int min_s, full_s;
  bool apply;
  double max_force;  // 0 = none
  int harmonic;      // 0 none, 1 harmonic on d, 2 harmonic on d with subtractAppliedForce
  double T;
  bool step_zero;
  bool grid_block;   // the grid is given by a grid { } block of the bias; the variables' own boundaries and widths differ from it
  bool no_integrate; // integrate off: no on-the-fly integrator object exists
  bool scaled;       // scaledBiasingForce with factors 0.5 (bins 0,1) and 2.0 (bins 2,3) read from a file; 1 outside the grid
  bool hide_jac;
  int sub2d;         // two variables: subtractAppliedForce on in e only (1) or in d only (2) - the bias must treat each variable on its own
};
// (hide_jac: hideJacobian on - the Jacobian term is left out of the samples and a compensating force -kT dln|J|/dxi acts on the variable)
static double scale_factor(Conf const &c, int bin) { return (!c.scaled || bin < 0) ? 1.0 : (bin < 2 ? 0.5 : 2.0); }

static std::string conf_text(Conf const &c, std::string const &input_prefix = "")
{
  std::string s;
  if (c.periodic) {
    s += "colvar {\n name d\n width 0.5\n lowerBoundary 0.0\n upperBoundary 2.0\n distanceZ {\n period 2.0\n wrapAround 1.0\n axis (1, 0, 0)\n main { atomNumbers 2 }\n ref { atomNumbers 1 }\n }\n}\n";
  } else {
    s += std::string(c.grid_block ? "colvar {\n name d\n width 0.5\n lowerBoundary 1.5\n upperBoundary 2.5\n" : "colvar {\n name d\n width 0.5\n lowerBoundary 1.0\n upperBoundary 3.0\n") + ((c.harmonic == 2 || c.sub2d == 2) ? " subtractAppliedForce on\n" : "") +
         " distance {\n group1 { atomNumbers 1 }\n group2 { atomNumbers 2 }\n }\n}\n";
  }
  if (c.nd == 2)
    s += std::string(c.grid_block ? "colvar {\n name e\n width 0.5\n lowerBoundary 1.5\n upperBoundary 2.0\n" : "colvar {\n name e\n width 0.5\n lowerBoundary 1.0\n upperBoundary 2.0\n") + (c.sub2d == 1 ? " subtractAppliedForce on\n" : "") + " distance {\n group1 { atomNumbers 3 }\n group2 { atomNumbers 4 }\n }\n}\n";
  s += std::string("abf {\n name a\n colvars d") + (c.nd == 2 ? " e" : "") + "\n fullSamples " + std::to_string(c.full_s) + "\n minSamples " + std::to_string(c.min_s) + "\n";
  if (!c.apply) s += " applyBias off\n";
  if (c.max_force > 0) s += " maxForce " + num(c.max_force) + (c.nd == 2 ? " " + num(c.max_force) : "") + "\n";
  if (c.step_zero) s += " stepZeroData on\n";
  if (c.no_integrate) s += " integrate off\n";
  if (c.hide_jac) s += " hideJacobian on\n";
  if (c.scaled) s += " scaledBiasingForce on\n scaledBiasingForceFactorsGrid c04_factors.dat\n";
  if (input_prefix.size()) s += " inputPrefix " + input_prefix + "\n";
  if (c.grid_block) s += std::string(" grid {\n lowerBoundary 1.0") + (c.nd == 2 ? " 1.0" : "") + "\n upperBoundary 3.0" + (c.nd == 2 ? " 2.0" : "") +
                         "\n width 0.5" + (c.nd == 2 ? " 0.5" : "") + "\n }\n";
  s += "}\n";
  if (c.harmonic) s += "harmonic {\n name h\n colvars d\n centers 1.4\n forceConstant 0.6\n}\n";
  return s;
}

// ---------- reference ABF ----------
struct RefABF {
  Conf const &c;
  std::map<int, std::vector<std::vector<double>>> samples;  // flat bin -> list of force vectors
  RefABF(Conf const &cc) : c(cc) {}
  int nbins0() const { return 4; }
  // bin index of a value along dimension 0 / 1, -1 if outside
  static int bin_of(double v, double lo, double w, int n)
  {
    double q = std::floor((v - lo) / w);
    if (q < 0 || q >= n) return -1;
    return (int) q;
  }
  int flat(double v0, double v1) const
  {
    int b0 = c.periodic ? bin_of(v0, 0.0, 0.5, 4) : bin_of(v0, 1.0, 0.5, 4);
    if (b0 < 0) return -1;
    if (c.nd == 1) return b0;
    int b1 = bin_of(v1, 1.0, 0.5, 2);
    if (b1 < 0) return -1;
    return b0 * 2 + b1;
  }
  void add(int bin, std::vector<double> const &f) { if (bin >= 0) samples[bin].push_back(f); }
  long count(int bin) const { auto it = samples.find(bin); return it == samples.end() ? 0 : (long) it->second.size(); }
  std::vector<double> mean(int bin) const
  {
    std::vector<double> m(c.nd, 0.0);
    auto it = samples.find(bin);
    if (it == samples.end() || it->second.empty()) return m;
    for (auto &f : it->second) for (int i = 0; i < c.nd; i++) m[i] += f[i];
    for (int i = 0; i < c.nd; i++) m[i] /= it->second.size();
    return m;
  }
  double ramp(long n) const
  {
    if (n >= c.full_s) return 1.0;
    if (n < c.min_s) return 0.0;
    return double(n - c.min_s) / double(c.full_s - c.min_s);
  }
  // biasing force applied when the variable is in `bin`
  std::vector<double> bias_force(int bin) const
  {
    std::vector<double> f(c.nd, 0.0);
    if (bin < 0 || !c.apply) return f;
    std::vector<double> m = mean(bin);
    double r = ramp(count(bin));
    for (int i = 0; i < c.nd; i++) f[i] = -r * m[i];
    if (c.periodic && c.nd == 1) {
      // zero-mean over the period (the harness uses minSamples 0 / fullSamples 1 here, so ramped = unramped)
      double avg = 0;
      for (int b = 0; b < 4; b++) avg += -mean(b)[0];
      avg /= 4;
      f[0] -= avg;
    }
    if (c.max_force > 0)
      for (int i = 0; i < c.nd; i++) if (std::fabs(f[i]) > c.max_force) f[i] = f[i] > 0 ? c.max_force : -c.max_force;
    return f;
  }
};

struct Letter { int reg, frc; };

static void place(vproxy &px, Conf const &c, Letter l, long s)
{
  double f = FRC[l.frc];
  px.x[0] = cvm::rvector(0, 0, 0);
  px.x[1] = cvm::rvector(REG[l.reg], 0, 0);
  px.x[2] = cvm::rvector(0, 3, 0);
  px.x[3] = cvm::rvector((s % 3 == 1) ? 1.7 : 1.2, 3, 0);
  px.fsys[0] = cvm::rvector(-f, 0.2, 0);
  px.fsys[1] = cvm::rvector(f, -0.1, 0.3);
  px.fsys[2] = cvm::rvector(0.25 * (s + 1), 0, 0);
  px.fsys[3] = cvm::rvector(-0.25 * (s + 1), 0, 0.1);
}
static double val0(Conf const &c, Letter l)
{
  double v = REG[l.reg];
  if (c.periodic) { v = v - 2.0 * std::floor(v / 2.0); }  // wrap into [0,2)
  return v;
}
static double val1(long s) { return (s % 3 == 1) ? 1.7 : 1.2; }
// system force projected on each variable (as measured by the documented total-force formulas)
static std::vector<double> sysforce(Conf const &c, Letter l, long s)
{
  std::vector<double> f;
  f.push_back(FRC[l.frc]);                       // 0.5*((f) - (-f)) along x
  if (c.nd == 2) f.push_back(0.5 * (-0.25 * (s + 1) - 0.25 * (s + 1)));
  return f;
}


// One run of `w` from a fresh module (engine steps 0..n-1), output files written under `prefix` at the end; the samples the
// statement attributes to this run are appended to `ref`.  Returns false when the library reported an error.
static bool run_and_write(Conf const &c, int ss, std::vector<Letter> const &w, std::string const &prefix, RefABF &ref, std::string &err)
{
  vproxy *px = new vproxy(4, ss != 0);
  px->set_target_temperature(c.T);
  px->set_prefixes(prefix);
  place(*px, c, w[0], 0);
  if (px->config(conf_text(c)) != 0) { err = px->errtxt; delete px; return false; }
  std::vector<double> prev_other(c.nd, 0.0);
  for (long s = 0; s < (long) w.size(); s++) {
    place(*px, c, w[s], s);
    if (px->step(s) != 0) { err = px->errtxt; delete px; return false; }
    if (!ss) {
      if (s >= 1) {
        std::vector<double> f = sysforce(c, w[s - 1], s - 1);
        if (c.harmonic == 1) f[0] += prev_other[0];
        if (c.T > 0 && !c.hide_jac) f[0] += KB * c.T * 2.0 / REG[w[s - 1].reg];
        ref.add(ref.flat(val0(c, w[s - 1]), val1(s - 1)), f);
      }
    } else if (s >= 1) {
      std::vector<double> f = sysforce(c, w[s], s);
      if (c.T > 0 && !c.hide_jac) f[0] += KB * c.T * 2.0 / REG[w[s].reg];
      ref.add(ref.flat(val0(c, w[s]), val1(s)), f);
    }
    if (c.harmonic) prev_other[0] = -0.6 * (REG[w[s].reg] - 1.4) / 0.25;
  }
  int rc = px->end_run();
  if (rc != 0) err = px->errtxt;
  delete px;
  return rc == 0;
}

int main(int argc, char **argv)
{
  Args args(argc, argv);
  bool thorough = args.thorough();
  int L_short = thorough ? 4 : 3;
  int L = L_short;
  std::vector<Conf> confs = {
      {"1d-full1", 1, false, 0, 1, true, 0, 0, 0, false},
      {"1d-ramp-1-3", 1, false, 1, 3, true, 0, 0, 0, false},
      {"1d-applyBias-off", 1, false, 0, 1, false, 0, 0, 0, false},
      {"1d-maxForce", 1, false, 0, 2, true, 0.8, 0, 0, false},
      {"1d-plus-harmonic", 1, false, 0, 1, true, 0, 1, 0, false},
      {"1d-plus-harmonic-subtractAppliedForce", 1, false, 0, 1, true, 0, 2, 0, false},
      {"1d-jacobian-T300", 1, false, 0, 1, true, 0, 0, 300.0, false},
      {"1d-periodic", 1, true, 0, 1, true, 0, 0, 0, false},
      {"1d-periodic-maxForce", 1, true, 0, 1, true, 0.8, 0, 0, false},
      {"1d-periodic-ramp-1-3-maxForce", 1, true, 1, 3, true, 0.6, 0, 0, false},
      {"2d", 2, false, 0, 2, true, 0, 0, 0, false},
      {"2d-subtractAppliedForce-in-the-second-variable-only", 2, false, 0, 2, true, 0, 0, 0, false, false, false, false, false, 1},
      {"2d-subtractAppliedForce-in-the-first-variable-only", 2, false, 0, 2, true, 0, 0, 0, false, false, false, false, false, 2},
      {"1d-grid-block", 1, false, 0, 1, true, 0, 0, 0, false, true},
      {"1d-grid-block-ramp-1-3-plus-harmonic", 1, false, 1, 3, true, 0, 1, 0, false, true},
      {"2d-grid-block", 2, false, 0, 2, true, 0, 0, 0, false, true},
      {"1d-integrate-off", 1, false, 0, 1, true, 0, 0, 0, false, false, true},
      {"1d-jacobian-T300-hideJacobian", 1, false, 0, 1, true, 0, 0, 300.0, false, false, false, false, true},
      {"1d-scaledBiasingForce", 1, false, 0, 1, true, 0, 0, 0, false, false, false, true},
      {"1d-scaledBiasingForce-ramp-1-3", 1, false, 1, 3, true, 0, 0, 0, false, false, false, true},
  };
  {
    // factors of scaledBiasingForce on the grid of d ([1,3], width 0.5), multicolumn format
    FILE *ff = fopen("c04_factors.dat", "w");
    if (!ff) { perror("c04_factors.dat"); return 2; }
    fprintf(ff, "# 1\n# 1.0 0.5 4 0\n\n 1.25 0.5\n 1.75 0.5\n 2.25 2.0\n 2.75 2.0\n");
    fclose(ff);
  }
  long nw = 1;
  for (int i = 0; i < L; i++) nw *= 10;
  std::string only = args.kv.count("only") ? args.kv["only"] : "";

  Result total;
  bool ok = run_sharded(args.jobs, [&](int shard, int nsh, Result &r) {
    for (size_t ci = 0; ci < confs.size(); ci++) {
      Conf const &c = confs[ci];
      if (only.size() && only != c.name) continue;
      std::string conf = conf_text(c);
      // all words of length L, then two long scripted words (30 letters; thorough 48): many samples per bin, ramps crossed,
      // repeated excursions out of the grid
      long nlong = 2;
      for (long wq = shard; wq < nw + nlong; wq += nsh) {
        long w = wq;
        int L = L_short;
        std::vector<Letter> word;
        if (wq >= nw) {
          L = thorough ? 48 : 30;
          word.resize(L);
          for (int i = 0; i < L; i++) { int q = (int) (((wq - nw + 3) * (long) i * i + 7 * i + 2 * (wq - nw)) % 10); word[i] = Letter{q / 2, q % 2}; }
        } else {
          word.resize(L);
          long q = w;
          for (int i = 0; i < L; i++) { word[i] = Letter{int(q % 10) / 2, int(q % 10) % 2}; q /= 10; }
        }
        std::string wj = "[";
        for (int i = 0; i < L; i++) wj += std::string(i ? "," : "") + "[" + num(REG[word[i].reg]) + "," + num(FRC[word[i].frc]) + "]";
        wj += "]";
        for (int ss = 0; ss <= 1; ss++) {
          // segmentation: mode 0 none; 1 new run in the same process at K; 2 restart at K from the saved state; 3 new
          // simulation at K that reads the output files of the first through the bias's inputPrefix keyword
          for (int mode = 0; mode <= 3; mode++)
            for (int K = (mode ? 1 : 0); K < (mode ? L - 1 : 1); K++) {
              r.count("evaluations");
              std::string det = std::string("{\"config\":\"") + c.name + "\",\"timing\":\"" + (ss ? "same-step" : "lagged") + "\",\"history\":" + wj +
                                ",\"segmentation\":\"" + (mode == 0 ? "one run" : (mode == 1 ? "new run at step " : (mode == 2 ? "restart at step " : "new simulation with inputPrefix at step "))) +
                                (mode ? std::to_string(K) : "") + "\"";
              vproxy *px = new vproxy(4, ss != 0);
              px->set_target_temperature(c.T);
              std::string ipfx = "ip" + std::to_string(shard);
              if (mode == 3) px->set_prefixes(ipfx);
              place(*px, c, word[0], 0);
              if (px->config(conf) != 0) { fprintf(stderr, "HARNESS-ERROR: %s rejected: %s\n", c.name, px->errtxt.c_str()); exit(3); }
              RefABF ref(c);
              // call sequence
              std::vector<long> calls;
              for (long s = 0; s < L; s++) { calls.push_back(s); if (mode && s == K) calls.push_back(s); }
              long prev = -1;
              bool failed = false;
              // quantities of the previous engine step needed by the lagged convention
              std::vector<double> prev_other(c.nd, 0.0);  // force of other biases on each variable at the previous call
              for (size_t k = 0; k < calls.size() && !failed; k++) {
                long s = calls[k];
                bool repeat = (s == prev);
                if (repeat) {
                  px->end_run();
                  if (mode == 2 || mode == 3) {
                    std::string st = mode == 2 ? px->state_text() : std::string();
                    delete px;
                    px = new vproxy(4, ss != 0);
                    px->set_target_temperature(c.T);
                    place(*px, c, word[s], s);
                    if (px->config(mode == 2 ? conf : conf_text(c, ipfx)) != 0) {
                      if (mode == 3) { r.violation(std::string("C04:input-files-refused:") + c.name, det + ",\"error\":\"" + jesc(px->errtxt.substr(0, 300)) + "\"}"); failed = true; break; }
                      fprintf(stderr, "HARNESS-ERROR: %s rejected at restart\n", c.name); exit(3);
                    }
                    if (mode == 2) px->queue_state_text(st);
                  }
                }
                place(*px, c, word[s], s);
                if (px->step(s) != 0) {
                  r.violation(std::string("C04:error-during-run:") + c.name, det + ",\"error\":\"" + jesc(px->errtxt.substr(0, 200)) + "\"}");
                  failed = true;
                  break;
                }
                r.count("transitions");
                // ---- reference: which sample does this call add? ----
                int bin_now = ref.flat(val0(c, word[s]), val1(s));
                if (!ss) {
                  // lagged: the forces exerted at engine step s-1 (measured now), attributed to the bin occupied at s-1;
                  // only when s-1 -> s was an integrated step (not a repetition)
                  if (s >= 1 && !repeat) {
                    Letter lp = word[s - 1];
                    std::vector<double> f = sysforce(c, lp, s - 1);
                    if (c.harmonic == 1) f[0] += prev_other[0];   // other biases' forces are part of the total force
                    if (c.T > 0 && !c.hide_jac) f[0] += KB * c.T * 2.0 / REG[lp.reg];  // documented Jacobian term of a distance
                    ref.add(ref.flat(val0(c, lp), val1(s - 1)), f);
                  }
                } else {
                  // same step: the system force of this step, in the bin occupied now; first call of a run is a repetition
                  // (or step 0, which is not eligible)
                  if (s >= 1 && !repeat) {
                    std::vector<double> f = sysforce(c, word[s], s);
                    if (c.T > 0 && !c.hide_jac) f[0] += KB * c.T * 2.0 / REG[word[s].reg];
                    ref.add(bin_now, f);
                  }
                }
                if (c.harmonic) prev_other[0] = -0.6 * (REG[word[s].reg] - 1.4) / 0.25;
                // ---- compare stored data (every bin) ----
                colvarbias_abf *abf = dynamic_cast<colvarbias_abf *>(px->bias("a"));
                int nb = c.nd == 1 ? 4 : 8;
                for (int b = 0; b < nb && !failed; b++) {
                  std::vector<int> ix = c.nd == 1 ? std::vector<int>{b} : std::vector<int>{b / 2, b % 2};
                  long cnt = (long) abf->samples->value(ix);
                  if (cnt != ref.count(b)) {
                    std::string why = cnt > ref.count(b) ? "extra-sample" : "missing-sample";
                    r.violation(std::string("C04:count:") + why + ":" + (ss ? "same-step" : "lagged") + ":" + (mode == 0 ? "one-run" : (mode == 1 ? "new-run" : (mode == 2 ? "restart" : "inputPrefix"))),
                                det + ",\"step\":" + std::to_string(s) + ",\"bin\":" + std::to_string(b) + ",\"count\":" + std::to_string(cnt) +
                                    ",\"expected\":" + std::to_string(ref.count(b)) + "}");
                    failed = true;
                    break;
                  }
                  std::vector<double> m = ref.mean(b);
                  for (int i = 0; i < c.nd; i++) {
                    double g = abf->gradients->value_output(ix, i);
                    if (!close_rel(g, -m[i], std::max(1.0, std::fabs(m[i])), mode >= 2 ? 1e-9 : 1e-12)) {
                      r.violation(std::string("C04:gradient-differs-from-minus-mean-force:") + c.name,
                                  det + ",\"step\":" + std::to_string(s) + ",\"bin\":" + std::to_string(b) + ",\"gradient\":" + num(g) + ",\"expected\":" + num(-m[i]) + "}");
                      failed = true;
                      break;
                    }
                  }
                }
                if (failed) break;
                // ---- compare applied biasing force on the variables ----
                std::vector<double> fb = ref.bias_force(bin_now);
                for (int i = 0; i < c.nd; i++) {
                  double got = abf->colvar_forces[i].real_value;
                  if (!c.apply) got = abf->is_enabled(colvardeps::f_cvb_apply_force) ? got : 0.0;
                  if (!close_rel(got, fb[i], std::max(1.0, std::fabs(fb[i])), mode >= 2 ? 1e-9 : 1e-12)) {
                    r.violation(std::string("C04:applied-force-differs:") + c.name + (bin_now < 0 ? ":outside-grid" : ""),
                                det + ",\"step\":" + std::to_string(s) + ",\"force\":" + num(got) + ",\"expected\":" + num(fb[i]) + "}");
                    failed = true;
                    break;
                  }
                }
                // what the engine receives: ABF force (+ harmonic) on atom 2 along x
                if (!failed) {
                  double fx = scale_factor(c, bin_now) * fb[0] + (c.harmonic ? -0.6 * (REG[word[s].reg] - 1.4) / 0.25 : 0.0);
                  if (c.hide_jac) fx -= KB * c.T * 2.0 / REG[word[s].reg];  // the compensating force, whatever the bin
                  if (!close_rel(px->fapp[1].x, fx, std::max(1.0, std::fabs(fx)), mode >= 2 ? 1e-9 : 1e-12)) {
                    r.violation(std::string("C04:atomic-force-differs:") + c.name,
                                det + ",\"step\":" + std::to_string(s) + ",\"force_x_atom2\":" + num(px->fapp[1].x) + ",\"expected\":" + num(fx) + "}");
                    failed = true;
                  }
                }
                prev = s;
              }
              if (!failed) {
                std::string h;
                for (auto &kv : ref.samples) h += std::to_string(kv.first) + ":" + std::to_string(kv.second.size()) + ":" + num(ref.mean(kv.first)[0]) + ";";
                r.seen("states", fnv(std::string(c.name) + h));
                if (!ref.samples.empty()) r.seen("nontrivial", fnv(det));
              }
              if (w == 1234 % nw && mode == 0 && ss == 0) r.sample(det + "}");
              delete px;
            }
          // documented: "the grid definition (min and max values, width) need not be the same [...] or change the colvar boundary
          // values and widths": the files of the whole word read by a simulation whose bins are twice as wide ([1,2) and [2,3))
          if (std::string(c.name) == "1d-full1" && L <= 8) {
            r.count("evaluations");
            std::string det = std::string("{\"config\":\"") + c.name + "\",\"timing\":\"" + (ss ? "same-step" : "lagged") + "\",\"history\":" + wj +
                              ",\"segmentation\":\"one simulation with width 0.5; its files read through inputPrefix by one with width 1.0\"";
            RefABF ref(c);
            std::string err, pa = "cw" + std::to_string(shard);
            if (!run_and_write(c, ss, word, pa, ref, err)) r.violation(std::string("C04:error-during-run:") + c.name, det + ",\"error\":\"" + jesc(err.substr(0, 200)) + "\"}");
            else {
              vproxy *px = new vproxy(4, ss != 0);
              place(*px, c, word[0], 0);
              std::string cc = "colvar {\n name d\n width 1.0\n lowerBoundary 1.0\n upperBoundary 3.0\n distance {\n group1 { atomNumbers 1 }\n group2 { atomNumbers 2 }\n }\n}\n"
                               "abf {\n name a\n colvars d\n fullSamples 1\n minSamples 0\n inputPrefix " + pa + "\n}\n";
              if (px->config(cc) != 0) r.violation(std::string("C04:input-files-refused:") + c.name, det + ",\"error\":\"" + jesc(px->errtxt.substr(0, 300)) + "\"}");
              else {
                colvarbias_abf *abf = dynamic_cast<colvarbias_abf *>(px->bias("a"));
                for (int B = 0; B < 2; B++) {
                  long n = ref.count(2 * B) + ref.count(2 * B + 1);
                  double sum = 0;
                  for (int b = 2 * B; b < 2 * B + 2; b++) sum += ref.mean(b)[0] * ref.count(b);
                  double m = n ? sum / n : 0.0;
                  std::vector<int> ix{B};
                  long cnt = (long) abf->samples->value(ix);
                  double g = abf->gradients->value_output(ix, 0);
                  if (cnt != n) { r.violation("C04:inputPrefix-onto-a-coarser-grid:count-is-not-the-sum-over-the-merged-bins", det + ",\"bin\":" + std::to_string(B) + ",\"count\":" + std::to_string(cnt) + ",\"expected\":" + std::to_string(n) + "}"); break; }
                  if (!close_rel(g, -m, std::max(1.0, std::fabs(m)), 1e-9)) { r.violation("C04:inputPrefix-onto-a-coarser-grid:gradient-is-not-the-mean-over-the-merged-samples", det + ",\"bin\":" + std::to_string(B) + ",\"gradient\":" + num(g) + ",\"expected\":" + num(-m) + "}"); break; }
                }
                if (!ref.samples.empty()) r.seen("nontrivial", fnv(det));
              }
              delete px;
            }
          }
          // merging: two independent simulations (letters 0..K and K..L-1, each from scratch) write their files; a third one
          // names both in inputPrefix: it must start from the union of their samples (counts add, gradients are the mean over
          // all samples) and apply the force that follows from it
          for (int K = 1; K < L - 1 && L <= 8; K++) {
            r.count("evaluations");
            std::string det = std::string("{\"config\":\"") + c.name + "\",\"timing\":\"" + (ss ? "same-step" : "lagged") + "\",\"history\":" + wj +
                              ",\"segmentation\":\"two simulations (letters 0.." + std::to_string(K) + " and " + std::to_string(K) + ".." + std::to_string(L - 1) +
                              ") merged by a third through inputPrefix\"";
            RefABF ref(c);
            std::string err, pa = "ma" + std::to_string(shard), pb = "mb" + std::to_string(shard);
            std::vector<Letter> wa(word.begin(), word.begin() + K + 1), wb(word.begin() + K, word.end());
            if (!run_and_write(c, ss, wa, pa, ref, err) || !run_and_write(c, ss, wb, pb, ref, err)) {
              r.violation(std::string("C04:error-during-run:") + c.name, det + ",\"error\":\"" + jesc(err.substr(0, 200)) + "\"}");
              continue;
            }
            vproxy *px = new vproxy(4, ss != 0);
            px->set_target_temperature(c.T);
            place(*px, c, word[0], 0);
            if (px->config(conf_text(c, pa + " " + pb)) != 0) {
              r.violation(std::string("C04:input-files-refused:") + c.name, det + ",\"error\":\"" + jesc(px->errtxt.substr(0, 300)) + "\"}");
              delete px;
              continue;
            }
            bool failed = false;
            if (px->step(0) != 0) { r.violation(std::string("C04:error-during-run:") + c.name, det + ",\"error\":\"" + jesc(px->errtxt.substr(0, 200)) + "\"}"); failed = true; }
            r.count("transitions");
            colvarbias_abf *abf = dynamic_cast<colvarbias_abf *>(px->bias("a"));
            int nb = c.nd == 1 ? 4 : 8;
            for (int b = 0; b < nb && !failed; b++) {
              std::vector<int> ix = c.nd == 1 ? std::vector<int>{b} : std::vector<int>{b / 2, b % 2};
              long cnt = (long) abf->samples->value(ix);
              if (cnt != ref.count(b)) {
                r.violation(std::string("C04:count:") + (cnt > ref.count(b) ? "extra-sample" : "missing-sample") + ":" + (ss ? "same-step" : "lagged") + ":merged-inputPrefix",
                            det + ",\"bin\":" + std::to_string(b) + ",\"count\":" + std::to_string(cnt) + ",\"expected\":" + std::to_string(ref.count(b)) + "}");
                failed = true;
                break;
              }
              std::vector<double> m = ref.mean(b);
              for (int i = 0; i < c.nd; i++) {
                double g = abf->gradients->value_output(ix, i);
                if (!close_rel(g, -m[i], std::max(1.0, std::fabs(m[i])), 1e-9)) {
                  r.violation(std::string("C04:gradient-differs-from-minus-mean-force:merged-inputPrefix:") + c.name,
                              det + ",\"bin\":" + std::to_string(b) + ",\"gradient\":" + num(g) + ",\"expected\":" + num(-m[i]) + "}");
                  failed = true;
                  break;
                }
              }
            }
            if (!failed) {
              std::vector<double> fb = ref.bias_force(ref.flat(val0(c, word[0]), val1(0)));
              for (int i = 0; i < c.nd; i++) {
                double got = abf->colvar_forces[i].real_value;
                if (!c.apply) got = abf->is_enabled(colvardeps::f_cvb_apply_force) ? got : 0.0;
                if (!close_rel(got, fb[i], std::max(1.0, std::fabs(fb[i])), 1e-9)) {
                  r.violation(std::string("C04:applied-force-differs:merged-inputPrefix:") + c.name, det + ",\"force\":" + num(got) + ",\"expected\":" + num(fb[i]) + "}");
                  failed = true;
                  break;
                }
              }
            }
            if (!failed && !ref.samples.empty()) r.seen("nontrivial", fnv(det));
            delete px;
          }
        }
      }
    }
  }, total, 7200);
  if (!ok) return 2;
  write_result(args.out, "C04", args.tier, total, true);
  return 0;
}
