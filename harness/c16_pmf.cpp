// C16 — PMF integration solves the stated discrete problem; incremental divergence equals batch.
//
// Bounded-exhaustive on the REAL integrate_potential / colvar_grid_gradient / colvarbias_abf code:
//  ONED  : every gradient array over {-1,0,2}^n x counts {0,1,3}^n, n<=5, periodic or not, two widths, with and
//          without a count grid: integrate() and write_1D_integral() against the cumulative sum.
//  BASIS : every grid shape (2-4 / 2-6 bins per dimension, 2-D and 3-D, all periodic-flag combinations, two
//          anisotropic width sets): the response of set_div()/update_div_neighbors() to EVERY unit gradient
//          (bin x component) and of atimes() to EVERY unit potential (node) against the reference stencil
//          (linearity => all fields decided), plus dense fields as a linearity guard.
//  SOLVE : for every shape, integrate() for every unit gradient load and dense loads, two tolerances; reference
//          residual ||L A - div|| <= tol ||div||; warm-started second solves (load replaced, including by a load
//          whose divergence vanishes).
//  ARR   : every arrival sequence of <=5 samples over 3 bins x 2 force vectors, on direct grid objects:
//          after every arrival the private `divergence` equals the reference divergence of the current gradients,
//          and at the end equals a from-scratch set_div() on a second integrate_potential.
//  ABF   : the same through a real ABF bias driven by the engine simulator (1-D, 2-D, 3-D; same-step and lagged
//          total forces; optional pABF re-integration every step), then the written .pmf file is parsed and checked.
//  CONV  : gradients sampled from three smooth surfaces on n = 8..64 (2-D) / 8..32(64) (3-D): observed order >= 1.8.
#include "vproxy.h"
#include "common.h"
#include "colvargrid.h"
#include "colvarbias_abf.h"
#include "colvarbias_restraint.h"
#include "c16_ref.h"

#include <memory>
#include <fstream>
#include <algorithm>
#include <sys/stat.h>

using namespace vc;
using namespace c16;

static bool g_thorough = false;
static std::string g_scratch = ".";
static vproxy *g_px = nullptr;
static std::string g_only = "";

// the LIBRARY refused a known-good configuration, failed a step on it, or lost/duplicated samples the script delivered: the oracle
// of this check cannot be evaluated, and that is the library's doing (exit code 3 is reported as a violation, not a harness error)
static void lerr(std::string const &msg)
{
  fprintf(stderr, "LIBRARY-FAILURE: %s\n", msg.c_str());
  fflush(stderr);
  _exit(3);
}

static void herr(std::string const &msg)
{
  fprintf(stderr, "HARNESS-ERROR: %s\n", msg.c_str());
  fflush(NULL);
  _exit(2);
}

static std::string f17(double v)
{
  char b[48];
  snprintf(b, 48, "%.17g", v);
  return b;
}

static std::string vec_json(std::vector<double> const &v, size_t cap = 64)
{
  std::string s = "[";
  for (size_t i = 0; i < v.size() && i < cap; i++) s += (i ? "," : "") + num(v[i]);
  if (v.size() > cap) s += ",\"...\"";
  return s + "]";
}

// ------------------------------------------------------------------------------------------------
// colvar zoo: one distanceZ colvar per (dimension, bins, periodic, width set)
// ------------------------------------------------------------------------------------------------
static const double WSET[2][3] = {{1.0, 0.5, 2.0}, {0.7, 1.3, 0.4}};
static const double LSET[2][3] = {{0.0, -1.0, 2.0}, {-1.1, 0.3, 0.0}};
static const double CONV_L[3] = {2.0, 3.0, 1.5};
static const int NMAX_BASIS = 6;

static std::string axis_txt(int d) { return d == 0 ? "(1.0, 0.0, 0.0)" : d == 1 ? "(0.0, 1.0, 0.0)" : "(0.0, 0.0, 1.0)"; }

static std::string cv_conf(std::string const &name, int d, double lb, double w, int n, bool per)
{
  double ub = lb + n * w;
  std::string s = "colvar {\n name " + name + "\n width " + f17(w) + "\n lowerBoundary " + f17(lb) +
                  "\n upperBoundary " + f17(ub) + "\n distanceZ {\n axis " + axis_txt(d) + "\n";
  if (per) s += " period " + f17(n * w) + "\n wrapAround " + f17(lb + 0.5 * n * w) + "\n";
  s += " oneSiteTotalForce on\n main { atomNumbers 1 }\n ref { atomNumbers 2 }\n }\n}\n";
  return s;
}

static std::string basis_name(int d, int n, bool p, int s)
{
  return "v" + std::to_string(d) + "n" + std::to_string(n) + "p" + std::to_string((int) p) + "s" + std::to_string(s);
}
static std::string conv_name(int d, int n, bool p)
{
  return "k" + std::to_string(d) + "n" + std::to_string(n) + "p" + std::to_string((int) p);
}
static std::vector<int> conv_levels(int nd)
{
  if (nd == 2) return g_thorough ? std::vector<int>{8, 16, 32, 64, 128} : std::vector<int>{8, 16, 32, 64};
  return g_thorough ? std::vector<int>{8, 16, 32, 64} : std::vector<int>{8, 16, 32};
}

static void make_zoo()
{
  g_px = new vproxy(2);
  g_px->x[0] = cvm::rvector(0.5, 0.5, 0.5);
  g_px->x[1] = cvm::rvector(0, 0, 0);
  std::string conf;
  for (int d = 0; d < 3; d++)
    for (int n = 1; n <= NMAX_BASIS; n++)
      for (int p = 0; p < 2; p++)
        for (int s = 0; s < 2; s++) conf += cv_conf(basis_name(d, n, p, s), d, LSET[s][d], WSET[s][d], n, p);
  for (int d = 0; d < 3; d++)
    for (int n : {8, 16, 32, 64, 128})
      for (int p = 0; p < 2; p++) conf += cv_conf(conv_name(d, n, p), d, 0.0, CONV_L[d] / n, n, p);
  int rc = g_px->config(conf);
  if (rc != 0) lerr("zoo configuration failed: " + g_px->errtxt);
}

// ------------------------------------------------------------------------------------------------
// system under test: the three real grid objects
// ------------------------------------------------------------------------------------------------
struct Sut {
  RGrid g;
  std::vector<colvar *> cvs;
  std::shared_ptr<colvar_grid_count> cnt;
  std::shared_ptr<colvar_grid_gradient> grad;
  std::unique_ptr<integrate_potential> pmf;
  bool has_counts = false;
  std::vector<int> bin_ix(long b) const
  {
    int i[3]; g.bin_unindex(b, i);
    return std::vector<int>(i, i + g.nd);
  }
  std::vector<int> node_ix(long n) const
  {
    int i[3]; g.node_unindex(n, i);
    return std::vector<int>(i, i + g.nd);
  }
};

static void verify_sut(Sut &s)
{
  RGrid &g = s.g;
  if ((int) s.grad->nd != g.nd || (int) s.pmf->nd != g.nd) lerr("grid dimension mismatch " + g.str());
  if ((int) s.grad->mult != g.nd) lerr("gradient multiplicity mismatch " + g.str());
  for (int d = 0; d < g.nd; d++) {
    if (s.grad->nx[d] != g.nb[d]) lerr("gradient grid size differs from the configured number of bins " + g.str());
    if (s.pmf->nx[d] != g.np[d]) lerr("potential grid size differs from bins(+1) " + g.str() + " got " + std::to_string(s.pmf->nx[d]));
    if ((bool) s.grad->periodic[d] != g.per[d] || (bool) s.pmf->periodic[d] != g.per[d]) lerr("periodic flag not as configured " + g.str());
    if (std::fabs(s.pmf->widths[d] - g.w[d]) > 1e-14 || std::fabs(s.grad->widths[d] - g.w[d]) > 1e-14) lerr("width mismatch " + g.str());
    if (std::fabs(s.grad->lower_boundaries[d].real_value - g.lb[d]) > 1e-12) lerr("lower boundary mismatch " + g.str());
  }
  if ((long) s.pmf->nt != g.nnodes) lerr("node count mismatch " + g.str());
  if (g.nd > 1 && (long) s.pmf->divergence.size() != g.nnodes) lerr("divergence size mismatch " + g.str());
}

static void build_sut(Sut &s, RGrid const &g, std::vector<colvar *> const &cvs, bool has_counts, bool ctor_gradient_only)
{
  s.g = g;
  s.cvs = cvs;
  s.has_counts = has_counts;
  cvm::clear_error();
  if (has_counts) s.cnt.reset(new colvar_grid_count(s.cvs));
  else s.cnt.reset();
  s.grad.reset(new colvar_grid_gradient(s.cvs, s.cnt));
  s.grad->full_samples = 3;
  s.grad->min_samples = 1;
  if (ctor_gradient_only) s.pmf.reset(new integrate_potential(s.grad));
  else s.pmf.reset(new integrate_potential(s.cvs, s.grad));
  if (cvm::get_error()) lerr("grid construction raised an error for " + g.str() + ": " + g_px->errtxt);
  verify_sut(s);
}

static RGrid basis_grid(int nd, const int *nb, const bool *per, int ws, std::vector<colvar *> &cvs)
{
  RGrid g;
  g.nd = nd;
  cvs.clear();
  for (int d = 0; d < nd; d++) {
    g.nb[d] = nb[d]; g.per[d] = per[d]; g.w[d] = WSET[ws][d]; g.lb[d] = LSET[ws][d];
    colvar *cv = g_px->cv(basis_name(d, nb[d], per[d], ws));
    if (!cv) herr("missing colvar " + basis_name(d, nb[d], per[d], ws));
    cvs.push_back(cv);
  }
  g.finish();
  return g;
}

// sums S[bin*nd+c] and counts C[bin] -> real grids
static void load(Sut &s, std::vector<double> const &S, std::vector<long> const &C)
{
  for (long b = 0; b < s.g.nbins; b++) {
    std::vector<int> ix = s.bin_ix(b);
    for (int c = 0; c < s.g.nd; c++) s.grad->set_value(ix, S[b * s.g.nd + c], c);
    if (s.has_counts) s.cnt->set_value(ix, (size_t) C[b]);
  }
}

static std::vector<double> ref_field(RGrid const &g, std::vector<double> const &S, std::vector<long> const &C, bool has_counts,
                                     bool smoothed, int mn, int full)
{
  std::vector<double> G(S.size());
  for (long b = 0; b < g.nbins; b++)
    for (int c = 0; c < g.nd; c++) G[b * g.nd + c] = ref_bin_value(S[b * g.nd + c], has_counts ? C[b] : 1, has_counts, smoothed, mn, full);
  return G;
}

static std::vector<double> get_div(Sut &s, integrate_potential *p = nullptr)
{
  if (!p) p = s.pmf.get();
  std::vector<double> v(s.g.nnodes);
  for (long n = 0; n < s.g.nnodes; n++) v[n] = p->divergence[p->address(s.node_ix(n))];
  return v;
}
static std::vector<double> get_data(Sut &s)
{
  std::vector<double> v(s.g.nnodes);
  for (long n = 0; n < s.g.nnodes; n++) v[n] = s.pmf->data[s.pmf->address(s.node_ix(n))];
  return v;
}

// first index where |a-b| exceeds tolerance, or -1
static long first_diff(std::vector<double> const &a, std::vector<double> const &b, double rel = 1e-12, double abs_ = 1e-13)
{
  double scale = std::max(1.0, linf(b));
  for (size_t i = 0; i < a.size(); i++)
    if (!close_rel(a[i], b[i], scale, rel, abs_)) return (long) i;
  return -1;
}

static std::string mismatch_json(RGrid const &g, std::string const &what, long k, std::vector<double> const &obs, std::vector<double> const &ref,
                                 std::string const &extra)
{
  int ni[3] = {0, 0, 0};
  g.node_unindex(k, ni);
  std::string s = "{\"grid\":" + g.str() + ",\"what\":\"" + what + "\"," + extra + "\"node\":[";
  for (int d = 0; d < g.nd; d++) s += (d ? "," : "") + std::to_string(ni[d]);
  s += "],\"observed\":" + num(obs[k]) + ",\"expected\":" + num(ref[k]) + ",\"observed_all\":" + vec_json(obs) + ",\"expected_all\":" + vec_json(ref) + "}";
  return s;
}

static std::string flagname(RGrid const &g)
{
  std::string s = std::to_string(g.nd) + "d:";
  for (int d = 0; d < g.nd; d++) s += g.per[d] ? "p" : "n";
  return s;
}

// ------------------------------------------------------------------------------------------------
// reference self-test: for polynomial surfaces that the scheme reproduces exactly, L A == div(grad A)
// ------------------------------------------------------------------------------------------------
static void selftest_reference()
{
  for (int nd = 2; nd <= 3; nd++)
    for (int flags = 0; flags < (1 << nd); flags++) {
      RGrid g;
      g.nd = nd;
      for (int d = 0; d < nd; d++) { g.nb[d] = 3 + d; g.per[d] = (flags >> d) & 1; g.w[d] = WSET[1][d]; g.lb[d] = LSET[1][d]; }
      g.finish();
      // A = sum over non-periodic d of (a_d x_d + b_d x_d^2)  (bilinear cross terms are not reproduced exactly at corners)
      std::vector<double> A(g.nnodes), G(g.nbins * nd, 0.0);
      double a[3] = {0.7, -1.3, 0.4}, b[3] = {0.25, 0.5, -0.75};
      for (long n = 0; n < g.nnodes; n++) {
        int ni[3]; g.node_unindex(n, ni);
        double v = 0;
        for (int d = 0; d < nd; d++) if (!g.per[d]) { double x = g.node_coord(ni[d], d); v += a[d] * x + b[d] * x * x; }
        A[n] = v;
      }
      for (long k = 0; k < g.nbins; k++) {
        int bi[3]; g.bin_unindex(k, bi);
        for (int d = 0; d < nd; d++) {
          if (g.per[d]) continue;
          double x = g.bin_center(bi[d], d);
          double v = a[d] + 2 * b[d] * x;
          G[k * nd + d] = v;
        }
      }
      std::vector<double> L = ref_lap(g, A), D = ref_div(g, G);
      if (first_diff(L, D, 1e-11, 1e-11) >= 0) herr("reference self-test failed (L A != div grad A for an exactly representable surface) " + g.str());
      double sum = 0;
      for (double v : D) sum += v;
      if (std::fabs(sum) > 1e-10) herr("reference self-test failed (divergence does not sum to zero)");
      // symmetry of L: e_i . L e_j == e_j . L e_i
      for (long i = 0; i < g.nnodes; i++) {
        std::vector<double> e(g.nnodes, 0.0); e[i] = 1;
        std::vector<double> Li = ref_lap(g, e);
        double rs = 0; for (double v : Li) rs += v;
        if (std::fabs(rs) > 1e-10) herr("reference self-test failed (L column does not sum to zero)");
        for (long j = 0; j < g.nnodes; j++) {
          std::vector<double> f(g.nnodes, 0.0); f[j] = 1;
          if (std::fabs(ref_lap(g, f)[i] - Li[j]) > 1e-12) herr("reference self-test failed (L not symmetric)");
        }
      }
    }
}

// ------------------------------------------------------------------------------------------------
// ONED
// ------------------------------------------------------------------------------------------------
static std::vector<double> ref_cumsum(std::vector<double> const &gval, double w, bool per, bool closing)
{
  size_t n = gval.size();
  double mean = 0;
  if (per) { for (double v : gval) mean += v; mean /= (double) n; }
  std::vector<double> A;
  double s = 0;
  for (size_t i = 0; i < n; i++) { A.push_back(s); s += (gval[i] - mean) * w; }
  if (!per || closing) A.push_back(s);
  return A;
}

static bool parse_two_col(std::string const &txt, std::vector<double> &xs, std::vector<double> &ys)
{
  std::istringstream is(txt);
  std::string line;
  while (std::getline(is, line)) {
    size_t p = line.find_first_not_of(" \t");
    if (p == std::string::npos || line[p] == '#') continue;
    double x, y;
    if (sscanf(line.c_str(), "%lf %lf", &x, &y) != 2) return false;
    xs.push_back(x); ys.push_back(y);
  }
  return true;
}

static void phase_oned(Result &r, int n, bool per, int ws, int variant)
{
  // variant 0: count grid, unsmoothed; 1: no count grid; 2: count grid, smoothed (min 0, full 2); 3: smoothed (min 1, full 3)
  bool has_counts = variant != 1;
  bool smoothed = variant >= 2;
  int mn = variant == 2 ? 0 : 1, full = variant == 2 ? 2 : 3;
  int nb[3] = {n, 1, 1}; bool pp[3] = {per, false, false};
  std::vector<colvar *> cvs;
  RGrid g = basis_grid(1, nb, pp, ws, cvs);
  Sut s;
  build_sut(s, g, cvs, has_counts, false);
  s.grad->min_samples = mn; s.grad->full_samples = full;
  s.pmf->b_smoothed = smoothed;
  static const double GV[3] = {-1, 0, 2};
  static const long CV[3] = {0, 1, 3};
  long ng = 1; for (int i = 0; i < n; i++) ng *= 3;
  long nc = has_counts ? ng : 1;
  std::string vname = variant == 0 ? "counts" : variant == 1 ? "nocounts" : variant == 2 ? "smoothed02" : "smoothed13";
  std::string tag = std::string("1d:") + (per ? "p" : "n") + ":" + vname;
  for (long gi = 0; gi < ng; gi++)
    for (long ci = 0; ci < nc; ci++) {
      std::vector<double> gm(n), S(n); std::vector<long> C(n, 1);
      long a = gi, b = ci; bool unreachable = false;
      for (int i = 0; i < n; i++) {
        gm[i] = GV[a % 3]; a /= 3;
        if (has_counts) { C[i] = CV[b % 3]; b /= 3; }
        if (has_counts && C[i] == 0 && gm[i] != 0) unreachable = true;
        S[i] = gm[i] * (double) C[i];
      }
      if (unreachable) { r.count("oned_skipped_unreachable_count0_with_data"); continue; }
      r.count("evaluations");
      load(s, S, C);
      std::vector<double> gval = ref_field(g, S, C, has_counts, smoothed, mn, full);
      std::string key = tag + ":w" + std::to_string(ws) + ":" + vec_json(S) + std::to_string(ci);
      bool allzero = true; for (double v : gval) if (v != 0) allzero = false;
      if (!allzero) r.seen("nontrivial", key);
      r.seen("states", key);
      std::string extra = "\"sums\":" + vec_json(S) + ",\"counts\":" + vec_json(std::vector<double>(C.begin(), C.end())) + ",\"variant\":\"" + vname + "\",";
      // --- integrate_potential::integrate ---
      if (smoothed && per) {
        // latent only: b_smoothed is never set by any caller in /repo/src and the mean that is removed is the
        // unsmoothed one; the statement speaks of the surface Colvars writes (always unsmoothed). Counted, not judged.
        r.count("oned_smoothed_periodic_not_judged");
      } else {
        std::fill(s.pmf->data.begin(), s.pmf->data.end(), 777.0);  // poison: every point must be written
        cvm::real err = 0;
        s.pmf->integrate(100, 1e-6, err, false);
        r.count("transitions");
        std::vector<double> obs = get_data(s), ref = ref_cumsum(gval, g.w[0], per, false);
        if (obs.size() != ref.size()) herr("1-D size mismatch");
        long k = first_diff(obs, ref, 1e-13, 1e-14);
        if (k >= 0) r.violation("C16:" + tag + ":integrate-not-cumulative-sum", mismatch_json(g, "integrate", k, obs, ref, extra));
      }
      // --- colvar_grid_gradient::write_1D_integral (the TI .pmf writer) ---
      if (!smoothed) {
        std::ostringstream os;
        s.grad->write_1D_integral(os);
        r.count("transitions");
        std::vector<double> xs, ys;
        if (!parse_two_col(os.str(), xs, ys) || (int) ys.size() != n + 1) {
          r.violation("C16:" + tag + ":write_1D_integral-malformed", "{\"grid\":" + g.str() + "," + extra + "\"text\":\"" + jesc(os.str()) + "\"}");
        } else {
          std::vector<double> ref = ref_cumsum(gval, g.w[0], per, true);
          double mnv = ref[0]; for (double v : ref) mnv = std::min(mnv, v);
          for (double &v : ref) v -= mnv;
          long k = first_diff(ys, ref, 1e-12, 1e-13);
          if (k >= 0) {
            bool has_unsampled = false; for (int i = 0; i < n; i++) if (has_counts && C[i] == 0) has_unsampled = true;
            std::string sig = "C16:" + tag + ":write_1D_integral-not-cumulative-sum";
            if (per && has_unsampled) sig = "C16:1d:periodic:write_1D_integral-not-periodic/unsampled-bin";
            r.violation(sig, mismatch_json(g, "write_1D_integral", k, ys, ref, extra));
          }
          for (int i = 0; i <= n; i++)
            if (std::fabs(xs[i] - g.node_coord(i, 0)) > 1e-6 * std::max(1.0, std::fabs(xs[i]))) {
              r.violation("C16:" + tag + ":write_1D_integral-abscissa", "{\"grid\":" + g.str() + ",\"i\":" + std::to_string(i) + ",\"x\":" + num(xs[i]) + "}");
              break;
            }
        }
      }
    }
  r.sample("{\"phase\":\"ONED\",\"grid\":" + g.str() + ",\"variant\":\"" + vname + "\",\"cases\":" + std::to_string(ng * nc) + "}", 2);
}

// ------------------------------------------------------------------------------------------------
// BASIS
// ------------------------------------------------------------------------------------------------
struct Shape { int nd; int nb[3]; bool per[3]; int ws; };

static std::string shape_key(Shape const &sh)
{
  std::string s = std::to_string(sh.nd) + ":";
  for (int d = 0; d < sh.nd; d++) s += std::to_string(sh.nb[d]) + (sh.per[d] ? "p" : "n");
  return s + ":w" + std::to_string(sh.ws);
}

static std::vector<double> dense_S(RGrid const &g, int salt)
{
  static const double GV[3] = {-1, 0, 2};
  std::vector<double> S(g.nbins * g.nd);
  for (size_t i = 0; i < S.size(); i++) S[i] = GV[(i * 7 + i / 3 + salt * 5 + (i * i) % 11) % 3];
  return S;
}

static void phase_basis(Result &r, Shape const &sh)
{
  std::vector<colvar *> cvs;
  RGrid g = basis_grid(sh.nd, sh.nb, sh.per, sh.ws, cvs);
  std::string fk = flagname(g);
  // variants of the gradient representation
  struct Var { const char *name; bool counts, ctor2, smoothed; long c_target, c_other; double expect; };
  static const Var vars[] = {
    {"nocounts", false, false, false, 1, 1, 1.0},
    {"nocounts-gridonly-ctor", false, true, false, 1, 1, 1.0},
    {"count1-others-unsampled", true, false, false, 1, 0, 1.0},
    {"count3-others-sampled", true, false, false, 3, 2, 1.0},
    {"smoothed-full", true, false, true, 3, 2, 1.0},
    {"smoothed-half", true, false, true, 2, 3, 0.5},
    {"smoothed-below-min", true, false, true, 1, 3, 0.0},
  };
  for (Var const &v : vars) {
    Sut s;
    build_sut(s, g, cvs, v.counts, v.ctor2);
    s.pmf->b_smoothed = v.smoothed;
    std::vector<long> C(g.nbins);
    for (long b = 0; b < g.nbins; b++)
      for (int c = 0; c < g.nd; c++) {
        std::vector<double> S(g.nbins * g.nd, 0.0);
        std::fill(C.begin(), C.end(), v.c_other);
        C[b] = v.c_target;
        S[b * g.nd + c] = (double) (v.counts ? v.c_target : 1);   // bin mean == 1
        load(s, S, C);
        std::vector<double> G = ref_field(g, S, C, v.counts, v.smoothed, 1, 3);
        if (std::fabs(G[b * g.nd + c] - v.expect) > 1e-15) herr("reference bin value not as designed");
        std::vector<double> ref = ref_div(g, G);
        std::string key = "B:" + shape_key(sh) + ":" + v.name + ":" + std::to_string(b) + ":" + std::to_string(c);
        r.count("evaluations");
        r.seen("states", key);
        if (v.expect != 0.0) r.seen("nontrivial", key);
        std::string extra = "\"variant\":\"" + std::string(v.name) + "\",\"unit_gradient_bin\":" + std::to_string(b) + ",\"component\":" + std::to_string(c) + ",";
        // batch
        std::fill(s.pmf->divergence.begin(), s.pmf->divergence.end(), 555.0);
        s.pmf->set_div();
        r.count("transitions");
        std::vector<double> obs = get_div(s);
        long k = first_diff(obs, ref);
        if (k >= 0) r.violation("C16:" + fk + ":set_div-basis-response", mismatch_json(g, "set_div", k, obs, ref, extra));
        // incremental from the zero field: only the neighbours may change and they must get the reference value
        std::fill(s.pmf->divergence.begin(), s.pmf->divergence.end(), 0.0);
        cvm::clear_error();
        s.pmf->update_div_neighbors(s.bin_ix(b));
        r.count("transitions");
        if (cvm::get_error()) { r.violation("C16:" + fk + ":update_div_neighbors-error", "{\"grid\":" + g.str() + "," + extra + "\"error\":\"" + jesc(g_px->errtxt) + "\"}"); cvm::clear_error(); g_px->errtxt.clear(); }
        obs = get_div(s);
        k = first_diff(obs, ref);
        if (k >= 0) r.violation("C16:" + fk + ":update_div_neighbors-basis-response", mismatch_json(g, "update_div_neighbors", k, obs, ref, extra));
      }
    // dense field (linearity guard)
    for (int salt = 0; salt < 2; salt++) {
      std::vector<double> S = dense_S(g, salt);
      for (long b = 0; b < g.nbins; b++) { C[b] = v.c_target; for (int c = 0; c < g.nd; c++) S[b * g.nd + c] *= (double) (v.counts ? v.c_target : 1); }
      load(s, S, C);
      std::vector<double> G = ref_field(g, S, C, v.counts, v.smoothed, 1, 3);
      std::vector<double> ref = ref_div(g, G);
      s.pmf->set_div();
      r.count("evaluations"); r.count("transitions");
      std::vector<double> obs = get_div(s);
      long k = first_diff(obs, ref);
      if (k >= 0) r.violation("C16:" + fk + ":set_div-dense-field", mismatch_json(g, "set_div dense", k, obs, ref, "\"variant\":\"" + std::string(v.name) + "\",\"sums\":" + vec_json(S) + ","));
    }
  }
  r.sample("{\"phase\":\"BASIS\",\"grid\":" + g.str() + ",\"unit_gradient_cases\":" + std::to_string(7 * g.nbins * g.nd) + ",\"unit_potential_cases\":" + std::to_string(2 * g.nnodes) +
           ",\"example\":\"unit mean gradient in bin 0 component 0 -> divergence at every node compared with the reference stencil, via set_div() and via update_div_neighbors() from zero\"}", 1);
  // Laplacian: every unit potential
  for (int ctor2 = 0; ctor2 < 2; ctor2++) {
    Sut s;
    build_sut(s, g, cvs, false, ctor2);
    std::vector<cvm::real> x(g.nnodes, 0.0), LA(g.nnodes);
    for (long m = 0; m <= g.nnodes + 1; m++) {
      std::vector<double> A(g.nnodes, 0.0);
      std::string what;
      if (m < g.nnodes) { A[m] = 1.0; what = "unit potential at node " + std::to_string(m); }
      else { static const double AV[4] = {-1, 0.5, 2, 0}; for (long i = 0; i < g.nnodes; i++) A[i] = AV[(i * 5 + i / 4 + (m - g.nnodes) * 3 + (i * i) % 7) % 4]; what = "dense potential"; }
      for (long n = 0; n < g.nnodes; n++) x[s.pmf->address(s.node_ix(n))] = A[n];
      std::fill(LA.begin(), LA.end(), std::nan(""));   // poison: atimes must assign every entry
      s.pmf->atimes(x, LA);
      r.count("evaluations"); r.count("transitions");
      std::string key = "L:" + shape_key(sh) + ":" + std::to_string(ctor2) + ":" + std::to_string(m);
      r.seen("states", key); r.seen("nontrivial", key);
      std::vector<double> obs(g.nnodes), ref = ref_lap(g, A);
      for (long n = 0; n < g.nnodes; n++) obs[n] = LA[s.pmf->address(s.node_ix(n))];
      long k = first_diff(obs, ref);
      if (k >= 0) r.violation("C16:" + fk + ":atimes-" + (m < g.nnodes ? "basis-response" : "dense-field"),
                              mismatch_json(g, "atimes", k, obs, ref, "\"input\":\"" + what + "\",\"ctor\":" + std::to_string(ctor2) + ","));
    }
  }
}

// DEGEN: a periodic dimension with exactly ONE bin (its Laplacian term vanishes: every node is its own neighbour).  The stencil
// code addresses a first and a last row as if they were different; run in a forked child on vectors with spare capacity
// behind their end, so that a write past the end lands in a canary instead of the heap.
static void phase_degen(Result &r, Shape const &sh)
{
  std::vector<colvar *> cvs;
  RGrid g = basis_grid(sh.nd, sh.nb, sh.per, sh.ws, cvs);
  r.count("evaluations");
  std::string key = "D:" + shape_key(sh);
  r.seen("states", key); r.seen("nontrivial", key);
  int rc = run_isolated([&]() {
    Sut s;
    build_sut(s, g, cvs, false, false);
    const long spare = 4096;
    std::vector<cvm::real> x(g.nnodes + spare, 0.0), LA(g.nnodes + spare, 7.25);
    std::vector<double> A(g.nnodes, 0.0);
    static const double AV[4] = {-1, 0.5, 2, 0};
    for (long i = 0; i < g.nnodes; i++) A[i] = AV[(i * 5 + i / 4 + (i * i) % 7) % 4];
    for (long n = 0; n < g.nnodes; n++) x[s.pmf->address(s.node_ix(n))] = A[n];
    x.resize(g.nnodes); LA.resize(g.nnodes);   // capacity stays: the spare elements remain addressable
    cvm::real *spare_la = LA.data() + g.nnodes;
    for (long i = 0; i < spare; i++) spare_la[i] = 7.25;
    s.pmf->atimes(x, LA);
    for (long i = 0; i < spare; i++) if (spare_la[i] != 7.25) return 10;
    std::vector<double> obs(g.nnodes), ref = ref_lap(g, A);
    for (long n = 0; n < g.nnodes; n++) obs[n] = LA[s.pmf->address(s.node_ix(n))];
    return first_diff(obs, ref) >= 0 ? 11 : 0;
  }, 60.0);
  r.count("transitions");
  if (rc != 0)
    r.violation("C16:one-bin-periodic-dimension:laplacian-wrong-or-written-outside-the-array",
                "{\"grid\":" + g.str() + ",\"outcome\":\"" + (rc == 10 ? "atimes wrote past the end of its output array" : rc == 11 ? "atimes differs from the reference stencil" :
                rc < 0 ? "child ended by signal " + std::to_string(-rc) : "exit code " + std::to_string(rc)) + "\"}");
}

// ------------------------------------------------------------------------------------------------
// SOLVE
// ------------------------------------------------------------------------------------------------
static void check_solution(Result &r, Sut &s, std::vector<double> const &G, double tol, int iter, int itmax, std::string const &stage,
                           std::string const &extra, bool stale_context)
{
  std::string sigbase = "C16:" + flagname(s.g) + ":" + stage;
  RGrid const &g = s.g;
  std::vector<double> A = get_data(s);
  std::vector<double> D = ref_div(g, G), L = ref_lap(g, A);
  for (double v : A) if (!std::isfinite(v)) {
    r.violation("C16:solve:" + stage + ":solution-not-finite", "{\"grid\":" + g.str() + "," + extra + "\"tol\":" + num(tol) + ",\"iterations\":" + std::to_string(iter) + ",\"A\":" + vec_json(A) + "}");
    return;
  }
  std::vector<double> res(L.size());
  for (size_t i = 0; i < L.size(); i++) res[i] = L[i] - D[i];
  double rn = l2(res), bn = l2(D);
  r.count("solves_checked");
  if (!(rn <= tol * bn * 1.01 + 1e-10 * tol)) {
    std::string sig = (stale_context && bn < 1e-13) ? "C16:solve:stale-surface-when-divergence-vanishes" : sigbase + ":residual-above-tolerance";
    r.violation(sig, "{\"grid\":" + g.str() + "," + extra + "\"tol\":" + num(tol) + ",\"iterations\":" + std::to_string(iter) + ",\"itmax\":" + std::to_string(itmax) +
                     ",\"residual_norm\":" + num(rn) + ",\"divergence_norm\":" + num(bn) + ",\"A\":" + vec_json(A) + ",\"div\":" + vec_json(D) + "}");
  }
}

static void phase_solve(Result &r, Shape const &sh)
{
  std::vector<colvar *> cvs;
  RGrid g = basis_grid(sh.nd, sh.nb, sh.per, sh.ws, cvs);
  std::string fk = flagname(g);
  Sut s;
  build_sut(s, g, cvs, false, false);
  std::vector<long> C(g.nbins, 1);
  const int itmax = 2000;   // unknowns <= 343; CG terminates in <= that many steps in exact arithmetic
  long nloads = g.nbins * g.nd + 2;
  r.sample("{\"phase\":\"SOLVE\",\"grid\":" + g.str() + ",\"loads\":" + std::to_string(nloads) + ",\"tolerances\":[1e-6,1e-10],\"stages\":[\"fresh solve\",\"integrate x4 on unchanged data\",\"re-solve after the load is replaced by zero / uniform / another unit load\"]}", 1);
  bool allper = true; for (int d = 0; d < g.nd; d++) if (!g.per[d]) allper = false;
  for (long l = 0; l < nloads; l++) {
    std::vector<double> S(g.nbins * g.nd, 0.0);
    std::string lname;
    if (l < g.nbins * g.nd) { S[l] = 1.0; lname = "unit gradient bin " + std::to_string(l / g.nd) + " comp " + std::to_string(l % g.nd); }
    else { S = dense_S(g, (int) (l - g.nbins * g.nd)); lname = "dense"; }
    std::string key = "S:" + shape_key(sh) + ":" + std::to_string(l);
    for (double tol : {1e-6, 1e-10}) {
      load(s, S, C);
      std::fill(s.pmf->data.begin(), s.pmf->data.end(), 0.0);
      s.pmf->set_div();
      cvm::real err = -1;
      int iter = s.pmf->integrate(itmax, tol, err, false);
      r.count("evaluations"); r.count("transitions");
      r.seen("states", key); r.seen("nontrivial", key);
      std::string extra = "\"load\":\"" + lname + "\",\"sums\":" + vec_json(S) + ",";
      check_solution(r, s, S, tol, iter, itmax, "solve", extra, false);
    }
    // integrate() called again with unchanged data (what repeated output or pABF re-integration does)
    for (double tol : {1e-6, 1e-10}) {
      load(s, S, C);
      std::fill(s.pmf->data.begin(), s.pmf->data.end(), 0.0);
      s.pmf->set_div();
      cvm::real err = -1;
      int iter = 0;
      for (int rep = 0; rep < 4; rep++) {
        iter = s.pmf->integrate(itmax, tol, err, false);
        if (rep % 2) s.pmf->set_zero_minimum();
        r.count("transitions");
      }
      r.count("evaluations");
      std::string key3 = key + ":again:" + num(tol);
      r.seen("states", key3); r.seen("nontrivial", key3);
      std::string extra = "\"load\":\"" + lname + "\",\"sums\":" + vec_json(S) + ",\"integrate_calls\":4,";
      check_solution(r, s, S, tol, iter, itmax, "reintegrate-unchanged", extra, false);
    }
    // warm-started second solve: the load is replaced after the surface has been computed once (tol 1e-6 left in data)
    if (l < g.nbins * g.nd) {
      std::vector<std::vector<double>> seconds;
      std::vector<std::string> snames;
      seconds.push_back(std::vector<double>(S.size(), 0.0)); snames.push_back("zero field");
      { std::vector<double> U(S.size()); for (size_t i = 0; i < U.size(); i++) U[i] = 1.0 + (double) (i % g.nd); seconds.push_back(U); snames.push_back("uniform field"); }
      { std::vector<double> T(S.size(), 0.0); T[(l + g.nd) % S.size()] = -2.0; seconds.push_back(T); snames.push_back("unit gradient in the next bin, scaled by -2"); }
      for (size_t k = 0; k < seconds.size(); k++) {
        // first stage
        load(s, S, C);
        std::fill(s.pmf->data.begin(), s.pmf->data.end(), 0.0);
        s.pmf->set_div();
        cvm::real err = -1;
        s.pmf->integrate(itmax, 1e-6, err, false);
        s.pmf->set_zero_minimum();   // as the output path does
        // second stage
        load(s, seconds[k], C);
        s.pmf->set_div();
        int iter = s.pmf->integrate(itmax, 1e-6, err, false);
        r.count("evaluations"); r.count("transitions", 2);
        std::string key2 = key + ":then:" + std::to_string(k);
        r.seen("states", key2); r.seen("nontrivial", key2);
        std::string extra = "\"first_load\":\"" + lname + "\",\"second_load\":\"" + snames[k] + "\",\"second_sums\":" + vec_json(seconds[k]) + ",";
        bool vanishing = (k == 0) || (k == 1 && allper);
        check_solution(r, s, seconds[k], 1e-6, iter, itmax, "resolve", extra, vanishing);
      }
    }
  }
}

// ------------------------------------------------------------------------------------------------
// ARR: arrival sequences on direct grid objects
// ------------------------------------------------------------------------------------------------
static const double FV[2][3] = {{1.0, -2.0, 0.5}, {-3.0, 0.25, 2.0}};

static void three_bins(RGrid const &g, long bins[3])
{
  int b0[3] = {0, 0, 0}, b1[3] = {0, 0, 0}, b2[3];
  b1[0] = g.nb[0] - 1;
  for (int d = 0; d < 3; d++) b2[d] = d < g.nd ? g.nb[d] - 1 : 0;
  bins[0] = g.bin_index(b0); bins[1] = g.bin_index(b1); bins[2] = g.bin_index(b2);
}

static void phase_arr(Result &r, Shape const &sh, bool smoothed, int maxlen)
{
  std::vector<colvar *> cvs;
  RGrid g = basis_grid(sh.nd, sh.nb, sh.per, sh.ws, cvs);
  std::string fk = flagname(g);
  Sut s;
  build_sut(s, g, cvs, true, false);
  s.pmf->b_smoothed = smoothed;
  integrate_potential batch(s.cvs, s.grad);
  batch.b_smoothed = smoothed;
  long bins[3];
  three_bins(g, bins);
  const int nsym = 6;
  std::vector<int> seq;
  long nseq = 0;
  for (int len = 1; len <= maxlen; len++) {
    long total = 1; for (int i = 0; i < len; i++) total *= nsym;
    for (long code = 0; code < total; code++) {
      seq.assign(len, 0);
      long c = code;
      for (int i = 0; i < len; i++) { seq[i] = (int) (c % nsym); c /= nsym; }
      // fresh state
      s.grad->reset(); s.cnt->reset();
      std::fill(s.pmf->divergence.begin(), s.pmf->divergence.end(), 0.0);
      std::vector<double> S(g.nbins * g.nd, 0.0); std::vector<long> C(g.nbins, 0);
      nseq++;
      r.count("evaluations");
      std::string seqs;
      bool bad = false;
      for (int i = 0; i < len && !bad; i++) {
        long b = bins[seq[i] / 2]; const double *f = FV[seq[i] % 2];
        seqs += (i ? "," : "") + std::string("[") + std::to_string(b) + "," + std::to_string(seq[i] % 2) + "]";
        // what ABF does for one sample
        s.grad->acc_force(s.bin_ix(b), f);
        s.pmf->update_div_neighbors(s.bin_ix(b));
        r.count("transitions");
        for (int c2 = 0; c2 < g.nd; c2++) S[b * g.nd + c2] -= f[c2];
        C[b]++;
        std::vector<double> ref = ref_div(g, ref_field(g, S, C, true, smoothed, 1, 3));
        std::vector<double> obs = get_div(s);
        std::string st = "A:" + shape_key(sh) + (smoothed ? "s" : "u") + vec_json(S) + vec_json(std::vector<double>(C.begin(), C.end()));
        r.seen("states", st);
        long k = first_diff(obs, ref);
        if (k >= 0) {
          r.violation("C16:" + fk + (smoothed ? ":smoothed" : "") + ":incremental-divergence-differs-from-reference",
                      mismatch_json(g, "incremental divergence after arrival " + std::to_string(i + 1), k, obs, ref, "\"arrivals_bin_force\":[" + seqs + "],\"forces\":[[1,-2,0.5],[-3,0.25,2]],"));
          bad = true;
        }
      }
      r.seen("nontrivial", "A:" + shape_key(sh) + (smoothed ? "s" : "u") + std::to_string(len) + ":" + std::to_string(code));
      // batch by the real code, on a second object
      std::fill(batch.divergence.begin(), batch.divergence.end(), 999.0);
      batch.set_div();
      std::vector<double> inc = get_div(s), bat = get_div(s, &batch);
      long k = first_diff(inc, bat);
      if (k >= 0 && !bad)
        r.violation("C16:" + fk + (smoothed ? ":smoothed" : "") + ":incremental-divergence-differs-from-batch",
                    mismatch_json(g, "incremental vs set_div", k, inc, bat, "\"arrivals_bin_force\":[" + seqs + "],"));
      if (inc == bat) r.count("arr_bitwise_equal_incremental_batch");
    }
  }
  r.sample("{\"phase\":\"ARR\",\"grid\":" + g.str() + ",\"smoothed\":" + (smoothed ? "true" : "false") + ",\"bins\":[" + std::to_string(bins[0]) + "," + std::to_string(bins[1]) + "," +
           std::to_string(bins[2]) + "],\"sequences\":" + std::to_string(nseq) + ",\"last_sequence_symbols\":" + vec_json(std::vector<double>(seq.begin(), seq.end())) + "}", 3);
}

// ------------------------------------------------------------------------------------------------
// CONV
// ------------------------------------------------------------------------------------------------
static const double PI2 = 6.283185307179586476925;

// surface value and gradient; periodic dimensions use periodic building blocks
static double surface(int which, RGrid const &g, const double *x, double *grad)
{
  int nd = g.nd;
  double L[3]; for (int d = 0; d < nd; d++) L[d] = CONV_L[d];
  if (which == 0) {
    // sum_d a_d(x_d) + prod_d b_d(x_d)
    double a[3], da[3], b[3], db[3];
    for (int d = 0; d < nd; d++) {
      double k = PI2 / L[d];
      if (g.per[d]) { a[d] = std::sin(k * x[d]) + 0.5 * std::cos(2 * k * x[d]); da[d] = k * std::cos(k * x[d]) - k * std::sin(2 * k * x[d]);
                      b[d] = 1.0 + 0.5 * std::cos(k * x[d] + 0.3 * d); db[d] = -0.5 * k * std::sin(k * x[d] + 0.3 * d); }
      else { double t = x[d] / L[d]; a[d] = t * t * t - 0.7 * t + 0.4 * std::sin(3.0 * t); da[d] = (3 * t * t - 0.7 + 1.2 * std::cos(3.0 * t)) / L[d];
             b[d] = std::exp(0.6 * t) ; db[d] = 0.6 / L[d] * b[d]; }
    }
    double v = 0, p = 1;
    for (int d = 0; d < nd; d++) { v += a[d]; p *= b[d]; }
    for (int d = 0; d < nd; d++) { double q = 1; for (int e = 0; e < nd; e++) if (e != d) q *= b[e]; grad[d] = da[d] + db[d] * q; }
    return v + p;
  } else if (which == 1) {
    // exp(sum_d c_d t_d)
    double s = 0, dt[3];
    for (int d = 0; d < nd; d++) {
      double k = PI2 / L[d], c = 0.5 + 0.2 * d;
      if (g.per[d]) { s += c * std::sin(k * x[d]); dt[d] = c * k * std::cos(k * x[d]); }
      else { s += c * x[d] / L[d]; dt[d] = c / L[d]; }
    }
    double v = std::exp(s);
    for (int d = 0; d < nd; d++) grad[d] = v * dt[d];
    return v;
  } else {
    // off-centre Gaussian well
    double s = 0, ds[3];
    for (int d = 0; d < nd; d++) {
      double x0 = (0.37 + 0.11 * d) * L[d], kk = 3.0 / (L[d] * L[d]);
      if (g.per[d]) { double q = L[d] / (PI2 / 2); double u = std::sin((x[d] - x0) / q) * q; s += kk * u * u; ds[d] = kk * 2 * u * std::cos((x[d] - x0) / q); }
      else { double u = x[d] - x0; s += kk * u * u; ds[d] = 2 * kk * u; }
    }
    double v = -2.0 * std::exp(-s);
    for (int d = 0; d < nd; d++) grad[d] = -v * ds[d];
    return v;
  }
}

static void phase_conv(Result &r, int which, int nd, int flags)
{
  std::vector<int> levels = conv_levels(nd);
  std::vector<double> e2, emax;
  std::vector<int> iters;
  RGrid g0;
  for (int n : levels) {
    RGrid g;
    g.nd = nd;
    std::vector<colvar *> cvs;
    for (int d = 0; d < nd; d++) {
      g.nb[d] = n; g.per[d] = (flags >> d) & 1; g.w[d] = CONV_L[d] / n; g.lb[d] = 0.0;
      colvar *cv = g_px->cv(conv_name(d, n, g.per[d]));
      if (!cv) herr("missing colvar " + conv_name(d, n, g.per[d]));
      cvs.push_back(cv);
    }
    g.finish();
    g0 = g;
    Sut s;
    build_sut(s, g, cvs, false, false);
    // sample the analytic gradient at bin centres
    for (long b = 0; b < g.nbins; b++) {
      int bi[3]; g.bin_unindex(b, bi);
      double x[3], gr[3];
      for (int d = 0; d < nd; d++) x[d] = g.bin_center(bi[d], d);
      surface(which, g, x, gr);
      std::vector<int> ix(bi, bi + nd);
      for (int d = 0; d < nd; d++) s.grad->set_value(ix, gr[d], d);
    }
    s.pmf->set_div();
    cvm::real err = -1;
    int it = s.pmf->integrate(100000, 1e-11, err, false);
    iters.push_back(it);
    r.count("evaluations"); r.count("transitions");
    // error against the analytic surface, additive constant removed
    std::vector<double> A = get_data(s), E(g.nnodes);
    double mean = 0;
    for (long k = 0; k < g.nnodes; k++) {
      int ni[3]; g.node_unindex(k, ni);
      double x[3], gr[3];
      for (int d = 0; d < nd; d++) x[d] = g.node_coord(ni[d], d);
      E[k] = A[k] - surface(which, g, x, gr);
      mean += E[k];
    }
    mean /= (double) g.nnodes;
    double s2 = 0, sm = 0;
    for (double &v : E) { v -= mean; s2 += v * v; sm = std::max(sm, std::fabs(v)); }
    e2.push_back(std::sqrt(s2 / (double) g.nnodes));
    emax.push_back(sm);
  }
  std::string key = "V:" + std::to_string(which) + ":" + flagname(g0);
  r.seen("states", key); r.seen("nontrivial", key);
  std::vector<double> ord2, ordm;
  for (size_t i = 0; i + 1 < levels.size(); i++) { ord2.push_back(std::log2(e2[i] / e2[i + 1])); ordm.push_back(std::log2(emax[i] / emax[i + 1])); }
  std::string det = "{\"phase\":\"CONV\",\"surface\":" + std::to_string(which) + ",\"flags\":\"" + flagname(g0) + "\",\"levels\":" + vec_json(std::vector<double>(levels.begin(), levels.end())) +
                    ",\"rms_error\":" + vec_json(e2) + ",\"max_error\":" + vec_json(emax) + ",\"order_rms\":" + vec_json(ord2) + ",\"order_max\":" + vec_json(ordm) +
                    ",\"cg_iterations\":" + vec_json(std::vector<double>(iters.begin(), iters.end())) + "}";
  r.sample(det, 3);
  if (getenv("C16_VERBOSE")) fprintf(stderr, "CONV %s\n", det.c_str());
  // asymptotic order from the two finest pairs; errors must shrink at every refinement
  bool ok = true;
  for (size_t i = 0; i < ord2.size(); i++) if (!(e2[i + 1] < e2[i])) ok = false;
  if (!(ord2.back() >= 1.8) || !(ord2[ord2.size() - 2] >= 1.8)) ok = false;
  if (!ok) r.violation("C16:" + flagname(g0) + ":convergence-order-below-2", det);
  if (!(ordm.back() >= 1.8)) r.count("conv_max_norm_order_below_1.8_informational");
}

// ------------------------------------------------------------------------------------------------
// ABF: the real bias
// ------------------------------------------------------------------------------------------------
struct AbfCfg { int nd; int nb[3]; bool per[3]; bool same_step; bool pabf; bool ti;
                bool gridblock;  // (1-D, non-periodic) the grid comes from a grid { } block of the bias; the variable's own boundaries span one bin
};

static std::string grid_block_txt(AbfCfg const &c)
{
  return c.gridblock ? " grid {\n lowerBoundary " + f17(0.0) + "\n upperBoundary " + f17(1.0 * c.nb[0]) + "\n width " + f17(1.0) + "\n }\n" : std::string();
}

static std::string abf_conf(AbfCfg const &c)
{
  std::string s;
  const char *names[3] = {"a", "b", "c"};
  for (int d = 0; d < c.nd; d++) s += cv_conf(names[d], d, d == 1 ? -1.0 : 0.0, d == 2 ? 0.5 : 1.0, c.gridblock ? 1 : c.nb[d], c.per[d]);
  s += "abf {\n name abf1\n colvars";
  for (int d = 0; d < c.nd; d++) s += std::string(" ") + names[d];
  s += "\n fullSamples 2\n applyBias off\n";
  if (c.pabf) s += " pABFintegrateFreq 1\n";
  s += grid_block_txt(c);
  s += "}\n";
  return s;
}

static bool parse_multicol(std::string const &path, int nd, std::vector<std::vector<double>> &rows)
{
  std::ifstream f(path.c_str());
  if (!f) return false;
  std::string line;
  while (std::getline(f, line)) {
    size_t p = line.find_first_not_of(" \t");
    if (p == std::string::npos || line[p] == '#') continue;
    std::vector<double> v;
    const char *q = line.c_str();
    for (;;) {
      char *end = NULL;
      double x = strtod(q, &end);   // accepts nan / -nan / inf
      if (end == q) break;
      v.push_back(x);
      q = end;
    }
    if ((int) v.size() != nd + 1) return false;
    rows.push_back(v);
  }
  return true;
}

static double g_t[6] = {0, 0, 0, 0, 0, 0};
static void run_abf_sequence(Result &r, AbfCfg const &c, std::vector<int> const &seq, std::string const &prefix)
{
  double tt0 = now();
  RGrid g;
  g.nd = c.nd;
  for (int d = 0; d < c.nd; d++) { g.nb[d] = c.nb[d]; g.per[d] = c.per[d]; g.w[d] = d == 2 ? 0.5 : 1.0; g.lb[d] = d == 1 ? -1.0 : 0.0; }
  g.finish();
  long bins[3];
  three_bins(g, bins);
  std::string fk = flagname(g) + (c.pabf ? ":pabf" : "") + (c.same_step ? "" : ":lagged") + (c.gridblock ? ":grid-block" : "");
  std::string conf = abf_conf(c);
  vproxy *px = new vproxy(2, c.same_step);
  px->x[0] = cvm::rvector(0.5, -0.5, 0.25);
  px->x[1] = cvm::rvector(0, 0, 0);
  px->set_prefixes(prefix);
  if (px->config(conf) != 0) lerr("ABF configuration failed: " + px->errtxt + "\n" + conf);
  g_t[0] += now() - tt0; tt0 = now();
  colvarbias_abf *abf = dynamic_cast<colvarbias_abf *>(px->bias("abf1"));
  if (!abf || !abf->samples || !abf->gradients) lerr("ABF bias not created");
  if (!abf->pmf) lerr("ABF bias has no integrator although integrate defaults to on");
  r.count("evaluations");
  std::string seqs;
  std::string base = "\"configuration\":\"" + jesc(conf) + "\",\"same_step_total_forces\":" + (c.same_step ? "true" : "false") + ",";
  bool bad = false;
  long expected_samples = 0;
  // No data is taken at step 0.  Same-step total forces: step i>=1 records (bin_i, F_i), so a lead-in step is prepended;
  // lagged total forces: step i>=1 records (bin_{i-1}, F_{i-1}), so a trailing step is appended.
  std::vector<int> steps = seq;
  if (c.same_step) steps.insert(steps.begin(), seq.front()); else steps.push_back(seq.back());
  // forces: F1 = -F0 in the pABF variant so that bin means can return to zero
  for (size_t i = 0; i < steps.size(); i++) {
    long b = bins[steps[i] / 2];
    int bi[3]; g.bin_unindex(b, bi);
    double f[3];
    for (int d = 0; d < 3; d++) f[d] = c.pabf ? (steps[i] % 2 ? -FV[0][d] : FV[0][d]) : FV[steps[i] % 2][d];
    double pos[3] = {0.5, -0.5, 0.25};
    for (int d = 0; d < g.nd; d++) pos[d] = g.bin_center(bi[d], d);
    px->x[0] = cvm::rvector(pos[0], pos[1], pos[2]);
    px->fsys[0] = cvm::rvector(f[0], f[1], f[2]);
    seqs += (i ? "," : "") + std::string("{\"bin\":") + std::to_string(b) + ",\"position\":[" + num(pos[0]) + "," + num(pos[1]) + "," + num(pos[2]) + "],\"force\":[" + num(f[0]) + "," + num(f[1]) + "," + num(f[2]) + "]}";
    int rc = px->step((long) i);
    if (rc != 0) lerr("ABF step returned an error: " + px->errtxt);
    r.count("transitions");
    if (i > 0) expected_samples++;
    // real gradient data -> reference divergence
    std::vector<double> S(g.nbins * g.nd); std::vector<long> C(g.nbins);
    long nsamp = 0;
    for (long k = 0; k < g.nbins; k++) {
      int ki[3]; g.bin_unindex(k, ki);
      std::vector<int> ix(ki, ki + g.nd);
      C[k] = (long) abf->samples->value(ix); nsamp += C[k];
      for (int d = 0; d < g.nd; d++) S[k * g.nd + d] = abf->gradients->value(ix, d);
    }
    if (getenv("C16_TRACE")) {
      fprintf(stderr, "step %zu bin %ld: counts %s sums %s\n  divergence %s\n  pmf data   %s\n", i, b, vec_json(std::vector<double>(C.begin(), C.end())).c_str(), vec_json(S).c_str(),
              vec_json(abf->pmf->divergence).c_str(), vec_json(abf->pmf->data).c_str());
    }
    if (nsamp != expected_samples) lerr("ABF accumulated " + std::to_string(nsamp) + " samples, the script delivered " + std::to_string(expected_samples) + " (" + fk + ")");
    std::string st = "F:" + fk + g.str() + vec_json(S) + vec_json(std::vector<double>(C.begin(), C.end()));
    r.seen("states", st);
    if (g.nd >= 2 && !bad) {
      std::vector<double> G = ref_field(g, S, C, true, false, 0, 0);
      std::vector<double> ref = ref_div(g, G), obs(g.nnodes);
      for (long n = 0; n < g.nnodes; n++) { int ni[3]; g.node_unindex(n, ni); obs[n] = abf->pmf->divergence[abf->pmf->address(std::vector<int>(ni, ni + g.nd))]; }
      long k = first_diff(obs, ref);
      if (k >= 0) {
        r.violation("C16:abf:" + fk + ":incremental-divergence-differs-from-reference",
                    mismatch_json(g, "ABF divergence after step " + std::to_string(i), k, obs, ref, base + "\"steps\":[" + seqs + "],"));
        bad = true;
      }
      if (c.pabf && i > 0) {
        // the surface has just been re-integrated (integrateTol default 1e-6)
        std::vector<double> A(g.nnodes);
        for (long n = 0; n < g.nnodes; n++) { int ni[3]; g.node_unindex(n, ni); A[n] = abf->pmf->data[abf->pmf->address(std::vector<int>(ni, ni + g.nd))]; }
        std::vector<double> L = ref_lap(g, A), res(g.nnodes);
        for (long n = 0; n < g.nnodes; n++) res[n] = L[n] - ref[n];
        double rn = l2(res), bn = l2(ref);
        r.count("solves_checked");
        if (!(rn <= 1e-6 * bn * 1.01 + 1e-12)) {
          r.violation(!std::isfinite(rn) ? "C16:abf:pabf:surface-not-finite" : bn < 1e-13 ? "C16:abf:pabf:stale-surface-when-divergence-vanishes" : "C16:abf:" + fk + ":residual-above-tolerance",
                      "{\"grid\":" + g.str() + "," + base + "\"steps\":[" + seqs + "],\"residual_norm\":" + num(rn) + ",\"divergence_norm\":" + num(bn) + ",\"A\":" + vec_json(A) + ",\"div\":" + vec_json(ref) + "}");
          bad = true;
        }
      }
    }
  }
  r.seen("nontrivial", "F:" + fk + g.str() + vec_json(std::vector<double>(seq.begin(), seq.end())));
  g_t[1] += now() - tt0; tt0 = now();
  // final gradients (real data)
  std::vector<double> S(g.nbins * g.nd); std::vector<long> C(g.nbins);
  for (long k = 0; k < g.nbins; k++) {
    int ki[3]; g.bin_unindex(k, ki);
    std::vector<int> ix(ki, ki + g.nd);
    C[k] = (long) abf->samples->value(ix);
    for (int d = 0; d < g.nd; d++) S[k * g.nd + d] = abf->gradients->value(ix, d);
  }
  std::vector<double> G = ref_field(g, S, C, true, false, 0, 0);
  if (g.nd >= 2 && !bad) {
    // batch by the real code from the final gradients
    integrate_potential batch(abf->colvars, abf->gradients);
    batch.set_div();
    std::vector<double> inc(g.nnodes), bat(g.nnodes);
    for (long n = 0; n < g.nnodes; n++) {
      int ni[3]; g.node_unindex(n, ni);
      std::vector<int> ix(ni, ni + g.nd);
      inc[n] = abf->pmf->divergence[abf->pmf->address(ix)];
      bat[n] = batch.divergence[batch.address(ix)];
    }
    long k = first_diff(inc, bat);
    if (k >= 0) r.violation("C16:abf:" + fk + ":incremental-divergence-differs-from-batch", mismatch_json(g, "ABF incremental vs set_div", k, inc, bat, base + "\"steps\":[" + seqs + "],"));
  }
  // written surface
  g_t[2] += now() - tt0; tt0 = now();
  int rc = px->end_run();
  g_t[3] += now() - tt0; tt0 = now();
  if (rc != 0) lerr("post_run returned an error: " + px->errtxt);
  r.count("transitions");
  std::vector<std::vector<double>> rows;
  std::string path = prefix + ".pmf";
  if (!parse_multicol(path, g.nd, rows) || (long) rows.size() != g.nnodes) {
    r.violation("C16:abf:" + fk + ":pmf-file-missing-or-malformed", "{\"grid\":" + g.str() + "," + base + "\"steps\":[" + seqs + "],\"rows\":" + std::to_string(rows.size()) + ",\"expected_rows\":" + std::to_string(g.nnodes) + "}");
  } else if (!bad) {
    std::vector<double> A(g.nnodes, std::nan(""));
    bool coords_ok = true;
    for (auto &row : rows) {
      int ni[3] = {0, 0, 0};
      for (int d = 0; d < g.nd; d++) {
        double t = (row[d] - g.lb[d]) / g.w[d];
        ni[d] = (int) std::lround(t);
        if (std::fabs(t - ni[d]) > 1e-9 || ni[d] < 0 || ni[d] >= g.np[d]) coords_ok = false;
      }
      if (coords_ok) A[g.node_index(ni)] = row[g.nd];
    }
    bool finite = true;
    for (auto &row : rows) if (!std::isfinite(row[g.nd])) finite = false;
    if (!finite) {
      r.violation("C16:abf:written-surface-not-finite", "{\"grid\":" + g.str() + "," + base + "\"steps\":[" + seqs + "],\"first_row\":" + vec_json(rows[0]) + "}");
    } else if (!coords_ok || [&]() { for (double v : A) if (std::isnan(v)) return true; return false; }()) {
      r.violation("C16:abf:" + fk + ":pmf-file-abscissas-not-bin-edges", "{\"grid\":" + g.str() + "," + base + "\"first_row\":" + vec_json(rows[0]) + "}");
    } else if (g.nd == 1) {
      std::vector<double> gv(g.nbins);
      for (long k = 0; k < g.nbins; k++) gv[k] = G[k];
      std::vector<double> ref = ref_cumsum(gv, g.w[0], g.per[0], false);
      double mnv = ref[0]; for (double v : ref) mnv = std::min(mnv, v);
      for (double &v : ref) v -= mnv;
      long k = first_diff(A, ref, 1e-12, 1e-13);
      if (k >= 0) r.violation("C16:abf:" + fk + ":written-surface-not-cumulative-sum", mismatch_json(g, "ABF .pmf file", k, A, ref, base + "\"steps\":[" + seqs + "],"));
      r.count("files_checked");
    } else {
      std::vector<double> D = ref_div(g, G), L = ref_lap(g, A), res(g.nnodes);
      for (long n = 0; n < g.nnodes; n++) res[n] = L[n] - D[n];
      double rn = l2(res), bn = l2(D);
      r.count("files_checked"); r.count("solves_checked");
      if (!(rn <= 1e-6 * bn * 1.01 + 1e-12))
        r.violation(bn < 1e-13 ? "C16:abf:written-stale-surface-when-divergence-vanishes" : "C16:abf:" + fk + ":written-surface-residual-above-tolerance",
                    "{\"grid\":" + g.str() + "," + base + "\"steps\":[" + seqs + "],\"residual_norm\":" + num(rn) + ",\"divergence_norm\":" + num(bn) + ",\"A\":" + vec_json(A) + ",\"div\":" + vec_json(D) + "}");
    }
  }
  g_t[4] += now() - tt0; tt0 = now();
  bool have_abf_sample = false;
  for (auto &x : r.samples) if (x.find("\"phase\":\"ABF\"") != std::string::npos) have_abf_sample = true;
  if (!have_abf_sample && seq.size() >= 3) r.sample("{\"phase\":\"ABF\",\"grid\":" + g.str() + ",\"variant\":\"" + fk + "\",\"steps\":[" + seqs + "]}", 100);
  delete px;
}


// A harmonic restraint with writeTIPMF: the 1-D TI surface goes through colvar_grid_gradient::write_1D_integral
static void run_ti_sequence(Result &r, AbfCfg const &c, std::vector<int> const &seq, std::string const &prefix)
{
  RGrid g;
  g.nd = 1; g.nb[0] = c.nb[0]; g.per[0] = c.per[0]; g.w[0] = 1.0; g.lb[0] = 0.0;
  g.finish();
  std::string fk = std::string("1d:") + (c.per[0] ? "p" : "n") + (c.same_step ? "" : ":lagged") + (c.gridblock ? ":grid-block" : "");
  std::string conf = cv_conf("a", 0, 0.0, 1.0, c.gridblock ? 1 : c.nb[0], c.per[0]) +
                     "harmonic {\n name h1\n colvars a\n centers 0.5\n forceConstant 0.001\n writeTIPMF on\n" + grid_block_txt(c) + "}\n";
  vproxy *px = new vproxy(2, c.same_step);
  px->x[0] = cvm::rvector(0.5, 0, 0);
  px->x[1] = cvm::rvector(0, 0, 0);
  px->set_prefixes(prefix);
  if (px->config(conf) != 0) lerr("TI configuration failed: " + px->errtxt + "\n" + conf);
  colvarbias_ti *ti = dynamic_cast<colvarbias_ti *>(px->bias("h1"));
  if (!ti || !ti->ti_avg_forces || !ti->ti_count) lerr("harmonic bias with writeTIPMF has no TI grids");
  r.count("evaluations");
  std::string seqs;
  // step 0 is a lead-in (no step-zero data); arrivals are steps 1..len
  std::vector<int> steps = seq;
  if (c.same_step) steps.insert(steps.begin(), seq.front()); else steps.push_back(seq.back());
  for (size_t i = 0; i < steps.size(); i++) {
    int sym = steps[i];
    long b = (sym / 2) % c.nb[0];
    double f = (sym % 2) ? -3.0 : 1.0;
    px->x[0] = cvm::rvector(g.bin_center((int) b, 0), 0, 0);
    px->fsys[0] = cvm::rvector(f, 0, 0);
    seqs += (i ? "," : "") + std::string("{\"bin\":") + std::to_string(b) + ",\"force\":" + num(f) + "}";
    if (px->step((long) i) != 0) lerr("TI step returned an error: " + px->errtxt);
    r.count("transitions");
  }
  std::vector<double> gv(g.nbins); std::vector<double> Cd(g.nbins), Sd(g.nbins);
  long nsamp = 0; bool unsampled = false;
  for (long k = 0; k < g.nbins; k++) {
    std::vector<int> ix(1, (int) k);
    long cnt = (long) ti->ti_count->value(ix);
    double sum = ti->ti_avg_forces->value(ix, 0);
    nsamp += cnt; Cd[k] = cnt; Sd[k] = sum;
    gv[k] = cnt > 0 ? -sum / (double) cnt : 0.0;   // free-energy gradient = minus the mean force
    if (cnt == 0) unsampled = true;
  }
  if (nsamp != (long) seq.size()) lerr("TI accumulated " + std::to_string(nsamp) + " samples, the script delivered " + std::to_string(seq.size()));
  std::string key = "T:" + fk + g.str() + vec_json(Sd) + vec_json(Cd);
  r.seen("states", key); r.seen("nontrivial", key);
  if (px->end_run() != 0) lerr("post_run returned an error: " + px->errtxt);
  r.count("transitions");
  std::ifstream f((prefix + ".h1.ti.pmf").c_str());
  std::stringstream buf; buf << f.rdbuf();
  std::vector<double> xs, ys;
  std::string base = "\"configuration\":\"" + jesc(conf) + "\",\"same_step_total_forces\":" + (c.same_step ? "true" : "false") + ",\"steps\":[" + seqs + "],\"force_sums\":" + vec_json(Sd) + ",\"counts\":" + vec_json(Cd) + ",";
  if (!f || !parse_two_col(buf.str(), xs, ys) || (long) ys.size() != g.nbins + 1) {
    r.violation("C16:ti:" + fk + ":ti-pmf-file-missing-or-malformed", "{\"grid\":" + g.str() + "," + base + "\"text\":\"" + jesc(buf.str()) + "\"}");
  } else {
    std::vector<double> ref = ref_cumsum(gv, g.w[0], g.per[0], true);
    double mnv = ref[0]; for (double v : ref) mnv = std::min(mnv, v);
    for (double &v : ref) v -= mnv;
    r.count("files_checked");
    long k = first_diff(ys, ref, 1e-12, 1e-13);
    if (k >= 0)
      r.violation((c.per[0] && unsampled) ? "C16:ti:1d:periodic:written-surface-not-periodic/unsampled-bin" : "C16:ti:" + fk + ":written-surface-not-cumulative-sum", mismatch_json(g, "TI .ti.pmf file", k, ys, ref, base));
  }
  delete px;
}

static void phase_abf(Result &r, AbfCfg const &c, int first_symbol, int maxlen, std::string const &prefix)
{
  const int nsym = 6;
  // all sequences of length 1..maxlen whose first symbol is first_symbol
  for (int len = 1; len <= maxlen; len++) {
    long total = 1; for (int i = 1; i < len; i++) total *= nsym;
    for (long code = 0; code < total; code++) {
      std::vector<int> seq(len);
      seq[0] = first_symbol;
      long x = code;
      for (int i = 1; i < len; i++) { seq[i] = (int) (x % nsym); x /= nsym; }
      if (c.ti) run_ti_sequence(r, c, seq, prefix);
      else run_abf_sequence(r, c, seq, prefix);
    }
  }
}

// ------------------------------------------------------------------------------------------------
// work list
// ------------------------------------------------------------------------------------------------
struct Item { int phase; Shape sh; int a, b, c, d; AbfCfg abf; double cost; };
enum { P_CONV, P_SOLVE, P_BASIS, P_ARR, P_ONED, P_ABF, P_DEGEN };

static std::vector<Item> make_items()
{
  std::vector<Item> items;
  int nmax = g_thorough ? 6 : 4;
  auto want = [&](const char *p) { return g_only.empty() || g_only == p; };
  // CONV
  if (want("CONV"))
    for (int nd = 2; nd <= 3; nd++)
      for (int flags = 0; flags < (1 << nd); flags++)
        for (int which = 0; which < 3; which++) {
          Item it{}; it.phase = P_CONV; it.a = which; it.b = nd; it.c = flags; it.cost = nd == 3 ? 1e9 : 1e7;
          items.push_back(it);
        }
  // shapes
  std::vector<Shape> shapes;
  for (int nd = 2; nd <= 3; nd++)
    for (int ws = 0; ws < 2; ws++)
      for (int flags = 0; flags < (1 << nd); flags++) {
        int n[3];
        // one bin (two nodes) is the smallest non-periodic dimension; a periodic dimension needs two bins (one bin is listed
        // under the known findings: see the DEGEN phase)
        for (n[0] = 1; n[0] <= nmax; n[0]++)
          for (n[1] = 1; n[1] <= nmax; n[1]++)
            for (n[2] = (nd == 3 ? 1 : 2); n[2] <= (nd == 3 ? nmax : 2); n[2]++) {
              Shape sh{};
              sh.nd = nd; sh.ws = ws;
              bool degenerate = false;
              for (int d = 0; d < 3; d++) { sh.nb[d] = d < nd ? n[d] : 1; sh.per[d] = d < nd ? (flags >> d) & 1 : false; if (d < nd && n[d] == 1 && sh.per[d]) degenerate = true; }
              if (!degenerate) shapes.push_back(sh);
              else if (want("DEGEN") && ws == 0 && n[0] <= 3 && n[1] <= 3 && n[2] <= 3) { Item it{}; it.phase = P_DEGEN; it.sh = sh; it.cost = 1e3; items.push_back(it); }
            }
      }
  for (Shape const &sh : shapes) {
    double sz = 1; for (int d = 0; d < sh.nd; d++) sz *= sh.nb[d] + 1;
    if (want("BASIS")) { Item it{}; it.phase = P_BASIS; it.sh = sh; it.cost = sz * sz * 10; items.push_back(it); }
    if (want("SOLVE")) { Item it{}; it.phase = P_SOLVE; it.sh = sh; it.cost = sz * sz * 30; items.push_back(it); }
  }
  // ARR: small shapes, both smoothing modes
  if (want("ARR"))
    for (Shape const &sh : shapes) {
      if (sh.ws != 0) continue;
      int lim = g_thorough ? 4 : 3;
      bool small = true; for (int d = 0; d < sh.nd; d++) if (sh.nb[d] > lim) small = false;
      if (sh.nd == 3 && (sh.nb[1] > 2 + (g_thorough ? 1 : 0) || sh.nb[2] > 2)) small = false;
      if (!small) continue;
      for (int sm = 0; sm < 2; sm++) {
        Item it{}; it.phase = P_ARR; it.sh = sh; it.a = sm; it.b = (sh.nd == 3 && !g_thorough) ? 4 : 5; it.cost = 2e6 * (it.b == 5 ? 6 : 1);
        items.push_back(it);
      }
    }
  // ONED
  if (want("ONED"))
    for (int n = 1; n <= 5; n++)
      for (int per = 0; per < 2; per++)
        for (int ws = 0; ws < 2; ws++)
          for (int variant = 0; variant < 4; variant++) {
            Item it{}; it.phase = P_ONED; it.a = n; it.b = per; it.c = ws; it.d = variant; it.cost = std::pow(9.0, n) * 40;
            items.push_back(it);
          }
  // ABF
  if (want("ABF")) {
    std::vector<AbfCfg> cfgs;
    auto add = [&](int nd, int n0, int n1, int n2, int flags, bool same, bool pabf, bool ti = false, bool gb = false) {
      AbfCfg c{}; c.ti = ti; c.gridblock = gb; c.nd = nd; c.nb[0] = n0; c.nb[1] = n1; c.nb[2] = n2;
      for (int d = 0; d < 3; d++) c.per[d] = d < nd ? (flags >> d) & 1 : false;
      c.same_step = same; c.pabf = pabf;
      cfgs.push_back(c);
    };
    for (int flags = 0; flags < 2; flags++) { add(1, 3, 1, 1, flags, true, false); add(1, 3, 1, 1, flags, false, false); add(1, 3, 1, 1, flags, true, false, true); add(1, 3, 1, 1, flags, false, false, true); }
    add(1, 3, 1, 1, 0, true, false, false, true); add(1, 3, 1, 1, 0, true, false, true, true); add(1, 3, 1, 1, 0, false, false, true, true);
    for (int flags = 0; flags < 4; flags++) {
      add(2, 2, 3, 1, flags, true, false);
      add(2, 3, 2, 1, flags, true, true);
      if (g_thorough || flags == 1 || flags == 2) add(2, 3, 3, 1, flags, false, false);
    }
    for (int flags = 0; flags < 8; flags++) {
      if (!g_thorough && !(flags == 0 || flags == 3 || flags == 5 || flags == 7)) continue;
      add(3, 2, 2, 2, flags, true, false);
      if (g_thorough) add(3, 3, 2, 2, flags, true, true);
    }
    for (size_t k = 0; k < cfgs.size(); k++)
      for (int fs = 0; fs < 6; fs++) {
        Item it{}; it.phase = P_ABF; it.abf = cfgs[k]; it.a = fs; it.c = (int) k;
        it.b = g_thorough ? 5 : 4;
        if (cfgs[k].nd == 3 && !g_thorough) it.b = 3;
        it.cost = 3e6 * std::pow(6.0, it.b - 4);
        items.push_back(it);
      }
  }
  std::stable_sort(items.begin(), items.end(), [](Item const &x, Item const &y) { return x.cost > y.cost; });
  return items;
}

static bool g_conv_only_shard = false;

static void worker(int shard, int nshards, Result &r, std::vector<Item> const &items)
{
  make_zoo();
  std::vector<Item const *> mine_abf;
  long k = 0;
  for (Item const &it : items) {
    bool take = (k++ % nshards) == shard;
    if (!take) continue;
    // The keys of these phases embed the item's identity (shape, widths, variant), so key sets of different items are
    // disjoint: distinct keys are counted exactly per item and summed, instead of shipping millions of hashes.
    Result tmp;
    double tp0 = now();
    switch (it.phase) {
    case P_CONV: phase_conv(tmp, it.a, it.b, it.c); break;
    case P_BASIS: phase_basis(tmp, it.sh); break;
    case P_DEGEN: phase_degen(tmp, it.sh); break;
    case P_SOLVE: phase_solve(tmp, it.sh); break;
    case P_ARR: phase_arr(tmp, it.sh, it.a, it.b); break;
    case P_ONED: phase_oned(tmp, it.a, it.b, it.c, it.d); break;
    case P_ABF: mine_abf.push_back(&it); break;
    }
    {
      static const char *pn[] = {"CONV", "SOLVE", "BASIS", "ARR", "ONED", "ABF", "DEGEN"};
      if (getenv("C16_VERBOSE")) r.count(std::string("ms_") + pn[it.phase], (long) ((now() - tp0) * 1000));
    }
    r.count("local_distinct_states", (long) tmp.distinct["states"].size());
    r.count("local_distinct_nontrivial", (long) tmp.distinct["nontrivial"].size());
    tmp.distinct.clear();
    {
      // keep at most one written-out sample per phase
      std::vector<std::string> keep;
      for (auto &x : tmp.samples) {
        size_t p0 = x.find("\"phase\":\"");
        std::string ph = p0 == std::string::npos ? "" : x.substr(p0, 16);
        bool have = false;
        for (auto &y : r.samples) if (y.find(ph) != std::string::npos) have = true;
        for (auto &y : keep) if (y.find(ph) != std::string::npos) have = true;
        if (!have) keep.push_back(x);
      }
      tmp.samples = keep;
    }
    r.merge(tmp);
    if (g_px->errtxt.size()) {
      r.notes.push_back("library error text during phase " + std::to_string(it.phase) + ": " + g_px->errtxt.substr(0, 200));
      g_px->errtxt.clear();
    }
  }
  delete g_px;
  g_px = nullptr;
  for (Item const *it : mine_abf) {
    std::string prefix = g_scratch + "/abf_w" + std::to_string(shard);
    double t0 = now();
    long e0 = r.counters["evaluations"];
    phase_abf(r, it->abf, it->a, it->b, prefix);
    if (getenv("C16_VERBOSE")) r.count("ms_ABF", (long) ((now() - t0) * 1000));
    if (getenv("C16_VERBOSE")) fprintf(stderr, "ABF item cfg %d nd %d pabf %d ti %d same %d first %d: %ld runs %.2f s\n", it->c, it->abf.nd, (int) it->abf.pabf, (int) it->abf.ti, (int) it->abf.same_step, it->a, r.counters["evaluations"] - e0, now() - t0);
    if (getenv("C16_VERBOSE")) fprintf(stderr, "   cumulative: new+config %.2f steps+checks %.2f batch %.2f end_run %.2f filecheck %.2f delete %.2f\n", g_t[0], g_t[1], g_t[2], g_t[3], g_t[4], g_t[5]);
  }
}

// same format as vc::write_result, with explicit distinct counts
static void write_result_c16(std::string const &path, std::string const &tier, Result const &r, bool exhaustive, long nstates, long nnontrivial)
{
  FILE *f = fopen(path.c_str(), "w");
  if (!f) { perror(path.c_str()); exit(2); }
  if (r.counters.count("workers_lost")) exhaustive = false;  // the cases of a lost worker were not all run
  auto pfx = [](std::string const &sg) { return sg.rfind("library-", 0) == 0 ? "C16:" + sg : sg; };
  fprintf(f, "{\n \"property_id\": \"C16\",\n \"tier\": \"%s\",\n \"exhaustive\": %s,\n \"counters\": {", tier.c_str(), exhaustive ? "true" : "false");
  bool first = true;
  for (auto &kv : r.counters) { fprintf(f, "%s\"%s\": %ld", first ? "" : ", ", jesc(kv.first).c_str(), kv.second); first = false; }
  fprintf(f, "},\n \"distinct\": {\"states\": %ld, \"nontrivial\": %ld},\n \"violation_counts\": {", nstates, nnontrivial);
  first = true;
  for (auto &kv : r.viol_count) { fprintf(f, "%s\"%s\": %ld", first ? "" : ", ", jesc(pfx(kv.first)).c_str(), kv.second); first = false; }
  fprintf(f, "},\n \"violations\": [");
  first = true;
  for (auto &v : r.violations) { fprintf(f, "%s\n  {\"sig\": \"%s\", \"detail\": %s}", first ? "" : ",", jesc(pfx(v.sig)).c_str(), v.detail.size() ? v.detail.c_str() : "{}"); first = false; }
  fprintf(f, "],\n \"samples\": [");
  first = true;
  for (auto &x : r.samples) { fprintf(f, "%s\n  %s", first ? "" : ",", x.c_str()); first = false; }
  fprintf(f, "],\n \"notes\": [");
  first = true;
  for (auto &x : r.notes) { fprintf(f, "%s\"%s\"", first ? "" : ", ", jesc(x).c_str()); first = false; }
  fprintf(f, "]\n}\n");
  fclose(f);
}

int main(int argc, char **argv)
{
  Args args(argc, argv);
  g_thorough = args.thorough();
  if (args.kv.count("scratch")) g_scratch = args.kv["scratch"];
  // the ABF/TI runs write four small files each; on disk that costs 5-15 ms per run, in tmpfs 0.1 ms
  std::string shm = "/dev/shm/c16_" + std::to_string((long) getpid());
  bool use_shm = (mkdir(shm.c_str(), 0700) == 0);
  if (use_shm) g_scratch = shm;
  if (args.kv.count("only")) g_only = args.kv["only"];
  selftest_reference();
  if (args.kv.count("abfcase")) {
    // single-case replay: --abfcase nd,n0,n1,n2,flags,same,pabf,ti:sym,sym,...
    std::string a = args.kv["abfcase"];
    AbfCfg c{};
    int flags = 0, same = 1, pabf = 0, ti = 0;
    size_t colon = a.find(':');
    if (sscanf(a.c_str(), "%d,%d,%d,%d,%d,%d,%d,%d", &c.nd, &c.nb[0], &c.nb[1], &c.nb[2], &flags, &same, &pabf, &ti) != 8 || colon == std::string::npos) herr("bad --abfcase");
    for (int d = 0; d < 3; d++) c.per[d] = d < c.nd ? (flags >> d) & 1 : false;
    c.same_step = same; c.pabf = pabf; c.ti = ti;
    std::vector<int> seq;
    std::istringstream is(a.substr(colon + 1));
    std::string tok;
    while (std::getline(is, tok, ',')) seq.push_back(atoi(tok.c_str()));
    Result r;
    setenv("C16_TRACE", "1", 1);
    if (c.ti) run_ti_sequence(r, c, seq, g_scratch + "/replay"); else run_abf_sequence(r, c, seq, g_scratch + "/replay");
    for (auto &v : r.violations) printf("VIOLATION %s\n%s\n", v.sig.c_str(), v.detail.c_str());
    printf("%zu violation(s)\n", r.violations.size());
    if (getenv("C16_KEEP")) { std::string cmd = "cat " + g_scratch + "/replay*pmf"; if (system(cmd.c_str())) {} }
    if (use_shm) { std::string cmd = "rm -rf " + shm; if (system(cmd.c_str())) {} }
    return 0;
  }
  std::vector<Item> items = make_items();
  Result total;
  double t0 = now();
  bool ok = run_sharded(args.jobs, [&](int s, int n, Result &r) { worker(s, n, r, items); }, total, 3000);
  if (use_shm) { std::string cmd = "rm -rf " + shm; if (system(cmd.c_str()) != 0) fprintf(stderr, "could not remove %s\n", shm.c_str()); }
  if (!ok) return 2;
  if (getenv("C16_VERBOSE")) total.notes.push_back("harness wall time " + std::to_string((long) (now() - t0)) + " s on " + std::to_string(args.jobs) + " workers");
  long by_phase[7] = {0, 0, 0, 0, 0, 0, 0};
  for (Item const &it : items) by_phase[it.phase]++;
  total.notes.push_back("work items: CONV " + std::to_string(by_phase[P_CONV]) + ", SOLVE shapes " + std::to_string(by_phase[P_SOLVE]) + ", BASIS shapes " + std::to_string(by_phase[P_BASIS]) +
                        ", ARR (shape x smoothing) " + std::to_string(by_phase[P_ARR]) + ", ONED (n x periodic x width x variant) " + std::to_string(by_phase[P_ONED]) +
                        ", ABF (configuration x first symbol) " + std::to_string(by_phase[P_ABF]) + ", DEGEN (shapes with a one-bin periodic dimension) " + std::to_string(by_phase[P_DEGEN]));
  total.notes.push_back("1-D smoothed+periodic integrate() is counted, not judged: b_smoothed is never set by any caller in src/, and integrate() removes the UNsmoothed mean there");
  if (total.counters["evaluations"] == 0) { fprintf(stderr, "HARNESS-ERROR: nothing was evaluated\n"); return 2; }
  fprintf(stderr, "C16 %s: %ld evaluations, %ld transitions, %ld states, %ld nontrivial, %zu violation signatures, %.1f s\n", args.tier.c_str(),
          total.counters["evaluations"], total.counters["transitions"], (long) total.distinct["states"].size() + total.counters["local_distinct_states"],
          (long) total.distinct["nontrivial"].size() + total.counters["local_distinct_nontrivial"], total.viol_count.size(), now() - t0);
  for (auto &kv : total.counters) fprintf(stderr, "  counter %s = %ld\n", kv.first.c_str(), kv.second);
  for (auto &kv : total.viol_count) fprintf(stderr, "  VIOL %s x %ld\n", kv.first.c_str(), kv.second);
  {
    auto prio = [](std::string const &x) {
      const char *order[] = {"\"phase\":\"ABF\"", "\"phase\":\"ARR\"", "\"phase\":\"BASIS\"", "\"phase\":\"SOLVE\"", "\"phase\":\"ONED\"", "\"phase\":\"CONV\""};
      for (int i = 0; i < 6; i++) if (x.find(order[i]) != std::string::npos) return i;
      return 6;
    };
    std::stable_sort(total.samples.begin(), total.samples.end(), [&](std::string const &a, std::string const &b) { return prio(a) < prio(b); });
  }
  // fold the per-item exact counts into the distinct sets' sizes (see worker())
  write_result_c16(args.out, args.tier, total, g_only.empty(),
                   (long) total.distinct["states"].size() + total.counters["local_distinct_states"],
                   (long) total.distinct["nontrivial"].size() + total.counters["local_distinct_nontrivial"]);
  return 0;
}
