// C20 — shared pieces of the scripting-interface check: scenarios, script call helper, observation record,
// forked batches with crash attribution.
#ifndef C20_COMMON_H
#define C20_COMMON_H

#include "vproxy.h"
#include "common.h"
#include "colvarcomp.h"
#include "colvarscript_commands.h"
#include <sys/stat.h>

using namespace vc;

// ------------------------------------------------------------------ scenarios
struct Scn {
  std::string id;
  int natoms = 6;
  double T = 0.0;
  std::vector<std::string> cvn, cvc, bn, bc;  // names / configuration texts of 2 variables and 2 biases
  std::string xn, xc;                         // "one more bias"
  std::string zc;                             // one more variable (name zz)
  // prepared by a donor run in the main process
  std::string state3;
  std::vector<std::string> bstate3;
  std::string prefix, conffile;
  std::vector<std::string> bprefix;
};

static std::vector<Scn> make_scenarios()
{
  std::vector<Scn> v;
  {
    Scn s; s.id = "A";
    s.cvn = {"d", "v"};
    s.cvc = {"colvar {\n name d\n width 0.5\n lowerBoundary 0.0\n upperBoundary 8.0\n distance {\n group1 { atomNumbers 1 2 }\n group2 { atomNumbers 3 }\n }\n}\n",
             "colvar {\n name v\n distanceVec {\n group1 { atomNumbers 4 }\n group2 { atomNumbers 5 6 }\n }\n}\n"};
    s.bn = {"h", "a"};
    s.bc = {"harmonic {\n name h\n colvars v\n centers (1.0, 0.5, -0.5)\n forceConstant 3.0\n}\n",
            "abf {\n name a\n colvars d\n fullSamples 1\n}\n"};
    s.xn = "x";
    s.xc = "harmonicWalls {\n name x\n colvars d\n lowerWalls 1.0\n upperWalls 1.2\n forceConstant 4.0\n}\n";
    s.zc = "colvar {\n name zz\n distance {\n group1 { atomNumbers 1 }\n group2 { atomNumbers 6 }\n }\n}\n";
    v.push_back(s);
  }
  {
    Scn s; s.id = "B"; s.T = 300.0;
    s.cvn = {"x", "q"};
    s.cvc = {"colvar {\n name x\n width 0.5\n lowerBoundary 0.0\n upperBoundary 8.0\n extendedLagrangian on\n extendedFluctuation 0.3\n extendedTimeConstant 20.0\n distance {\n group1 { atomNumbers 1 }\n group2 { atomNumbers 2 }\n }\n}\n",
             "colvar {\n name q\n orientation {\n atoms { atomNumbers 3 4 5 6 }\n refPositions (0.2, 1.4, 0.3) (-0.4, 0.6, 1.6) (1.1, -0.8, 0.9) (0.3, 0.9, -1.2)\n }\n}\n"};
    s.bn = {"m", "k"};
    s.bc = {"metadynamics {\n name m\n colvars x\n hillWeight 0.4\n hillWidth 2.0\n newHillFrequency 1\n keepHills on\n}\n",
            "harmonic {\n name k\n colvars q\n centers (1.0, 0.0, 0.0, 0.0)\n forceConstant 2.0\n}\n"};
    s.xn = "l";
    s.xc = "linear {\n name l\n colvars x\n centers 0.0\n forceConstant 0.7\n}\n";
    s.zc = "colvar {\n name zz\n distance {\n group1 { atomNumbers 1 }\n group2 { atomNumbers 6 }\n }\n}\n";
    v.push_back(s);
  }
  {
    Scn s; s.id = "C";
    s.cvn = {"z", "p"};
    s.cvc = {"colvar {\n name z\n width 0.4\n lowerBoundary -6.0\n upperBoundary 6.0\n outputTotalForce on\n runAve on\n runAveLength 2\n runAveStride 1\n distanceZ {\n main { atomNumbers 5 6 }\n ref { atomNumbers 1 }\n }\n}\n",
             "colvar {\n name p\n cartesian {\n atoms { atomNumbers 2 3 }\n }\n}\n"};
    s.bn = {"w", "g"};
    s.bc = {"harmonicWalls {\n name w\n colvars z\n lowerWalls 0.5\n upperWalls 0.6\n forceConstant 3.0\n}\n",
            "histogram {\n name g\n colvars z\n}\n"};
    s.xn = "l";
    s.xc = "linear {\n name l\n colvars z\n centers 0.0\n forceConstant 0.7\n}\n";
    s.zc = "colvar {\n name zz\n distance {\n group1 { atomNumbers 1 }\n group2 { atomNumbers 6 }\n }\n}\n";
    v.push_back(s);
  }
  return v;
}

static std::string all_conf(Scn const &s)
{
  std::string t;
  for (auto &c : s.cvc) t += c;
  for (auto &c : s.bc) t += c;
  return t;
}

// scripted trajectory and system forces: functions of the engine step only
static void place(vproxy &px, long s)
{
  static const double P[8][3] = {{0, 0, 0}, {1.5, 0, 0}, {0.2, 1.4, 0.3}, {-0.4, 0.6, 1.6}, {1.1, -0.8, 0.9}, {0.3, 0.9, -1.2}, {2.0, 2.0, 0.5}, {-1.0, 1.0, 1.0}};
  for (int a = 0; a < px.natoms; a++) {
    px.x[a] = cvm::rvector(P[a][0] + 0.11 * s * (a + 1), P[a][1] - 0.06 * s * a, P[a][2] + 0.04 * s * ((a * 7) % 3 - 1));
    px.fsys[a] = cvm::rvector(0.2 * (a - 2), 0.1 * s + 0.05, -0.05 * a);
  }
}

static vproxy *new_px(Scn const &sc, bool same_step = true)
{
  vproxy *px = new vproxy(sc.natoms, same_step);
  for (int a = 0; a < sc.natoms; a++) { px->m[a] = 1.0 + 0.5 * a; px->q[a] = 0.1 * a - 0.2; }
  px->set_target_temperature(sc.T);
  place(*px, 0);
  return px;
}

// ------------------------------------------------------------------ script call (as the Tcl wrapper does it: clear errors, run, collect messages)
struct SR { int rc = 0; std::string out, msgs; int errbits = 0; };

static SR cvs(vproxy &px, std::vector<std::string> const &w)
{
  cvm::clear_error();
  std::vector<unsigned char *> v;
  for (auto &s : w) v.push_back((unsigned char *) s.c_str());
  SR r;
  r.rc = run_colvarscript_command((int) v.size(), v.data());
  char const *res = get_colvarscript_result();
  r.out = res ? res : "";
  r.msgs = px.get_error_msgs();
  r.errbits = cvm::get_error();
  cvm::clear_error();
  return r;
}

static std::vector<std::string> W(std::initializer_list<std::string> l) { return std::vector<std::string>(l); }

// ------------------------------------------------------------------ observation record (bit-exact)
static void cvv(colvarvalue const &v, std::vector<double> &o)
{
  switch (v.type()) {
  case colvarvalue::type_scalar: o.push_back(v.real_value); break;
  case colvarvalue::type_3vector: case colvarvalue::type_unit3vector: case colvarvalue::type_unit3vectorderiv:
    o.push_back(v.rvector_value.x); o.push_back(v.rvector_value.y); o.push_back(v.rvector_value.z); break;
  case colvarvalue::type_quaternion: case colvarvalue::type_quaternionderiv:
    o.push_back(v.quaternion_value.q0); o.push_back(v.quaternion_value.q1); o.push_back(v.quaternion_value.q2); o.push_back(v.quaternion_value.q3); break;
  case colvarvalue::type_vector:
    for (size_t i = 0; i < v.vector1d_value.size(); i++) o.push_back(v.vector1d_value[i]);
    break;
  default: o.push_back(-777.0);
  }
}

static std::string hx(double d) { char b[40]; snprintf(b, 40, "%a", d); return b; }

static std::string observe(vproxy &px, bool with_state = true)
{
  std::string s;
  for (colvar *cv : *(px.colvars->variables())) {
    std::vector<double> o;
    cvv(cv->x_reported, o); cvv(cv->applied_force(), o); cvv(cv->ft_reported, o);
    s += "V " + cv->name + (cv->is_enabled(colvardeps::f_cv_active) ? " on" : " off");
    for (double d : o) s += " " + hx(d);
    s += "\n";
  }
  for (colvarbias *b : px.colvars->biases) s += "B " + b->name + " " + hx(b->get_energy()) + "\n";
  s += "E " + hx(px.energy) + "\n";
  for (int a = 0; a < px.natoms; a++) s += "F " + hx(px.fapp[a].x) + " " + hx(px.fapp[a].y) + " " + hx(px.fapp[a].z) + "\n";
  if (with_state) s += "S " + px.state_text() + "\n";
  return s;
}

// first line on which two records differ
static std::string first_diff(std::string const &a, std::string const &b)
{
  std::istringstream ia(a), ib(b);
  std::string la, lb;
  for (;;) {
    bool ga = (bool) std::getline(ia, la), gb = (bool) std::getline(ib, lb);
    if (!ga && !gb) return "";
    if (!ga) la = "<end>";
    if (!gb) lb = "<end>";
    if (la != lb) return la.substr(0, 160) + "  |vs|  " + lb.substr(0, 160);
  }
}

// `cv list` / `cv list biases` against the internal object lists
static std::string list_problem(vproxy &px)
{
  std::string want, wantb;
  for (colvar *cv : *(px.colvars->variables())) want += (want.size() ? " " : "") + cv->name;
  for (colvarbias *b : px.colvars->biases) wantb += (wantb.size() ? " " : "") + b->name;
  SR a = cvs(px, W({"cv", "list"}));
  SR b = cvs(px, W({"cv", "list", "biases"}));
  if (a.rc != 0 || a.out != want) return "cv list gave \"" + a.out + "\" (rc " + std::to_string(a.rc) + "), internal list is \"" + want + "\"";
  if (b.rc != 0 || b.out != wantb) return "cv list biases gave \"" + b.out + "\" (rc " + std::to_string(b.rc) + "), internal list is \"" + wantb + "\"";
  return "";
}

// ------------------------------------------------------------------ forked batches with crash attribution
static std::string g_wdir;  // working directory of this worker (files written by commands land here)

static void read_file(std::string const &p, std::string &o)
{
  o.clear();
  FILE *f = fopen(p.c_str(), "rb");
  if (!f) return;
  char b[4096]; size_t n;
  while ((n = fread(b, 1, sizeof(b), f)) > 0) { o.append(b, n); if (o.size() > 200000) break; }
  fclose(f);
}

static std::string death_kind(int exitinfo, std::string const &err)
{
  size_t p;
  if (exitinfo == -1000) return "hang";
  std::string where;
  {
    // first frame inside the library
    size_t pos = 0;
    while ((pos = err.find(" in ", pos)) != std::string::npos) {
      size_t eol = err.find('\n', pos);
      std::string fr = err.substr(pos + 4, eol - (pos + 4));
      if (fr.find("/src/colvar") != std::string::npos) {
        size_t sl = fr.rfind('/');
        std::string file = fr.substr(sl + 1);
        where = "@" + file.substr(0, file.find(':'));
        break;
      }
      pos += 4;
    }
  }
  if ((p = err.find("ERROR: AddressSanitizer: ")) != std::string::npos) {
    size_t q = err.find_first_of(" \n", p + 25);
    return "asan-" + err.substr(p + 25, q - (p + 25)) + where;
  }
  if ((p = err.find("runtime error: ")) != std::string::npos) {
    std::string msg = err.substr(p + 15, err.find('\n', p) - (p + 15));
    std::string k = "other";
    if (msg.find("null pointer") != std::string::npos) k = "null-pointer-use";
    else if (msg.find("division by zero") != std::string::npos) k = "division-by-zero";
    else if (msg.find("out of bounds") != std::string::npos) k = "index-out-of-bounds";
    else if (msg.find("outside the range of representable") != std::string::npos) k = "float-cast-overflow";
    else if (msg.find("overflow") != std::string::npos) k = "integer-overflow";
    else if (msg.find("not a valid value for type") != std::string::npos) k = "invalid-value-load";
    // file of the report itself
    size_t lb = err.rfind('\n', p);
    std::string loc = err.substr(lb == std::string::npos ? 0 : lb + 1, p - (lb == std::string::npos ? 0 : lb + 1));
    size_t sl = loc.rfind('/');
    if (sl != std::string::npos) { loc = loc.substr(sl + 1); loc = loc.substr(0, loc.find(':')); where = "@" + loc; }
    return "ubsan-" + k + where;
  }
  if ((p = err.find("terminate called after throwing an instance of '")) != std::string::npos) {
    size_t q = err.find('\'', p + 48);
    return "uncaught-" + err.substr(p + 48, q - (p + 48));
  }
  if (exitinfo < 0) return "signal" + std::to_string(-exitinfo);
  return "exit" + std::to_string(exitinfo);
}

// Run cases [lo,hi) in forked children; run_one(i, Result&) executes one case and fills its own Result.
// A case that kills its child is replayed alone twice; on_crash(i, kind, stderr_tail) records it.
static void run_cases_forked(size_t lo, size_t hi, std::function<void(size_t, Result &)> run_one,
                             std::function<void(size_t, std::string const &, std::string const &)> on_crash,
                             Result &r, double batch_timeout = 300, double case_timeout = 60)
{
  std::string errfile = g_wdir + "/stderr.txt";
  size_t start = lo;
  while (start < hi) {
    std::string out;
    int rc = run_isolated([&]() {
      int fd = open(errfile.c_str(), O_WRONLY | O_CREAT | O_TRUNC, 0644);
      if (fd >= 0) { dup2(fd, 2); close(fd); }
      for (size_t i = start; i < hi; i++) {
        Result rr;
        run_one(i, rr);
        std::string s = "B " + std::to_string(i) + "\n" + rr.ser() + "E " + std::to_string(i) + "\n";
        size_t off = 0;
        while (off < s.size()) { ssize_t n = write(3, s.data() + off, s.size() - off); if (n <= 0) _exit(5); off += n; }
      }
      return 0;
    }, batch_timeout, &out);
    // parse complete blocks
    size_t next = start, pos = 0;
    for (;;) {
      std::string hb = "B " + std::to_string(next) + "\n";
      if (out.compare(pos, hb.size(), hb) != 0) break;
      std::string he = "E " + std::to_string(next) + "\n";
      size_t e = out.find("\n" + he, pos + hb.size() - 1);
      if (e == std::string::npos) break;
      r.deser(out.substr(pos + hb.size(), e + 1 - (pos + hb.size())));
      pos = e + 1 + he.size();
      next++;
    }
    if (rc == 0 && next == hi) return;
    if (next >= hi) return;  // died after the last case was delivered
    if (rc == 2 || rc == 5) { std::string e; read_file(errfile, e); fprintf(stderr, "HARNESS-ERROR in a batch child (exit %d): %s\n", rc, e.substr(0, 2000).c_str()); exit(2); }
    // `next` is the case that did not complete: replay it alone, twice
    std::string kinds[2], errs[2];
    for (int k = 0; k < 2; k++) {
      std::string o2;
      int rc2 = run_isolated([&]() {
        int fd = open(errfile.c_str(), O_WRONLY | O_CREAT | O_TRUNC, 0644);
        if (fd >= 0) { dup2(fd, 2); close(fd); }
        Result rr;
        run_one(next, rr);
        std::string s = rr.ser();
        size_t off = 0;
        while (off < s.size()) { ssize_t n = write(3, s.data() + off, s.size() - off); if (n <= 0) break; off += n; }
        return 0;
      }, case_timeout, &o2);
      read_file(errfile, errs[k]);
      if (rc2 == 0) { kinds[k] = ""; if (k == 1 || true) { if (k == 0) { /* did not reproduce alone: take its result */ r.deser(o2); r.count("died_in_batch_but_not_alone"); } } break; }
      kinds[k] = death_kind(rc2, errs[k]);
    }
    if (!kinds[0].empty()) {
      r.count("evaluations");
      std::string tail = errs[0];
      size_t p = tail.find("ERROR: AddressSanitizer");
      if (p == std::string::npos) p = tail.find("runtime error");
      if (p != std::string::npos) { size_t lb = tail.rfind('\n', p); tail = tail.substr(lb == std::string::npos ? 0 : lb + 1); }
      on_crash(next, kinds[0] + (kinds[1] == kinds[0] ? "" : "(not-reproducible:" + kinds[1] + ")"), tail.substr(0, 1500));
    }
    start = next + 1;
  }
}

static void herr(std::string const &m)
{
  fprintf(stderr, "HARNESS-ERROR: %s\n", m.c_str());
  exit(2);
}

#endif
