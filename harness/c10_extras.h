// C10: feature-rich base configurations and auxiliary files beyond the repository's test inputs.
// Every configuration here must load and run cleanly on the unchanged tree (checked at start-up:
// a base that is not accepted is a HARNESS-ERROR).  One keyword per line.
#ifndef C10_EXTRAS_H
#define C10_EXTRAS_H
#include <map>
#include <string>
#include <vector>

inline std::map<std::string, std::string> c10_extra_files()
{
  std::map<std::string, std::string> f;
  // Cartesian path nodes (4 atoms each)
  f["c10_node1.xyz"] = "4\nnode 1\nC 0.0 0.0 0.0\nC 1.5 0.0 0.0\nC 1.5 1.5 0.0\nC 0.0 1.5 1.0\n";
  f["c10_node2.xyz"] = "4\nnode 2\nC 0.0 0.0 0.0\nC 1.6 0.1 0.0\nC 1.7 1.6 0.2\nC 0.2 1.9 1.4\n";
  f["c10_node3.xyz"] = "4\nnode 3\nC 0.0 0.0 0.0\nC 1.7 0.2 0.1\nC 2.0 1.7 0.5\nC 0.5 2.3 1.9\n";
  f["c10_node4.xyz"] = "4\nnode 4\nC 0.0 0.0 0.0\nC 1.8 0.3 0.2\nC 2.3 1.8 0.9\nC 0.9 2.7 2.5\n";
  // path in CV space (2 dihedrals)
  f["c10_path.txt"] = " -80.0  60.0\n -70.0  80.0\n -60.0 100.0\n -50.0 120.0\n -40.0 140.0\n";
  // dense network 2 -> 2 -> 1
  f["c10_w1.txt"] = "0.5 -0.25\n0.125 0.75\n";
  f["c10_b1.txt"] = "0.1\n-0.2\n";
  f["c10_w2.txt"] = "1.0 -1.0\n";
  f["c10_b2.txt"] = "0.05\n";
  // target distribution for ebMeta (multicolumn grid, 1 variable, 20 bins of 1.0 from 2.0)
  {
    std::string g = "# 1\n#  2.0  1.0  20  0\n\n";
    for (int i = 0; i < 20; i++) g += "  " + std::to_string(2.5 + i) + "  " + std::to_string(0.02 + 0.003 * i) + "\n";
    f["c10_target.dat"] = g;
  }
  return f;
}

#define C10_D(name, a, b) \
  "colvar {\n name " name "\n width 0.5\n lowerBoundary 2.0\n upperBoundary 22.0\n distance {\n group1 {\n atomNumbers " a "\n }\n group2 {\n atomNumbers " b "\n }\n }\n}\n"
#define C10_T(name, a, b, c, d) \
  "colvar {\n name " name "\n width 10.0\n lowerBoundary -180.0\n upperBoundary 180.0\n dihedral {\n group1 {\n atomNumbers " a "\n }\n group2 {\n atomNumbers " b "\n }\n group3 {\n atomNumbers " c "\n }\n group4 {\n atomNumbers " d "\n }\n }\n}\n"

inline std::vector<std::pair<std::string, std::string>> c10_extra_configs()
{
  std::vector<std::pair<std::string, std::string>> v;
  auto add = [&](const char *n, std::string const &c) { v.push_back(std::make_pair(std::string(n), c)); };

  add("colvar-extended-analysis",
      "colvarsTrajFrequency 1\ncolvarsRestartFrequency 2\n"
      "colvar {\n name d\n width 0.5\n lowerBoundary 2.0\n upperBoundary 30.0\n hardLowerBoundary on\n hardUpperBoundary off\n"
      " expandBoundaries on\n extendedLagrangian on\n extendedFluctuation 0.2\n extendedTimeConstant 100.0\n"
      " extendedTemp 300.0\n extendedLangevinDamping 1.0\n subtractAppliedForce on\n outputValue on\n outputVelocity on\n"
      " outputEnergy on\n outputTotalForce on\n outputAppliedForce on\n timeStepFactor 1\n"
      " runAve on\n runAveLength 2\n runAveStride 1\n runAveOutputFile c10.runave\n"
      " distance {\n group1 {\n atomNumbers 1 2 3\n }\n group2 {\n atomNumbers 50 51\n }\n }\n}\n"
      "harmonic {\n colvars d\n centers 12.0\n forceConstant 1.0\n}\n");

  add("rmsd-inline-reference-and-permutation",
      "colvarsTrajFrequency 1\n"
      "colvar {\n name r\n rmsd {\n atoms {\n atomNumbers 1 2 3 4\n }\n"
      " refPositions (0.0,0.0,0.0) (1.5,0.0,0.0) (1.5,1.5,0.0) (0.0,1.5,1.0)\n atomPermutation 4 3 2 1\n }\n}\n"
      "harmonic {\n colvars r\n centers 1.0\n forceConstant 1.0\n}\n");

  add("colvar-corrfunc",
      "colvarsTrajFrequency 1\n"
      "colvar {\n name d\n outputVelocity on\n corrFunc on\n corrFuncType velocity\n corrFuncLength 2\n corrFuncStride 1\n"
      " corrFuncOffset 0\n corrFuncNormalize on\n corrFuncOutputFile c10.corrfunc\n"
      " distance {\n group1 {\n atomNumbers 1 2 3\n }\n group2 {\n atomNumbers 50 51\n }\n }\n}\n"
      "colvar {\n name e\n corrFunc on\n corrFuncWithColvar d\n corrFuncType coordinate\n corrFuncLength 3\n corrFuncStride 2\n"
      " distance {\n group1 {\n atomNumbers 10\n }\n group2 {\n atomNumbers 70\n }\n }\n}\n");

  add("colvar-multi-cvc",
      "colvar {\n name lc\n"
      " distance {\n name d1\n componentCoeff 2.0\n componentExp 2\n group1 {\n atomNumbers 1\n }\n group2 {\n atomNumbers 30\n }\n }\n"
      " distanceZ {\n name z1\n componentCoeff -0.5\n axis (0.0, 0.0, 1.0)\n main {\n atomNumbers 5 6\n }\n ref {\n atomNumbers 40 41\n }\n ref2 {\n atomNumbers 80\n }\n }\n"
      "}\n"
      "colvar {\n name zper\n distanceZ {\n period 8.0\n wrapAround 1.0\n forceNoPBC on\n oneSiteTotalForce on\n main {\n atomNumbers 5\n }\n ref {\n atomNumbers 40\n }\n }\n}\n"
      "harmonic {\n colvars lc zper\n centers 10.0 0.5\n forceConstant 0.1\n}\n");

  add("atomgroup-rich",
      "colvar {\n name g\n distance {\n"
      "  group1 {\n name grp_a\n atomNumbersRange 1-6\n atomNumbers 9 11\n centerToOrigin off\n centerToReference on\n rotateToReference on\n"
      "   refPositions (1.0, 0.0, 0.0) (0.0, 1.0, 0.0) (0.0, 0.0, 1.0) (1.0, 1.0, 0.5)\n"
      "   enableFitGradients on\n enableForces on\n printAtomIDs on\n"
      "   fittingGroup {\n atomNumbers 20 21 22 23\n }\n"
      "  }\n"
      "  group2 {\n dummyAtom (1.0, 2.0, 3.0)\n }\n"
      " }\n}\n"
      "colvar {\n name g2\n distance {\n group1 {\n atomsOfGroup grp_a\n }\n group2 {\n atomNumbers 90 91\n }\n }\n}\n"
      "harmonic {\n colvars g g2\n centers 5.0 5.0\n forceConstant 0.5\n}\n");

  add("cvc-cartesian-polar",
      "colvar {\n name cart\n cartesian {\n atoms {\n atomNumbers 3 4\n }\n }\n}\n"
      "colvar {\n name pth\n polarTheta {\n atoms {\n atomNumbers 3 4 5\n }\n }\n}\n"
      "colvar {\n name pph\n polarPhi {\n atoms {\n atomNumbers 3 4 5\n }\n }\n}\n"
      "harmonic {\n colvars pth pph\n centers 90.0 10.0\n forceConstant 0.01\n}\n");

  add("cvc-alchlambda",
      "colvar {\n name lam\n lowerBoundary 0.0\n upperBoundary 1.0\n width 0.1\n alchLambda {\n name al\n }\n}\n"
      "colvar {\n name flam\n alchFLambda {\n name afl\n }\n}\n");

  add("cvc-cartesian-paths",
      "colvar {\n name as\n aspath {\n lambda 0.5\n atoms {\n atomNumbers 5 7 9 15\n }\n refPositionsFile1 c10_node1.xyz\n refPositionsFile2 c10_node2.xyz\n refPositionsFile3 c10_node3.xyz\n refPositionsFile4 c10_node4.xyz\n }\n}\n"
      "colvar {\n name az\n azpath {\n lambda 0.5\n atoms {\n atomNumbers 5 7 9 15\n }\n refPositionsFile1 c10_node1.xyz\n refPositionsFile2 c10_node2.xyz\n refPositionsFile3 c10_node3.xyz\n refPositionsFile4 c10_node4.xyz\n }\n}\n"
      "colvar {\n name gs\n gspath {\n useSecondClosestFrame on\n useThirdClosestFrame off\n atoms {\n atomNumbers 5 7 9 15\n }\n refPositionsFile1 c10_node1.xyz\n refPositionsFile2 c10_node2.xyz\n refPositionsFile3 c10_node3.xyz\n refPositionsFile4 c10_node4.xyz\n }\n}\n"
      "colvar {\n name gz\n gzpath {\n useSecondClosestFrame on\n useZsquare off\n atoms {\n atomNumbers 5 7 9 15\n }\n refPositionsFile1 c10_node1.xyz\n refPositionsFile2 c10_node2.xyz\n refPositionsFile3 c10_node3.xyz\n refPositionsFile4 c10_node4.xyz\n }\n}\n"
      "harmonic {\n colvars as gs\n centers 0.5 0.5\n forceConstant 1.0\n}\n");

#define C10_SUBDIH \
  " dihedral {\n name 001\n group1 {\n atomNumbers 5\n }\n group2 {\n atomNumbers 7\n }\n group3 {\n atomNumbers 9\n }\n group4 {\n atomNumbers 15\n }\n }\n" \
  " dihedral {\n name 002\n group1 {\n atomNumbers 15\n }\n group2 {\n atomNumbers 17\n }\n group3 {\n atomNumbers 19\n }\n group4 {\n atomNumbers 25\n }\n }\n"

  add("cvc-cv-paths",
      "colvar {\n name gs\n gspathCV {\n" C10_SUBDIH " pathFile c10_path.txt\n useSecondClosestFrame on\n }\n}\n"
      "colvar {\n name gz\n gzpathCV {\n" C10_SUBDIH " pathFile c10_path.txt\n useZsquare on\n }\n}\n"
      "colvar {\n name as\n aspathCV {\n lambda 0.006\n weights 1.0 0.5\n" C10_SUBDIH " pathFile c10_path.txt\n }\n}\n"
      "colvar {\n name az\n azpathCV {\n lambda 0.006\n" C10_SUBDIH " pathFile c10_path.txt\n }\n}\n"
      "harmonic {\n colvars gs as\n centers 0.5 0.5\n forceConstant 1.0\n}\n");

  add("cvc-lincomb-nn",
      "colvar {\n name lc\n linearCombination {\n" C10_SUBDIH " }\n}\n"
      "colvar {\n name nn\n neuralNetwork {\n output_component 0\n layer1_WeightsFile c10_w1.txt\n layer1_BiasesFile c10_b1.txt\n layer1_activation tanh\n"
      " layer2_WeightsFile c10_w2.txt\n layer2_BiasesFile c10_b2.txt\n layer2_activation tanh\n" C10_SUBDIH " }\n}\n"
      "harmonic {\n colvars lc nn\n centers 10.0 0.1\n forceConstant 0.01\n}\n");

  add("meta-rich",
      "colvarsTrajFrequency 1\ncolvarsRestartFrequency 2\n" C10_D("d", "1 2", "60 61") C10_T("t", "5", "7", "9", "15")
      "metadynamics {\n name m\n colvars d t\n hillWeight 0.05\n gaussianSigmas 0.6 12.0\n newHillFrequency 1\n useGrids on\n"
      " gridsUpdateFrequency 2\n rebinGrids off\n wellTempered on\n biasTemperature 2000.0\n keepHills on\n"
      " writeFreeEnergyFile on\n keepFreeEnergyFiles on\n writeHillsTrajectory on\n outputFreq 2\n outputEnergy on\n timeStepFactor 1\n}\n");

  add("meta-ebmeta",
      C10_D("d", "1 2", "60 61")
      "metadynamics {\n name m\n colvars d\n hillWeight 0.05\n hillWidth 1.5\n newHillFrequency 2\n ebMeta on\n targetDistFile c10_target.dat\n"
      " targetDistMinVal 0.05\n ebMetaEquilSteps 2\n}\n");

  add("meta-nogrid",
      C10_D("d", "1 2", "60 61")
      "metadynamics {\n name m\n colvars d\n hillWeight 0.05\n hillWidth 1.5\n newHillFrequency 1\n useGrids off\n writeHillsTrajectory on\n}\n");

  add("abf-czar",
      "colvarsTrajFrequency 1\ncolvarsRestartFrequency 2\n"
      "colvar {\n name d\n width 0.5\n lowerBoundary 2.0\n upperBoundary 22.0\n extendedLagrangian on\n extendedFluctuation 0.2\n extendedTimeConstant 100\n"
      " subtractAppliedForce on\n distance {\n group1 {\n atomNumbers 1 2\n }\n group2 {\n atomNumbers 60 61\n }\n }\n}\n"
      "abf {\n name a\n colvars d\n fullSamples 2\n minSamples 1\n historyFreq 2\n maxForce 10.0\n CZARestimator on\n writeCZARwindowFile on\n"
      " UIestimator off\n integrate on\n hideJacobian off\n applyBias on\n updateBias on\n shared off\n outputFreq 2\n}\n");

  add("abf-2d-integrate",
      C10_T("t1", "5", "7", "9", "15") C10_T("t2", "15", "17", "19", "25")
      "abf {\n name a\n colvars t1 t2\n fullSamples 1\n historyFreq 2\n integrate on\n integrateMaxIterations 50\n integrateTol 1e-4\n"
      " pABFintegrateFreq 2\n pABFintegrateMaxIterations 20\n pABFintegrateTol 1e-3\n outputFreq 2\n}\n");

  add("abf-ui",
      "colvar {\n name d\n width 0.5\n lowerBoundary 2.0\n upperBoundary 22.0\n extendedLagrangian on\n extendedFluctuation 0.2\n extendedTimeConstant 100\n"
      " distance {\n group1 {\n atomNumbers 1 2\n }\n group2 {\n atomNumbers 60 61\n }\n }\n}\n"
      "abf {\n name a\n colvars d\n fullSamples 1\n UIestimator on\n CZARestimator off\n outputFreq 2\n}\n");

  add("opes-adaptive",
      "colvarsRestartFrequency 2\n" C10_T("t1", "5", "7", "9", "15") C10_T("t2", "15", "17", "19", "25") C10_T("t3", "25", "27", "29", "35")
      "opes_metad {\n name o\n colvars t1 t2 t3\n newHillFrequency 1\n barrier 10.0\n adaptiveSigma on\n adaptiveSigmaStride 2\n"
      " neighborList on\n neighborListNewHillReset off\n printTrajectoryFrequency 1\n pmf on\n pmfColvars t2 t3\n pmfHistoryFrequency 2\n"
      " outputEnergy on\n calcWork on\n recursiveMerge on\n compressionThreshold 1.0\n epsilon 1e-4\n kernelCutoff 4.0\n outputFreq 2\n}\n");

  add("opes-fixed-explore",
      "colvarsRestartFrequency 2\n" C10_T("t1", "5", "7", "9", "15") C10_T("t2", "15", "17", "19", "25")
      "opes_metad {\n name o\n colvars t1 t2\n newHillFrequency 1\n barrier 8.0\n biasfactor 5.0\n explore on\n gaussianSigma 10.0 12.0\n"
      " gaussianSigmaMin 1.0 1.0\n fixedGaussianSigma on\n noZed on\n printTrajectoryFrequency 2\n}\n");

  add("alb",
      C10_D("d", "1 2", "60 61")
      "ALB {\n name alb\n colvars d\n centers 14.0\n updateFrequency 4\n forceRange 2.0\n rateMax 1.0\n outputCenters on\n outputGradient on\n outputCoupling on\n hardForceRange on\n}\n");

  // reweightaMD needs accelerated MD in the engine (NAMD only): its keywords are reached through the error path only

  add("histogram-grid",
      C10_D("d", "1 2", "60 61") C10_T("t", "5", "7", "9", "15")
      "histogram {\n name h\n colvars d t\n outputFile c10.hist.dat\n outputFileDX c10.hist.dx\n outputFreq 2\n"
      " histogramGrid {\n width 1.0 20.0\n lowerBoundary 0.0 -180.0\n upperBoundary 30.0 180.0\n }\n}\n");

  add("harmonic-schedules",
      "colvarsTrajFrequency 1\n" C10_D("d", "1 2", "60 61") C10_D("e", "3 4", "70 71")
      "harmonic {\n name hc\n colvars d\n centers 10.0\n forceConstant 1.0\n targetCenters 14.0\n targetNumSteps 4\n outputCenters on\n outputAccumulatedWork on\n outputEnergy on\n writeTIPMF on\n writeTISamples on\n}\n"
      "harmonic {\n name hk\n colvars e\n centers 12.0\n forceConstant 1.0\n targetForceConstant 5.0\n targetForceExponent 2.0\n targetNumSteps 4\n targetEquilSteps 1\n lambdaSchedule 0.0 0.5 1.0\n}\n"
      "linear {\n name lin\n colvars d\n centers 10.0\n forceConstant 0.2\n targetForceConstant 0.5\n targetNumSteps 4\n}\n"
      "harmonicWalls {\n name hw\n colvars d e\n lowerWalls 3.0 3.0\n upperWalls 20.0 20.0\n lowerWallConstant 2.0\n upperWallConstant 3.0\n targetForceConstant 0.5\n targetNumSteps 4\n bypassExtendedLagrangian on\n}\n");

  add("abmd-hrestraint",
      C10_D("d", "1 2", "60 61")
      "colvar {\n name dp\n distancePairs {\n group1 {\n atomNumbers 1 2\n }\n group2 {\n atomNumbers 60 61 62\n }\n }\n}\n"
      "abmd {\n name ab\n colvars d\n forceConstant 2.0\n stoppingValue 20.0\n decreasing off\n}\n"
      "histogramRestraint {\n name hr\n colvars dp\n refHistogram 1.0 1.0 1.0 1.0 1.0 1.0 1.0 1.0 1.0 1.0\n lowerBoundary 0.0\n upperBoundary 20.0\n width 2.0\n gaussianSigma 1.5\n forceConstant 1.0\n writeHistogram on\n outputEnergy on\n}\n");

  return v;
}
#endif
