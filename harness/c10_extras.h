// C10: feature-rich base configurations and auxiliary files beyond the repository's test inputs
#ifndef C10_EXTRAS_H
#define C10_EXTRAS_H
#include <map>
#include <string>
#include <vector>
inline std::map<std::string, std::string> c10_extra_files() { return {}; }
inline std::vector<std::pair<std::string, std::string>> c10_extra_configs() { return {}; }
#endif
