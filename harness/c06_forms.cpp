// C06 (part 1) — the energy of every restraint equals its documented closed form in the current variable
// values, widths and parameters.  Product enumerator: restraint menu x geometry menu (values inside, at and
// outside walls, across periodic boundaries, all value types), plus all ABMD value words of bounded length.
#include "vproxy.h"
#include "common.h"

using namespace vc;

static const double PI_ = 3.14159265358979323846;

struct Geo { double p[5][3]; };

static std::vector<Geo> geometries()
{
  std::vector<Geo> g;
  // atoms 1-4 = rotation R(axis,angle) of a reference tetrahedron + translation; atom 2 additionally displaced
  // along a menu so that distances/projections cross walls and periodic boundaries; atom 5 free
  const double ref[4][3] = {{0, 0, 0}, {1.5, 0, 0}, {0.2, 1.4, 0.3}, {-0.4, 0.6, 1.6}};
  const double axes[6][4] = {{0, 0, 1, 0}, {0, 0, 1, 1.1}, {1, 0, 0, 2.4}, {0, 1, 0, -2.0}, {1, 1, 1, 3.0}, {1, -2, 0.5, 0.7}};
  const double scale[5] = {0.5, 0.9, 1.3, 1.9, 2.6};
  for (int a = 0; a < 6; a++)
    for (int s = 0; s < 5; s++) {
      Geo q;
      double n = std::sqrt(axes[a][0] * axes[a][0] + axes[a][1] * axes[a][1] + axes[a][2] * axes[a][2]);
      double ux = axes[a][0] / n, uy = axes[a][1] / n, uz = axes[a][2] / n, th = axes[a][3];
      double c = std::cos(th), sn = std::sin(th);
      double R[3][3] = {{c + ux * ux * (1 - c), ux * uy * (1 - c) - uz * sn, ux * uz * (1 - c) + uy * sn},
                        {uy * ux * (1 - c) + uz * sn, c + uy * uy * (1 - c), uy * uz * (1 - c) - ux * sn},
                        {uz * ux * (1 - c) - uy * sn, uz * uy * (1 - c) + ux * sn, c + uz * uz * (1 - c)}};
      for (int i = 0; i < 4; i++)
        for (int k = 0; k < 3; k++) {
          double v = 0;
          for (int j = 0; j < 3; j++) v += R[k][j] * ref[i][j] * (i == 1 ? scale[s] : 1.0);
          q.p[i][k] = v + 0.3 * (k + 1);
        }
      q.p[4][0] = 0.7 * s - 1.0; q.p[4][1] = 0.4 * a; q.p[4][2] = 1.0 + 0.37 * s * (a % 2 ? -1 : 1);
      g.push_back(q);
    }
  return g;
}

static const char *CV_CONF =
    "colvar {\n name d\n width 0.5\n distance {\n group1 { atomNumbers 1 }\n group2 { atomNumbers 2 }\n }\n}\n"
    "colvar {\n name z\n width 0.5\n distanceZ {\n period 4.0\n wrapAround 0.5\n main { atomNumbers 5 }\n ref { atomNumbers 1 }\n }\n}\n"
    "colvar {\n name phi\n width 2.0\n dihedral {\n group1 { atomNumbers 2 }\n group2 { atomNumbers 1 }\n group3 { atomNumbers 3 }\n group4 { atomNumbers 4 }\n }\n}\n"
    "colvar {\n name v\n width 0.8\n distanceVec {\n group1 { atomNumbers 1 }\n group2 { atomNumbers 5 }\n }\n}\n"
    "colvar {\n name u\n width 0.4\n distanceDir {\n group1 { atomNumbers 1 }\n group2 { atomNumbers 5 }\n }\n}\n"
    "colvar {\n name q\n width 0.6\n orientation {\n atoms { atomNumbers 1 2 3 4 }\n refPositions (0, 0, 0) (1.5, 0, 0) (0.2, 1.4, 0.3) (-0.4, 0.6, 1.6)\n }\n}\n"
    "colvar {\n name p\n width 1.0\n distancePairs {\n group1 { atomNumbers 1 2 }\n group2 { atomNumbers 3 5 }\n }\n}\n";

struct Vals {  // values read from the module at one step
  double d, z, phi;
  double v[3], u[3], q[4];
  std::vector<double> p;
};

static double minimg(double dx, double P) { return std::remainder(dx, P); }
static double angle3(const double *a, const double *b)
{
  double c = a[0] * b[0] + a[1] * b[1] + a[2] * b[2];
  double cr[3] = {a[1] * b[2] - a[2] * b[1], a[2] * b[0] - a[0] * b[2], a[0] * b[1] - a[1] * b[0]};
  return std::atan2(std::sqrt(cr[0] * cr[0] + cr[1] * cr[1] + cr[2] * cr[2]), c);
}
static double qangle(const double *a, const double *b)
{
  double c = std::fabs(a[0] * b[0] + a[1] * b[1] + a[2] * b[2] + a[3] * b[3]);
  double s2 = 0;
  double sg = (a[0] * b[0] + a[1] * b[1] + a[2] * b[2] + a[3] * b[3]) < 0 ? -1 : 1;
  for (int i = 0; i < 4; i++) { double t = a[i] - sg * c * b[i] * 1.0; s2 += 0; (void) t; }
  // |a - (a.b) b| for unit vectors = sin(omega)
  double perp[4], n2 = 0;
  double dot = a[0] * b[0] + a[1] * b[1] + a[2] * b[2] + a[3] * b[3];
  for (int i = 0; i < 4; i++) { perp[i] = a[i] - dot * b[i]; n2 += perp[i] * perp[i]; }
  return std::atan2(std::sqrt(n2), c);
}

// one-sided / two-sided wall distance for a non-periodic variable (documented piecewise form)
static double wall_pen(double x, bool hasl, double lo, bool hasu, double up)
{
  if (hasl && x < lo) return x - lo;
  if (hasu && x > up) return x - up;
  return 0.0;
}
// periodic variable: the closer wall (minimum image) applies; it penalises only on its outer side
static double wall_pen_periodic(double x, double lo, double up, double P)
{
  double dl = minimg(x - lo, P), du = minimg(x - up, P);
  if (std::fabs(dl) < std::fabs(du)) return dl < 0 ? dl : 0.0;
  return du > 0 ? du : 0.0;
}

struct Restraint {
  std::string name, conf;
  std::function<double(Vals const &)> energy;  // documented closed form
  bool near_tie_skip = false;                  // periodic walls: skip values equidistant from both walls
};

int main(int argc, char **argv)
{
  Args args(argc, argv);
  bool thorough = args.thorough();
  std::vector<Geo> geos = geometries();
  std::vector<Restraint> menu;
  auto H = [](double k, double d2, double w) { return 0.5 * k * d2 / (w * w); };

  // ---- harmonic on every value type ----
  for (double c : {0.7, 2.0, 3.1})
    menu.push_back({"harmonic:scalar:c=" + num(c), "harmonic {\n colvars d\n centers " + num(c) + "\n forceConstant 3.0\n}\n",
                    [=](Vals const &x) { return H(3.0, (x.d - c) * (x.d - c), 0.5); }});
  for (double c : {-1.4, 0.5, 2.4, 6.5})
    menu.push_back({"harmonic:periodic-distanceZ:c=" + num(c), "harmonic {\n colvars z\n centers " + num(c) + "\n forceConstant 2.0\n}\n",
                    [=](Vals const &x) { double dd = minimg(x.z - c, 4.0); return H(2.0, dd * dd, 0.5); }});
  for (double c : {-170.0, 0.0, 175.0, 400.0})
    menu.push_back({"harmonic:dihedral:c=" + num(c), "harmonic {\n colvars phi\n centers " + num(c) + "\n forceConstant 0.02\n}\n",
                    [=](Vals const &x) { double dd = minimg(x.phi - c, 360.0); return H(0.02, dd * dd, 2.0); }});
  menu.push_back({"harmonic:3vector", "harmonic {\n colvars v\n centers (1.0, 0.5, -0.3)\n forceConstant 1.5\n}\n",
                  [=](Vals const &x) { double c[3] = {1.0, 0.5, -0.3}, s = 0; for (int i = 0; i < 3; i++) s += (x.v[i] - c[i]) * (x.v[i] - c[i]); return H(1.5, s, 0.8); }});
  {
    static const double cs[3][3] = {{0, 0, 1}, {0.6, 0.8, 0}, {-0.6, 0, -0.8}};
    for (int i = 0; i < 3; i++) {
      const double *c = cs[i];
      menu.push_back({"harmonic:unitvector:c" + std::to_string(i),
                      "harmonic {\n colvars u\n centers (" + num(c[0]) + ", " + num(c[1]) + ", " + num(c[2]) + ")\n forceConstant 2.5\n}\n",
                      [=](Vals const &x) { double a = angle3(x.u, c); return H(2.5, a * a, 0.4); }});
    }
    static const double qs[4][4] = {{1, 0, 0, 0}, {0.5, 0.5, 0.5, 0.5}, {-0.5, -0.5, -0.5, -0.5}, {0, 0.6, 0, -0.8}};
    for (int i = 0; i < 4; i++) {
      const double *c = qs[i];
      menu.push_back({"harmonic:quaternion:c" + std::to_string(i),
                      "harmonic {\n colvars q\n centers (" + num(c[0]) + ", " + num(c[1]) + ", " + num(c[2]) + ", " + num(c[3]) + ")\n forceConstant 4.0\n}\n",
                      [=](Vals const &x) { double a = qangle(x.q, c); return H(4.0, a * a, 0.6); }});
    }
  }
  menu.push_back({"harmonic:two-variables", "harmonic {\n colvars d z\n centers 1.2 -0.3\n forceConstant 2.0\n}\n",
                  [=](Vals const &x) { double dz = minimg(x.z + 0.3, 4.0); return H(2.0, (x.d - 1.2) * (x.d - 1.2), 0.5) + H(2.0, dz * dz, 0.5); }});
  // ---- walls ----
  menu.push_back({"walls:lower-only", "harmonicWalls {\n colvars d\n lowerWalls 1.4\n forceConstant 3.0\n}\n",
                  [=](Vals const &x) { double p = wall_pen(x.d, true, 1.4, false, 0); return H(3.0, p * p, 0.5); }});
  menu.push_back({"walls:upper-only", "harmonicWalls {\n colvars d\n upperWalls 1.9\n forceConstant 3.0\n}\n",
                  [=](Vals const &x) { double p = wall_pen(x.d, false, 0, true, 1.9); return H(3.0, p * p, 0.5); }});
  menu.push_back({"walls:two-sided", "harmonicWalls {\n colvars d\n lowerWalls 1.0\n upperWalls 2.0\n forceConstant 3.0\n}\n",
                  [=](Vals const &x) { double p = wall_pen(x.d, true, 1.0, true, 2.0); return H(3.0, p * p, 0.5); }});
  menu.push_back({"walls:two-sided-different-constants",
                  "harmonicWalls {\n colvars d\n lowerWalls 1.0\n upperWalls 2.0\n lowerWallConstant 1.5\n upperWallConstant 6.0\n}\n",
                  [=](Vals const &x) { double p = wall_pen(x.d, true, 1.0, true, 2.0); return H(p < 0 ? 1.5 : 6.0, p * p, 0.5); }});
  menu.push_back({"walls:two-variables", "harmonicWalls {\n colvars d phi\n lowerWalls 1.0 -60.0\n upperWalls 2.0 100.0\n forceConstant 2.0\n}\n",
                  [=](Vals const &x) { double p = wall_pen(x.d, true, 1.0, true, 2.0), q = wall_pen_periodic(x.phi, -60.0, 100.0, 360.0);
                                       return H(2.0, p * p, 0.5) + H(2.0, q * q, 2.0); }, true});
  menu.push_back({"walls:periodic-distanceZ", "harmonicWalls {\n colvars z\n lowerWalls -0.8\n upperWalls 1.6\n forceConstant 2.0\n}\n",
                  [=](Vals const &x) { double p = wall_pen_periodic(x.z, -0.8, 1.6, 4.0); return H(2.0, p * p, 0.5); }, true});
  menu.push_back({"walls:periodic-dihedral", "harmonicWalls {\n colvars phi\n lowerWalls -60.0\n upperWalls 100.0\n forceConstant 0.05\n}\n",
                  [=](Vals const &x) { double p = wall_pen_periodic(x.phi, -60.0, 100.0, 360.0); return H(0.05, p * p, 2.0); }, true});
  menu.push_back({"walls:periodic-dihedral-across-boundary", "harmonicWalls {\n colvars phi\n lowerWalls 120.0\n upperWalls 200.0\n forceConstant 0.05\n}\n",
                  [=](Vals const &x) { double p = wall_pen_periodic(x.phi, 120.0, 200.0, 360.0); return H(0.05, p * p, 2.0); }, true});
  // ---- linear ----
  menu.push_back({"linear:scalar", "linear {\n colvars d\n centers 1.0\n forceConstant 2.0\n}\n",
                  [=](Vals const &x) { return 2.0 * (x.d - 1.0) / 0.5; }});
  menu.push_back({"linear:3vector", "linear {\n colvars v\n centers (0.5, 0.0, -1.0)\n forceConstant -1.5\n}\n",
                  [=](Vals const &x) { return -1.5 * ((x.v[0] - 0.5) + (x.v[1] - 0.0) + (x.v[2] + 1.0)) / 0.8; }});
  // ---- histogram restraint on a 4-component vector ----
  {
    std::vector<double> h0 = {0.0, 0.1, 0.3, 0.6, 0.5, 0.3, 0.1, 0.05, 0.03, 0.02, 0.0, 0.0};
    double sum = 0;
    for (double hv : h0) sum += hv * 0.5;
    std::string hs;
    for (double hv : h0) hs += " " + num(hv);
    for (double &hv : h0) hv /= sum;
    menu.push_back({"histogramRestraint",
                    "histogramRestraint {\n colvars p\n lowerBoundary 0.0\n upperBoundary 6.0\n width 0.5\n gaussianSigma 0.8\n forceConstant 2.0\n refHistogram" + hs + "\n}\n",
                    [=](Vals const &x) {
                      // V = 1/2 k Int (h - h0)^2 dxi, mid-point rule on the documented grid
                      double e = 0;
                      size_t M = x.p.size();
                      for (int g = 0; g < 12; g++) {
                        double xi = 0.0 + (g + 0.5) * 0.5, h = 0;
                        for (double pv : x.p) h += std::exp(-(xi - pv) * (xi - pv) / (2 * 0.8 * 0.8)) / (M * std::sqrt(2 * PI_ * 0.8 * 0.8));
                        e += (h - h0[g]) * (h - h0[g]) * 0.5;
                      }
                      return 0.5 * 2.0 * e;
                    }});
  }

  Result total;
  bool ok = run_sharded(args.jobs, [&](int shard, int nsh, Result &r) {
    // ---------------- memoryless restraints x geometries ----------------
    for (size_t mi = shard; mi < menu.size(); mi += nsh) {
      Restraint const &R = menu[mi];
      vproxy *px = new vproxy(5);
      for (int a = 0; a < 5; a++) px->x[a] = cvm::rvector(geos[0].p[a][0], geos[0].p[a][1], geos[0].p[a][2]);
      if (px->config(std::string(CV_CONF) + R.conf) != 0) { fprintf(stderr, "HARNESS-ERROR: %s rejected: %s\n", R.name.c_str(), px->errtxt.c_str()); exit(3); }
      std::vector<double> ratios;
      for (size_t gi = 0; gi < geos.size(); gi++) {
        for (int a = 0; a < 5; a++) px->x[a] = cvm::rvector(geos[gi].p[a][0], geos[gi].p[a][1], geos[gi].p[a][2]);
        if (px->step(gi) != 0) { fprintf(stderr, "HARNESS-ERROR: step error in %s: %s\n", R.name.c_str(), px->errtxt.c_str()); exit(3); }
        r.count("transitions");
        r.count("evaluations");
        Vals x;
        x.d = px->cv("d")->value().real_value;
        x.z = px->cv("z")->value().real_value;
        x.phi = px->cv("phi")->value().real_value;
        cvm::rvector v = px->cv("v")->value().rvector_value, u = px->cv("u")->value().rvector_value;
        x.v[0] = v.x; x.v[1] = v.y; x.v[2] = v.z; x.u[0] = u.x; x.u[1] = u.y; x.u[2] = u.z;
        cvm::quaternion qq = px->cv("q")->value().quaternion_value;
        x.q[0] = qq.q0; x.q[1] = qq.q1; x.q[2] = qq.q2; x.q[3] = qq.q3;
        for (size_t i = 0; i < px->cv("p")->value().vector1d_value.size(); i++) x.p.push_back(px->cv("p")->value().vector1d_value[i]);
        if (R.near_tie_skip) {
          // a value equidistant from both walls of a periodic variable: which wall is "closest" is a tie
          bool tie = false;
          for (auto pr : {std::make_pair(-60.0, 100.0), std::make_pair(120.0, 200.0)})
            if (std::fabs(std::fabs(minimg(x.phi - pr.first, 360.0)) - std::fabs(minimg(x.phi - pr.second, 360.0))) < 1e-6) tie = true;
          if (std::fabs(std::fabs(minimg(x.z + 0.8, 4.0)) - std::fabs(minimg(x.z - 1.6, 4.0))) < 1e-9) tie = true;
          if (tie) { r.count("tie_skipped"); continue; }
        }
        double eref = R.energy(x), e = px->energy;
        std::string det = "{\"restraint\":\"" + R.name + "\",\"geometry\":" + std::to_string(gi) + ",\"d\":" + num(x.d) + ",\"z\":" + num(x.z) +
                          ",\"phi\":" + num(x.phi) + ",\"energy\":" + num(e) + ",\"closed_form\":" + num(eref) + "}";
        if (R.name == "histogramRestraint") {
          if (eref > 1e-9) ratios.push_back(e / eref);
        } else if (!close_rel(e, eref, std::max(1.0, std::fabs(eref)), 1e-7, 1e-10)) {
          std::string cls = R.name.substr(0, R.name.find(":c"));
          r.violation("C06:forms:energy-differs-from-closed-form:" + cls, det);
        }
        if (eref != 0.0) r.seen("nontrivial", fnv(R.name + std::to_string(gi)));
        r.seen("states", fnv(R.name + num(e)));
        if (gi == 3 && mi % 7 == 0) r.sample(det);
      }
      if (R.name == "histogramRestraint" && !ratios.empty()) {
        // the shape must be the documented one (constant ratio); the absolute scale is checked separately
        double r0 = ratios[0];
        bool same = true;
        for (double q : ratios) if (std::fabs(q / r0 - 1.0) > 1e-9) same = false;
        if (!same) r.violation("C06:forms:energy-differs-from-closed-form:histogramRestraint:shape", "{\"ratio0\":" + num(r0) + "}");
        else if (std::fabs(r0 - 1.0) > 1e-9)
          r.violation("C06:forms:energy-differs-from-closed-form:histogramRestraint:constant-factor",
                      "{\"energy_over_documented_form\":" + num(r0) + ",\"number_of_observations_M\":4,\"grid_width\":0.5}");
      }
      delete px;
    }
    // ---------------- ABMD: all value words ----------------
    {
      static const double AV[4] = {1.0, 1.6, 2.3, 3.4};
      int L = thorough ? 7 : 5;
      long nw = 1;
      for (int i = 0; i < L; i++) nw *= 4;
      struct AB { bool dec; double stop; };
      std::vector<AB> abs_ = {{false, 2.0}, {false, 10.0}, {true, 1.5}, {true, -5.0}};
      for (long w = shard; w < nw; w += nsh) {
        for (auto &ab : abs_) {
          vproxy *px = new vproxy(2);
          px->x[1] = cvm::rvector(AV[w % 4], 0, 0);
          std::string conf = "colvar {\n name d\n distance {\n group1 { atomNumbers 1 }\n group2 { atomNumbers 2 }\n }\n}\n";
          conf += std::string("abmd {\n colvars d\n forceConstant 3.0\n stoppingValue ") + num(ab.stop) + "\n decreasing " + (ab.dec ? "on" : "off") + "\n}\n";
          if (px->config(conf) != 0) { fprintf(stderr, "HARNESS-ERROR: abmd rejected: %s\n", px->errtxt.c_str()); exit(3); }
          r.count("evaluations");
          long q = w;
          double hw = 0;  // high-water (low-water) mark
          std::string word = "[";
          for (int s = 0; s < L; s++) {
            double val = AV[q % 4];
            q /= 4;
            word += (s ? "," : "") + num(val);
            px->x[1] = cvm::rvector(val, 0, 0);
            if (px->step(s) != 0) { fprintf(stderr, "HARNESS-ERROR: abmd step error: %s\n", px->errtxt.c_str()); exit(3); }
            r.count("transitions");
            // documented: xi_ref(t) = min(max_{s<=t} xi_s, xi_stop)   (mirrored for 'decreasing')
            if (s == 0) hw = val;
            hw = ab.dec ? std::min(hw, val) : std::max(hw, val);
            double ref = ab.dec ? std::max(hw, ab.stop) : std::min(hw, ab.stop);
            // (if the run starts beyond the stopping value the documented formula gives ref = stop)
            double diff = ab.dec ? (ref - val) : (val - ref);
            double eref = diff < 0 ? 0.5 * 3.0 * diff * diff : 0.0;
            if (!close_rel(px->energy, eref, std::max(1.0, eref), 1e-12)) {
              bool beyond = ab.dec ? (hw < ab.stop) : (hw > ab.stop);
              r.violation(std::string("C06:forms:abmd:energy-differs-from-ratchet-closed-form") + (beyond ? "/after-passing-stoppingValue" : ""),
                          "{\"values\":" + word + "],\"decreasing\":" + (ab.dec ? "true" : "false") + ",\"stoppingValue\":" + num(ab.stop) +
                              ",\"step\":" + std::to_string(s) + ",\"energy\":" + num(px->energy) + ",\"closed_form\":" + num(eref) + "}");
              break;
            }
          }
          r.seen("nontrivial", fnv("abmd" + word + num(ab.stop)));
          delete px;
        }
      }
    }
  }, total);
  if (!ok) return 2;
  write_result(args.out, "C06", args.tier, total, true);
  return 0;
}
