// C09 — configuration parsing is total, strict and independent of layout.
//
// One executable, three modes (one part of the check each):
//   --mode total   every string over a small token alphabet up to a length bound, and every single-byte
//                  deletion / truncation / replacement of every corpus file: the parser must return
//                  (accept, or reject with error bits), never die, hang or trip ASan/UBSan.  An independent
//                  reference (own comment stripping, brace matching and top-level keyword rule, written from the
//                  reference manual) additionally decides which token strings MUST be rejected.
//   --mode strict  keyword-level mutations of every corpus file at every site (misspelling, transplant into a
//                  context where the keyword is not valid, brace deletion / duplication / swap, value deletion,
//                  text for a number, number with trailing text): each must be rejected.
//   --mode layout  every documented-free rewrite of every corpus file (keyword case, spaces/tabs, blank lines,
//                  comments, CRLF, brace-delimited value splitting, brace placement, boolean shorthand), alone and
//                  all together (thorough: also all pairs): 3 engine steps must give bit-identical values,
//                  energies, forces and state text.
// Every parse runs in a forked child (batches with a shared-memory progress marker); a batch that dies or hangs
// pins the single offending case, which is then replayed alone twice before it is reported.
#include "vproxy.h"
#include "common.h"

#include <sys/mman.h>
#include <sys/stat.h>
#include <dirent.h>
#include <algorithm>
#include <fstream>
#include <omp.h>
#include <cxxabi.h>
#include <typeinfo>
#if defined(__SANITIZE_ADDRESS__)
#include <sanitizer/common_interface_defs.h>
#define C09_HAVE_SAN 1
#endif

#include "colvarcomp.h"
#include "colvarbias_histogram.h"
#include "colvargrid.h"

using namespace vc;

extern "C" const char *__asan_default_options()
{
  return "detect_leaks=0:exitcode=97:abort_on_error=0:handle_abort=0:symbolize=0";
}
extern "C" const char *__ubsan_default_options() { return "print_stacktrace=1:symbolize=0"; }

// ------------------------------------------------------------------------------------------------
// small utilities
// ------------------------------------------------------------------------------------------------
static bool read_file(std::string const &path, std::string &out)
{
  FILE *f = fopen(path.c_str(), "rb");
  if (!f) return false;
  out.clear();
  char buf[65536];
  size_t n;
  while ((n = fread(buf, 1, sizeof(buf), f)) > 0) out.append(buf, n);
  fclose(f);
  return true;
}

static std::string hexd(double v)
{
  char b[40];
  snprintf(b, sizeof(b), "%a", v);
  return b;
}

static std::string lower(std::string s)
{
  for (auto &c : s) if (c >= 'A' && c <= 'Z') c = c - 'A' + 'a';
  return s;
}
static std::string upper(std::string s)
{
  for (auto &c : s) if (c >= 'a' && c <= 'z') c = c - 'a' + 'A';
  return s;
}

static std::string jstr(std::string const &s) { return "\"" + jesc(s) + "\""; }

// extract a string member from a JSON text written by json.dumps / jesc (enough for replay files)
static bool json_get_string(std::string const &js, std::string const &key, std::string &out)
{
  std::string pat = "\"" + key + "\":";
  size_t p = js.find(pat);
  if (p == std::string::npos) return false;
  p = js.find('"', p + pat.size());
  if (p == std::string::npos) return false;
  out.clear();
  for (size_t i = p + 1; i < js.size(); i++) {
    char c = js[i];
    if (c == '"') return true;
    if (c == '\\' && i + 1 < js.size()) {
      char d = js[++i];
      if (d == 'n') out += '\n';
      else if (d == 'r') out += '\r';
      else if (d == 't') out += '\t';
      else if (d == 'b') out += '\b';
      else if (d == 'f') out += '\f';
      else if (d == 'u') { out += (char) strtol(js.substr(i + 1, 4).c_str(), NULL, 16); i += 4; }
      else out += d;
    } else out += c;
  }
  return false;
}

// text of an object member (balanced braces, strings skipped)
static std::string json_get_object(std::string const &js, std::string const &key)
{
  size_t p = js.find("\"" + key + "\":");
  if (p == std::string::npos) return "{}";
  p = js.find('{', p);
  if (p == std::string::npos) return "{}";
  int depth = 0;
  bool instr = false;
  for (size_t i = p; i < js.size(); i++) {
    char c = js[i];
    if (instr) {
      if (c == '\\') i++;
      else if (c == '"') instr = false;
      continue;
    }
    if (c == '"') instr = true;
    else if (c == '{') depth++;
    else if (c == '}') { if (--depth == 0) return js.substr(p, i - p + 1); }
  }
  return "{}";
}

// ------------------------------------------------------------------------------------------------
// the engine-side system: deca-alanine, 104 atoms, 5 frames of the repository's test trajectory
// ------------------------------------------------------------------------------------------------
struct Sys {
  int n = 0;
  std::vector<std::vector<cvm::rvector>> frames;
  std::vector<double> mass, charge;
};

static bool load_sys(std::string const &xyz, Sys &s)
{
  std::ifstream is(xyz.c_str());
  if (!is) return false;
  std::string line;
  while (std::getline(is, line)) {
    int n = atoi(line.c_str());
    if (n <= 0) break;
    std::getline(is, line);
    std::vector<cvm::rvector> fr(n);
    std::vector<double> m(n), q(n);
    for (int i = 0; i < n; i++) {
      if (!std::getline(is, line)) return false;
      std::istringstream ls(line);
      std::string el;
      double x, y, z;
      if (!(ls >> el >> x >> y >> z)) return false;
      fr[i] = cvm::rvector(x, y, z);
      char e = el.size() ? el[0] : 'C';
      m[i] = (e == 'H') ? 1.008 : (e == 'N') ? 14.007 : (e == 'O') ? 15.999 : 12.011;
      q[i] = (e == 'H') ? 0.25 : (e == 'N') ? -0.4 : (e == 'O') ? -0.5 : 0.1;
    }
    if (s.n == 0) { s.n = n; s.mass = m; s.charge = q; }
    if (n != s.n) return false;
    s.frames.push_back(fr);
  }
  return s.n > 0 && s.frames.size() >= 3;
}

struct c09proxy : public vproxy {
  std::function<void(std::string const &)> on_error;
  c09proxy(int n) : vproxy(n) {}
  void error(std::string const &message) override
  {
    vproxy::error(message);
    if (on_error) on_error(message);
  }
};

static Sys g_sys;
static std::string g_outprefix = "c09out";

static c09proxy *make_px()
{
  c09proxy *px = new c09proxy(g_sys.n);
  for (int i = 0; i < g_sys.n; i++) {
    px->x[i] = g_sys.frames[0][i];
    px->m[i] = g_sys.mass[i];
    px->q[i] = g_sys.charge[i];
  }
  px->set_prefixes(g_outprefix);
  px->set_smp_mode(colvarproxy_smp::smp_mode_t::none);  // no OpenMP threads: the workers fork
  return px;
}

// ------------------------------------------------------------------------------------------------
// batch runner: cases 0..n-1 executed in forked children; a shared-memory marker pins the case a child
// died or hung in; the run continues after it
// ------------------------------------------------------------------------------------------------
struct Slot {
  int status;      // 0 not run, 1 done, 2 died, 3 timeout
  int rc;          // error bits returned by the parser
  int accepted;    // rc == 0
  int aux;         // mode specific (number of colvars+biases defined, ...)
  int exitinfo;    // exit code (>0) or -signal when status == 2
  uint64_t h1;     // hash of the error text
  uint64_t h2;     // mode specific (hash of the observation record)
};

struct BatchHdr { volatile long cur; volatile double t0; };

static std::string g_errfile;  // stderr of the children of this worker

static void redirect_stderr_to(std::string const &path)
{
  int fd = open(path.c_str(), O_WRONLY | O_CREAT | O_TRUNC, 0644);
  if (fd >= 0) { dup2(fd, 2); close(fd); }
}

static void run_batch(size_t n, std::function<void(size_t, Slot &)> fn, double timeout_s, std::vector<Slot> &out,
                      std::vector<std::string> *stderr_of_bad = NULL)
{
  out.assign(n, Slot());
  if (n == 0) return;
  size_t bytes = sizeof(BatchHdr) + n * sizeof(Slot);
  void *mem = mmap(NULL, bytes, PROT_READ | PROT_WRITE, MAP_SHARED | MAP_ANONYMOUS, -1, 0);
  if (mem == MAP_FAILED) { perror("mmap"); exit(2); }
  memset(mem, 0, bytes);
  BatchHdr *hdr = (BatchHdr *) mem;
  Slot *slots = (Slot *) ((char *) mem + sizeof(BatchHdr));
  size_t start = 0;
  while (start < n) {
    hdr->cur = (long) start;
    hdr->t0 = now();
    fflush(NULL);
    pid_t pid = fork();
    if (pid < 0) { perror("fork"); exit(2); }
    if (pid == 0) {
      redirect_stderr_to(g_errfile);
      for (size_t i = start; i < n; i++) {
        hdr->t0 = now();
        hdr->cur = (long) i;
        if (ftruncate(2, 0) == 0) lseek(2, 0, SEEK_SET);
        fn(i, slots[i]);
        slots[i].status = 1;
      }
      hdr->cur = (long) n;
      _exit(0);
    }
    int st = 0;
    bool timed_out = false;
    for (;;) {
      pid_t r = waitpid(pid, &st, WNOHANG);
      if (r == pid) break;
      if (now() - hdr->t0 > timeout_s) {
        kill(pid, SIGKILL);
        waitpid(pid, &st, 0);
        timed_out = true;
        break;
      }
      usleep(500);
    }
    size_t cur = (size_t) hdr->cur;
    if (!timed_out && WIFEXITED(st) && WEXITSTATUS(st) == 0 && cur >= n) break;
    if (cur >= n) break;  // died after the last case (cannot happen: _exit follows)
    slots[cur].status = timed_out ? 3 : 2;
    slots[cur].exitinfo = timed_out ? -1000 : (WIFSIGNALED(st) ? -WTERMSIG(st) : WEXITSTATUS(st));
    if (stderr_of_bad) {
      std::string e;
      read_file(g_errfile, e);
      stderr_of_bad->push_back(e);
    }
    start = cur + 1;
  }
  for (size_t i = 0; i < n; i++) out[i] = slots[i];
  munmap(mem, bytes);
}

// One parse on a fresh module
static c09proxy *g_live = NULL;
static int g_live_uses = 0;

static void exec_parse(std::string const &conf, Slot &s)
{
  if (g_live) { delete g_live; g_live = NULL; }  // one module per process at a time
  c09proxy *px = make_px();
  int rc = px->config(conf);
  s.rc = rc;
  s.accepted = (rc == 0);
  s.aux = (int) (px->colvars->colvars.size() + px->colvars->biases.size());
  // error text with the user's own text removed (quoted parts), so that it classifies the kind of rejection
  std::string e = px->errtxt, k;
  bool inq = false;
  for (char c : e) {
    if (c == '"') { inq = !inq; continue; }
    if (!inq && !(c >= '0' && c <= '9')) k += c;
    if (k.size() > 60) break;
  }
  s.h1 = fnv(k);
  if (!rc && !px->errtxt.empty()) s.aux |= 0x10000;   // accepted although an error was printed
  if (rc && px->errtxt.empty()) s.aux |= 0x20000;     // rejected without any message
  delete px;
}

// One parse on a module kept alive between cases (token strings only: they are too short to define an object; the
// module is replaced as soon as it holds any object, and every 2000 cases).  A death or a wrong acceptance seen this
// way is always re-run alone on a fresh module before it is reported.
static void exec_parse_live(std::string const &conf, Slot &s)
{
  if (!g_live) { g_live = make_px(); g_live_uses = 0; }
  c09proxy *px = g_live;
  px->errtxt.clear();
  px->n_errors = 0;
  int rc = px->config(conf);
  s.rc = rc;
  s.accepted = (rc == 0);
  s.aux = (int) (px->colvars->colvars.size() + px->colvars->biases.size());
  std::string k;
  bool inq = false;
  for (char c : px->errtxt) {
    if (c == '"') { inq = !inq; continue; }
    if (!inq && !(c >= '0' && c <= '9')) k += c;
    if (k.size() > 60) break;
  }
  s.h1 = fnv(k);
  if (!rc && !px->errtxt.empty()) s.aux |= 0x10000;
  if (rc && px->errtxt.empty()) s.aux |= 0x20000;
  if ((s.aux & 0xffff) || ++g_live_uses >= 2000) { delete g_live; g_live = NULL; }
}

// ---- dead children: classification, confirmation alone, signature ----
static std::string g_self, g_repo_arg, g_scratch;
static bool g_case_runs_steps = false;  // layout mode: a case is parse + 3 steps

// uncaught exception: say what it is and where it was thrown (the stack is not unwound when no handler exists)
static void on_terminate()
{
  std::string tn = "unknown", what;
  if (std::type_info *t = abi::__cxa_current_exception_type()) {
    int st = 0;
    char *d = abi::__cxa_demangle(t->name(), NULL, NULL, &st);
    tn = (st == 0 && d) ? d : t->name();
    free(d);
  }
  try { throw; } catch (std::exception const &e) { what = e.what(); } catch (...) {}
  fprintf(stderr, "terminate called after throwing an instance of '%s'\n  what():  %s\n", tn.c_str(), what.c_str());
#ifdef C09_HAVE_SAN
  __sanitizer_print_stack_trace();
#endif
  fflush(stderr);
  _exit(96);
}

static std::string ubsan_kind(std::string const &msg)
{
  if (msg.find("null pointer") != std::string::npos) return "null-pointer-use";
  if (msg.find("division by zero") != std::string::npos) return "division-by-zero";
  if (msg.find("out of bounds") != std::string::npos) return "index-out-of-bounds";
  if (msg.find("overflow") != std::string::npos) return "integer-overflow";
  if (msg.find("outside the range of representable") != std::string::npos) return "float-cast-overflow";
  if (msg.find("not a valid value for type") != std::string::npos) return "invalid-value-load";
  if (msg.find("misaligned") != std::string::npos) return "misaligned-access";
  std::string w;
  int nsp = 0;
  for (char c : msg) {
    if (c >= '0' && c <= '9') continue;
    if (c == ' ') { if (++nsp >= 4) break; w += '-'; } else w += c;
  }
  return w;
}

// kind of death from the child's stderr (works on symbolized and unsymbolized reports)
static std::string death_kind(int exitinfo, std::string const &err)
{
  size_t p;
  if (exitinfo == -1000) return "hang";
  if ((p = err.find("ERROR: AddressSanitizer: ")) != std::string::npos) {
    size_t q = err.find_first_of(" \n", p + 25);
    return "asan-" + err.substr(p + 25, q - (p + 25));
  }
  if ((p = err.find("runtime error: ")) != std::string::npos) {
    size_t q = err.find('\n', p);
    return "ubsan-" + ubsan_kind(err.substr(p + 15, q - (p + 15)));
  }
  if ((p = err.find("terminate called after throwing an instance of '")) != std::string::npos) {
    size_t q = err.find('\'', p + 48);
    std::string kind = "uncaught-" + err.substr(p + 48, q - (p + 48));
    size_t w = err.find("what():", p);
    if (w != std::string::npos) {
      size_t e = err.find_first_of(":\n", w + 9);
      std::string t;
      for (char c : err.substr(w + 7, e - (w + 7))) if (c != ' ') t += c;
      kind += "(" + t + ")";
    }
    return kind;
  }
  if (exitinfo < 0) return "signal-" + std::to_string(-exitinfo);
  return "exit-" + std::to_string(exitinfo);
}

// grouping key of an unsymbolized report: kind + offsets of the first frames inside this executable
static std::string death_key(int exitinfo, std::string const &err)
{
  std::string key = death_kind(exitinfo, err);
  size_t pos = 0;
  int n = 0;
  while (n < 6 && (pos = err.find("+0x", pos)) != std::string::npos) {
    size_t e = err.find(')', pos);
    size_t lb = err.rfind('\n', pos);
    std::string line = err.substr(lb == std::string::npos ? 0 : lb + 1, pos - (lb == std::string::npos ? 0 : lb + 1));
    if (e != std::string::npos && line.find('#') != std::string::npos && line.find("c09_") != std::string::npos) {
      key += "|" + err.substr(pos + 1, e - pos - 1);
      n++;
    }
    pos += 3;
  }
  return key;
}

// first frame inside the library, from a symbolized report: "function@file"
static std::string death_where(std::string const &err)
{
  size_t pos = 0, p;
  while ((pos = err.find(" in ", pos)) != std::string::npos) {
    size_t eol = err.find('\n', pos);
    std::string fr = err.substr(pos + 4, eol - (pos + 4));
    if (fr.find("/src/colvar") != std::string::npos && fr.find(".cpp:") != std::string::npos) {
      size_t par = fr.find('(');
      std::string fnname = fr.substr(0, par);
      while (fnname.size() && fnname.back() == ' ') fnname.pop_back();
      size_t sl = fr.rfind('/');
      std::string file = fr.substr(sl + 1);
      return fnname + "@" + file.substr(0, file.find(':'));
    }
    pos += 4;
  }
  if ((p = err.find("/src/colvar")) != std::string::npos) {
    size_t e = err.find(':', p);
    return err.substr(p + 5, e - (p + 5));
  }
  return "";
}

static void exec_parse(std::string const &conf, Slot &s);
static void run_case_body(std::string const &conf);

// one case alone in a forked child of this process (unsymbolized, fast)
static int replay_alone(std::string const &conf, double timeout_s, std::string &err)
{
  int e = run_isolated([&]() {
    redirect_stderr_to(g_errfile + ".replay");
    run_case_body(conf);
    return 0;
  }, timeout_s);
  read_file(g_errfile + ".replay", err);
  return e;
}

// one case alone in a fresh process with symbolization switched on (slow: once per distinct death key)
static int replay_symbolized(std::string const &conf, std::string &err)
{
  std::string cf = g_errfile + ".case", ef = g_errfile + ".sym";
  FILE *f = fopen(cf.c_str(), "wb");
  if (!f) return 0;
  fwrite(conf.data(), 1, conf.size(), f);
  fclose(f);
  fflush(NULL);
  pid_t pid = fork();
  if (pid == 0) {
    redirect_stderr_to(ef);
    setenv("ASAN_OPTIONS", "symbolize=1:detect_leaks=0:exitcode=97", 1);
    setenv("UBSAN_OPTIONS", "symbolize=1:print_stacktrace=1", 1);
    execl(g_self.c_str(), g_self.c_str(), "--mode", "onecase", "--case", cf.c_str(), "--repo", g_repo_arg.c_str(),
          "--scratch", g_scratch.c_str(), "--steps", g_case_runs_steps ? "1" : "0", (char *) NULL);
    _exit(95);
  }
  int st = 0;
  double t0 = now();
  for (;;) {
    if (waitpid(pid, &st, WNOHANG) == pid) break;
    if (now() - t0 > 300) { kill(pid, SIGKILL); waitpid(pid, &st, 0); return -1000; }
    usleep(2000);
  }
  read_file(ef, err);
  return WIFSIGNALED(st) ? -WTERMSIG(st) : WEXITSTATUS(st);
}

// resolve the frames of an unsymbolized report with addr2line (deterministic: needs no second death, so it also
// works for reports that depend on uninitialised memory)
static bool addr2line_where(std::string const &err, std::string &where, std::string &text)
{
  std::vector<std::string> offs;
  size_t pos = 0;
  while (offs.size() < 14 && (pos = err.find("+0x", pos)) != std::string::npos) {
    size_t e = err.find(')', pos);
    size_t lb = err.rfind('\n', pos);
    size_t b = (lb == std::string::npos) ? 0 : lb + 1;
    std::string line = err.substr(b, pos - b);
    if (e != std::string::npos && line.find('#') != std::string::npos && line.find("c09_") != std::string::npos)
      offs.push_back(err.substr(pos + 1, e - pos - 1));
    pos += 3;
  }
  if (offs.empty()) return false;
  std::string cmd = "addr2line -a -i -f -C -e '" + g_self + "'";
  for (auto &o : offs) cmd += " " + o;
  cmd += " 2>/dev/null";
  FILE *p = popen(cmd.c_str(), "r");
  if (!p) return false;
  std::vector<std::string> lines;
  char buf[4096];
  while (fgets(buf, sizeof(buf), p)) {
    std::string l = buf;
    while (l.size() && (l.back() == '\n' || l.back() == '\r')) l.pop_back();
    if (l.compare(0, 2, "0x") == 0 && l.find(' ') == std::string::npos) continue;  // the address line of -a
    lines.push_back(l);
  }
  pclose(p);
  where.clear();
  text.clear();
  for (size_t i = 0; i + 1 < lines.size(); i += 2) {
    std::string fn = lines[i], file = lines[i + 1];
    size_t disc = file.find(" (discriminator");
    if (disc != std::string::npos) file.erase(disc);
    text += "    #" + std::to_string(i / 2) + " " + fn.substr(0, 160) + " " + file + "\n";
    if (where.empty() && file.find("/src/colvar") != std::string::npos && file.find(".cpp:") != std::string::npos) {
      size_t par = fn.find('(');
      std::string f = fn.substr(0, par);
      size_t sl = file.rfind('/');
      std::string base = file.substr(sl + 1);
      where = f + "@" + base.substr(0, base.find(':'));
    }
  }
  return !where.empty();
}

struct SigInfo { std::string kind, head; };
static std::map<std::string, SigInfo> g_sigcache;  // death key -> symbolized signature (per worker)

static void report_dead(Result &r, std::string const &part, std::string const &conf, Slot const &s,
                        std::string const &batch_err, std::string const &origin)
{
  std::string err;
  int ei;
  static std::map<std::string, int> confirms;  // per worker: deaths with this key that were reproduced alone
  std::string const bkey = (s.status == 2) ? death_key(s.exitinfo, batch_err) : std::string();
  if (s.status == 2 && confirms[bkey] >= 3 && g_sigcache.count(bkey)) {
    // the same death (same kind, same frames) has already been reproduced alone three times by this worker: every
    // batch case runs on a fresh module, so the batch observation is taken as it is
    ei = s.exitinfo;
    err = batch_err;
    r.count(part + "_deaths_not_rerun_alone_same_site_confirmed_3x");
  } else {
    ei = replay_alone(conf, s.status == 3 ? 50.0 : 30.0, err);
    if (ei != 0 && ei != -1000) confirms[death_key(ei, err)]++;
  }
  if (ei == 0) {
    // did not reproduce alone (a case that was only slow under load, or a death that depends on what ran before)
    // (typical: a UBSan report about an uninitialised value, which depends on what the memory held)
    std::string k = (s.status == 3) ? "slow" : death_kind(s.exitinfo, batch_err);
    r.count(part + "_died_or_slow_in_batch_but_fine_alone");
    r.count(part + "_fine_alone:" + k);
    static int n_notes = 0;
    if (n_notes++ < 1)
      r.notes.push_back("case " + std::string(s.status == 3 ? "exceeded 20 s" : "died (" + k + ")") +
                        " in its batch but ran normally alone, not reported: " + origin);
    return;
  }
  std::string sig, head;
  if (ei == -1000) {
    sig = "C09:total:hang";
    head = "no return within 50 s when run alone";
  } else {
    std::string key = death_key(ei, err);
    auto it = g_sigcache.find(key);
    // resolved sites are shared between the workers through small files in the scratch directory
    char cname[64];
    snprintf(cname, sizeof(cname), "/sigcache_%016llx", (unsigned long long) fnv(key));
    std::string const cfile = g_scratch + cname;
    if (it == g_sigcache.end()) {
      std::string cached;
      size_t nl;
      if (read_file(cfile, cached) && cached.size() > 6 && (nl = cached.find('\n')) != std::string::npos && cached.compare(cached.size() - 5, 5, "\nEND\n") == 0) {
        SigInfo si;
        si.kind = cached.substr(0, nl);
        si.head = cached.substr(nl + 1, cached.size() - nl - 1 - 5);
        it = g_sigcache.insert(std::make_pair(key, si)).first;
      }
    }
    if (it == g_sigcache.end()) {
      std::string serr, w0, frames;
      SigInfo si;
      int e2 = 0;
      if (addr2line_where(err, w0, frames)) {
        si.kind = death_kind(ei, err) + ":" + w0;
        size_t cut = err.find("    #0");
        si.head = err.substr(0, std::min<size_t>(cut, 600)) + frames.substr(0, 1500);
      } else if ((e2 = replay_symbolized(conf, serr)) == 0 || e2 == 95) {
        si.kind = death_kind(ei, err) + ":not-symbolized";
        si.head = err.substr(0, 1500);
      } else {
        std::string w = death_where(serr);
        si.kind = death_kind(e2, serr) + (w.size() ? ":" + w : "");
        si.head = serr.substr(0, 1800);
      }
      r.count(part + "_distinct_death_sites_symbolized");
      it = g_sigcache.insert(std::make_pair(key, si)).first;
      std::string tmp = cfile + "." + std::to_string((long) getpid());
      FILE *cf = fopen(tmp.c_str(), "w");
      if (cf) {
        fprintf(cf, "%s\n%s\nEND\n", si.kind.c_str(), si.head.c_str());
        fclose(cf);
        rename(tmp.c_str(), cfile.c_str());
      }
    }
    sig = "C09:total:" + it->second.kind;
    head = it->second.head;
  }
  r.violation(sig, "{\"mode\":" + jstr(g_case_runs_steps ? "layout" : "total") + ",\"origin\":" + jstr(origin) + ",\"config\":" + jstr(conf) +
                   ",\"observed\":" + jstr(ei == -1000 ? "no return within 50 s" : "process ended with " + std::to_string(ei) +
                                            " (97 = sanitizer report, 96 = uncaught exception, negative = signal)") +
                   ",\"expected\":\"read_config_string returns (accept or reject)\",\"stderr\":" + jstr(head) + "}");
}

// ------------------------------------------------------------------------------------------------
// Independent reading of the configuration syntax (reference manual, "Configuration syntax"):
//  - '#' starts a comment that runs to the end of the line; LF or CRLF end a line;
//  - white space is spaces and tabs; a line is `keyword value` or `keyword { ... }`;
//  - braces must match; keywords are only valid in the context of their parent.
// ------------------------------------------------------------------------------------------------
static std::vector<std::string> ref_lines_nocomment(std::string const &text)
{
  std::vector<std::string> L;
  size_t p = 0;
  while (p <= text.size()) {
    size_t q = text.find('\n', p);
    std::string l = text.substr(p, (q == std::string::npos ? text.size() : q) - p);
    if (l.size() && l.back() == '\r') l.pop_back();
    size_t h = l.find('#');
    if (h != std::string::npos) l.erase(h);
    L.push_back(l);
    if (q == std::string::npos) break;
    p = q + 1;
  }
  return L;
}

// returns "" when the reference makes no demand, otherwise the class of mandatory rejection
static std::string ref_must_reject(std::string const &text, std::set<std::string> const &toplevel)
{
  std::vector<std::string> L = ref_lines_nocomment(text);
  int depth = 0;
  std::string why;
  for (auto &l : L) {
    size_t w = l.find_first_not_of(" \t");
    if (depth == 0 && w != std::string::npos) {
      size_t e = l.find_first_of(" \t{}", w);
      if (e == w) e = w + 1;  // the line starts with a brace
      std::string word = lower(l.substr(w, (e == std::string::npos ? l.size() : e) - w));
      if (!toplevel.count(word) && why.empty()) why = "toplevel-line-not-a-global-keyword";
    }
    for (char c : l) {
      if (c == '{') depth++;
      if (c == '}') { depth--; if (depth < 0) return "unmatched-brace"; }
    }
  }
  if (depth != 0) return "unmatched-brace";
  return why;
}

// ---- configuration tree of a file written one keyword per line (the corpus layout) ----
struct Node {
  std::string key;
  size_t key_off = 0;                  // offset of the keyword in the original text
  int kind = 0;                        // 0 no value, 1 plain value, 2 block, 3 brace-delimited list
  std::vector<std::string> vals;       // value tokens (kind 1, 3)
  size_t val_b = 0, val_e = 0;         // span of the value text [b,e) in the original (kind 1: tokens; 2/3: from '{' to past '}')
  size_t open_off = 0, close_off = 0;  // offsets of the braces (kind 2, 3)
  size_t line_b = 0, line_e = 0;       // span of the whole item, from the keyword to the end of value / closing brace
  std::vector<Node> ch;                // children (kind 2)
};

struct Tok { int t; std::string s; size_t off; };  // t: 0 word, 1 '{', 2 '}', 3 newline

static std::vector<Tok> tokenize(std::string const &text)
{
  std::vector<Tok> T;
  size_t i = 0, n = text.size();
  while (i < n) {
    char c = text[i];
    if (c == '#') { while (i < n && text[i] != '\n') i++; continue; }
    if (c == '\n') { T.push_back(Tok{3, "\n", i}); i++; continue; }
    if (c == ' ' || c == '\t' || c == '\r') { i++; continue; }
    if (c == '{') { T.push_back(Tok{1, "{", i}); i++; continue; }
    if (c == '}') { T.push_back(Tok{2, "}", i}); i++; continue; }
    size_t j = i;
    while (j < n && !strchr(" \t\r\n{}#", text[j])) j++;
    T.push_back(Tok{0, text.substr(i, j - i), i});
    i = j;
  }
  T.push_back(Tok{3, "\n", n});
  return T;
}

static bool is_number(std::string const &s)
{
  if (s.empty()) return false;
  char *e = NULL;
  strtod(s.c_str(), &e);
  return e && *e == 0 && (isdigit((unsigned char) s[0]) || s[0] == '-' || s[0] == '+' || s[0] == '.');
}
// token of a parenthesised vector: "(1.0," "0.0," "0.0)"
static bool is_numberish(std::string const &s)
{
  std::string t;
  for (char c : s) if (c != '(' && c != ')' && c != ',') t += c;
  return is_number(t);
}

static bool parse_items(std::vector<Tok> const &T, size_t &i, std::vector<Node> &out, bool inner, std::string &err)
{
  while (i < T.size()) {
    if (T[i].t == 3) { i++; continue; }
    if (T[i].t == 2) { if (inner) return true; err = "closing brace at top level"; return false; }
    if (T[i].t == 1) { err = "line starts with an opening brace"; return false; }
    Node nd;
    nd.key = T[i].s;
    nd.key_off = nd.line_b = T[i].off;
    nd.line_e = T[i].off + T[i].s.size();
    i++;
    if (i < T.size() && T[i].t == 1) {
      nd.open_off = T[i].off;
      nd.val_b = T[i].off;
      size_t j = i + 1;
      while (j < T.size() && T[j].t == 3) j++;
      bool block = (j < T.size() && T[j].t == 0 && isalpha((unsigned char) T[j].s[0]));
      i++;
      if (block) {
        nd.kind = 2;
        if (!parse_items(T, i, nd.ch, true, err)) return false;
      } else {
        nd.kind = 3;
        while (i < T.size() && T[i].t != 2) {
          if (T[i].t == 1) { err = "nested brace in a list"; return false; }
          if (T[i].t == 0) nd.vals.push_back(T[i].s);
          i++;
        }
      }
      if (i >= T.size() || T[i].t != 2) { err = "missing closing brace"; return false; }
      nd.close_off = T[i].off;
      nd.val_e = nd.line_e = T[i].off + 1;
      i++;
      // nothing but closing braces may follow on this line
      if (i < T.size() && T[i].t == 0) { err = "text after a closing brace"; return false; }
    } else {
      while (i < T.size() && T[i].t == 0) {
        if (nd.vals.empty()) nd.val_b = T[i].off;
        nd.vals.push_back(T[i].s);
        nd.val_e = nd.line_e = T[i].off + T[i].s.size();
        i++;
      }
      nd.kind = nd.vals.empty() ? 0 : 1;
      if (i < T.size() && T[i].t == 1) { err = "brace after a value"; return false; }
    }
    out.push_back(nd);
  }
  if (inner) { err = "end of text inside a block"; return false; }
  return true;
}

static bool parse_tree(std::string const &text, std::vector<Node> &root, std::string &err)
{
  std::vector<Tok> T = tokenize(text);
  size_t i = 0;
  root.clear();
  return parse_items(T, i, root, false, err);
}

static bool is_true_tok(std::string const &s) { return s == "on" || s == "yes" || s == "true"; }
static bool is_false_tok(std::string const &s) { return s == "off" || s == "no" || s == "false"; }

// ---- serialisation with layout options ----
struct Style {
  int kcase = 0;        // 0 as written, 1 upper, 2 lower, 3 alternating
  int ws = 0;           // 0 two spaces + single space, 1 tabs, 2 mixed runs of spaces and tabs + trailing white space
  int blank = 0;        // 1 blank and white-space-only lines everywhere
  int comment = 0;      // 1 trailing + whole-line benign comments, 2 comments containing braces and keywords
  int crlf = 0;         // 1 CRLF line ends
  int listbrace = 0;    // 1 multi-token values wrapped in braces on one line, 2 wrapped and split one per line,
                        // 3 every plain non-boolean value wrapped in braces
  int blockbrace = 0;   // 1 closing brace at the end of the last content line, 2 first item on the line of the opening
                        // brace, 3 blocks with a single plain item written on one line
  int boolmode = 0;     // 1 true-valued booleans as bare keywords, 2 synonyms (on->yes->true->on, off->no->false->off)
  std::string name;
};

static std::string style_key(std::string const &k, Style const &st)
{
  if (st.kcase == 1) return upper(k);
  if (st.kcase == 2) return lower(k);
  if (st.kcase == 3) {
    std::string r = k;
    for (size_t i = 0; i < r.size(); i++) r[i] = (i % 2) ? tolower(r[i]) : toupper(r[i]);
    return r;
  }
  return k;
}

static void emit(std::vector<Node> const &nodes, Style const &st, int depth, std::string &out, std::set<std::string> const &nobool)
{
  std::string const eol = st.crlf ? "\r\n" : "\n";
  std::string ind;
  for (int d = 0; d < depth; d++) ind += (st.ws == 1) ? "\t" : (st.ws == 2) ? " \t   " : "  ";
  std::string const sep = (st.ws == 1) ? "\t" : (st.ws == 2) ? "  \t \t  " : " ";
  std::string const trail = (st.ws == 2) ? " \t " : "";
  auto endline = [&](std::string &o) {
    o += trail;
    if (st.comment == 1) o += " # a comment";
    if (st.comment == 2) o += " # } colvar { name harmonic } {{ centers 1.0 \t#";
    o += eol;
    if (st.blank) { o += eol; o += " \t " + eol; }
    if (st.comment == 1) o += ind + "# whole-line comment" + eol;
    if (st.comment == 2) o += "#}" + eol + ind + "# width 123 {" + eol;
  };
  for (auto const &nd : nodes) {
    std::string key = style_key(nd.key, st);
    if (nd.kind == 0) {
      out += ind + key;
      endline(out);
    } else if (nd.kind == 1 || nd.kind == 3) {
      std::vector<std::string> v = nd.vals;
      bool isbool = (v.size() == 1 && (is_true_tok(v[0]) || is_false_tok(v[0])) && !nobool.count(lower(nd.key)));
      if (isbool && st.boolmode == 1 && is_true_tok(v[0])) {
        out += ind + key;
        endline(out);
        continue;
      }
      if (isbool && st.boolmode == 2) {
        static const char *cyc[] = {"on", "yes", "true", "on", "off", "no", "false", "off"};
        for (int k = 0; k < 7; k++) if (v[0] == cyc[k] && k != 3) { v[0] = cyc[k + 1]; break; }
      }
      int braces = (nd.kind == 3) ? 1 : 0;
      if (st.listbrace == 1 && v.size() >= 2) braces = 1;
      if (st.listbrace == 2 && (v.size() >= 2 || nd.kind == 3)) braces = 2;
      if (st.listbrace == 3 && !isbool) braces = 1;
      if (braces == 0) {
        out += ind + key;
        for (auto &t : v) out += sep + t;
        endline(out);
      } else if (braces == 1) {
        out += ind + key + sep + "{";
        for (auto &t : v) out += sep + t;
        out += sep + "}";
        endline(out);
      } else {
        out += ind + key + sep + "{";
        endline(out);
        for (auto &t : v) { out += ind + sep + t; endline(out); }
        out += ind + "}";
        endline(out);
      }
    } else {
      bool single = (nd.ch.size() == 1 && nd.ch[0].kind <= 1);
      if (st.blockbrace == 3 && single) {
        std::string inner;
        Style s2 = st;
        s2.comment = 0; s2.blank = 0; s2.crlf = 0;
        emit(nd.ch, s2, 0, inner, nobool);
        while (inner.size() && strchr(" \t\r\n", inner.back())) inner.pop_back();
        out += ind + key + sep + "{" + sep + inner + sep + "}";
        endline(out);
        continue;
      }
      if (st.blockbrace == 1) {
        // closing brace at the end of the last content line (no comment between the content and the brace)
        Style s2 = st;
        s2.comment = 0; s2.blank = 0;
        std::string body;
        emit(nd.ch, s2, depth + 1, body, nobool);
        while (body.size() && strchr(" \t\r\n", body.back())) body.pop_back();
        out += ind + key + sep + "{";
        endline(out);
        out += body + sep + "}";
        endline(out);
      } else if (st.blockbrace == 2) {
        // first item starts on the line of the opening brace
        std::string inner;
        emit(nd.ch, st, depth + 1, inner, nobool);
        size_t f = inner.find_first_not_of(" \t");
        out += ind + key + sep + "{" + sep + inner.substr(f == std::string::npos ? 0 : f);
        out += ind + "}";
        endline(out);
      } else {
        out += ind + key + sep + "{";
        endline(out);
        emit(nd.ch, st, depth + 1, out, nobool);
        out += ind + "}";
        endline(out);
      }
    }
  }
}

static std::string serialize(std::vector<Node> const &root, Style const &st, std::set<std::string> const &nobool)
{
  std::string out;
  if (st.blank) out += st.crlf ? "\r\n \r\n" : "\n \n";
  if (st.comment) out += std::string("# leading comment { ") + (st.crlf ? "\r\n" : "\n");
  emit(root, st, 0, out, nobool);
  return out;
}

// ------------------------------------------------------------------------------------------------
// corpus
// ------------------------------------------------------------------------------------------------
struct CorpusFile { std::string name, text; std::vector<Node> tree; };

static const char *own_configs[][2] = {
  {"own:distance_harmonic",
   "colvar {\n  name d\n  width 0.5\n  lowerBoundary 0.0\n  upperBoundary 20.0\n  distance {\n    group1 {\n      atomNumbers { 1 2 3 4 }\n    }\n"
   "    group2 {\n      atomNumbers 10 11 12\n    }\n  }\n}\nharmonic {\n  name h\n  colvars d\n  centers 3.0\n  forceConstant 2.5\n}\n"},
  {"own:lists",
   "colvar {\n  name ang\n  angle {\n    group1 {\n      atomNumbersRange 1-4\n    }\n    group2 {\n      atomNumbers {\n        20\n        21 22\n      }\n    }\n"
   "    group3 {\n      atomNumbers 40 41\n    }\n  }\n}\ncolvar {\n  name dv\n  distanceVec {\n    group1 {\n      atomNumbers 5 6\n    }\n    group2 {\n      atomNumbers 50 51 52\n    }\n  }\n}\n"
   "harmonic {\n  colvars ang dv\n  centers 90.0 ( 1.0, 2.0, -3.0 )\n  forceConstant 0.01\n  outputEnergy on\n}\n"},
  {"own:walls_meta",
   "colvarsTrajFrequency 1\ncolvar {\n  name z\n  width 0.2\n  lowerBoundary -10.0\n  upperBoundary 10.0\n  extendedLagrangian off\n  outputVelocity yes\n  distanceZ {\n    main {\n      atomNumbers 30 31 32\n    }\n"
   "    ref {\n      atomNumbers 1 2\n    }\n    axis (0.0, 0.6, 0.8)\n  }\n}\nharmonicWalls {\n  colvars z\n  lowerWalls -2.0\n  upperWalls 2.0\n  forceConstant 4.0\n}\n"
   "metadynamics {\n  colvars z\n  hillWeight 0.05\n  hillWidth 1.5\n  newHillFrequency 1\n  useGrids true\n  keepHills false\n}\n"},
  // every block ends with a true-valued boolean whose default is false (closing brace right after a bare keyword)
  {"own:boolean_last_in_block",
   "colvar {\n  name cn\n  coordNum {\n    group1 {\n      atomNumbers 1 2 3\n    }\n    group2 {\n      atomNumbers 10 11 12 13\n    }\n    cutoff 6.0\n    group2CenterOnly on\n  }\n}\n"
   "colvar {\n  name dz\n  distance {\n    group1 {\n      atomNumbers 20 21\n    }\n    group2 {\n      atomNumbers 30 31\n    }\n    oneSiteTotalForce on\n  }\n  outputTotalForce on\n}\n"
   "harmonic {\n  colvars cn\n  centers 1.0\n  forceConstant 3.0\n  outputEnergy on\n}\n"
   "harmonicWalls {\n  colvars dz\n  upperWalls 2.0\n  forceConstant 2.0\n  bypassExtendedLagrangian on\n  outputEnergy on\n}\n"},
};

static std::string g_corpus_dir;

static bool load_corpus(std::vector<CorpusFile> &C, std::vector<std::string> &excluded, std::string &err)
{
  DIR *d = opendir(g_corpus_dir.c_str());
  if (!d) { err = "cannot open " + g_corpus_dir; return false; }
  std::vector<std::string> names;
  while (struct dirent *e = readdir(d)) {
    std::string n = e->d_name;
    if (n[0] == '.') continue;
    std::string p = g_corpus_dir + "/" + n + "/test.in";
    struct stat sb;
    if (stat(p.c_str(), &sb) == 0) names.push_back(n);
  }
  closedir(d);
  std::sort(names.begin(), names.end());
  for (auto &n : names) {
    CorpusFile f;
    f.name = n;
    if (!read_file(g_corpus_dir + "/" + n + "/test.in", f.text)) { err = "cannot read " + n; return false; }
    std::string lt = lower(f.text);
    if (lt.find("customfunction") != std::string::npos || lt.find("scriptedfunction") != std::string::npos) {
      excluded.push_back(n + " (needs Lepton/Tcl)");
      continue;
    }
    if (lt.find("torchann") != std::string::npos) { excluded.push_back(n + " (needs Torch)"); continue; }
    if (lt.find("prefix prot_") != std::string::npos || lt.find("psfsegid") != std::string::npos) {
      excluded.push_back(n + " (selects atoms by residue/segment: needs a topology the engine simulator does not have)");
      continue;
    }
    C.push_back(f);
  }
  for (auto &oc : own_configs) {
    CorpusFile f;
    f.name = oc[0];
    f.text = oc[1];
    C.push_back(f);
  }
  for (auto &f : C) {
    std::string e;
    if (!parse_tree(f.text, f.tree, e)) { err = "corpus file " + f.name + " is not in the supported layout: " + e; return false; }
  }
  return true;
}

// ------------------------------------------------------------------------------------------------
// observation of a run: 3 engine steps on the first 3 trajectory frames
// ------------------------------------------------------------------------------------------------
static void put_value(std::ostringstream &o, colvarvalue const &v)
{
  switch (v.type()) {
  case colvarvalue::type_scalar: o << hexd(v.real_value); break;
  case colvarvalue::type_3vector:
  case colvarvalue::type_unit3vector:
  case colvarvalue::type_unit3vectorderiv:
    o << hexd(v.rvector_value.x) << "," << hexd(v.rvector_value.y) << "," << hexd(v.rvector_value.z); break;
  case colvarvalue::type_quaternion:
  case colvarvalue::type_quaternionderiv:
    o << hexd(v.quaternion_value.q0) << "," << hexd(v.quaternion_value.q1) << "," << hexd(v.quaternion_value.q2) << ","
      << hexd(v.quaternion_value.q3); break;
  case colvarvalue::type_vector:
    for (size_t i = 0; i < v.vector1d_value.size(); i++) o << hexd(v.vector1d_value[i]) << ",";
    break;
  default: o << "?"; break;
  }
}

struct Obs { int rc_parse = 0; int ncv = 0, nbias = 0; bool finite = true; std::string rec, err; };

static Obs observe(std::string const &conf)
{
  Obs ob;
  c09proxy *px = make_px();
  ob.rc_parse = px->config(conf);
  ob.err = px->errtxt;
  if (ob.rc_parse != 0) { delete px; return ob; }
  ob.ncv = (int) px->colvars->colvars.size();
  ob.nbias = (int) px->colvars->biases.size();
  std::ostringstream o;
  for (int k = 0; k < 3; k++) {
    for (int i = 0; i < g_sys.n; i++) px->x[i] = g_sys.frames[k][i];
    int rc = px->step(k);
    o << "step " << k << " rc " << rc << "\n";
    for (auto *cv : px->colvars->colvars) {
      o << " cv " << cv->name << " = ";
      put_value(o, cv->value());
      o << "\n";
    }
    for (auto *b : px->colvars->biases) o << " bias " << b->name << " e " << hexd(b->get_energy()) << "\n";
    o << " energy " << hexd(px->energy) << "\n forces";
    if (!std::isfinite(px->energy)) ob.finite = false;
    for (int a = 0; a < g_sys.n; a++) {
      cvm::rvector const &f = px->fapp[a];
      if (f.x != 0.0 || f.y != 0.0 || f.z != 0.0) o << " " << a << ":" << hexd(f.x) << "," << hexd(f.y) << "," << hexd(f.z);
      if (!std::isfinite(f.x + f.y + f.z)) ob.finite = false;
    }
    o << "\n";
  }
  o << "state\n" << px->state_text();
  ob.rec = o.str();
  delete px;
  return ob;
}

static void run_case_body(std::string const &conf)
{
  if (g_case_runs_steps) { observe(conf); return; }
  Slot s = Slot();
  exec_parse(conf, s);
}

// the same in a forked child (the worker itself never runs Colvars: it forks)
static Obs observe_in_child(std::string const &conf)
{
  std::vector<Slot> slots;
  std::string const path = g_errfile + ".obs";
  run_batch(1, [&](size_t, Slot &s) {
    Obs ob = observe(conf);
    s.rc = ob.rc_parse;
    s.aux = ob.ncv | (ob.nbias << 8) | (ob.finite ? 0x10000 : 0);
    FILE *fo = fopen(path.c_str(), "w");
    if (fo) { fwrite(ob.rec.data(), 1, ob.rec.size(), fo); fputs("\n@@ERR@@\n", fo); fputs(ob.err.c_str(), fo); fclose(fo); }
  }, 60.0, slots);
  Obs ob;
  if (slots[0].status != 1) { ob.rc_parse = -12345; return ob; }
  ob.rc_parse = slots[0].rc;
  ob.ncv = slots[0].aux & 0xff;
  ob.nbias = (slots[0].aux >> 8) & 0xff;
  ob.finite = (slots[0].aux & 0x10000) != 0;
  std::string t;
  read_file(path, t);
  size_t p = t.find("\n@@ERR@@\n");
  ob.rec = t.substr(0, p);
  if (p != std::string::npos) ob.err = t.substr(p + 9);
  return ob;
}

// first differing line of two records
static std::string first_diff(std::string const &a, std::string const &b)
{
  std::istringstream ia(a), ib(b);
  std::string la, lb;
  int n = 0;
  while (true) {
    bool ga = (bool) std::getline(ia, la), gb = (bool) std::getline(ib, lb);
    n++;
    if (!ga && !gb) return "";
    if (!ga) la = "<end>";
    if (!gb) lb = "<end>";
    if (la != lb) return "line " + std::to_string(n) + ": original `" + la.substr(0, 300) + "` rewritten `" + lb.substr(0, 300) + "`";
  }
}

// ------------------------------------------------------------------------------------------------
// keyword harvest: per context kind, the keywords the parser itself registers (colvarparse::allowed_keywords),
// read in the error callback raised by a bogus keyword placed in that context
// ------------------------------------------------------------------------------------------------
static const char *BOGUS = "zzzbogus";

struct Ctx { std::string kind; int depth; size_t insert_off; std::vector<std::string> sibling_keys; };

static std::string ctx_kind(std::vector<std::string> const &path)
{
  // path: keys of the enclosing blocks, outermost first (lower case)
  if (path.empty()) return "module";
  if (path.size() == 1) return path[0] == "colvar" ? "colvar" : "bias:" + path[0];
  if (path[0] == "colvar") {
    if (path.size() == 2) return "cvc:" + path[1];
    return "atomgroup";
  }
  return "biasblock:" + path[0] + "/" + path.back();
}

static void collect_ctx(std::vector<Node> const &nodes, std::vector<std::string> &path, size_t insert_off,
                        std::vector<Ctx> &out)
{
  Ctx c;
  c.kind = ctx_kind(path);
  c.depth = (int) path.size();
  c.insert_off = insert_off;
  for (auto &n : nodes) c.sibling_keys.push_back(lower(n.key));
  out.push_back(c);
  for (auto &n : nodes) {
    if (n.kind == 2) {
      path.push_back(lower(n.key));
      collect_ctx(n.ch, path, n.close_off, out);
      path.pop_back();
    }
  }
}

typedef std::map<std::string, std::set<std::string>> KindSets;

// one probe (runs in a batch child): appends "kind\tkeyword" lines to the harvest file
static void harvest_probe(CorpusFile const &f, Ctx const &c, FILE *o, Slot &s)
{
  std::string t = f.text;
  t.insert(c.insert_off, std::string("\n") + BOGUS + " 1\n");
  c09proxy *px = make_px();
  std::vector<std::pair<int, std::set<std::string>>> regs;  // (depth, keywords), walk order
  bool fired = false;
  px->on_error = [&](std::string const &msg) {
    if (fired || msg.find(BOGUS) == std::string::npos || msg.find("not supported") == std::string::npos) return;
    fired = true;
    colvarmodule *cv = px->colvars;
    auto add = [&](int d, colvarparse *p) {
      if (!p || p->allowed_keywords.empty()) return;
      regs.push_back(std::make_pair(d, std::set<std::string>(p->allowed_keywords.begin(), p->allowed_keywords.end())));
    };
    add(0, cv->parse);
    for (auto *c1 : cv->colvars) {
      add(1, c1);
      for (auto &cc : c1->cvcs) {
        add(2, cc.get());
        for (auto *g : cc->atom_groups) {
          add(3, g);
          if (g) add(4, g->fitting_group);
        }
      }
    }
    for (auto *b : cv->biases) {
      add(1, b);
      colvarbias_histogram *h = dynamic_cast<colvarbias_histogram *>(b);
      if (h && h->grid) add(2, h->grid);
    }
  };
  s.rc = px->config(t);
  s.accepted = (s.rc == 0);
  bool ok = false;
  if (fired && regs.size()) {
    int dmax = -1;
    size_t pick = 0;
    for (size_t i = 0; i < regs.size(); i++) if (regs[i].first >= dmax) { dmax = regs[i].first; pick = i; }
    if (dmax == c.depth) {
      ok = true;
      for (auto &k : c.sibling_keys) if (!regs[pick].second.count(k)) ok = false;
      if (ok) for (auto &k : regs[pick].second) fprintf(o, "%s\t%s\n", c.kind.c_str(), k.c_str());
    }
  }
  if (!ok) fprintf(o, "!unidentified\t%s\t%s\n", f.name.c_str(), c.kind.c_str());
  fflush(o);
  s.aux = ok ? 1 : 0;
  px->on_error = nullptr;
  delete px;
}

static bool harvest(std::vector<CorpusFile> const &C, KindSets &K, Result &r)
{
  struct P { size_t fi; Ctx c; };
  std::vector<P> probes;
  for (size_t fi = 0; fi < C.size(); fi++) {
    std::vector<Ctx> ctxs;
    std::vector<std::string> path;
    collect_ctx(C[fi].tree, path, C[fi].text.size(), ctxs);
    for (auto &c : ctxs) probes.push_back(P{fi, c});
  }
  std::string const hfile = g_errfile + ".harvest";
  unlink(hfile.c_str());
  std::vector<Slot> slots;
  run_batch(probes.size(), [&](size_t k, Slot &s) {
    FILE *o = fopen(hfile.c_str(), "a");
    if (!o) _exit(2);
    harvest_probe(C[probes[k].fi], probes[k].c, o, s);
    fclose(o);
  }, 20.0, slots);
  std::string out;
  read_file(hfile, out);
  std::set<std::string> unident;
  for (size_t k = 0; k < probes.size(); k++) {
    r.count("harvest_contexts");
    if (slots[k].status != 1) { r.count("harvest_probe_died"); unident.insert(probes[k].c.kind); }
    else if (slots[k].accepted) {
      // the parser accepted a keyword that exists nowhere: a strictness violation in its own right
      std::string t = C[probes[k].fi].text;
      t.insert(probes[k].c.insert_off, std::string("\n") + BOGUS + " 1\n");
      r.count("evaluations");
      r.count("strict_unknown_keyword_probe_accepted");
      r.seen("nontrivial", t);
      std::string shape = probes[k].c.depth == 0 ? "top-level" : "in-block";
      r.violation("C09:strict:unknown-keyword:" + shape + ":accepted",
                  "{\"mode\":\"strict\",\"file\":" + jstr(C[probes[k].fi].name) + ",\"class\":\"unknown-keyword\",\"context\":" +
                  jstr(probes[k].c.kind) + ",\"keyword\":\"zzzbogus\",\"config\":" + jstr(t) +
                  ",\"observed\":\"accepted (error bits 0)\",\"expected\":\"rejected with an error\"}");
    }
    else if (!slots[k].aux) r.count("harvest_contexts_unidentified");
  }
  std::istringstream is(out);
  std::string line;
  while (std::getline(is, line)) {
    std::vector<std::string> f;
    size_t p = 0;
    while (true) {
      size_t q = line.find('\t', p);
      f.push_back(line.substr(p, q == std::string::npos ? q : q - p));
      if (q == std::string::npos) break;
      p = q + 1;
    }
    if (f.size() == 2 && f[0].size() && f[0][0] != '!') K[f[0]].insert(f[1]);
    else if (f.size() == 3 && f[0] == "!unidentified") unident.insert(f[2]);
  }
  for (auto &kv : K) r.count("harvest_keywords", (long) kv.second.size());
  r.count("harvest_kinds", (long) K.size());
  if (unident.size()) {
    std::string s = "keyword registry of these context kinds could not be tied to one parser object in some files (kind union used): ";
    for (auto &u : unident) s += u + " ";
    r.notes.push_back(s);
  }
  return true;
}

// ------------------------------------------------------------------------------------------------
// mode: total
// ------------------------------------------------------------------------------------------------
static const int NBASE = 11;
static const char *base_tok[NBASE] = {"colvar", "harmonic", "name", "distance", "group1", "atomNumbers", "{", "}", "\n", "\r\n", "1"};
static const char special_tok[4] = {'#', '\t', '\0', (char) 0x80};

// index -> token string; alphabet of nt = 11 + nspecial tokens; words are separated by one space, the special
// bytes are inserted without surrounding space
static std::string token_string(unsigned long idx, int len, int nt)
{
  std::string s;
  bool prev_word = false;
  for (int k = 0; k < len; k++) {
    int t = (int) (idx % nt);
    idx /= nt;
    if (t < NBASE) {
      if (prev_word) s += ' ';
      s += base_tok[t];
      prev_word = true;
    } else {
      s += special_tok[t - NBASE];
      prev_word = false;
    }
  }
  return s;
}

struct TotalCase { std::string conf, origin; };

static void flat_nodes(std::vector<Node> const &nodes, std::vector<std::string> &path,
                       std::vector<std::pair<Node const *, std::vector<std::string>>> &out);

static int mode_total(Args &args, Result &total)
{
  bool th = args.thorough();
  std::vector<CorpusFile> C;
  std::vector<std::string> excluded;
  std::string err;
  if (!load_corpus(C, excluded, err)) { fprintf(stderr, "HARNESS-ERROR: %s\n", err.c_str()); return 2; }
  std::set<std::string> toplevel = {"colvar", "harmonic"};

  // ---- A. token strings ----
  int const nt = NBASE + 4;
  int const L = th ? 6 : 5;
  // full alphabet (15 tokens) up to length L-1, 12-token alphabets (one special each) at length L
  std::vector<unsigned long> cum;  // cumulative counts per (length) for the 15-token part
  unsigned long nfull = 0;
  {
    unsigned long p = 1;
    for (int l = 0; l <= L - 1; l++) { nfull += p; p *= nt; }
  }
  unsigned long p12 = 1;
  for (int l = 0; l < L; l++) p12 *= 12;
  unsigned long const ntop = p12;  // strings of length L over the 11 base tokens + '#'
  unsigned long const nstrings = nfull + ntop;
  auto gen_string = [&](unsigned long i) -> std::string {
    if (i < nfull) {
      unsigned long p = 1, base = 0;
      for (int l = 0; l <= L - 1; l++) {
        if (i < base + p) return token_string(i - base, l, nt);
        base += p;
        p *= nt;
      }
      return "";
    }
    unsigned long j = i - nfull;
    int sp = (int) (j / p12);
    unsigned long idx = j % p12;
    std::string s;
    bool prev_word = false;
    for (int k = 0; k < L; k++) {
      int t = (int) (idx % 12);
      idx /= 12;
      if (t < NBASE) { if (prev_word) s += ' '; s += base_tok[t]; prev_word = true; }
      else { s += special_tok[sp]; prev_word = false; }
    }
    return s;
  };

  // ---- B. byte mutations of corpus files ----
  std::vector<char> repl = th ? std::vector<char>{'{', '}', '\n', '\0'} : std::vector<char>{};
  int const per_off = 2 + (int) repl.size();
  // quick tier: byte mutations run on a subset of the files that still contains every (context kind, keyword) pair of
  // the corpus at least once (greedy cover; most test inputs differ from another one in a single block only)
  size_t const nfiles_all = C.size();
  if (!th) {
    std::vector<std::set<std::string>> pairs(C.size());
    std::set<std::string> todo;
    for (size_t fi = 0; fi < C.size(); fi++) {
      std::vector<std::pair<Node const *, std::vector<std::string>>> all;
      std::vector<std::string> path;
      flat_nodes(C[fi].tree, path, all);
      for (auto &pr : all) pairs[fi].insert(ctx_kind(pr.second) + "/" + lower(pr.first->key));
      todo.insert(pairs[fi].begin(), pairs[fi].end());
    }
    std::vector<CorpusFile> sel;
    std::vector<bool> used(C.size(), false);
    while (!todo.empty()) {
      size_t best = 0, best_gain = 0;
      for (size_t fi = 0; fi < C.size(); fi++) {
        if (used[fi]) continue;
        size_t gain = 0;
        for (auto &p : pairs[fi]) if (todo.count(p)) gain++;
        if (gain > best_gain || (gain == best_gain && gain > 0 && C[fi].text.size() < C[best].text.size())) { best = fi; best_gain = gain; }
      }
      if (best_gain == 0) break;
      used[best] = true;
      sel.push_back(C[best]);
      for (auto &p : pairs[best]) todo.erase(p);
    }
    C = sel;
  }
  std::vector<unsigned long> fbase;  // cumulative case index per file
  unsigned long nmut = 0;
  for (auto &f : C) { fbase.push_back(nmut); nmut += (unsigned long) f.text.size() * per_off; }
  auto gen_mut = [&](unsigned long i, std::string &origin) -> std::string {
    size_t fi = std::upper_bound(fbase.begin(), fbase.end(), i) - fbase.begin() - 1;
    unsigned long j = i - fbase[fi];
    size_t off = j / per_off;
    int op = (int) (j % per_off);
    std::string t = C[fi].text;
    char b[64];
    if (op == 0) { t.erase(off, 1); snprintf(b, 64, ":delete@%zu", off); }
    else if (op == 1) { t.erase(off); snprintf(b, 64, ":truncate@%zu", off); }
    else { t[off] = repl[op - 2]; snprintf(b, 64, ":replace@%zu:0x%02x", off, (unsigned char) repl[op - 2]); }
    origin = C[fi].name + b;
    return t;
  };

  if (args.kv["only"] == "tokens") nmut = 0;   // development aid
  unsigned long const ncases = nstrings + nmut;
  total.notes.push_back("token strings: all strings over 15 tokens (11 words/braces/newlines + '#', tab, NUL, 0x80) up to length " +
                        std::to_string(L - 1) + " (" + std::to_string(nfull) + ") and all strings of length " + std::to_string(L) +
                        " over the 12-token alphabet with '#' as the only special byte (" + std::to_string(ntop) + "); byte mutations: " +
                        std::to_string(C.size()) + " of " + std::to_string(nfiles_all) + " files" + (th ? "" : " (smallest set containing every (context kind, keyword) pair of the corpus)") + ", " + std::to_string(nmut) + " cases (delete, truncate, replace by " +
                        std::to_string(repl.size()) + " bytes at every offset)");
  for (auto &e : excluded) total.notes.push_back("corpus file left out: " + e);

  std::string scratch = args.kv["scratch"];
  bool ok = run_sharded(args.jobs, [&](int shard, int nshards, Result &r) {
    g_outprefix = scratch + "/w" + std::to_string(shard) + "_out";
    g_errfile = scratch + "/w" + std::to_string(shard) + ".stderr";
    if (chdir(g_corpus_dir.c_str()) != 0) { fprintf(stderr, "HARNESS-ERROR: chdir\n"); _exit(2); }
    // token strings (distinct by construction): case i belongs to shard i % nshards.  Byte mutations: many files share
    // their first lines, so truncations and mutations there give the same text more than once; each distinct text is run
    // once, by the shard its hash selects (every worker sees the same sequence, so the choice is deterministic)
    std::vector<unsigned long> mine;
    for (unsigned long i = shard; i < nstrings; i += nshards) mine.push_back(i);
    {
      std::set<uint64_t> seen_text;
      std::string o;
      for (unsigned long j = 0; j < nmut; j++) {
        uint64_t h = fnv(gen_mut(j, o));
        if (!seen_text.insert(h).second) { if (shard == 0) r.count("total_byte_mutations_same_text_as_earlier_case"); continue; }
        if ((int) (h % (uint64_t) nshards) == shard) mine.push_back(nstrings + j);
      }
    }
    size_t const B = 20000;
    for (size_t b0 = 0; b0 < mine.size(); b0 += B) {
      size_t nb = std::min(B, mine.size() - b0);
      std::vector<Slot> slots;
      std::vector<std::string> bad_err;
      run_batch(nb, [&](size_t k, Slot &s) {
        unsigned long i = mine[b0 + k];
        std::string origin;
        if (i < nstrings) exec_parse_live(gen_string(i), s);
        else exec_parse(gen_mut(i - nstrings, origin), s);
      }, 20.0, slots, &bad_err);
      size_t nbad = 0;
      for (size_t k = 0; k < nb; k++) {
        unsigned long i = mine[b0 + k];
        Slot const &s = slots[k];
        bool tokpart = (i < nstrings);
        std::string origin = "token-string";
        std::string conf = tokpart ? gen_string(i) : gen_mut(i - nstrings, origin);
        r.count("evaluations");
        r.count(tokpart ? "total_token_strings" : "total_byte_mutations");
        r.seen("nontrivial", conf);
        if (s.status == 1) {
          r.count(s.accepted ? "total_accepted" : "total_rejected");
          r.seen("outcomes", (uint64_t) (s.accepted ? 1 : s.h1));
          if (s.accepted && (s.aux & 0xffff)) r.count("total_accepted_defining_objects");
          if (s.aux & 0x20000) r.count("total_rejected_without_message");
          if (s.aux & 0x10000) r.count("total_accepted_with_error_message");
          if (tokpart) {
            std::string must = ref_must_reject(conf, toplevel);
            if (must.size()) {
              r.count("total_ref_must_reject");
              bool acc_fresh = false;
              static std::map<std::string, int> confirmed;  // per worker: wrong acceptances confirmed on a fresh module
              if (s.accepted && confirmed[must] >= 5) acc_fresh = true;  // same class already confirmed 5 times here
              else if (s.accepted) {
                std::vector<Slot> one;
                run_batch(1, [&](size_t, Slot &x) { exec_parse(conf, x); }, 30.0, one);
                acc_fresh = (one[0].status == 1 && one[0].accepted);
                if (!acc_fresh) r.count("total_accepted_on_live_module_only");
                else confirmed[must]++;
              }
              if (acc_fresh) {
                r.violation("C09:strict:token-string:" + must + ":accepted",
                            "{\"mode\":\"total\",\"origin\":\"token-string\",\"config\":" + jstr(conf) +
                            ",\"observed\":\"accepted (error bits 0)\",\"expected\":\"rejected: " + must + "\"}");
              }
            } else {
              r.count("total_ref_no_demand");
              if (s.accepted) {
                r.count("total_ref_no_demand_accepted");
                bool blank = true;
                for (auto &l : ref_lines_nocomment(conf)) if (l.find_first_not_of(" \t") != std::string::npos) blank = false;
                if (!blank) {
                  r.count("total_accepted_nonblank_token_string");
                  r.sample("{\"accepted_nonblank_token_string\":" + jstr(conf) + "}", 2);
                }
              }
            }
          }
        } else {
          r.count(s.status == 3 ? "total_timeouts_in_batch" : "total_deaths_in_batch");
          report_dead(r, "total", conf, s, nbad < bad_err.size() ? bad_err[nbad] : "", origin);
          nbad++;
        }
      }
    }
    if (shard == 0) {
      r.sample("{\"token_string\":" + jstr(gen_string(nfull - 7)) + "}", 6);
      std::string o;
      std::string c = gen_mut(nmut / 2, o);
      r.sample("{\"byte_mutation\":" + jstr(o) + ",\"config\":" + jstr(c) + "}", 6);
    }
  }, total, th ? 6000 : 1200);
  return ok ? 0 : 2;
}

// ------------------------------------------------------------------------------------------------
// mode: strict
// ------------------------------------------------------------------------------------------------
struct Mut { std::string cls, shape, ctx, key, text; };

static void flat_nodes(std::vector<Node> const &nodes, std::vector<std::string> &path,
                       std::vector<std::pair<Node const *, std::vector<std::string>>> &out)
{
  for (auto &n : nodes) {
    out.push_back(std::make_pair(&n, path));
    if (n.kind == 2) {
      path.push_back(lower(n.key));
      flat_nodes(n.ch, path, out);
      path.pop_back();
    }
  }
}

static std::string value_shape(Node const &n)
{
  if (n.vals.size() == 1) return "scalar";
  bool paren = false;
  for (auto &v : n.vals) if (v.find('(') != std::string::npos) paren = true;
  return paren ? "paren-vector" : "list";
}

static void gen_mutations(CorpusFile const &f, KindSets const &K, bool th, std::vector<Mut> &M, Result &r)
{
  std::vector<std::pair<Node const *, std::vector<std::string>>> all;
  std::vector<std::string> path;
  flat_nodes(f.tree, path, all);
  std::vector<Ctx> ctxs;
  collect_ctx(f.tree, path, f.text.size(), ctxs);
  std::string const &T = f.text;

  for (auto &pr : all) {
    Node const &n = *pr.first;
    std::string kind = ctx_kind(pr.second);
    std::string lk = lower(n.key);
    auto ks = K.find(kind);
    // --- misspellings ---
    std::vector<std::string> ms;
    ms.push_back(n.key + "x");
    if (n.key.size() > 1) ms.push_back(n.key.substr(0, n.key.size() - 1));
    {
      std::string t = n.key;
      if (t.size() > 1 && tolower(t[0]) != tolower(t[1])) std::swap(t[0], t[1]); else t[0] = (t[0] == 'q') ? 'k' : 'q';
      ms.push_back(t);
    }
    if (th) {
      ms.push_back("x" + n.key);
      if (n.key.size() > 2) { std::string t = n.key; t.erase(t.size() / 2, 1); ms.push_back(t); }
      { std::string t = n.key; t[t.size() / 2] = (t[t.size() / 2] == '_') ? '-' : '_'; ms.push_back(t); }
      ms.push_back(n.key + n.key);
    }
    int mi = 0;
    for (auto &m : ms) {
      mi++;
      if (ks == K.end()) r.count("strict_misspelling_not_screened_against_registry");
      else if (ks->second.count(lower(m))) { r.count("strict_skipped_misspelling_is_a_keyword"); continue; }
      Mut mu;
      mu.cls = "misspelled-keyword";
      mu.shape = (n.kind == 2 ? "block" : "plain") + std::string("/variant") + std::to_string(mi);
      mu.ctx = kind;
      mu.key = lk;
      mu.text = T.substr(0, n.key_off) + m + T.substr(n.key_off + n.key.size());
      M.push_back(mu);
      // the same with the block's closing brace on the line of the misspelled item, when it is the last one of its block
      // (strictness must not depend on where the brace is)
      if (n.kind != 2) {
        size_t e = n.line_e;
        size_t q = T.find_first_not_of(" \t\r\n", e);
        if (q != std::string::npos && T[q] == '}' && pr.second.size() > 0) {
          Mut mb = mu;
          mb.shape += "+closing-brace-on-the-same-line";
          size_t cut_b = T.find_last_not_of(" \t\r\n", q - 1) + 1;
          std::string joined = T.substr(0, cut_b) + " " + T.substr(q);
          // re-apply the misspelling (the key lies before the cut)
          mb.text = joined.substr(0, n.key_off) + m + joined.substr(n.key_off + n.key.size());
          M.push_back(mb);
        }
      }
    }
    // --- transplant (copy) into a context where the keyword is not valid ---
    {
      std::string item = T.substr(n.line_b, n.line_e - n.line_b);
      for (auto &c : ctxs) {
        if (c.kind == kind) continue;
        bool related;
        if (th) related = true;
        else {
          // quick: root, parent context, child contexts of the node's own context
          related = (c.depth == 0) || (c.depth == (int) pr.second.size() - 1) || (c.depth == (int) pr.second.size() + 1);
        }
        if (!related) continue;
        // do not insert into the node's own subtree or in the middle of the node itself
        if (c.insert_off > n.line_b && c.insert_off <= n.line_e) continue;
        auto kt = K.find(c.kind);
        if (kt == K.end()) { r.count("strict_skipped_context_not_harvested"); continue; }
        if (kt->second.count(lk)) { r.count("strict_skipped_keyword_valid_in_target"); continue; }
        Mut mu;
        mu.cls = "keyword-in-wrong-context";
        mu.shape = (n.kind == 2 ? "block" : "plain");
        mu.ctx = kind + "->" + c.kind;
        mu.key = lk;
        mu.text = T.substr(0, c.insert_off) + "\n" + item + "\n" + T.substr(c.insert_off);
        M.push_back(mu);
      }
    }
    // --- braces ---
    if (n.kind == 2 || n.kind == 3) {
      for (int which = 0; which < 2; which++) {
        size_t off = which ? n.close_off : n.open_off;
        Mut a;
        a.cls = "unmatched-brace"; a.shape = which ? "close-deleted" : "open-deleted"; a.ctx = kind; a.key = lk;
        a.text = T.substr(0, off) + T.substr(off + 1);
        M.push_back(a);
        Mut b = a;
        b.shape = which ? "close-duplicated" : "open-duplicated";
        b.text = T.substr(0, off) + T[off] + T.substr(off);
        M.push_back(b);
      }
      Mut s;
      s.cls = "unmatched-brace"; s.shape = "pair-swapped"; s.ctx = kind; s.key = lk;
      s.text = T;
      s.text[n.open_off] = '}';
      s.text[n.close_off] = '{';
      M.push_back(s);
    }
    // --- values ---
    bool isbool = (n.kind == 1 && n.vals.size() == 1 && (is_true_tok(n.vals[0]) || is_false_tok(n.vals[0])));
    if (n.kind != 0 && !isbool) {
      Mut d;
      d.cls = "missing-value"; d.shape = (n.kind == 2 ? "block" : value_shape(n)); d.ctx = kind; d.key = lk;
      d.text = T.substr(0, n.val_b) + T.substr(n.val_e);
      M.push_back(d);
    }
    if (n.kind == 1 && lk == "atomnumbersrange" && n.vals.size() == 1) {
      // "first-last": text for either number, a missing dash, text after the last number
      static const char *bad[] = {"x-y", "5", "3-4abc", "3-y"};
      static const char *shp[] = {"range/both-text", "range/no-dash", "range/trailing-text", "range/last-text"};
      for (int bi = 0; bi < 4; bi++) {
        Mut a;
        a.cls = bi == 2 ? "number-with-trailing-text" : "text-for-number"; a.shape = shp[bi]; a.ctx = kind; a.key = lk;
        a.text = T.substr(0, n.val_b) + bad[bi] + T.substr(n.val_e);
        M.push_back(a);
      }
    }
    if (n.kind == 1 || n.kind == 3) {
      bool allnum = !n.vals.empty();
      for (auto &v : n.vals) if (!is_numberish(v)) allnum = false;
      if (allnum) {
        std::string shape = value_shape(n);
        size_t vb = n.val_b, ve = n.val_e;
        if (n.kind == 3) { vb = n.open_off + 1; ve = n.close_off; }
        Mut a;
        a.cls = "text-for-number"; a.shape = shape; a.ctx = kind; a.key = lk;
        a.text = T.substr(0, vb) + (n.kind == 3 ? " abc " : "abc") + T.substr(ve);
        M.push_back(a);
        // last token: replaced by text, and with text appended
        size_t lt = T.rfind(n.vals.back(), ve);
        if (lt != std::string::npos && lt >= vb) {
          std::string const &last = n.vals.back();
          std::string core = last, tail;
          while (core.size() && (core.back() == ')' || core.back() == ',')) { tail = core.back() + tail; core.pop_back(); }
          if (n.vals.size() >= 2) {
            Mut b;
            b.cls = "text-for-number-in-list"; b.shape = shape + "/last-element"; b.ctx = kind; b.key = lk;
            std::string lead;
            size_t s0 = 0;
            while (s0 < core.size() && core[s0] == '(') { lead += '('; s0++; }
            b.text = T.substr(0, lt) + lead + "abc" + tail + T.substr(lt + last.size());
            M.push_back(b);
          }
          Mut c;
          c.cls = "number-with-trailing-text"; c.shape = shape; c.ctx = kind; c.key = lk;
          c.text = T.substr(0, lt) + core + "abc" + tail + T.substr(lt + last.size());
          M.push_back(c);
          // an extra token after the last number that is only the beginning of a number (the stream reader swallows it and
          // reaches the end of the value): "-", "1e", "+.", "."
          if (n.kind == 1 && tail.empty()) {
            static const char *dangling[] = {" -", " 1e", " +.", " ."};
            for (int di = 0; di < (th ? 4 : 2); di++) {
              Mut e;
              e.cls = "number-followed-by-the-beginning-of-a-number"; e.shape = shape + "/" + std::string(dangling[di] + 1); e.ctx = kind; e.key = lk;
              e.text = T.substr(0, lt) + last + dangling[di] + T.substr(lt + last.size());
              M.push_back(e);
            }
          }
        }
      }
    }
  }
}

static int mode_strict(Args &args, Result &total)
{
  bool th = args.thorough();
  std::vector<CorpusFile> C;
  std::vector<std::string> excluded;
  std::string err;
  if (!load_corpus(C, excluded, err)) { fprintf(stderr, "HARNESS-ERROR: %s\n", err.c_str()); return 2; }
  std::string scratch = args.kv["scratch"];
  g_outprefix = scratch + "/main_out";
  g_errfile = scratch + "/main.stderr";
  if (chdir(g_corpus_dir.c_str()) != 0) { fprintf(stderr, "HARNESS-ERROR: chdir %s\n", g_corpus_dir.c_str()); return 2; }

  KindSets K;
  if (!harvest(C, K, total)) return 2;
  bool const registry_ok = K.count("module") && K.count("colvar") && K.count("atomgroup") && K.count("bias:harmonic") &&
                           K["module"].count("colvar") && K["colvar"].count("name") && K["atomgroup"].count("atomnumbers") &&
                           !K["colvar"].count("atomnumbers") && !K["module"].count("name");
  if (!registry_ok) {
    if (total.counters["strict_unknown_keyword_probe_accepted"] == 0) {
      fprintf(stderr, "HARNESS-ERROR: keyword harvest incomplete or inconsistent (%zu kinds) although no probe was accepted\n", K.size());
      return 2;
    }
    total.notes.push_back("the parser accepted unknown-keyword probes, so its keyword registry could not be harvested everywhere: "
                          "misspellings in such contexts are not screened against accidental keywords, transplants into them are skipped");
  }

  bool ok = run_sharded(args.jobs, [&](int shard, int nshards, Result &r) {
    g_outprefix = scratch + "/w" + std::to_string(shard) + "_out";
    g_errfile = scratch + "/w" + std::to_string(shard) + ".stderr";
    std::map<std::string, std::set<std::string>> kwnotes;
    for (size_t fi = shard; fi < C.size(); fi += nshards) {
      CorpusFile const &f = C[fi];
      std::vector<Mut> M;
      gen_mutations(f, K, th, M, r);
      // case 0 = the unmutated file (must be accepted, otherwise nothing below means anything)
      std::vector<Slot> slots;
      std::vector<std::string> bad_err;
      run_batch(M.size() + 1, [&](size_t k, Slot &s) { exec_parse(k == 0 ? f.text : M[k - 1].text, s); }, 20.0, slots, &bad_err);
      if (slots[0].status != 1) {
        // the parser dies on an unmodified repository input: a totality violation; nothing else can be said about this file
        r.count("evaluations");
        r.count("strict_files_skipped_unmodified_file_dies");
        report_dead(r, "strict", f.text, slots[0], bad_err.size() ? bad_err[0] : "", f.name + ":unmodified");
        continue;
      }
      if (!slots[0].accepted) {
        fprintf(stderr, "HARNESS-ERROR: corpus file %s is not accepted unmodified (rc %d)\n", f.name.c_str(), slots[0].rc);
        _exit(2);
      }
      r.count("strict_corpus_files");
      size_t nbad = 0;
      for (size_t k = 0; k < M.size(); k++) {
        Mut const &m = M[k];
        Slot const &s = slots[k + 1];
        r.count("evaluations");
        r.count("strict_" + m.cls);
        if (m.text != f.text) r.seen("nontrivial", m.text);
        if (s.status != 1) {
          r.count(s.status == 3 ? "strict_timeouts_in_batch" : "strict_deaths_in_batch");
          report_dead(r, "strict", m.text, s, nbad < bad_err.size() ? bad_err[nbad] : "", f.name + ":" + m.cls + ":" + m.key);
          nbad++;
          continue;
        }
        r.seen("outcomes", (uint64_t) (s.accepted ? 1 : s.h1));
        if (!s.accepted) { r.count("strict_rejected"); continue; }
        r.count("strict_accepted");
        std::string sig = "C09:strict:" + m.cls + ":" + m.shape + ":accepted";
        if (m.cls == "keyword-in-wrong-context") sig = "C09:strict:" + m.cls + ":" + m.shape + ":" + m.ctx + ":accepted";
        kwnotes[sig].insert(m.ctx + "/" + m.key);
        r.violation(sig, "{\"mode\":\"strict\",\"file\":" + jstr(f.name) + ",\"class\":" + jstr(m.cls) + ",\"shape\":" + jstr(m.shape) +
                         ",\"context\":" + jstr(m.ctx) + ",\"keyword\":" + jstr(m.key) + ",\"config\":" + jstr(m.text) +
                         ",\"observed\":\"accepted (error bits 0)\",\"expected\":\"rejected with an error\"}");
      }
    }
    for (auto &kv : kwnotes) {
      std::string s = "KW\t" + kv.first + "\t";
      for (auto &k : kv.second) s += k + " ";
      r.notes.push_back(s);
    }
    if (shard == 0 && C.size()) {
      std::vector<Mut> M;
      Result dummy;
      gen_mutations(C[0], K, th, M, dummy);
      for (size_t k = 0; k < M.size(); k += std::max<size_t>(1, M.size() / 3))
        r.sample("{\"file\":" + jstr(C[0].name) + ",\"class\":" + jstr(M[k].cls) + ",\"keyword\":" + jstr(M[k].key) +
                 ",\"config\":" + jstr(M[k].text) + "}", 4);
    }
  }, total, th ? 6000 : 1200);

  // collapse the per-shard keyword notes
  std::map<std::string, std::set<std::string>> kw;
  std::vector<std::string> keep;
  for (auto &n : total.notes) {
    if (n.compare(0, 3, "KW\t") == 0) {
      size_t p = n.find('\t', 3);
      std::string sig = n.substr(3, p - 3);
      std::istringstream is(n.substr(p + 1));
      std::string w;
      while (is >> w) kw[sig].insert(w);
    } else keep.push_back(n);
  }
  total.notes = keep;
  for (auto &kv : kw) {
    std::string s = kv.first + " - " + std::to_string(kv.second.size()) + " context/keyword pairs:";
    int c = 0;
    for (auto &k : kv.second) { if (c++ < 40) s += " " + k; }
    if (kv.second.size() > 40) s += " ...";
    total.notes.push_back(s);
  }
  return ok ? 0 : 2;
}

// ------------------------------------------------------------------------------------------------
// mode: layout
// ------------------------------------------------------------------------------------------------
static std::vector<Style> base_styles()
{
  std::vector<Style> S;
  auto add = [&](std::string const &name, std::function<void(Style &)> f) { Style s; f(s); s.name = name; S.push_back(s); };
  add("canonical", [](Style &) {});
  add("case-upper", [](Style &s) { s.kcase = 1; });
  add("case-lower", [](Style &s) { s.kcase = 2; });
  add("case-alternating", [](Style &s) { s.kcase = 3; });
  add("ws-tabs", [](Style &s) { s.ws = 1; });
  add("ws-mixed-trailing", [](Style &s) { s.ws = 2; });
  add("blank-lines", [](Style &s) { s.blank = 1; });
  add("comments-plain", [](Style &s) { s.comment = 1; });
  add("comments-with-braces-and-keywords", [](Style &s) { s.comment = 2; });
  add("crlf", [](Style &s) { s.crlf = 1; });
  add("value-braces-one-line", [](Style &s) { s.listbrace = 1; });
  add("value-braces-split-lines", [](Style &s) { s.listbrace = 2; });
  add("value-braces-every-value", [](Style &s) { s.listbrace = 3; });
  add("block-closing-brace-on-last-line", [](Style &s) { s.blockbrace = 1; });
  add("block-first-item-on-opening-line", [](Style &s) { s.blockbrace = 2; });
  add("block-single-item-one-line", [](Style &s) { s.blockbrace = 3; });
  add("bool-shorthand", [](Style &s) { s.boolmode = 1; });
  add("bool-synonyms", [](Style &s) { s.boolmode = 2; });
  return S;
}

static Style combine(Style a, Style const &b)
{
  if (b.kcase) a.kcase = b.kcase;
  if (b.ws) a.ws = b.ws;
  if (b.blank) a.blank = b.blank;
  if (b.comment) a.comment = b.comment;
  if (b.crlf) a.crlf = b.crlf;
  if (b.listbrace) a.listbrace = b.listbrace;
  if (b.blockbrace) a.blockbrace = b.blockbrace;
  if (b.boolmode) a.boolmode = b.boolmode;
  a.name = a.name + "+" + b.name;
  return a;
}

static bool same_dim(Style const &a, Style const &b)
{
  return (a.kcase && b.kcase) || (a.ws && b.ws) || (a.comment && b.comment) || (a.listbrace && b.listbrace) ||
         (a.blockbrace && b.blockbrace) || (a.boolmode && b.boolmode);
}

// keywords whose value is a string that may legitimately be "on"/"off" (not booleans): no shorthand rewrite
static std::set<std::string> const g_nobool = {"smp"};

static std::vector<Style> all_styles(bool th)
{
  std::vector<Style> S = base_styles(), R = S;
  // all together (two variants that differ in the dimensions that exclude each other)
  Style a; a.kcase = 3; a.ws = 2; a.blank = 1; a.comment = 2; a.crlf = 1; a.listbrace = 2; a.blockbrace = 0; a.boolmode = 1;
  a.name = "all-together-A";
  Style b; b.kcase = 1; b.ws = 1; b.blank = 1; b.comment = 1; b.crlf = 1; b.listbrace = 1; b.blockbrace = 0; b.boolmode = 2;
  b.name = "all-together-B";
  R.push_back(a);
  R.push_back(b);
  // brace placement x boolean form interact in the keyword lookup (end of block right after a bare keyword): all pairs, always
  if (!th) {
    for (size_t i = 1; i < S.size(); i++)
      for (size_t j = i + 1; j < S.size(); j++)
        if (((S[i].blockbrace && S[j].boolmode) || (S[i].boolmode && S[j].blockbrace))) R.push_back(combine(S[i], S[j]));
  }
  if (th) {
    for (size_t i = 1; i < S.size(); i++)
      for (size_t j = i + 1; j < S.size(); j++)
        if (!same_dim(S[i], S[j])) R.push_back(combine(S[i], S[j]));
  }
  return R;
}

static std::string layout_class(Style const &s)
{
  // signature class = the rewrite name (for pairs: both names)
  return s.name;
}

static int mode_layout(Args &args, Result &total)
{
  bool th = args.thorough();
  std::vector<CorpusFile> C;
  std::vector<std::string> excluded;
  std::string err;
  if (!load_corpus(C, excluded, err)) { fprintf(stderr, "HARNESS-ERROR: %s\n", err.c_str()); return 2; }
  std::vector<Style> S = all_styles(th);
  std::string scratch = args.kv["scratch"];
  total.notes.push_back(std::to_string(S.size()) + " rewrites per file");

  bool ok = run_sharded(args.jobs, [&](int shard, int nshards, Result &r) {
    g_outprefix = scratch + "/w" + std::to_string(shard) + "_out";
    g_errfile = scratch + "/w" + std::to_string(shard) + ".stderr";
    if (chdir(g_corpus_dir.c_str()) != 0) { fprintf(stderr, "HARNESS-ERROR: chdir\n"); _exit(2); }
    for (size_t fi = shard; fi < C.size(); fi += nshards) {
      CorpusFile const &f = C[fi];
      // the original record, computed twice (determinism is a precondition of the comparison)
      Obs o1 = observe_in_child(f.text), o2 = observe_in_child(f.text);
      if (o1.rc_parse == -12345) {
        // parse + 3 steps of an unmodified repository input die: reported, file skipped
        Slot ds = Slot();
        ds.status = 2;
        r.count("evaluations");
        r.count("layout_files_skipped_unmodified_file_dies");
        report_dead(r, "layout", f.text, ds, "", f.name + ":unmodified");
        continue;
      }
      if (o1.rc_parse != 0) {
        fprintf(stderr, "HARNESS-ERROR: corpus file %s is not accepted unmodified: %s\n", f.name.c_str(), o1.err.c_str());
        _exit(2);
      }
      if (o1.rec != o2.rec) {
        fprintf(stderr, "HARNESS-ERROR: two runs of the unmodified %s differ: %s\n", f.name.c_str(), first_diff(o1.rec, o2.rec).c_str());
        _exit(2);
      }
      r.count("layout_corpus_files");
      if (o1.ncv == 0) { r.count("layout_files_without_variables"); continue; }
      if (!o1.finite) r.count("layout_files_with_nonfinite_results");
      r.seen("layout_distinct_records", o1.rec);
      std::vector<std::string> texts;
      for (auto &st : S) texts.push_back(serialize(f.tree, st, g_nobool));
      // run every rewrite in a child (a rewrite may crash the parser)
      std::vector<Slot> slots;
      std::vector<std::string> bad_err;
      std::vector<std::string> recs(S.size());
      // records are large: children write them to files only when they differ from the original
      run_batch(S.size(), [&](size_t k, Slot &s) {
        Obs ob = observe(texts[k]);
        s.rc = ob.rc_parse;
        s.accepted = (ob.rc_parse == 0);
        s.h2 = fnv(ob.rec);
        s.aux = (ob.rec == o1.rec) ? 1 : 0;
        if (!s.aux) {
          std::string d = s.accepted ? first_diff(o1.rec, ob.rec) : ("rejected: " + ob.err.substr(0, 400));
          FILE *fo = fopen((g_errfile + ".diff" + std::to_string(k)).c_str(), "w");
          if (fo) { fputs(d.c_str(), fo); fclose(fo); }
        }
      }, 30.0, slots, &bad_err);
      size_t nbad = 0;
      for (size_t k = 0; k < S.size(); k++) {
        Slot const &s = slots[k];
        r.count("evaluations");
        r.count("layout_engine_steps", 3);
        if (texts[k] != f.text) r.seen("nontrivial", texts[k]);
        if (s.status != 1) {
          r.count("layout_deaths_in_batch");
          report_dead(r, "layout", texts[k], s, nbad < bad_err.size() ? bad_err[nbad] : "", f.name + ":" + S[k].name);
          nbad++;
          continue;
        }
        if (s.aux == 1) { r.count("layout_identical"); continue; }
        std::string d;
        read_file(g_errfile + ".diff" + std::to_string(k), d);
        unlink((g_errfile + ".diff" + std::to_string(k)).c_str());
        std::string what = s.accepted ? "results-differ" : "rejected";
        r.count("layout_" + what);
        r.violation("C09:layout:" + layout_class(S[k]) + ":" + what,
                    "{\"mode\":\"layout\",\"file\":" + jstr(f.name) + ",\"rewrite\":" + jstr(S[k].name) + ",\"config\":" + jstr(texts[k]) +
                    ",\"original\":" + jstr(f.text) + ",\"observed\":" + jstr(d) +
                    ",\"expected\":\"bit-identical values, energies, forces and state over 3 steps\"}");
        r.notes.push_back("KW\tC09:layout:" + layout_class(S[k]) + ":" + what + "\t" + f.name);
      }
    }
    if (shard == 0 && C.size()) {
      r.sample("{\"file\":" + jstr(C[0].name) + ",\"rewrite\":\"all-together-A\",\"config\":" +
               jstr(serialize(C[0].tree, S[S.size() > 19 ? 18 : 0], g_nobool)) + "}", 4);
    }
  }, total, th ? 6000 : 1200);

  std::map<std::string, std::set<std::string>> kw;
  std::vector<std::string> keep;
  for (auto &n : total.notes) {
    if (n.compare(0, 3, "KW\t") == 0) {
      size_t p = n.find('\t', 3);
      kw[n.substr(3, p - 3)].insert(n.substr(p + 1));
    } else keep.push_back(n);
  }
  total.notes = keep;
  for (auto &kv : kw) {
    std::string s = kv.first + " - " + std::to_string(kv.second.size()) + " files:";
    int c = 0;
    for (auto &k : kv.second) { if (c++ < 30) s += " " + k; }
    if (kv.second.size() > 30) s += " ...";
    total.notes.push_back(s);
  }
  return ok ? 0 : 2;
}

// ------------------------------------------------------------------------------------------------
// replay of one recorded case
// ------------------------------------------------------------------------------------------------
static int mode_replay(Args &args, Result &total, std::string const &mode)
{
  std::string js, cmode, conf, orig;
  if (!read_file(args.replay, js)) { fprintf(stderr, "HARNESS-ERROR: cannot read %s\n", args.replay.c_str()); return 2; }
  if (!json_get_string(js, "mode", cmode) || !json_get_string(js, "config", conf)) {
    fprintf(stderr, "HARNESS-ERROR: replay file has no mode/config\n");
    return 2;
  }
  if (cmode != mode) return 0;  // another part's case
  std::string sig;
  json_get_string(js, "sig", sig);
  std::string scratch = args.kv["scratch"];
  g_outprefix = scratch + "/replay_out";
  g_errfile = scratch + "/replay.stderr";
  if (chdir(g_corpus_dir.c_str()) != 0) return 2;
  total.count("evaluations");
  total.seen("nontrivial", conf);
  total.seen("nontrivial", conf + "#replay");
  printf("replaying %s case, configuration:\n%s\n----\n", cmode.c_str(), conf.c_str());
  if (mode == "layout" && json_get_string(js, "original", orig)) {
    std::vector<Slot> slots;
    std::string d;
    run_batch(1, [&](size_t, Slot &s) {
      Obs a = observe(orig), b = observe(conf);
      s.aux = (a.rec == b.rec && b.rc_parse == 0) ? 1 : 0;
      printf("original rc %d, rewritten rc %d; %s\n", a.rc_parse, b.rc_parse,
             s.aux ? "records identical" : (b.rc_parse ? b.err.c_str() : first_diff(a.rec, b.rec).c_str()));
      fflush(stdout);
    }, 60, slots);
    if (slots[0].status != 1) printf("child died: %d\n", slots[0].exitinfo);
    if (slots[0].status != 1 || !slots[0].aux) total.violation(sig.size() ? sig : "C09:layout:replay", json_get_object(js, "case"));
    return 0;
  }
  int ei = 0;
  std::string err;
  std::vector<Slot> slots;
  std::vector<std::string> bad;
  run_batch(1, [&](size_t, Slot &s) {
    if (g_case_runs_steps) {
      Obs ob = observe(conf);
      s.rc = ob.rc_parse; s.accepted = (ob.rc_parse == 0);
      printf("parser returned error bits %d; 3 steps completed\n", ob.rc_parse);
      fflush(stdout);
      return;
    }
    c09proxy *px = make_px();
    int rc = px->config(conf);
    s.rc = rc; s.accepted = (rc == 0);
    printf("parser returned error bits %d; messages: %s\n", rc, px->errtxt.c_str());
    fflush(stdout);
    delete px;
  }, 50, slots, &bad);
  if (slots[0].status != 1) {
    printf("child ended abnormally (%d): %s\n%s\n", slots[0].exitinfo, death_kind(slots[0].exitinfo, bad.size() ? bad[0] : "").c_str(),
           bad.size() ? bad[0].substr(0, 3000).c_str() : "");
    total.violation(sig.size() ? sig : "C09:total:replay", json_get_object(js, "case"));
  } else if (slots[0].accepted && (mode == "strict" || sig.find(":strict:") != std::string::npos)) {
    total.violation(sig.size() ? sig : "C09:strict:replay", json_get_object(js, "case"));
  }
  return 0;
}

int main(int argc, char **argv)
{
  omp_set_num_threads(1);
  std::set_terminate(on_terminate);
  Args args(argc, argv);
  {
    char buf[4096];
    ssize_t n = readlink("/proc/self/exe", buf, sizeof(buf) - 1);
    g_self = (n > 0) ? std::string(buf, n) : std::string(argv[0]);
  }
  std::string mode = args.kv.count("mode") ? args.kv["mode"] : "total";
  std::string repo = args.kv.count("repo") ? args.kv["repo"] : "/repo";
  if (!args.kv.count("scratch")) args.kv["scratch"] = ".";
  Result total;
  g_corpus_dir = repo + "/tests/input_files";
  struct stat sb;
  if (stat((g_corpus_dir + "/trajectory.xyz").c_str(), &sb) != 0) {
    g_corpus_dir = "/repo/tests/input_files";
    total.notes.push_back("corpus taken from /repo/tests/input_files (the repository root under test has no tests directory)");
  }
  if (!load_sys(g_corpus_dir + "/trajectory.xyz", g_sys) || g_sys.n != 104) {
    fprintf(stderr, "HARNESS-ERROR: cannot load the 104-atom trajectory from %s\n", g_corpus_dir.c_str());
    return 2;
  }
  g_repo_arg = repo;
  g_scratch = args.kv["scratch"];
  g_case_runs_steps = (mode == "layout");
  if (mode == "onecase") {
    std::string conf;
    if (!read_file(args.kv["case"], conf)) return 3;
    g_outprefix = g_scratch + "/onecase_" + std::to_string((long) getpid());
    g_case_runs_steps = (args.kv["steps"] == "1");
    if (chdir(g_corpus_dir.c_str()) != 0) return 3;
    run_case_body(conf);
    return 0;
  }
  int rc;
  if (args.replay.size()) rc = mode_replay(args, total, mode);
  else if (mode == "total") rc = mode_total(args, total);
  else if (mode == "strict") rc = mode_strict(args, total);
  else if (mode == "layout") rc = mode_layout(args, total);
  else if (mode == "bench") {
    if (chdir(g_corpus_dir.c_str()) != 0) return 2;
    double t0 = now();
    for (int i = 0; i < 2000; i++) { c09proxy *px = make_px(); delete px; }
    double t1 = now();
    for (int i = 0; i < 2000; i++) { c09proxy *px = make_px(); px->config("colvar {\n name 1\n}\n"); delete px; }
    double t2 = now();
    c09proxy *px = make_px();
    for (int i = 0; i < 2000; i++) { px->config("colvar {\n name 1\n}\n"); }
    double t3 = now();
    delete px;
    std::string big;
    read_file("distance-grid_abf/test.in", big);
    for (int i = 0; i < 500; i++) { c09proxy *px = make_px(); px->config(big); delete px; }
    double t4 = now();
    printf("construct+destroy %.1f us; +parse small %.1f us; parse small on live module %.1f us; abf file fresh %.1f us\n",
           (t1 - t0) / 2000 * 1e6, (t2 - t1) / 2000 * 1e6, (t3 - t2) / 2000 * 1e6, (t4 - t3) / 500 * 1e6);
    return 0;
  }
  else if (mode == "dump") {
    // development aid: print every rewrite of one corpus file
    std::vector<CorpusFile> C;
    std::vector<std::string> ex;
    std::string err;
    if (!load_corpus(C, ex, err)) { fprintf(stderr, "HARNESS-ERROR: %s\n", err.c_str()); return 2; }
    for (auto &f : C) {
      if (f.name != args.kv["file"]) continue;
      for (auto &st : all_styles(args.thorough())) printf("===== %s\n%s", st.name.c_str(), serialize(f.tree, st, g_nobool).c_str());
    }
    return 0;
  }
  else { fprintf(stderr, "HARNESS-ERROR: unknown mode %s\n", mode.c_str()); return 2; }
  if (rc != 0) return rc;
  for (auto &kv : total.counters) printf("%-48s %ld\n", kv.first.c_str(), kv.second);
  for (auto &kv : total.distinct) printf("distinct %-39s %zu\n", kv.first.c_str(), kv.second.size());
  for (auto &kv : total.viol_count) printf("VIOL %-60s %ld\n", kv.first.c_str(), kv.second);
  for (auto &n : total.notes) printf("note: %s\n", n.substr(0, 600).c_str());
  write_result(args.out, "C09", args.tier, total, true);
  return 0;
}
