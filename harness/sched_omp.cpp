// Stand-in for the OpenMP runtime (the 12 symbols the library references), with three modes:
//   SERIAL     : every parallel region runs on one thread (reference runs)
//   CONTROLLED : T real threads per region, serialised by a cooperative scheduler with a choice point at
//                region start, thread start/end, every lock / critical / single / barrier operation and
//                wherever the harness calls vsched_point(); choices come from a prefix vector, then 0
//   FREE       : T real threads running concurrently on pthread primitives (ThreadSanitizer pass)
// The library objects are compiled with -fopenmp but linked WITHOUT libgomp.
#include <pthread.h>
#include <cstdio>
#include <cstdlib>
#include <cstring>
#include <map>
#include <vector>
#include <unistd.h>
#include "sched_omp.h"

namespace {

pthread_mutex_t M = PTHREAD_MUTEX_INITIALIZER;
pthread_cond_t CV = PTHREAD_COND_INITIALIZER;

enum TState { T_NEW, T_RUN, T_BLOCKED, T_DONE };

struct Team {
  int n = 1;
  std::vector<TState> st;
  std::vector<int> blocked_on;  // lock id (>=0), -2 barrier, -3 critical
  int current = 0;
  // barrier
  int barrier_arrived = 0;
  long barrier_gen = 0;
  // single constructs: per thread count, global taken count
  std::vector<long> single_seen;
  long single_taken = 0;
  bool critical_held = false;
  int critical_owner = -1;
  bool active = false;
};

Team team;
int g_mode = VSCHED_SERIAL;
int g_T = 1;
std::vector<int> g_prefix;
size_t g_pos = 0;
std::vector<VschedPoint> g_points;
long g_regions = 0;
bool g_diverged = false;

__thread int t_id = 0;
__thread int t_level = 0;

struct Lock { bool held = false; int owner = -1; pthread_mutex_t pm; bool pm_init = false; };
std::map<void *, Lock> g_locks;  // keyed by the address of the omp_lock_t
pthread_mutex_t g_free_crit = PTHREAD_MUTEX_INITIALIZER;
pthread_mutex_t g_free_misc = PTHREAD_MUTEX_INITIALIZER;
pthread_barrier_t g_free_barrier;

void die(const char *msg)
{
  fprintf(stderr, "VSCHED-FATAL: %s\n", msg);
  fflush(NULL);
  _exit(97);
}

// ---- controlled mode core: must be called with M held by the running thread (== team.current) ----
void pick_next_locked(bool free_choice)
{
  int self = t_id;
  std::vector<int> order;
  bool self_enabled = (team.st[self] == T_RUN);
  if (self_enabled && !free_choice) order.push_back(self);
  for (int t = 0; t < team.n; t++) {
    if (t == self && self_enabled && !free_choice) continue;
    if (team.st[t] == T_RUN || team.st[t] == T_NEW) order.push_back(t);
  }
  if (order.empty()) {
    bool all_done = true;
    for (int t = 0; t < team.n; t++) if (team.st[t] != T_DONE) all_done = false;
    if (all_done) { team.current = -1; pthread_cond_broadcast(&CV); return; }
    // deadlock: nobody can run
    fprintf(stderr, "VSCHED-DEADLOCK: no enabled thread; states:");
    for (int t = 0; t < team.n; t++) fprintf(stderr, " %d(on %d)", (int) team.st[t], team.blocked_on[t]);
    fprintf(stderr, "\n");
    fflush(NULL);
    _exit(98);
  }
  int c = 0;
  if (g_pos < g_prefix.size()) c = g_prefix[g_pos];
  g_pos++;
  if (c < 0 || c >= (int) order.size()) {
    // a recorded prefix must replay exactly
    fprintf(stderr, "VSCHED-DIVERGED: choice %d of %d at point %zu\n", c, (int) order.size(), g_pos - 1);
    fflush(NULL);
    _exit(96);
  }
  VschedPoint p;
  p.n_enabled = (int) order.size();
  p.chosen = c;
  p.running_enabled = self_enabled && !free_choice;
  g_points.push_back(p);
  int next = order[c];
  team.current = next;
  if (next != self) pthread_cond_broadcast(&CV);
}

void wait_turn_locked()
{
  while (team.current != t_id) pthread_cond_wait(&CV, &M);
}

void sched_point_locked(bool free_choice)
{
  pick_next_locked(free_choice);
  wait_turn_locked();
}

struct Start { void (*fn)(void *); void *data; int id; };

void *thread_main(void *arg)
{
  Start *s = (Start *) arg;
  t_id = s->id;
  t_level = 1;
  if (g_mode == VSCHED_CONTROLLED) {
    pthread_mutex_lock(&M);
    wait_turn_locked();
    team.st[t_id] = T_RUN;
    pthread_mutex_unlock(&M);
  }
  s->fn(s->data);
  if (g_mode == VSCHED_CONTROLLED) {
    pthread_mutex_lock(&M);
    team.st[t_id] = T_DONE;
    pick_next_locked(false);
    pthread_mutex_unlock(&M);
  }
  return NULL;
}

}  // namespace

// =============================== harness API ===============================
extern "C" void vsched_configure(int mode, int nthreads, const int *prefix, int nprefix)
{
  g_mode = mode;
  g_T = nthreads < 1 ? 1 : nthreads;
  g_prefix.assign(prefix, prefix + nprefix);
  g_pos = 0;
  g_points.clear();
  g_regions = 0;
  g_locks.clear();
}
extern "C" int vsched_npoints() { return (int) g_points.size(); }
extern "C" VschedPoint vsched_get_point(int i) { return g_points[i]; }
extern "C" long vsched_regions() { return g_regions; }
extern "C" void vsched_point()
{
  if (g_mode != VSCHED_CONTROLLED || t_level != 1 || !team.active) return;
  pthread_mutex_lock(&M);
  sched_point_locked(false);
  pthread_mutex_unlock(&M);
}

// =============================== OpenMP entry points ===============================
extern "C" {

int omp_get_thread_num(void) { return t_level == 1 ? t_id : 0; }
int omp_get_num_threads(void) { return (t_level == 1 && team.active) ? team.n : 1; }
int omp_get_max_threads(void) { return g_mode == VSCHED_SERIAL ? 1 : g_T; }

void GOMP_parallel(void (*fn)(void *), void *data, unsigned num_threads, unsigned /*flags*/)
{
  int n = num_threads ? (int) num_threads : g_T;
  if (g_mode == VSCHED_SERIAL || t_level >= 1 || n <= 1) {
    // nested or serial: run on the calling thread as a team of one
    int save_level = t_level, save_id = t_id;
    bool outer = (t_level == 0);
    if (outer) { team.n = 1; team.active = true; t_id = 0; t_level = 1; }
    else t_level = t_level + 1;
    fn(data);
    t_level = save_level;
    t_id = save_id;
    if (outer) team.active = false;
    return;
  }
  g_regions++;
  team.n = n;
  team.st.assign(n, T_NEW);
  team.blocked_on.assign(n, -1);
  team.single_seen.assign(n, 0);
  team.single_taken = 0;
  team.barrier_arrived = 0;
  team.critical_held = false;
  team.active = true;
  if (g_mode == VSCHED_FREE) pthread_barrier_init(&g_free_barrier, NULL, n);
  std::vector<pthread_t> th(n);
  std::vector<Start> st(n);
  t_id = 0;
  t_level = 1;
  if (g_mode == VSCHED_CONTROLLED) {
    pthread_mutex_lock(&M);
    team.current = 0;
    team.st[0] = T_RUN;
    pthread_mutex_unlock(&M);
  }
  for (int i = 1; i < n; i++) {
    st[i] = Start{fn, data, i};
    if (pthread_create(&th[i], NULL, thread_main, &st[i]) != 0) die("pthread_create failed");
  }
  if (g_mode == VSCHED_CONTROLLED) {
    // region start: any thread may go first at no cost
    pthread_mutex_lock(&M);
    sched_point_locked(true);
    pthread_mutex_unlock(&M);
  }
  fn(data);
  if (g_mode == VSCHED_CONTROLLED) {
    pthread_mutex_lock(&M);
    team.st[0] = T_DONE;
    pick_next_locked(false);
    // wait until everybody is done
    for (;;) {
      bool all = true;
      for (int t = 0; t < n; t++) if (team.st[t] != T_DONE) all = false;
      if (all) break;
      pthread_cond_wait(&CV, &M);
    }
    pthread_mutex_unlock(&M);
  }
  for (int i = 1; i < n; i++) pthread_join(th[i], NULL);
  if (g_mode == VSCHED_FREE) pthread_barrier_destroy(&g_free_barrier);
  team.active = false;
  t_level = 0;
  t_id = 0;
}

void GOMP_barrier(void)
{
  if (t_level != 1 || !team.active || team.n <= 1) return;
  if (g_mode == VSCHED_FREE) { pthread_barrier_wait(&g_free_barrier); return; }
  if (g_mode != VSCHED_CONTROLLED) return;
  pthread_mutex_lock(&M);
  sched_point_locked(false);
  team.barrier_arrived++;
  if (team.barrier_arrived == team.n) {
    team.barrier_arrived = 0;
    team.barrier_gen++;
    for (int t = 0; t < team.n; t++)
      if (team.st[t] == T_BLOCKED && team.blocked_on[t] == -2) { team.st[t] = T_RUN; team.blocked_on[t] = -1; }
  } else {
    long gen = team.barrier_gen;
    team.st[t_id] = T_BLOCKED;
    team.blocked_on[t_id] = -2;
    while (team.barrier_gen == gen) {
      pick_next_locked(false);
      wait_turn_locked();
    }
  }
  pthread_mutex_unlock(&M);
}

bool GOMP_single_start(void)
{
  if (t_level != 1 || !team.active || team.n <= 1) return true;
  if (g_mode == VSCHED_FREE) {
    pthread_mutex_lock(&g_free_misc);
    long k = ++team.single_seen[t_id];
    bool mine = false;
    if (k > team.single_taken) { team.single_taken = k; mine = true; }
    pthread_mutex_unlock(&g_free_misc);
    return mine;
  }
  pthread_mutex_lock(&M);
  sched_point_locked(false);
  long k = ++team.single_seen[t_id];
  bool mine = false;
  if (k > team.single_taken) { team.single_taken = k; mine = true; }
  pthread_mutex_unlock(&M);
  return mine;
}

void GOMP_critical_start(void)
{
  if (t_level != 1 || !team.active || team.n <= 1) return;
  if (g_mode == VSCHED_FREE) { pthread_mutex_lock(&g_free_crit); return; }
  pthread_mutex_lock(&M);
  sched_point_locked(false);
  while (team.critical_held) {
    team.st[t_id] = T_BLOCKED;
    team.blocked_on[t_id] = -3;
    pick_next_locked(false);
    wait_turn_locked();
  }
  team.critical_held = true;
  team.critical_owner = t_id;
  pthread_mutex_unlock(&M);
}

void GOMP_critical_end(void)
{
  if (t_level != 1 || !team.active || team.n <= 1) return;
  if (g_mode == VSCHED_FREE) { pthread_mutex_unlock(&g_free_crit); return; }
  pthread_mutex_lock(&M);
  team.critical_held = false;
  for (int t = 0; t < team.n; t++)
    if (team.st[t] == T_BLOCKED && team.blocked_on[t] == -3) { team.st[t] = T_RUN; team.blocked_on[t] = -1; }
  sched_point_locked(false);
  pthread_mutex_unlock(&M);
}

void omp_init_lock(void *l)
{
  pthread_mutex_lock(&g_free_misc);
  Lock &k = g_locks[l];
  k.held = false;
  k.owner = -1;
  if (!k.pm_init) { pthread_mutex_init(&k.pm, NULL); k.pm_init = true; }
  pthread_mutex_unlock(&g_free_misc);
}

static Lock &lock_of(void *l)
{
  pthread_mutex_lock(&g_free_misc);
  Lock &k = g_locks[l];
  if (!k.pm_init) { pthread_mutex_init(&k.pm, NULL); k.pm_init = true; }
  pthread_mutex_unlock(&g_free_misc);
  return k;
}

void omp_set_lock(void *l)
{
  Lock &k = lock_of(l);
  if (g_mode == VSCHED_FREE) { pthread_mutex_lock(&k.pm); return; }
  if (g_mode != VSCHED_CONTROLLED || t_level != 1 || !team.active || team.n <= 1) {
    if (k.held && g_mode == VSCHED_SERIAL) die("omp_set_lock on a held lock in serial mode (self-deadlock)");
    k.held = true;
    k.owner = t_id;
    return;
  }
  pthread_mutex_lock(&M);
  sched_point_locked(false);
  while (k.held) {
    if (k.owner == t_id) { fprintf(stderr, "VSCHED-DEADLOCK: thread %d re-acquires a lock it holds\n", t_id); fflush(NULL); _exit(98); }
    team.st[t_id] = T_BLOCKED;
    team.blocked_on[t_id] = 1;
    pick_next_locked(false);
    wait_turn_locked();
  }
  k.held = true;
  k.owner = t_id;
  pthread_mutex_unlock(&M);
}

void omp_unset_lock(void *l)
{
  Lock &k = lock_of(l);
  if (g_mode == VSCHED_FREE) { pthread_mutex_unlock(&k.pm); return; }
  if (g_mode != VSCHED_CONTROLLED || t_level != 1 || !team.active || team.n <= 1) { k.held = false; k.owner = -1; return; }
  pthread_mutex_lock(&M);
  k.held = false;
  k.owner = -1;
  for (int t = 0; t < team.n; t++)
    if (team.st[t] == T_BLOCKED && team.blocked_on[t] == 1) { team.st[t] = T_RUN; team.blocked_on[t] = -1; }
  sched_point_locked(false);
  pthread_mutex_unlock(&M);
}

int omp_test_lock(void *l)
{
  Lock &k = lock_of(l);
  if (g_mode == VSCHED_FREE) return pthread_mutex_trylock(&k.pm) == 0 ? 1 : 0;
  if (g_mode != VSCHED_CONTROLLED || t_level != 1 || !team.active || team.n <= 1) {
    if (k.held) return 0;
    k.held = true;
    k.owner = t_id;
    return 1;
  }
  pthread_mutex_lock(&M);
  sched_point_locked(false);
  int r = 0;
  if (!k.held) { k.held = true; k.owner = t_id; r = 1; }
  pthread_mutex_unlock(&M);
  return r;
}

}  // extern "C"
