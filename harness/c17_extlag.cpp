// C17 — extended-Lagrangian coordinates follow the documented integrator.
// Explorer A: ALL words of length L over (move of the actual coordinate x bias force) x parameter menu
// (fluctuation, time constant, time step, friction with a scripted noise sequence, reflecting boundaries)
// x ALL run segmentations (new run in the same process = repeated step), against a reference BAOA integrator.
#include "vproxy.h"
#include "common.h"
#include "colvarbias_abf.h"
#include "colvarbias_restraint.h"
#include "colvargrid.h"

using namespace vc;

static const double KB = 0.001987191, PI_ = 3.14159265358979323846;
static const double MOVE[4] = {0.0, 0.2, -0.2, 0.9};
static const double FORCE[3] = {0.0, -1.0, 2.0};
static const double NOISE[12] = {0.3, -1.1, 0.7, 0.05, -0.4, 1.6, -0.9, 0.2, 0.8, -1.3, 0.1, 0.5};

struct Par {
  double sigma, tau, dt, gamma_ps;
  int refl;      // 0 none, 1 lower at 1.9, 2 upper at 2.1
  bool bypass;   // second bias acting on the actual coordinate (harmonicWalls, bypassExtendedLagrangian default on)
  bool same_step = false;  // the engine hands over total forces of the same step (the extended coordinate's dynamics do not depend on it)
};

static std::string conf_text(Par const &p)
{
  std::string s = "scriptedColvarForces on\n";
  s += "colvar {\n name d\n width 0.5\n";
  if (p.refl == 1) s += " lowerBoundary 1.9\n reflectingLowerBoundary on\n";
  if (p.refl == 2) s += " upperBoundary 2.1\n reflectingUpperBoundary on\n";
  s += " extendedLagrangian on\n extendedFluctuation " + num(p.sigma) + "\n extendedTimeConstant " + num(p.tau) + "\n extendedLangevinDamping " + num(p.gamma_ps) +
       "\n outputEnergy on\n distance {\n group1 { atomNumbers 1 }\n group2 { atomNumbers 2 }\n }\n}\n";
  if (p.bypass) s += "harmonicWalls {\n name w\n colvars d\n upperWalls 2.05\n forceConstant 1.5\n}\n";
  return s;
}

struct RefState { double x, v; };

struct Ref {
  Par const &p;
  double k, m, dt, gam, sig;
  RefState cur;      // state at the beginning of the next integration
  RefState prev;     // state before the last integration (restored on a repeated step)
  bool has_prev = false;
  double xi_prev = 0;
  int inoise = 0;
  Ref(Par const &pp, double xi0) : p(pp)
  {
    double T = 300.0;
    k = KB * T / (p.sigma * p.sigma);
    m = KB * T * (p.tau / (2 * PI_ * p.sigma)) * (p.tau / (2 * PI_ * p.sigma));
    dt = p.dt;
    gam = p.gamma_ps * 1e-3;
    sig = gam > 0 ? std::sqrt((1.0 - std::exp(-2.0 * gam * dt)) * m * KB * T) : 0.0;
    // the coordinate starts on the actual value, but never outside a reflecting boundary
    if (p.refl == 1 && xi0 < 1.9) xi0 = 1.9;
    if (p.refl == 2 && xi0 > 2.1) xi0 = 2.1;
    cur = RefState{xi0, 0.0};
  }
  struct Out { double x_rep, v_rep, Ep, Ek, f_ext, spring_on_atoms; bool reflected; };
  Out advance(double xi, double fbias, bool repeat)
  {
    if (repeat && has_prev) {
      // a repeated step must not advance the coordinate twice (a jump of the actual coordinate by more than half a
      // width re-initialises it on the actual value, as documented in the log)
      double j = (xi - xi_prev) / 0.5;
      if (j * j > 0.25) {
        // re-initialised on the actual value - never outside a reflecting boundary - with the velocity it had before
        // the integration that is being repeated (the step must not advance the velocity twice either)
        cur.x = xi;
        if (p.refl == 1 && cur.x < 1.9) cur.x = 1.9;
        if (p.refl == 2 && cur.x > 2.1) cur.x = 2.1;
        cur.v = prev.v;
      } else cur = prev;
    }
    Out o;
    o.x_rep = cur.x;
    o.v_rep = cur.v;
    double fsys = -k * (cur.x - xi);
    double f = fbias + fsys;
    o.f_ext = f;
    o.spring_on_atoms = -fsys;  // force on the actual coordinate = k (x_ext - xi)
    prev = cur;
    has_prev = true;
    xi_prev = xi;
    double v = cur.v, x = cur.x;
    v += 0.5 * dt * f / m;
    o.Ek = 0.5 * m * v * v;
    o.Ep = 0.5 * k * (x - xi) * (x - xi);
    v += 0.5 * dt * f / m;
    x += 0.5 * dt * v;
    if (gam > 0) { v = std::exp(-gam * dt) * v + sig * NOISE[inoise % 12] / m; inoise++; }
    x += 0.5 * dt * v;
    o.reflected = false;
    if (p.refl == 1 && x < 1.9) { x = 2 * 1.9 - x; o.reflected = true; }
    if (p.refl == 2 && x > 2.1) { x = 2 * 2.1 - x; o.reflected = true; }
    cur = RefState{x, v};
    return o;
  }
};

int main(int argc, char **argv)
{
  Args args(argc, argv);
  bool thorough = args.thorough();
  int L = thorough ? 4 : 3;
  std::vector<Par> pars;
  for (double sg : {0.2, 0.4})
    for (double tau : {20.0, 50.0})
      for (double dt : {1.0, 2.0})
        for (double g : {0.0, 10.0})
          for (int refl : {0, 1, 2}) {
            if (!thorough && !((sg == 0.2 && tau == 20.0 && dt == 1.0) || (sg == 0.4 && tau == 50.0 && dt == 2.0 && refl == 0))) continue;
            pars.push_back(Par{sg, tau, dt, g, refl, false});
          }
  pars.push_back(Par{0.2, 20.0, 1.0, 0.0, 0, true});
  pars.push_back(Par{0.4, 50.0, 2.0, 10.0, 0, true});
  pars.push_back(Par{0.2, 20.0, 1.0, 0.0, 0, false, true});
  pars.push_back(Par{0.2, 20.0, 1.0, 0.0, 1, false, true});
  long nw = 1;
  for (int i = 0; i < L; i++) nw *= 12;
  long nseg = 1L << (L - 1);

  Result total;
  bool ok = run_sharded(args.jobs, [&](int shard, int nsh, Result &r) {
    for (size_t pi = 0; pi < pars.size(); pi++) {
      Par const &p = pars[pi];
      std::string conf = conf_text(p);
      for (long w = shard; w < nw; w += nsh) {
        std::vector<int> mv(L), fc(L);
        long q = w;
        for (int i = 0; i < L; i++) { mv[i] = (q % 12) / 3; fc[i] = (q % 12) % 3; q /= 12; }
        std::string wj = "[";
        for (int i = 0; i < L; i++) wj += std::string(i ? "," : "") + "[" + num(MOVE[mv[i]]) + "," + num(FORCE[fc[i]]) + "]";
        wj += "]";
        for (long sgk0 = 0; sgk0 < nseg * 3 * 3; sgk0++) {
          long sgk = sgk0 % (nseg * 3);
          // the atoms are displaced by more than half a width between the two evaluations of a repeated step (coordinates
          // exchanged or minimised between two runs of the same process): 0 no, 1 upwards, 2 downwards
          int jmp = (int) (sgk0 / (nseg * 3));
          double jump = jmp == 0 ? 0.0 : (jmp == 1 ? 0.4 : -0.4);
          if (jmp > 0 && (sgk / nseg != 0 || sgk % nseg == 0)) continue;
          long sg = sgk % nseg;
          // kind of run boundary: 0 = new run in the same process; 1 = state saved, new process loads it and repeats the
          // stop step; 2 = as 1, and the new process evaluates the stop step twice ("run 0" followed by "run N")
          int kind = (int) (sgk / nseg);
          if (kind > 0 && (sg == 0 || ((w / 16) % 4) != 1)) continue;  // (w/16: independent of the shard, which is w mod 16)
          // thorough: all segmentations for every second word, the unsegmented run for all; quick: everything
          if (thorough && sg != 0 && (w % 2) != 1) continue;
          r.count("evaluations");
          std::string det = "{\"sigma\":" + num(p.sigma) + ",\"tau\":" + num(p.tau) + ",\"dt\":" + num(p.dt) + ",\"damping\":" + num(p.gamma_ps) + ",\"reflecting\":" +
                            std::to_string(p.refl) + ",\"bypassing_bias\":" + (p.bypass ? "true" : "false") + (p.same_step ? ",\"engine_total_forces\":\"same step\"" : "") + ",\"moves_and_forces\":" + wj + ",\"new_run_after_steps\":" +
                            std::to_string(sg) + ",\"run_boundary\":\"" + (kind == 0 ? "same process" : (kind == 1 ? "state restart" : "state restart, stop step evaluated twice")) + "\"" +
                            (jmp ? ",\"atoms_displaced_between_the_runs_by\":" + num(jump) : std::string());
          double xi = 2.0;
          double fnow = 0;
          vproxy *px = NULL;
          auto make_px = [&](std::deque<double> const &rng) {
            px = new vproxy(2, p.same_step);
            px->set_target_temperature(300.0);
            px->set_integration_timestep(p.dt);
            px->rng = rng;
            px->x[1] = cvm::rvector(xi, 0, 0);
            px->force_callback = [&px, &fnow]() {
              colvar *cvp = px->cv("d");
              if (cvp) cvp->add_bias_force(colvarvalue(fnow));
              return COLVARS_OK;
            };
            if (px->config(conf) != 0) { fprintf(stderr, "HARNESS-ERROR: config rejected: %s\n", px->errtxt.c_str()); exit(3); }
          };
          std::deque<double> rng0;
          for (int k = 0; k < 3; k++) for (int i = 0; i < 12; i++) rng0.push_back(NOISE[i]);
          make_px(rng0);
          colvar *cv = px->cv("d");
          bool failed = false;
          bool tf_reported = false;
          bool after_reflection = false;
          long rng_before = 0;
          Ref ref(p, xi + MOVE[mv[0]]);  // the extended coordinate starts on the actual value of the first step
          for (int s = 0; s < L && !failed; s++) {
            xi += MOVE[mv[s]];
            if (xi < 0.5) xi = 0.5;
            int ncalls = (s >= 1 && ((sg >> (s - 1)) & 1)) ? 2 : 1;  // a new run starts by repeating step s... see below
            (void) ncalls;
            for (int rep = 0; rep < 3 && !failed; rep++) {
              bool repeat = (rep >= 1);
              if (rep == 1) {
                // boundary after step s?
                if (!(s < L - 1 && ((sg >> s) & 1))) break;
                px->end_run();
                xi += jump;
                if (xi < 0.5) xi = 0.5;
                if (kind > 0) {
                  std::string st = px->state_text();
                  std::deque<double> rest = px->rng;
                  delete px;
                  make_px(rest);
                  px->queue_state_text(st);
                  cv = px->cv("d");
                }
              }
              if (rep == 2) {
                if (kind != 2) break;
                px->end_run();
              }
              fnow = FORCE[fc[s]];
              px->x[1] = cvm::rvector(xi, 0, 0);
              rng_before = px->rng_used;
              if (px->step(s) != 0) {
                r.violation("C17:error-during-integration", det + ",\"step\":" + std::to_string(s) + ",\"error\":\"" + jesc(px->errtxt.substr(0, 200)) + "\"}");
                failed = true;
                break;
              }
              r.count("transitions");
              double wall = (p.bypass && xi > 2.05) ? -1.5 * (xi - 2.05) / 0.25 : 0.0;
              Ref::Out o = ref.advance(xi, fnow, repeat);
              // after a reflection the documentation only constrains the position: resynchronise the reference velocity
              auto cmp = [&](const char *what, double got, double want, double scale) {
                if (failed) return;
                if (!close_rel(got, want, std::max(scale, std::fabs(want)), 1e-10, 1e-12)) {
                  r.violation(std::string("C17:") + what + (repeat ? ":at-repeated-step" : "") + (p.gamma_ps > 0 ? ":with-friction" : ""),
                              det + ",\"step\":" + std::to_string(s) + ",\"observed\":" + num(got) + ",\"expected\":" + num(want) + "}");
                  failed = true;
                }
              };
              cmp("reported-value-differs-from-integrator", cv->x_reported.real_value, o.x_rep, 1.0);
              if (!failed && ((p.refl == 1 && cv->x_reported.real_value < 1.9 - 1e-12) || (p.refl == 2 && cv->x_reported.real_value > 2.1 + 1e-12))) {
                r.violation("C17:coordinate-outside-reflecting-boundary", det + ",\"step\":" + std::to_string(s) + ",\"reported_value\":" + num(cv->x_reported.real_value) + "}");
                failed = true;
              }
              if (!after_reflection) cmp("reported-velocity-differs-from-integrator", cv->v_reported.real_value, o.v_rep, 1e-3);
              cmp("potential-energy-differs", cv->potential_energy, o.Ep, 1.0);
              if (!after_reflection) cmp("kinetic-energy-differs", cv->kinetic_energy, o.Ek, 1e-3);
              if (!p.same_step) cmp("total-force-differs", cv->ft_reported.real_value, o.f_ext, 1.0);
              else if (!failed && !close_rel(cv->ft_reported.real_value, o.f_ext, std::max(1.0, std::fabs(o.f_ext)), 1e-10, 1e-12)) {
                // reported once per case, and the other quantities of the case are still compared (this one is a listed finding)
                if (!tf_reported)
                  r.violation("C17:total-force-differs:engine-with-same-step-total-forces",
                              det + ",\"step\":" + std::to_string(s) + ",\"observed\":" + num(cv->ft_reported.real_value) + ",\"expected\":" + num(o.f_ext) + "}");
                tf_reported = true;
              }
              // atoms feel the coupling spring plus biases that bypass the extended coordinate, nothing else
              cmp("atomic-force-is-not-spring-plus-bypassing-biases", px->fapp[1].x, o.spring_on_atoms + wall, 1.0);
              // boundary clause on the new position
              double xn = cv->x_ext.real_value;
              if ((p.refl == 1 && xn < 1.9 - 1e-12) || (p.refl == 2 && xn > 2.1 + 1e-12)) {
                r.violation("C17:coordinate-outside-reflecting-boundary", det + ",\"step\":" + std::to_string(s) + ",\"x\":" + num(xn) + "}");
                failed = true;
              }
              if (!failed && !close_rel(xn, ref.cur.x, 1.0, 1e-10, 1e-12)) {
                r.violation(std::string("C17:new-position-differs-from-integrator") + (o.reflected ? ":on-reflection" : "") + (repeat ? ":at-repeated-step" : ""),
                            det + ",\"step\":" + std::to_string(s) + ",\"observed\":" + num(xn) + ",\"expected\":" + num(ref.cur.x) + "}");
                failed = true;
              }
              if (o.reflected) {
                // documented: "opposite momentum"; the statement constrains the position only: follow the implementation's velocity
                ref.cur.v = cv->v_ext.real_value;
                after_reflection = false;
                r.count("reflections");
              }
              long used = px->rng_used - rng_before;
              if (!failed && used != (p.gamma_ps > 0 ? 1 : 0)) {
                r.violation("C17:random-numbers-consumed-per-step", det + ",\"used\":" + std::to_string(used) + "}");
                failed = true;
              }
            }
          }
          if (!failed) {
            r.seen("states", fnv(num(ref.cur.x) + num(ref.cur.v) + std::to_string(pi)));
            r.seen("nontrivial", fnv(det));
          }
          if (w == 77 && sg == 0 && pi < 2) r.sample(det + "}");
          delete px;
        }
      }
    }
    // ---- variable-level multiple time stepping: integrated every timeStepFactor steps with the long time step ----
    if (shard == 1 % nsh) {
      for (int tsf : {2, 3})
        for (double g : {0.0, 10.0})
          for (int wv = 0; wv < 27; wv++) {
            // three awake steps; the move before each and the bias force at each are enumerated (3 x 3 each)... word of 3 letters
            int letters[3] = {wv % 3, (wv / 3) % 3, wv / 9};
            Par p{0.2, 20.0, 1.0, g, 0, false};
            Par peff = p; peff.dt = p.dt * tsf;  // the reference integrates with the long time step
            std::string conf = conf_text(p);
            size_t at = conf.find(" extendedLagrangian on");
            conf.insert(at, " timeStepFactor " + std::to_string(tsf) + "\n");
            std::string det = "{\"timeStepFactor\":" + std::to_string(tsf) + ",\"damping\":" + num(g) + ",\"word\":" + std::to_string(wv);
            r.count("evaluations");
            vproxy *px = new vproxy(2);
            px->set_target_temperature(300.0);
            px->set_integration_timestep(p.dt);
            for (int k = 0; k < 2; k++) for (int i = 0; i < 12; i++) px->rng.push_back(NOISE[i]);
            double xi = 2.0, fnow = 0;
            bool awake = true;
            px->x[1] = cvm::rvector(xi, 0, 0);
            // a bias acting on a multiple-time-step variable runs with (a multiple of) the same factor and hands over its force
            // scaled by it, as an impulse (colvarbias::communicate_forces); the integrator divides by the factor again
            px->force_callback = [px, &fnow, &awake, tsf]() {
              colvar *cvp = px->cv("d");
              if (cvp && awake) cvp->add_bias_force(colvarvalue(fnow * tsf));
              return COLVARS_OK;
            };
            if (px->config(conf) != 0) { r.violation("C17:mts:configuration-rejected", det + ",\"error\":\"" + jesc(px->errtxt.substr(0, 200)) + "\"}"); delete px; continue; }
            colvar *cv = px->cv("d");
            Ref ref(peff, xi + MOVE[letters[0] % 4]);
            bool failed = false;
            for (int s = 0; s < 3 * tsf && !failed; s++) {
              awake = (s % tsf) == 0;
              int li = s / tsf;
              if (awake) { xi += MOVE[letters[li] % 4]; if (xi < 0.5) xi = 0.5; fnow = FORCE[letters[li]]; }
              px->x[1] = cvm::rvector(xi, 0, 0);
              if (px->step(s) != 0) { r.violation("C17:mts:error-during-integration", det + ",\"step\":" + std::to_string(s) + ",\"error\":\"" + jesc(px->errtxt.substr(0, 200)) + "\"}"); failed = true; break; }
              r.count("transitions");
              if (!awake) {
                if (std::fabs(px->fapp[1].x) > 1e-14) { r.violation("C17:mts:force-applied-while-the-variable-sleeps", det + ",\"step\":" + std::to_string(s) + "}"); failed = true; }
                continue;
              }
              Ref::Out o = ref.advance(xi, fnow, false);
              auto cmp = [&](const char *what, double got, double want, double scale) {
                if (failed) return;
                if (!close_rel(got, want, std::max(scale, std::fabs(want)), 1e-10, 1e-12)) {
                  r.violation(std::string("C17:mts:") + what + (g > 0 ? ":with-friction" : ""), det + ",\"step\":" + std::to_string(s) + ",\"observed\":" + num(got) + ",\"expected\":" + num(want) + "}");
                  failed = true;
                }
              };
              cmp("reported-value-differs-from-integrator", cv->x_reported.real_value, o.x_rep, 1.0);
              if (!failed && ((p.refl == 1 && cv->x_reported.real_value < 1.9 - 1e-12) || (p.refl == 2 && cv->x_reported.real_value > 2.1 + 1e-12))) {
                r.violation("C17:coordinate-outside-reflecting-boundary", det + ",\"step\":" + std::to_string(s) + ",\"reported_value\":" + num(cv->x_reported.real_value) + "}");
                failed = true;
              }
              cmp("new-position-differs-from-integrator-with-the-long-time-step", cv->x_ext.real_value, ref.cur.x, 1.0);
              // energies at the time origin of the step: coupling energy, and kinetic energy after half a kick of the LONG step
              cmp("potential-energy-differs", cv->potential_energy, o.Ep, 1.0);
              cmp("kinetic-energy-differs-from-half-kick-with-the-long-time-step", cv->kinetic_energy, o.Ek, 1e-3);
              // the coupling force reaches the atoms as an impulse: scaled by the factor at the steps where it is applied
              cmp("atomic-force-is-not-the-spring-impulse", px->fapp[1].x, o.spring_on_atoms * tsf, 1.0);
            }
            if (!failed) { r.seen("nontrivial", fnv(det)); r.seen("states", fnv(det + num(ref.cur.x))); }
            delete px;
          }
    }
    // ---- consumers of the total force of an extended coordinate (eABF, TI samples of a restraint): the extended system does not
    // depend on the engine's convention for atomic forces, so with scripted atomic positions the data collected under the two
    // conventions must be identical - all words of length 5 over 3 moves, 2 consumers ----
    if (shard == 2 % nsh) {
      for (int consumer = 0; consumer < 2; consumer++)
        for (int wv = 0; wv < 243; wv++) {
          r.count("evaluations");
          int letters[5] = {wv % 3, (wv / 3) % 3, (wv / 9) % 3, (wv / 27) % 3, wv / 81};
          std::string det = std::string("{\"consumer\":\"") + (consumer ? "harmonic restraint with writeTISamples" : "abf") + "\",\"word\":" + std::to_string(wv);
          std::vector<double> data[2];
          bool refused = false;
          for (int ss = 0; ss < 2 && !refused; ss++) {
            vproxy *px = new vproxy(2, ss != 0);
            px->set_target_temperature(300.0);
            px->set_integration_timestep(1.0);
            double xi = 2.0;
            px->x[1] = cvm::rvector(xi, 0, 0);
            std::string conf = "colvar {\n name d\n width 0.25\n lowerBoundary 1.0\n upperBoundary 3.0\n extendedLagrangian on\n extendedFluctuation 0.2\n extendedTimeConstant 20.0\n"
                               " extendedLangevinDamping 0.0\n distance {\n group1 { atomNumbers 1 }\n group2 { atomNumbers 2 }\n }\n}\n";
            conf += consumer ? "harmonic {\n name b\n colvars d\n centers 2.2\n forceConstant 0.5\n writeTISamples on\n}\n" : "abf {\n name b\n colvars d\n fullSamples 2\n}\n";
            if (px->config(conf) != 0) { r.violation("C17:consumer:configuration-rejected", det + ",\"error\":\"" + jesc(px->errtxt.substr(0, 200)) + "\"}"); refused = true; delete px; break; }
            for (int s = 0; s < 10; s++) {
              xi += 0.5 * MOVE[letters[s / 2] % 3] * ((s % 2) ? 0.3 : 1.0);
              if (xi < 1.1) xi = 1.1;
              if (xi > 2.9) xi = 2.9;
              px->x[1] = cvm::rvector(xi, 0, 0);
              px->fsys[0] = cvm::rvector(-0.7, 0, 0); px->fsys[1] = cvm::rvector(0.7, 0, 0);
              if (px->step(s) != 0) { r.violation("C17:consumer:error-during-run", det + ",\"step\":" + std::to_string(s) + "}"); refused = true; break; }
              r.count("transitions");
              data[ss].push_back(px->energy);
              data[ss].push_back(px->fapp[1].x);
            }
            if (!refused) {
              if (consumer) {
                colvarbias_ti *ti = dynamic_cast<colvarbias_ti *>(px->bias("b"));
                for (int b = 0; b < 8; b++) { std::vector<int> ix{b}; data[ss].push_back((double) ti->ti_count->value(ix)); data[ss].push_back(ti->ti_avg_forces->value_output(ix, 0)); }
              } else {
                colvarbias_abf *abf = dynamic_cast<colvarbias_abf *>(px->bias("b"));
                for (int b = 0; b < 8; b++) { std::vector<int> ix{b}; data[ss].push_back((double) abf->samples->value(ix)); data[ss].push_back(abf->gradients->value_output(ix, 0)); }
              }
            }
            delete px;
          }
          // CZAR grids of the eABF consumer with the bias not applied: the force the extended coordinate reports at step s was
          // exerted at step s-1 and belongs to the bin the ACTUAL variable occupied at step s-1 (zcount, zgrad)
          if (!refused && consumer == 0) {
            vproxy *px = new vproxy(2, false);
            px->set_target_temperature(300.0);
            px->set_integration_timestep(1.0);
            double xi = 2.0;
            px->x[1] = cvm::rvector(xi, 0, 0);
            std::string conf = "colvar {\n name d\n width 0.25\n lowerBoundary 1.0\n upperBoundary 3.0\n extendedLagrangian on\n extendedFluctuation 0.2\n extendedTimeConstant 20.0\n"
                               " extendedLangevinDamping 0.0\n distance {\n group1 { atomNumbers 1 }\n group2 { atomNumbers 2 }\n }\n}\nabf {\n name b\n colvars d\n fullSamples 2\n applyBias off\n}\n";
            if (px->config(conf) == 0) {
              std::vector<double> zc(8, 0.0), zs(8, 0.0);
              int prev_bin = -1;
              double prev_force = 0.0;
              bool okrun = true;
              for (int s = 0; s < 10 && okrun; s++) {
                xi += 0.5 * MOVE[letters[s / 2] % 3] * ((s % 2) ? 0.3 : 1.0);
                if (xi < 1.1) xi = 1.1;
                if (xi > 2.9) xi = 2.9;
                px->x[1] = cvm::rvector(xi, 0, 0);
                if (px->step(s) != 0) { okrun = false; break; }
                r.count("transitions");
                // (the bias is updated before the coordinate is integrated: at step s it sees the force reported after step s-1)
                if (s >= 1 && prev_bin >= 0 && prev_bin < 8) { zc[prev_bin] += 1.0; zs[prev_bin] += prev_force; }
                prev_bin = (int) std::floor((xi - 1.0) / 0.25);
                prev_force = px->cv("d")->total_force().real_value;
              }
              colvarbias_abf *abf = dynamic_cast<colvarbias_abf *>(px->bias("b"));
              if (okrun && abf && abf->z_samples && abf->z_gradients) {
                r.count("evaluations");
                for (int b = 0; b < 8; b++) {
                  std::vector<int> ix{b};
                  double cnt = (double) abf->z_samples->value(ix), g = abf->z_gradients->value_output(ix, 0);
                  double want = zc[b] > 0 ? -zs[b] / zc[b] : 0.0;
                  if (cnt != zc[b] || !close_rel(g, want, std::max(1.0, std::fabs(want)), 1e-10, 1e-12)) {
                    r.violation("C17:czar:z-sample-not-in-the-bin-occupied-when-the-force-was-exerted",
                                det.substr(0, det.find(",\"word\"")) + ",\"word\":" + std::to_string(wv) + ",\"bin\":" + std::to_string(b) + ",\"zcount\":" + num(cnt) + ",\"expected_count\":" + num(zc[b]) +
                                    ",\"zgrad\":" + num(g) + ",\"expected\":" + num(want) + "}");
                    break;
                  }
                }
              }
            }
            delete px;
          }
          if (refused) continue;
          bool nonzero = false;
          for (size_t i = 20; i < data[0].size(); i++) if (data[0][i] != 0.0) nonzero = true;
          if (!nonzero) { r.violation("C17:consumer:vacuous-case", det + "}"); continue; }
          for (size_t i = 0; i < data[0].size(); i++)
            if (!close_rel(data[1][i], data[0][i], std::max(1.0, std::fabs(data[0][i])), 1e-11, 1e-12)) {
              r.violation(std::string("C17:consumer-data-differ-between-engine-conventions:") + (consumer ? "ti-samples" : "eabf"),
                          det + ",\"index\":" + std::to_string(i) + ",\"one_step_late\":" + num(data[0][i]) + ",\"same_step\":" + num(data[1][i]) + "}");
              break;
            }
          r.seen("nontrivial", fnv(det));
        }
    }
    // ---- energy conservation without friction: second-order fluctuation, no drift ----
    if (shard == 0) {
      double amp[2] = {0, 0}, drift[2] = {0, 0};
      for (int h = 0; h < 2; h++) {
        double dt = h == 0 ? 2.0 : 1.0;
        int n = h == 0 ? 200 : 400;
        vproxy *px = new vproxy(2);
        px->set_target_temperature(300.0);
        px->set_integration_timestep(dt);
        px->x[1] = cvm::rvector(2.0, 0, 0);
        Par p{0.2, 40.0, dt, 0.0, 0, false};
        if (px->config(conf_text(p)) != 0) { fprintf(stderr, "HARNESS-ERROR: energy config rejected\n"); exit(3); }
        colvar *cv = px->cv("d");
        double e0 = 0, emax = 0, first_half = 0, second_half = 0;
        for (int s = 0; s < n; s++) {
          px->x[1] = cvm::rvector(s == 0 ? 2.0 : 2.3, 0, 0);  // displaced once, then held fixed
          px->step(s);
          r.count("transitions");
          if (s < 2) { e0 = cv->potential_energy + cv->kinetic_energy; continue; }
          double e = cv->potential_energy + cv->kinetic_energy - e0;
          emax = std::max(emax, std::fabs(e));
          (s < n / 2 ? first_half : second_half) += e;
        }
        amp[h] = emax;
        drift[h] = std::fabs(second_half - first_half) / (n / 2);
        delete px;
      }
      r.count("evaluations");
      double ratio = amp[0] / std::max(amp[1], 1e-300);
      std::string det = "{\"max_dE_dt2\":" + num(amp[0]) + ",\"max_dE_dt1\":" + num(amp[1]) + ",\"ratio\":" + num(ratio) + ",\"drift_dt2\":" + num(drift[0]) + ",\"drift_dt1\":" + num(drift[1]) + "}";
      if (!(ratio > 3.0 && ratio < 5.0)) r.violation("C17:energy-fluctuation-not-second-order", det);
      if (drift[0] > 0.25 * amp[0] || drift[1] > 0.25 * amp[1]) r.violation("C17:energy-drift-without-friction", det);
      r.sample(det);
    }
  }, total, 7200);
  if (!ok) return 2;
  write_result(args.out, "C17", args.tier, total, true);
  return 0;
}
