// C11 (part b) — loading a truncated or corrupted state never crashes, hangs or touches memory out of bounds, and a
// state cut in the middle of an object's block is reported as an error.
// Fault enumeration (asan build): valid text and binary states of 12 configurations x EVERY truncation offset
// (quick: stride 7) x corruption classes at every offset (stride).
#include "vproxy.h"
#include "common.h"
#include "colvars_memstream.h"

using namespace vc;

struct Conf { const char *name; std::string text; double T; };

static std::vector<Conf> menu()
{
  std::string d = "colvar {\n name d\n width 0.5\n lowerBoundary 1.0\n upperBoundary 3.0\n distance {\n group1 { atomNumbers 1 }\n group2 { atomNumbers 2 }\n }\n}\n";
  std::string d2 = "colvar {\n name d2\n width 0.5\n lowerBoundary 1.0\n upperBoundary 2.0\n distance {\n group1 { atomNumbers 3 }\n group2 { atomNumbers 4 }\n }\n}\n";
  std::string dext = "colvar {\n name d\n width 0.5\n lowerBoundary 1.0\n upperBoundary 3.0\n extendedLagrangian on\n extendedFluctuation 0.3\n extendedTimeConstant 20.0\n extendedLangevinDamping 0.0\n"
                     " distance {\n group1 { atomNumbers 1 }\n group2 { atomNumbers 2 }\n }\n}\n";
  std::vector<Conf> m;
  m.push_back({"harmonic-moving", d + "harmonic {\n colvars d\n centers 1.0\n targetCenters 3.0\n targetNumSteps 3\n forceConstant 2.0\n outputAccumulatedWork on\n}\n", 0});
  m.push_back({"harmonic-k-staged", d + "harmonic {\n colvars d\n centers 1.5\n forceConstant 2.0\n targetForceConstant 6.0\n targetNumSteps 2\n targetNumStages 2\n}\n", 0});
  m.push_back({"abmd", d + "abmd {\n colvars d\n forceConstant 3.0\n stoppingValue 2.5\n}\n", 0});
  m.push_back({"alb", d + "ALB {\n colvars d\n centers 1.5\n updateFrequency 4\n forceRange 3.0\n}\n", 300});
  m.push_back({"histogram", d + "histogram {\n colvars d\n}\n", 0});
  m.push_back({"metadynamics-grids", d + "metadynamics {\n colvars d\n hillWeight 0.5\n hillWidth 1.0\n newHillFrequency 1\n}\n", 0});
  m.push_back({"metadynamics-nogrids", d + "metadynamics {\n colvars d\n hillWeight 0.5\n hillWidth 1.0\n newHillFrequency 1\n useGrids off\n}\n", 0});
  m.push_back({"metadynamics-keepHills-2d", d + d2 + "metadynamics {\n colvars d d2\n hillWeight 0.5\n hillWidth 1.0\n newHillFrequency 1\n keepHills on\n}\n", 0});
  m.push_back({"opes", d + "opes_metad {\n colvars d\n newHillFrequency 1\n barrier 5.0\n gaussianSigma 0.3\n}\n", 300});
  m.push_back({"abf-2d", d + d2 + "abf {\n colvars d d2\n fullSamples 1\n}\n", 300});
  m.push_back({"eabf-czar", dext + "abf {\n colvars d\n fullSamples 1\n}\n", 300});
  m.push_back({"harmonic-ti", d + "harmonic {\n colvars d\n centers 1.5\n forceConstant 2.0\n writeTIPMF on\n}\n", 0});
  return m;
}

static void place(vproxy &px, long s)
{
  static const double V[5] = {1.2, 1.7, 2.0, 0.6, 2.4};
  px.x[0] = cvm::rvector(0, 0, 0);
  px.x[1] = cvm::rvector(V[s % 5], 0, 0);
  px.x[2] = cvm::rvector(0, 3, 0);
  px.x[3] = cvm::rvector((s % 2) ? 1.2 : 1.7, 3, 0);
  px.fsys[1] = cvm::rvector(0.5 * (s % 3) - 0.4, 0, 0);
  px.fsys[0] = cvm::rvector(-(0.5 * (s % 3) - 0.4), 0, 0);
}

struct Case { int conf; int bin; long off; int kind; };
struct BinSpan { std::string kw; size_t lo, hi; };  // kind 0 truncate, 1..5 corruptions

// returns 0 = loaded without error, 1 = error reported
static int load_case(Conf const &c, std::string const &data, bool bin)
{
  vproxy *px = new vproxy(4);
  px->set_target_temperature(c.T);
  place(*px, 4);
  if (px->config(c.text) != 0) { fprintf(stderr, "HARNESS-ERROR: config rejected: %s\n", px->errtxt.c_str()); _exit(3); }
  if (bin) {
    std::vector<unsigned char> b(data.begin(), data.end());
    px->queue_state_binary(b);
  } else px->queue_state_text(data);
  cvm::clear_error();
  px->colvars->setup_input();
  int e = cvm::get_error() || px->errtxt.size();
  cvm::clear_error();
  // a state that was accepted must leave the module usable (after a reported error the engine stops the run)
  if (!e) {
    place(*px, 4);
    px->step(4);
  }
  delete px;
  return e ? 1 : 0;
}

int main(int argc, char **argv)
{
  Args args(argc, argv);
  bool thorough = args.thorough();
  long stride = thorough ? 1 : 7, cstride = thorough ? 3 : 13;
  std::vector<Conf> confs = menu();

  // produce the valid states
  std::vector<std::string> st_text(confs.size()), st_bin(confs.size());
  std::vector<std::vector<BinSpan>> bin_spans;
  for (size_t ci = 0; ci < confs.size(); ci++) {
    vproxy *px = new vproxy(4);
    px->set_target_temperature(confs[ci].T);
    place(*px, 0);
    if (px->config(confs[ci].text) != 0) { fprintf(stderr, "HARNESS-ERROR: %s rejected: %s\n", confs[ci].name, px->errtxt.c_str()); return 2; }
    for (long s = 0; s < 5; s++) { place(*px, s); if (px->step(s) != 0) { fprintf(stderr, "HARNESS-ERROR: %s step error: %s\n", confs[ci].name, px->errtxt.c_str()); return 2; } }
    st_text[ci] = px->state_text();
    std::vector<unsigned char> b = px->state_binary();
    st_bin[ci].assign(b.begin(), b.end());
    {
      // byte spans of the objects' blocks in the binary state: the objects are written one after the other after the header
      std::vector<std::pair<std::string, size_t>> sizes;
      for (colvar *cv : *(px->colvars->variables())) { cvm::memory_stream ms; cv->write_state(ms); sizes.push_back(std::make_pair(std::string("colvar"), (size_t) ms.length())); }
      for (colvarbias *bb : px->colvars->biases) { cvm::memory_stream ms; bb->write_state(ms); sizes.push_back(std::make_pair(std::string(bb->bias_type), (size_t) ms.length())); }
      size_t sum = 0;
      for (auto &z : sizes) sum += z.second;
      if (sum > b.size()) { fprintf(stderr, "HARNESS-ERROR: binary block sizes inconsistent\n"); return 2; }
      size_t pos = b.size() - sum;
      std::vector<BinSpan> sp;
      for (auto &z : sizes) { sp.push_back(BinSpan{z.first, pos, pos + z.second}); pos += z.second; }
      bin_spans.push_back(sp);
    }
    delete px;
    // the undamaged states must load without error
    if (load_case(confs[ci], st_text[ci], false) != 0 || load_case(confs[ci], st_bin[ci], true) != 0) {
      // (the library does not load a state that it has just written: exit code 3 = verdict, see common.h / vcheck)
      fprintf(stderr, "HARNESS-ERROR: undamaged state of %s does not load\n", confs[ci].name);
      return 3;
    }
  }

  // enumerate cases
  std::vector<Case> cases;
  for (size_t ci = 0; ci < confs.size(); ci++)
    for (int bin = 0; bin <= 1; bin++) {
      std::string const &d = bin ? st_bin[ci] : st_text[ci];
      for (long off = 0; off < (long) d.size(); off += stride) cases.push_back({(int) ci, bin, off, 0});
      for (long off = 0; off < (long) d.size(); off += cstride)
        for (int k = 1; k <= (bin ? 3 : 5); k++) cases.push_back({(int) ci, bin, off, k});
      // binary: eight bytes of 0xFF (a length prefix of 2^64-1: sums of position and length wrap around)
      if (bin) for (long off = 0; off < (long) d.size(); off += cstride) cases.push_back({(int) ci, bin, off, 6});
    }

  auto mutate = [&](Case const &c) {
    std::string d = c.bin ? st_bin[c.conf] : st_text[c.conf];
    switch (c.kind) {
    case 0: d.resize(c.off); break;
    case 1: d[c.off] = (char) 0x00; break;
    case 2: d[c.off] = (char) 0xFF; break;
    case 3:
      if (c.bin) { uint64_t big = 1ULL << 61; for (int i = 0; i < 8 && c.off + i < (long) d.size(); i++) d[c.off + i] = ((char *) &big)[i]; }
      else d[c.off] = '{';
      break;
    case 4: d[c.off] = '}'; break;
    case 5: d[c.off] = isdigit((unsigned char) d[c.off]) ? 'x' : '9'; break;
    case 6: for (int i = 0; i < 8 && c.off + i < (long) d.size(); i++) d[c.off + i] = (char) 0xFF; break;
    }
    return d;
  };
  // span of top-level blocks of a text state: [after '{', position of matching '}']
  auto inside_block = [&](std::string const &t, long off, std::string &kw) {
    int depth = 0;
    long open = -1;
    size_t wstart = 0;
    std::string word, lastword;
    for (long i = 0; i < (long) t.size(); i++) {
      char ch = t[i];
      if (ch == '{') { if (depth == 0) { open = i; kw = lastword; } depth++; }
      else if (ch == '}') { depth--; if (depth == 0) { if (off > open && off <= i) return true; open = -1; } }
      if (isspace((unsigned char) ch) || ch == '{' || ch == '}') { if (!word.empty()) lastword = word; word.clear(); }
      else word += ch;
    }
    (void) wstart;
    return false;
  };
  static const char *KNAME[7] = {"truncated", "byte-00", "byte-ff", "brace-open-or-length-2^61", "brace-close", "digit-to-letter", "length-2^64-1"};

  if (args.kv.count("one")) {
    // --one <conf name> --bin 0|1 --off N --kind K : run a single case in this process (diagnostics)
    for (size_t ci = 0; ci < confs.size(); ci++) if (args.kv["one"] == confs[ci].name) {
      Case c{(int) ci, atoi(args.kv["bin"].c_str()), atol(args.kv["off"].c_str()), atoi(args.kv["kind"].c_str())};
      std::string d = mutate(c);
      if (!c.bin) fprintf(stderr, "----- damaged text -----\n%s\n-----\n", d.c_str());
      int e = load_case(confs[ci], d, c.bin != 0);
      fprintf(stderr, "result: %s\n", e ? "error reported" : "accepted");
    }
    return 0;
  }
  Result total;
  bool ok = run_sharded(args.jobs, [&](int shard, int nsh, Result &r) {
    size_t const BATCH = 150;
    for (size_t b0 = shard * BATCH; b0 < cases.size(); b0 += nsh * BATCH) {
      size_t b1 = std::min(cases.size(), b0 + BATCH);
      auto run_range = [&](size_t lo, size_t hi, Result &rr) {
        for (size_t i = lo; i < hi; i++) {
          Case const &c = cases[i];
          rr.count("evaluations");
          std::string d = mutate(c);
          int e = load_case(confs[c.conf], d, c.bin != 0);
          rr.count(e ? "rejected_with_error" : "accepted");
          std::string kw;
          if (c.kind == 0 && !c.bin && inside_block(st_text[c.conf], c.off, kw) && kw != "configuration") {
            // (the leading "configuration { step ... }" header is not an object's block)
            rr.count("truncations_inside_a_block");
            if (!e)
              rr.violation("C11:damage:truncated-inside-block-accepted:" + kw + (kw == "colvar" || kw == "configuration" ? "" : std::string(":") + confs[c.conf].name),
                           std::string("{\"config\":\"") + confs[c.conf].name + "\",\"format\":\"text\",\"truncated_at\":" + std::to_string(c.off) + ",\"of\":" +
                               std::to_string(st_text[c.conf].size()) + ",\"tail\":\"" + jesc(d.substr(d.size() > 60 ? d.size() - 60 : 0)) + "\"}");
          }
          if (c.kind == 0 && c.bin) {
            for (auto &sp : bin_spans[c.conf])
              if ((size_t) c.off > sp.lo && (size_t) c.off < sp.hi) {
                rr.count("truncations_inside_a_block");
                if (!e)
                  rr.violation("C11:damage:truncated-inside-block-accepted:binary:" + sp.kw + ":" + confs[c.conf].name,
                               std::string("{\"config\":\"") + confs[c.conf].name + "\",\"format\":\"binary\",\"truncated_at\":" + std::to_string(c.off) + ",\"block\":\"" + sp.kw +
                                   "\",\"block_bytes\":[" + std::to_string(sp.lo) + "," + std::to_string(sp.hi) + "],\"of\":" + std::to_string(st_bin[c.conf].size()) + "}");
              }
          }
          rr.seen("nontrivial", fnv(std::string(confs[c.conf].name) + std::to_string(c.bin) + ":" + std::to_string(c.off) + ":" + std::to_string(c.kind)));
          if (i % 4001 == 11) rr.sample(std::string("{\"config\":\"") + confs[c.conf].name + "\",\"format\":\"" + (c.bin ? "binary" : "text") + "\",\"offset\":" + std::to_string(c.off) + ",\"damage\":\"" + KNAME[c.kind] + "\"}");
        }
      };
      auto child = [&](size_t lo, size_t hi, std::string &out) {
        return run_isolated([&]() {
          Result rr;
          run_range(lo, hi, rr);
          std::string s = rr.ser();
          size_t off = 0;
          while (off < s.size()) { ssize_t n = write(3, s.data() + off, s.size() - off); if (n <= 0) break; off += n; }
          return 0;
        }, 60 + 0.5 * (hi - lo), &out);
      };
      std::string out;
      int rc = child(b0, b1, out);
      if (rc == 0) { r.deser(out); continue; }
      if (rc == 2) { fprintf(stderr, "HARNESS-ERROR in batch\n"); exit(2); }
      for (size_t i = b0; i < b1; i++) {
        std::string o2;
        int rc2 = child(i, i + 1, o2);
        if (rc2 == 0) { r.deser(o2); continue; }
        Case const &c = cases[i];
        r.count("evaluations");
        r.violation(std::string("C11:damage:") + (rc2 == -1000 ? "hang" : (rc2 < 0 ? "signal" + std::to_string(-rc2) : "sanitizer-or-abort")) + ":" + confs[c.conf].name + ":" +
                        (c.bin ? "binary" : "text") + ":" + KNAME[c.kind],
                    std::string("{\"config\":\"") + confs[c.conf].name + "\",\"format\":\"" + (c.bin ? "binary" : "text") + "\",\"offset\":" + std::to_string(c.off) +
                        ",\"damage\":\"" + KNAME[c.kind] + "\",\"state_length\":" + std::to_string((c.bin ? st_bin : st_text)[c.conf].size()) + "}");
      }
    }
  }, total, 7200);
  if (!ok) return 2;
  write_result(args.out, "C11", args.tier, total, stride == 1);
  return 0;
}
