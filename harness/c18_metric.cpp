// C18 — distances, gradients, wrapping and interpolation of variable values form a consistent metric.
// Bounded-exhaustive: ALL ordered pairs of a finite alphabet per value type x lambda menu.
#include "vproxy.h"
#include "common.h"

using namespace vc;

static const double PI_ = 3.14159265358979323846;

struct V { std::vector<double> c; };  // generic coordinates

static double dot(V const &a, V const &b)
{
  double s = 0;
  for (size_t i = 0; i < a.c.size(); i++) s += a.c[i] * b.c[i];
  return s;
}
static V axpy(double a, V const &x, double b, V const &y)
{
  V r; r.c.resize(x.c.size());
  for (size_t i = 0; i < x.c.size(); i++) r.c[i] = a * x.c[i] + b * y.c[i];
  return r;
}
static double nrm(V const &a) { return std::sqrt(dot(a, a)); }
static std::string vstr(V const &a)
{
  std::string s = "[";
  for (size_t i = 0; i < a.c.size(); i++) s += (i ? "," : "") + num(a.c[i]);
  return s + "]";
}

// ---- reference metric on the unit sphere S^(n-1) (n=3) and on RP^3 (quaternions, q ~ -q) ----
// angle computed with atan2 of (|a - (a.b) b|, a.b): accurate near 0 and pi
static double ref_angle(V const &a, V const &b)
{
  double c = dot(a, b);
  V perp = axpy(1.0, a, -c, b);
  return std::atan2(nrm(perp), c);
}
// reference dist2 and tangent gradient wrt a; returns false in `diff_ok` when not differentiable
static double ref_sphere(V const &a, V const &b, bool projective, V &grad, bool &diff_ok)
{
  double c = dot(a, b);
  V bb = b;
  if (projective && c < 0) { bb = axpy(-1.0, b, 0.0, b); c = -c; }
  double th = ref_angle(a, bb);
  diff_ok = true;
  if (projective && std::fabs(c) < 1e-9) diff_ok = false;       // cut locus of RP^3
  if (!projective && (PI_ - th) < 1e-6) diff_ok = false;        // antipodal points of S^2
  V t = axpy(1.0, bb, -c, a);  // component of b orthogonal to a (tangent at a, pointing to b)
  double s = nrm(t);
  grad.c.assign(a.c.size(), 0.0);
  if (s > 1e-300 && th > 0) {
    // d(th^2)/da along tangent = -2 th * t/|t|
    for (size_t i = 0; i < a.c.size(); i++) grad.c[i] = -2.0 * th * t.c[i] / s;
  }
  return th * th;
}

static colvarvalue mk(colvarvalue::Type t, V const &v)
{
  switch (t) {
  case colvarvalue::type_scalar: return colvarvalue(v.c[0]);
  case colvarvalue::type_3vector: return colvarvalue(cvm::rvector(v.c[0], v.c[1], v.c[2]), colvarvalue::type_3vector);
  case colvarvalue::type_unit3vector: return colvarvalue(cvm::rvector(v.c[0], v.c[1], v.c[2]), colvarvalue::type_unit3vector);
  case colvarvalue::type_quaternion: return colvarvalue(cvm::quaternion(v.c[0], v.c[1], v.c[2], v.c[3]), colvarvalue::type_quaternion);
  default: {
    cvm::vector1d<cvm::real> w(v.c.size());
    for (size_t i = 0; i < v.c.size(); i++) w[i] = v.c[i];
    return colvarvalue(w, colvarvalue::type_vector);
  }
  }
}
static V unmk(colvarvalue const &x)
{
  V r;
  switch (x.type()) {
  case colvarvalue::type_scalar: r.c = {x.real_value}; break;
  case colvarvalue::type_3vector:
  case colvarvalue::type_unit3vector:
  case colvarvalue::type_unit3vectorderiv:
    r.c = {x.rvector_value.x, x.rvector_value.y, x.rvector_value.z}; break;
  case colvarvalue::type_quaternion:
  case colvarvalue::type_quaternionderiv:
    r.c = {x.quaternion_value.q0, x.quaternion_value.q1, x.quaternion_value.q2, x.quaternion_value.q3}; break;
  case colvarvalue::type_vector:
    for (size_t i = 0; i < x.vector1d_value.size(); i++) r.c.push_back(x.vector1d_value[i]);
    break;
  default: break;
  }
  return r;
}

struct Ctx { Result *r; std::string tname; };

static void viol(Ctx &c, std::string const &what, std::string const &detail)
{
  c.r->violation("C18:" + c.tname + ":" + what, detail);
}

static bool finite_v(V const &v)
{
  for (double d : v.c) if (!std::isfinite(d)) return false;
  return true;
}

// ---------- manifold types through colvarvalue ----------
static void check_manifold(Ctx &ctx, colvarvalue::Type t, std::vector<V> const &alpha, bool sphere, bool projective)
{
  Result &r = *ctx.r;
  static const double lambdas[] = {0.0, 0.25, 0.5, 0.75, 1.0};
  for (size_t i = 0; i < alpha.size(); i++) {
    for (size_t j = 0; j < alpha.size(); j++) {
      V const &a = alpha[i], &b = alpha[j];
      colvarvalue xa = mk(t, a), xb = mk(t, b);
      r.count("evaluations");
      std::string det = "{\"type\":\"" + ctx.tname + "\",\"a\":" + vstr(a) + ",\"b\":" + vstr(b);
      double d2 = xa.dist2(xb), d2r = xb.dist2(xa);
      V g = unmk(xa.dist2_grad(xb));
      // reference
      double ref; V gref; bool diff_ok = true; bool equivalent;
      if (sphere) {
        ref = ref_sphere(a, b, projective, gref, diff_ok);
        equivalent = ref < 1e-28;
      } else {
        V d = axpy(1.0, a, -1.0, b);
        ref = dot(d, d);
        gref = axpy(2.0, d, 0.0, d);
        equivalent = (ref == 0.0);
      }
      r.seen("nontrivial", fnv(ctx.tname + vstr(a) + vstr(b)));
      double scale = std::max(1.0, ref);
      // value, non-negativity, symmetry
      if (!(d2 >= 0.0) || !std::isfinite(d2))
        viol(ctx, equivalent ? "dist2-not-finite-nonneg/equivalent-args" : "dist2-not-finite-nonneg",
             det + ",\"dist2\":" + num(d2) + ",\"ref\":" + num(ref) + "}");
      else {
        // acos() is ill-conditioned near +-1: the angle carries ~sqrt(eps) absolute error there
        if (!close_rel(d2, ref, scale, sphere ? 1e-7 : 1e-12, sphere ? 5e-7 : 1e-15))
          viol(ctx, "dist2-value", det + ",\"dist2\":" + num(d2) + ",\"ref\":" + num(ref) + "}");
        if (!close_rel(d2, d2r, scale, 1e-12, 1e-15))
          viol(ctx, "dist2-asymmetric", det + ",\"d_ab\":" + num(d2) + ",\"d_ba\":" + num(d2r) + "}");
        if (equivalent && d2 > 1e-12)
          viol(ctx, "dist2-nonzero-for-equivalent", det + ",\"dist2\":" + num(d2) + "}");
        if (!equivalent && ref > 1e-12 && d2 <= 0.0)
          viol(ctx, "dist2-zero-for-distinct", det + ",\"dist2\":" + num(d2) + "}");
      }
      // gradient: tangent projection equals reference derivative
      if (diff_ok) {
        r.count("gradient_checks");
        V gt = g;
        if (sphere) gt = axpy(1.0, g, -dot(g, a), a);
        bool ok = finite_v(gt);
        double gs = std::max(1.0, nrm(gref));
        if (ok) for (size_t k = 0; k < gt.c.size(); k++)
          if (!close_rel(gt.c[k], gref.c[k], gs, sphere ? 1e-6 : 1e-12, sphere ? 1e-6 : 1e-15)) ok = false;
        if (!ok)
          viol(ctx, !finite_v(gt) ? (equivalent ? "grad-not-finite/equivalent-args" : "grad-not-finite") : "grad-value",
               det + ",\"grad_tangent\":" + vstr(gt) + ",\"ref\":" + vstr(gref) + "}");
      } else {
        r.count("gradient_singular_skipped");
      }
      // interpolation
      bool antipodal_sphere = sphere && !projective && (PI_ - std::sqrt(ref)) < 1e-6;
      for (double lam : lambdas) {
        if (antipodal_sphere) { r.count("interp_antipodal_skipped"); continue; }
        r.count("interp_checks");
        cvm::clear_error();
        colvarvalue xi = colvarvalue::interpolate(xa, xb, lam);
        bool err = cvm::get_error() != 0;
        cvm::clear_error();
        V vi = unmk(xi);
        std::string d3 = det + ",\"lambda\":" + num(lam) + ",\"interp\":" + vstr(vi) + "}";
        if (err || !finite_v(vi) || vi.c.size() != a.c.size()) {
          viol(ctx, equivalent ? "interp-not-finite/equivalent-args" : "interp-not-finite-or-error", d3);
          continue;
        }
        if (sphere && std::fabs(nrm(vi) - 1.0) > 1e-12) viol(ctx, "interp-off-manifold", d3);
        if (lam == 0.0 || lam == 1.0) {
          V const &e = lam == 0.0 ? a : b;
          V gg; bool dk;
          double de = sphere ? ref_sphere(vi, e, projective, gg, dk) : dot(axpy(1, vi, -1, e), axpy(1, vi, -1, e));
          if (de > 1e-20) viol(ctx, "interp-misses-endpoint", d3);
        } else if (!sphere) {
          // flat types: the interpolant is the affine combination
          V e = axpy(1.0 - lam, a, lam, b);
          for (size_t k = 0; k < e.c.size(); k++)
            if (!close_rel(vi.c[k], e.c[k], std::max(1.0, std::fabs(e.c[k])), 1e-13, 1e-15))
              { viol(ctx, "interp-value", d3); break; }
        } else {
          // on the sphere: the interpolant lies on the geodesic (in the plane of a and b) between them
          V ga, gb; bool k1, k2;
          double da = std::sqrt(ref_sphere(vi, a, projective, ga, k1));
          double db = std::sqrt(ref_sphere(vi, b, projective, gb, k2));
          double dab = std::sqrt(ref);
          // triangle equality along a geodesic (either the short one or, for unmatched quaternion signs, the long one)
          bool on_short = std::fabs(da + db - dab) < 1e-7;
          bool on_long = projective && (std::fabs(std::fabs(da - db) - dab) < 1e-7 || std::fabs(da + db + dab - PI_) < 1e-7);
          if (!on_short && !on_long) viol(ctx, "interp-off-geodesic", d3);
        }
      }
    }
  }
}

// ---------- periodic scalars through real colvar objects ----------
static void check_periodic(Ctx &ctx, vproxy &px, std::string const &cvname, double P, double center,
                           std::vector<double> const &vals)
{
  Result &r = *ctx.r;
  colvar *cv = px.cv(cvname);
  if (!cv) { fprintf(stderr, "HARNESS-ERROR: colvar %s missing\n", cvname.c_str()); exit(2); }
  if (!cv->is_enabled(colvardeps::f_cv_periodic) || std::fabs(cv->period - P) > 1e-12 ||
      std::fabs(cv->wrap_center - center) > 1e-12) {
    fprintf(stderr, "HARNESS-ERROR: colvar %s not periodic as configured (%g %g)\n", cvname.c_str(), cv->period, cv->wrap_center);
    exit(2);
  }
  for (double a : vals) {
    // wrap
    r.count("evaluations");
    r.count("wrap_checks");
    colvarvalue w(a);
    cv->wrap(w);
    double wv = w.real_value;
    std::string det = "{\"type\":\"" + ctx.tname + "\",\"period\":" + num(P) + ",\"wrapAround\":" + num(center) +
                      ",\"a\":" + num(a);
    double k = (a - wv) / P;
    double tol = 1e-9 * std::max(1.0, std::fabs(a) / P);
    if (!std::isfinite(wv) || std::fabs(k - std::round(k)) > tol)
      viol(ctx, "wrap-not-equivalent", det + ",\"wrapped\":" + num(wv) + "}");
    else if (wv < center - 0.5 * P - 1e-9 * P || wv > center + 0.5 * P + 1e-9 * P)
      viol(ctx, "wrap-outside-interval", det + ",\"wrapped\":" + num(wv) + "}");
    r.seen("nontrivial", fnv(ctx.tname + "w" + num(a)));
    for (double b : vals) {
      r.count("evaluations");
      colvarvalue xa(a), xb(b);
      double d2 = cv->dist2(xa, xb), d2r = cv->dist2(xb, xa);
      double g = cv->dist2_lgrad(xa, xb).real_value;
      double diff = std::remainder(a - b, P);  // IEEE remainder: in [-P/2, P/2]
      double ref = diff * diff;
      bool half = std::fabs(std::fabs(diff) - 0.5 * P) < 1e-9 * P;
      std::string d3 = det + ",\"b\":" + num(b) + ",\"dist2\":" + num(d2) + ",\"ref\":" + num(ref) + ",\"grad\":" + num(g) + "}";
      r.seen("nontrivial", fnv(ctx.tname + num(a) + "," + num(b)));
      double scale = std::max(1.0, P * P);
      double tolr = 1e-9 * std::max(1.0, (std::fabs(a) + std::fabs(b)) / P);
      if (!(d2 >= 0) || !std::isfinite(d2)) viol(ctx, "dist2-not-finite-nonneg", d3);
      else {
        if (!close_rel(d2, ref, scale, tolr, 1e-13)) viol(ctx, "dist2-value", d3);
        if (!close_rel(d2, d2r, scale, tolr, 1e-13)) viol(ctx, "dist2-asymmetric", d3);
      }
      if (!half) {
        r.count("gradient_checks");
        if (!close_rel(g, 2.0 * diff, std::max(1.0, P), tolr, 1e-12)) viol(ctx, "grad-value", d3);
        // the gradient with respect to the SECOND argument is the opposite
        double gr = cv->dist2_rgrad(xa, xb).real_value;
        if (!close_rel(gr, -2.0 * diff, std::max(1.0, P), tolr, 1e-12)) viol(ctx, "grad-with-respect-to-the-second-argument", d3.substr(0, d3.size() - 1) + ",\"rgrad\":" + num(gr) + "}");
      } else r.count("gradient_singular_skipped");
      // invariance under whole periods is implied by value == ref (ref is periodic); count explicitly
    }
  }
}

static V norml(V v)
{
  double n = nrm(v);
  for (auto &c : v.c) c /= n;
  return v;
}

static V qmul(V const &a, V const &b)
{
  return V{{a.c[0] * b.c[0] - a.c[1] * b.c[1] - a.c[2] * b.c[2] - a.c[3] * b.c[3],
            a.c[0] * b.c[1] + a.c[1] * b.c[0] + a.c[2] * b.c[3] - a.c[3] * b.c[2],
            a.c[0] * b.c[2] - a.c[1] * b.c[3] + a.c[2] * b.c[0] + a.c[3] * b.c[1],
            a.c[0] * b.c[3] + a.c[1] * b.c[2] - a.c[2] * b.c[1] + a.c[3] * b.c[0]}};
}

// ---------- vector-valued components that override the metric (distanceVec with and without minimum image, distanceDir,
// distancePairs, cartesian): the squared distance the biases use is obtained through the variable ----------
static void check_component_metric(Ctx &ctx, vproxy &px, std::string const &cvname, std::vector<V> const &alpha, bool unitv, double box)
{
  Result &r = *ctx.r;
  colvar *cv = px.cv(cvname);
  if (!cv) { fprintf(stderr, "HARNESS-ERROR: colvar %s missing\n", cvname.c_str()); exit(2); }
  colvarvalue proto = cv->value();
  auto mkv = [&](V const &a) {
    colvarvalue x(proto);
    if (x.type() == colvarvalue::type_vector) { x.vector1d_value.resize(a.c.size()); for (size_t k = 0; k < a.c.size(); k++) x.vector1d_value[k] = a.c[k]; }
    else { x.rvector_value = cvm::rvector(a.c[0], a.c[1], a.c[2]); }
    return x;
  };
  auto d2of = [&](V const &a, V const &b) { return cv->dist2(mkv(a), mkv(b)); };
  for (auto const &a : alpha)
    for (auto const &b : alpha) {
      r.count("evaluations");
      double d2 = d2of(a, b), d2r = d2of(b, a);
      colvarvalue g = cv->dist2_lgrad(mkv(a), mkv(b));
      std::vector<double> gv;
      if (g.type() == colvarvalue::type_vector) for (size_t k = 0; k < a.c.size(); k++) gv.push_back(g.vector1d_value[k]);
      else { gv.push_back(g.rvector_value.x); gv.push_back(g.rvector_value.y); gv.push_back(g.rvector_value.z); }
      std::string det = "{\"type\":\"" + ctx.tname + "\",\"a\":" + vstr(a) + ",\"b\":" + vstr(b) + ",\"dist2\":" + num(d2);
      r.seen("nontrivial", fnv(ctx.tname + vstr(a) + vstr(b)));
      if (!(d2 >= 0) || !std::isfinite(d2)) { viol(ctx, "dist2-not-finite-nonneg", det + "}"); continue; }
      if (!close_rel(d2, d2r, std::max(1.0, d2), 1e-12, 1e-13)) viol(ctx, "dist2-asymmetric", det + ",\"reversed\":" + num(d2r) + "}");
      // (on the sphere the squared angle of a value with itself is the rounding of acos near 1: ~4e-16)
      bool same = true;
      for (size_t k = 0; k < a.c.size(); k++) if (a.c[k] != b.c[k]) same = false;
      if (same && d2 > (unitv ? 1e-12 : 1e-24)) viol(ctx, "dist2-nonzero-for-identical-values", det + "}");
      // gradient with respect to the first argument, by central differences along every tangent direction
      // (skipped where the minimum image jumps: a component of the difference at half a box length)
      bool singular = false;
      if (box > 0) for (size_t k = 0; k < a.c.size(); k++) if (std::fabs(std::fabs(std::remainder(a.c[k] - b.c[k], box)) - 0.5 * box) < 1e-6) singular = true;
      if (unitv) {
        double cs = 0; for (size_t k = 0; k < 3; k++) cs += a.c[k] * b.c[k];
        if (cs < -1 + 1e-9) singular = true;  // antipodal
      }
      if (singular) { r.count("gradient_singular_skipped"); continue; }
      r.count("gradient_checks");
      {
        // the gradient with respect to the second argument is the gradient with respect to the first one of the swapped pair
        colvarvalue gr = cv->dist2_rgrad(mkv(a), mkv(b)), gl = cv->dist2_lgrad(mkv(b), mkv(a));
        bool same = true;
        if (gr.type() == colvarvalue::type_vector) { for (size_t k = 0; k < a.c.size(); k++) if (!close_rel(gr.vector1d_value[k], gl.vector1d_value[k], 1.0, 1e-12, 1e-13)) same = false; }
        else { cvm::rvector dv = gr.rvector_value - gl.rvector_value; if (dv.norm() > 1e-12 * std::max(1.0, gl.rvector_value.norm())) same = false; }
        if (!same) { viol(ctx, "grad-with-respect-to-the-second-argument", det + "}"); continue; }
      }
      double h = 1e-4;
      for (size_t k = 0; k < a.c.size(); k++) {
        V t; t.c.assign(a.c.size(), 0.0); t.c[k] = 1.0;
        if (unitv) {  // project the direction on the tangent plane of the sphere at a
          double p = a.c[k];
          for (size_t q = 0; q < 3; q++) t.c[q] -= p * a.c[q];
          double n = std::sqrt(dot(t, t));
          if (n < 1e-6) continue;
          for (auto &q : t.c) q /= n;
        }
        // central differences at h and h/2, Richardson-extrapolated (near the antipode of the sphere the squared distance
        // has a large third derivative and a plain central difference is off by ~1e-6)
        auto cd = [&](double hh) {
          V ap = axpy(1.0, a, hh, t), am = axpy(1.0, a, -hh, t);
          if (unitv) { ap = norml(ap); am = norml(am); }
          return (d2of(ap, b) - d2of(am, b)) / (2 * hh);
        };
        double fd = (4.0 * cd(0.5 * h) - cd(h)) / 3.0;
        double an = 0; for (size_t q = 0; q < a.c.size(); q++) an += gv[q] * t.c[q];
        if (!close_rel(an, fd, std::max(1.0, std::fabs(fd)), 1e-6, 1e-7)) {
          viol(ctx, "grad-is-not-the-derivative-of-dist2", det + ",\"direction\":" + std::to_string(k) + ",\"reported\":" + num(an) + ",\"finite_difference\":" + num(fd) + "}");
          break;
        }
      }
    }
}

static const cvm::rvector body_ref[4] = {cvm::rvector(1.0, 0.2, 0.1), cvm::rvector(-0.3, 1.1, 0.2), cvm::rvector(-0.5, -0.9, 0.6),
                                         cvm::rvector(-0.2, -0.4, -0.9)};

int main(int argc, char **argv)
{
  Args args(argc, argv);
  bool thorough = args.thorough();

  // --- self-test of the reference gradient by finite differences (oracle validation) ---
  {
    V a = norml(V{{0.3, -0.5, 0.8}}), b = norml(V{{-0.2, 0.9, 0.1}});
    V g; bool ok;
    ref_sphere(a, b, false, g, ok);
    V t = norml(axpy(1.0, V{{1, 0, 0}}, -a.c[0], a));
    double h = 1e-6;
    V gp, ap = norml(axpy(1, a, h, t)), am = norml(axpy(1, a, -h, t));
    double fd = (ref_sphere(ap, b, false, gp, ok) - ref_sphere(am, b, false, gp, ok)) / (2 * h);
    if (std::fabs(fd - dot(g, t)) > 1e-6) { fprintf(stderr, "HARNESS-ERROR: reference gradient self-test failed %g %g\n", fd, dot(g, t)); return 2; }
  }

  Result total;
  // Alphabets
  std::vector<V> scal, vec3, unit, quat, gv1, gv2, gv3;
  for (double v : {-3.5, -1.0, 0.0, 0.25, 2.0, 1000.0}) scal.push_back(V{{v}});
  for (double x : {-1.5, 0.0, 2.0}) for (double y : {-0.5, 0.0, 3.0}) for (double z : {0.0, 1.0}) vec3.push_back(V{{x, y, z}});
  for (int x = -1; x <= 1; x++) for (int y = -1; y <= 1; y++) for (int z = -1; z <= 1; z++)
    if (x || y || z) unit.push_back(norml(V{{(double) x, (double) y, (double) z}}));
  // nearly (not exactly) antipodal and nearly identical partners of lattice directions: 172-179.7 degrees and 0.3-3 degrees
  unit.push_back(norml(V{{-1.0, 0.05, 0.0}}));
  unit.push_back(norml(V{{-1.0, 0.0, 0.12}}));
  unit.push_back(norml(V{{0.005, -1.0, 0.002}}));
  unit.push_back(norml(V{{1.0, 0.05, 0.0}}));
  unit.push_back(norml(V{{0.0, 0.005, 1.0}}));
  if (thorough) {
    unit.push_back(norml(V{{0.3, -0.5, 0.8}}));
    unit.push_back(norml(V{{1e-4, 1.0, 0.0}}));
    unit.push_back(norml(V{{1e-8, 1.0, 0.0}}));
    unit.push_back(norml(V{{-0.7, 0.1, -0.2}}));
  }
  // rotation group of the cube as unit quaternions (24, up to sign) generated by closure
  {
    std::vector<V> gens = {norml(V{{1, 1, 0, 0}}), norml(V{{1, 0, 1, 0}}), norml(V{{1, 0, 0, 1}})};
    std::vector<V> grp = {V{{1, 0, 0, 0}}};
    for (size_t k = 0; k < grp.size(); k++)
      for (auto &g : gens) {
        V n = qmul(grp[k], g);
        bool found = false;
        for (auto &e : grp) {
          double d = std::fabs(dot(e, n));
          if (std::fabs(d - 1.0) < 1e-9) found = true;
        }
        if (!found) grp.push_back(n);
      }
    if (grp.size() != 24) { fprintf(stderr, "HARNESS-ERROR: rotation group closure gave %zu\n", grp.size()); return 2; }
    for (auto &e : grp) { quat.push_back(norml(e)); quat.push_back(axpy(-1.0, norml(e), 0, e)); }
    std::vector<V> generic = {V{{0.9, 0.1, -0.3, 0.2}}, V{{0.1, 0.7, 0.7, 0.05}}, V{{-0.4, 0.2, 0.1, 0.88}},
                              V{{0.5, -0.5, 0.3, 0.64}}, V{{0.99, 0.01, 0.02, -0.03}}, V{{-0.2, -0.3, 0.9, 0.1}}};
    for (auto &e : generic) quat.push_back(norml(e));
  }
  for (double v : {-2.0, 0.0, 1.5}) {
    gv1.push_back(V{{v}});
    for (double w : {-1.0, 0.5}) {
      gv2.push_back(V{{v, w}});
      for (double u : {0.0, 3.0}) gv3.push_back(V{{v, w, u}});
    }
  }

  // one proxy/module for the whole run (colvarvalue needs cvm for error reporting)
  vproxy *px = new vproxy(8);  // atoms 1-4: points of the scalar components; atoms 5-8: a rigid body for the orientation-type angles
  px->set_cell(true, 4.0, 4.0, 4.0);  // orthorhombic cell for the minimum-image metric of distanceVec
  px->x[0] = cvm::rvector(1, 0, 0); px->x[1] = cvm::rvector(0, 0, 0);
  px->x[2] = cvm::rvector(0, 0, 1); px->x[3] = cvm::rvector(0, 1, 1);
  for (int k = 0; k < 4; k++) px->x[4 + k] = body_ref[k];
  std::string conf;
  struct PC { std::string name; double P, c; };
  std::vector<PC> pcs = {{"d0", 360, 0}, {"d180", 360, 180}, {"dm90", 360, -90}, {"z2pi", 2 * PI_, 0}, {"z2pic", 2 * PI_, 1.0},
                         {"z3", 3.0, -1.5}};
  conf += "colvar { name d0\n dihedral {\n group1 { atomNumbers 1 }\n group2 { atomNumbers 2 }\n group3 { atomNumbers 3 }\n group4 { atomNumbers 4 }\n } }\n";
  conf += "colvar { name d180\n dihedral { wrapAround 180.0\n group1 { atomNumbers 1 }\n group2 { atomNumbers 2 }\n group3 { atomNumbers 3 }\n group4 { atomNumbers 4 }\n } }\n";
  conf += "colvar { name dm90\n dihedral { wrapAround -90.0\n group1 { atomNumbers 1 }\n group2 { atomNumbers 2 }\n group3 { atomNumbers 3 }\n group4 { atomNumbers 4 }\n } }\n";
  conf += "colvar { name z2pi\n distanceZ { period 6.28318530717958647692\n main { atomNumbers 1 }\n ref { atomNumbers 2 }\n } }\n";
  conf += "colvar { name z2pic\n distanceZ { period 6.28318530717958647692\n wrapAround 1.0\n main { atomNumbers 1 }\n ref { atomNumbers 2 }\n } }\n";
  conf += "colvar { name dv\n distanceVec {\n group1 { atomNumbers 1 }\n group2 { atomNumbers 2 }\n } }\n";
  conf += "colvar { name dvn\n distanceVec {\n forceNoPBC on\n group1 { atomNumbers 1 }\n group2 { atomNumbers 2 }\n } }\n";
  conf += "colvar { name dd\n distanceDir {\n group1 { atomNumbers 1 }\n group2 { atomNumbers 2 }\n } }\n";
  conf += "colvar { name dp\n distancePairs {\n group1 { atomNumbers 1 2 }\n group2 { atomNumbers 3 }\n } }\n";
  conf += "colvar { name ca\n cartesian {\n atoms { atomNumbers 1 }\n } }\n";
  conf += "colvar { name z3\n distanceZ { period 3.0\n wrapAround -1.5\n main { atomNumbers 1 }\n ref { atomNumbers 2 }\n } }\n";
  // every periodic component at three wrap centres: the value the variable REPORTS must lie in the interval centred on wrapAround
  struct RC { std::string comp, body; double P; };
  std::vector<RC> rcs = {
    {"dihedral", "group1 { atomNumbers 1 }\n group2 { atomNumbers 2 }\n group3 { atomNumbers 3 }\n group4 { atomNumbers 4 }\n", 360},
    {"polarPhi", "atoms { atomNumbers 1 }\n", 360},
    {"spinAngle", "atoms { atomNumbers 5 6 7 8 }\n refPositions (1.0, 0.2, 0.1) (-0.3, 1.1, 0.2) (-0.5, -0.9, 0.6) (-0.2, -0.4, -0.9)\n axis (0, 0, 1)\n", 360},
    {"eulerPhi", "atoms { atomNumbers 5 6 7 8 }\n refPositions (1.0, 0.2, 0.1) (-0.3, 1.1, 0.2) (-0.5, -0.9, 0.6) (-0.2, -0.4, -0.9)\n", 360},
    {"eulerPsi", "atoms { atomNumbers 5 6 7 8 }\n refPositions (1.0, 0.2, 0.1) (-0.3, 1.1, 0.2) (-0.5, -0.9, 0.6) (-0.2, -0.4, -0.9)\n", 360},
    {"distanceZ", "period 3.0\n main { atomNumbers 1 }\n ref { atomNumbers 2 }\n", 3.0}};
  std::vector<double> rfrac = {0.0, 0.5, -0.25, 0.8, 1.25, -1.5};  // wrap centre as a fraction of the period (the last two lie more than one period from the origin)
  for (auto &rc : rcs)
    for (size_t k = 0; k < rfrac.size(); k++)
      conf += "colvar { name rep_" + rc.comp + "_" + std::to_string(k) + "\n " + rc.comp + " {\n " +
              (k ? "wrapAround " + num(rfrac[k] * rc.P) + "\n " : std::string("")) + rc.body + "} }\n";
  // a sum of two periodic components of the same period is periodic: its reported value lies in the interval too;
  // a periodic plus a non-periodic component is NOT periodic: its metric is the plain one
  std::string dih = " dihedral {\n group1 { atomNumbers 1 }\n group2 { atomNumbers 2 }\n group3 { atomNumbers 3 }\n group4 { atomNumbers 4 }\n }\n";
  conf += "colvar { name sum2\n" + dih + dih + "}\n";
  conf += "colvar { name mix\n" + dih + " distance {\n group1 { atomNumbers 1 }\n group2 { atomNumbers 2 }\n }\n}\n";
  if (px->config(conf) != 0) { fprintf(stderr, "HARNESS-ERROR: config failed: %s\n", px->errtxt.c_str()); return 3; }

  Ctx c{&total, ""};
  c.tname = "scalar"; check_manifold(c, colvarvalue::type_scalar, scal, false, false);
  c.tname = "3vector"; check_manifold(c, colvarvalue::type_3vector, vec3, false, false);
  c.tname = "unit3vector"; check_manifold(c, colvarvalue::type_unit3vector, unit, true, false);
  c.tname = "quaternion"; check_manifold(c, colvarvalue::type_quaternion, quat, true, true);
  c.tname = "vector1"; check_manifold(c, colvarvalue::type_vector, gv1, false, false);
  c.tname = "vector2"; check_manifold(c, colvarvalue::type_vector, gv2, false, false);
  c.tname = "vector3"; check_manifold(c, colvarvalue::type_vector, gv3, false, false);
  for (auto &pc : pcs) {
    std::vector<double> vals;
    std::vector<double> fr = {0.0, 0.125, 0.25, 0.49, 0.5, 0.51, 0.75, 0.999};
    if (thorough) { fr.push_back(1e-9); fr.push_back(0.5 - 1e-9); fr.push_back(0.3333); }
    for (double f : fr)
      for (int k : {-2, -1, 0, 1, 3}) vals.push_back(pc.c + (f - 0.5) * pc.P + k * pc.P);
    c.tname = "periodic:" + pc.name;
    check_periodic(c, *px, pc.name, pc.P, pc.c, vals);
  }
  // the same through every periodic component type (the variable's wrap is the component's)
  for (auto &rc : rcs)
    for (size_t k = 0; k < rfrac.size(); k++) {
      std::vector<double> vals;
      for (double f : {0.0, 0.25, 0.5, 0.51, 0.999})
        for (int m : {-2, 0, 1}) vals.push_back(rfrac[k] * rc.P + (f - 0.5) * rc.P + m * rc.P);
      c.tname = "periodic:" + rc.comp;
      check_periodic(c, *px, "rep_" + rc.comp + "_" + std::to_string(k), rc.P, rfrac[k] * rc.P, vals);
    }
  // component-level metrics: 3-vectors inside and across the cell, with and without minimum image
  {
    std::vector<V> v3;
    for (double x : {-1.5, 0.0, 1.0, 2.5}) for (double y : {-0.5, 0.0, 3.0}) for (double z : {0.0, 1.0}) v3.push_back(V{{x, y, z}});
    c.tname = "component:distanceVec/minimum-image"; check_component_metric(c, *px, "dv", v3, false, 4.0);
    c.tname = "component:distanceVec/forceNoPBC"; check_component_metric(c, *px, "dvn", v3, false, 0.0);
    c.tname = "component:distanceDir"; check_component_metric(c, *px, "dd", unit, true, 0.0);
    c.tname = "component:distancePairs"; check_component_metric(c, *px, "dp", gv2, false, 0.0);
    c.tname = "component:cartesian"; check_component_metric(c, *px, "ca", gv3, false, 0.0);
  }
  {
    colvar *mx = px->cv("mix");
    c.tname = "non-periodic-combination:dihedral+distance";
    for (double a : {360.0, 400.0, -200.0})
      for (double b : {0.0, 30.0}) {
        total.count("evaluations");
        colvarvalue xa(a), xb(b);
        double d2 = mx->dist2(xa, xb), g = mx->dist2_lgrad(xa, xb).real_value, gr = mx->dist2_rgrad(xa, xb).real_value;
        std::string det = "{\"variable\":\"dihedral + distance (declared not periodic)\",\"a\":" + num(a) + ",\"b\":" + num(b) + ",\"dist2\":" + num(d2) + ",\"grad\":" + num(g) + "}";
        if (mx->is_enabled(colvardeps::f_cv_periodic)) { viol(c, "declared-periodic", det); continue; }
        if (!close_rel(d2, (a - b) * (a - b), 1.0, 1e-12, 1e-13)) viol(c, "dist2-value", det);
        else if (!close_rel(g, 2.0 * (a - b), 1.0, 1e-12, 1e-13) || !close_rel(gr, -2.0 * (a - b), 1.0, 1e-12, 1e-13)) viol(c, "grad-value", det);
        total.seen("nontrivial", fnv("mix" + num(a) + num(b)));
      }
  }
  // reported values: a sweep of geometries through the whole period (the angle about z of atom 1, the torsion of atoms 1-4,
  // the rigid body turned about x, about z and about a tilted axis; for distanceZ the height of atom 1)
  {
    int nang = thorough ? 72 : 24;
    long step = 0;
    for (int mode = 0; mode < 3; mode++)
      for (int ia = 0; ia < nang; ia++) {
        double ang = (ia + 0.37) * 2 * PI_ / nang - PI_;
        double ca = std::cos(ang), sa = std::sin(ang);
        px->x[0] = cvm::rvector(1.3 * ca, 1.3 * sa, 4.5 * ang / PI_ + 0.2 * mode);
        px->x[1] = cvm::rvector(0, 0, 0);
        px->x[2] = cvm::rvector(0, 0, 1);
        px->x[3] = cvm::rvector(ca * 1.0 - sa * 0.4, sa * 1.0 + ca * 0.4, 1.0 + 0.3 * mode);
        // atom 1 also serves the dihedral: torsion of (atom1, atom2, atom3, atom4) sweeps with ang since atom 4 turns about z
        // while atom 1 turns too; to make the torsion sweep, atom 4 turns twice as fast in mode 1 and backwards in mode 2
        if (mode == 1) px->x[3] = cvm::rvector(std::cos(2 * ang), std::sin(2 * ang), 1.2);
        if (mode == 2) px->x[3] = cvm::rvector(std::cos(-ang + 0.3), std::sin(-ang + 0.3), 0.8);
        V axis = mode == 0 ? V{{1, 0, 0}} : mode == 1 ? V{{0, 0, 1}} : norml(V{{0.3, -0.5, 0.8}});
        double h = std::sin(0.5 * ang), w = std::cos(0.5 * ang);
        V q{{w, h * axis.c[0], h * axis.c[1], h * axis.c[2]}};
        for (int k = 0; k < 4; k++) {
          V p{{0, body_ref[k].x, body_ref[k].y, body_ref[k].z}};
          V qc{{q.c[0], -q.c[1], -q.c[2], -q.c[3]}};
          V rp = qmul(qmul(q, p), qc);
          px->x[4 + k] = cvm::rvector(rp.c[1] + 0.7, rp.c[2] - 0.4, rp.c[3] + 0.1 * mode);
        }
        if (px->step(step++) != 0) { fprintf(stderr, "library failed a step on the sweep: %s\n", px->errtxt.c_str()); return 3; }
        {
          colvar *s2 = px->cv("sum2"), *d0 = px->cv("rep_dihedral_0");
          double v = s2->value().real_value, twice = 2.0 * d0->value().real_value;
          total.count("evaluations"); total.count("reported_value_checks");
          c.tname = "reported:sum-of-two-dihedrals";
          std::string det = "{\"variable\":\"sum of two identical dihedrals\",\"sweep\":" + std::to_string(mode) + ",\"angle\":" + num(ang) + ",\"reported\":" + num(v) + ",\"twice_the_dihedral\":" + num(twice) + "}";
          double kk = (v - twice) / 360.0;
          if (!s2->is_enabled(colvardeps::f_cv_periodic)) viol(c, "sum-of-periodic-components-not-periodic", det);
          else if (!std::isfinite(v) || std::fabs(kk - std::round(kk)) > 1e-9) viol(c, "reported-value-not-equivalent", det);
          else if (v < -180.0 - 1e-9 || v > 180.0 + 1e-9) viol(c, "reported-value-outside-interval", det);
        }
        for (auto &rc : rcs) {
          colvar *cv0 = px->cv("rep_" + rc.comp + "_0");
          double v0 = cv0->value().real_value;
          for (size_t k = 0; k < rfrac.size(); k++) {
            colvar *cvk = px->cv("rep_" + rc.comp + "_" + std::to_string(k));
            double v = cvk->value().real_value, center = rfrac[k] * rc.P;
            total.count("evaluations"); total.count("reported_value_checks");
            total.seen("nontrivial", fnv("rep" + rc.comp + std::to_string(k) + num(v)));
            c.tname = "reported:" + rc.comp;
            std::string det = "{\"component\":\"" + rc.comp + "\",\"period\":" + num(rc.P) + ",\"wrapAround\":" + num(center) +
                              ",\"sweep\":" + std::to_string(mode) + ",\"angle\":" + num(ang) + ",\"reported\":" + num(v) +
                              ",\"reported_with_centre_0\":" + num(v0) + "}";
            double kk = (v - v0) / rc.P;
            if (!std::isfinite(v) || std::fabs(kk - std::round(kk)) > 1e-9) viol(c, "reported-value-not-equivalent", det);
            else if (v < center - 0.5 * rc.P - 1e-9 * rc.P || v > center + 0.5 * rc.P + 1e-9 * rc.P)
              viol(c, "reported-value-outside-interval", det);
          }
        }
      }
  }
  total.sample("{\"type\":\"unit3vector\",\"a\":" + vstr(unit[0]) + ",\"b\":" + vstr(unit[5]) + ",\"lambda\":[0,0.25,0.5,0.75,1]}");
  total.sample("{\"type\":\"quaternion\",\"a\":" + vstr(quat[2]) + ",\"b\":" + vstr(quat[3]) + "}");
  total.sample("{\"type\":\"periodic:d180\",\"period\":360,\"wrapAround\":180,\"a\":540.0,\"b\":-179.0}");
  delete px;
  write_result(args.out, "C18", args.tier, total, true);
  return 0;
}
