// C11 (part c) — every value type the binary stream accepts is read back exactly as written.
// Enumeration: element type x length 0..17 (vectors, strings, vector1d), every colvarvalue type, each followed by a
// sentinel object; read-back must equal what was written, the sentinel must be intact and the stream fully consumed.
#include "vproxy.h"
#include "common.h"
#include "colvars_memstream.h"

using namespace vc;

static const uint64_t SENTINEL = 0xC0FFEE1234567890ULL;

template <typename T> static T make(size_t i, size_t n)
{
  // distinct, type-filling bit patterns
  double v = 1.25 * (double) (i + 1) - 0.5 * (double) n;
  if (std::is_floating_point<T>::value) return (T) (v * 1.0000001);
  long long k = (long long) (i * 37 + n * 11 + 1);
  if (sizeof(T) >= 8) k = k * 0x0101010101LL + (1LL << 40);
  return (T) k;
}

template <typename T> static void vec_case(const char *tname, Result &r)
{
  for (size_t n = 0; n <= 17; n++) {
    r.count("evaluations");
    std::vector<T> v(n), w;
    for (size_t i = 0; i < n; i++) v[i] = make<T>(i, n);
    cvm::memory_stream os;
    os << v;
    uint64_t s = SENTINEL;
    os << s;
    size_t expect_len = sizeof(size_t) + n * sizeof(T) + sizeof(uint64_t);
    std::string det = std::string("{\"kind\":\"vector\",\"element\":\"") + tname + "\",\"length\":" + std::to_string(n);
    if (!os || os.length() != expect_len) {
      r.violation(std::string("C11:memstream:vector:bytes-written:") + (sizeof(T) == sizeof(size_t) ? "8-byte-element" : "element-size-not-8"),
                  det + ",\"bytes\":" + std::to_string(os.length()) + ",\"expected\":" + std::to_string(expect_len) + "}");
      continue;
    }
    cvm::memory_stream is(os.length(), os.output_buffer());
    uint64_t s2 = 0;
    is >> w;
    is >> s2;
    bool ok = bool(is) && w.size() == n && s2 == SENTINEL;
    for (size_t i = 0; ok && i < n; i++) if (memcmp(&w[i], &v[i], sizeof(T)) != 0) ok = false;
    if (!ok)
      r.violation(std::string("C11:memstream:vector:read-back-differs:") + (sizeof(T) == sizeof(size_t) ? "8-byte-element" : "element-size-not-8"),
                  det + ",\"read_length\":" + std::to_string(w.size()) + ",\"sentinel_ok\":" + (s2 == SENTINEL ? "true" : "false") + "}");
    r.seen("nontrivial", fnv(det));
  }
}

template <typename T> static void obj_case(const char *tname, Result &r)
{
  for (size_t k = 0; k < 6; k++) {
    r.count("evaluations");
    T v = make<T>(k, 3), w = T();
    cvm::memory_stream os;
    os << v;
    uint64_t s = SENTINEL, s2 = 0;
    os << s;
    std::string det = std::string("{\"kind\":\"object\",\"type\":\"") + tname + "\",\"case\":" + std::to_string(k);
    cvm::memory_stream is(os.length(), os.output_buffer());
    is >> w;
    is >> s2;
    if (!os || !is || os.length() != sizeof(T) + 8 || memcmp(&v, &w, sizeof(T)) != 0 || s2 != SENTINEL)
      r.violation("C11:memstream:object:read-back-differs", det + "}");
    r.seen("nontrivial", fnv(det));
  }
}

int main(int argc, char **argv)
{
  Args args(argc, argv);
  Result r;
  vproxy *px = new vproxy(2);  // colvarvalue needs a module for error reporting
  // each group in its own child: a sanitizer abort or crash inside the stream code becomes a violation of that group
  auto isolated = [&](std::string const &name, bool eight, std::function<void(Result &)> fn) {
    std::string out;
    int rc = run_isolated([&]() {
      Result rr;
      fn(rr);
      std::string t = rr.ser();
      size_t off = 0;
      while (off < t.size()) { ssize_t n = write(3, t.data() + off, t.size() - off); if (n <= 0) break; off += n; }
      return 0;
    }, 120, &out);
    if (rc == 0) r.deser(out);
    else {
      r.count("evaluations");
      r.violation("C11:memstream:" + name + ":crash-or-sanitizer-abort:" + (eight ? "8-byte-element" : "element-size-not-8"), "{\"group\":\"" + name + "\",\"exit\":" + std::to_string(rc) + "}");
    }
  };
  isolated("vector<char>", false, [](Result &q) { vec_case<char>("char", q); });
  isolated("vector<unsigned char>", false, [](Result &q) { vec_case<unsigned char>("unsigned char", q); });
  isolated("vector<short>", false, [](Result &q) { vec_case<short>("short", q); });
  isolated("vector<int>", false, [](Result &q) { vec_case<int>("int", q); });
  isolated("vector<unsigned>", false, [](Result &q) { vec_case<unsigned>("unsigned", q); });
  isolated("vector<long>", true, [](Result &q) { vec_case<long>("long", q); });
  isolated("vector<size_t>", true, [](Result &q) { vec_case<size_t>("size_t", q); });
  isolated("vector<float>", false, [](Result &q) { vec_case<float>("float", q); });
  isolated("vector<double>", true, [](Result &q) { vec_case<double>("double", q); });
  isolated("vector<rvector>", false, [](Result &q) { vec_case<cvm::rvector>("rvector", q); });
  isolated("objects", true, [](Result &q) {
    obj_case<char>("char", q); obj_case<short>("short", q); obj_case<int>("int", q); obj_case<unsigned>("unsigned", q); obj_case<long>("long", q);
    obj_case<size_t>("size_t", q); obj_case<float>("float", q); obj_case<double>("double", q); obj_case<bool>("bool", q);
  });
  // strings
  for (size_t n = 0; n <= 17; n++) {
    r.count("evaluations");
    std::string v, w;
    for (size_t i = 0; i < n; i++) v += (char) (i % 3 == 0 ? 0 : ('a' + i));
    cvm::memory_stream os;
    os << v;
    uint64_t s = SENTINEL, s2 = 0;
    os << s;
    cvm::memory_stream is(os.length(), os.output_buffer());
    is >> w;
    is >> s2;
    std::string det = "{\"kind\":\"string\",\"length\":" + std::to_string(n);
    if (!os || !is || w != v || s2 != SENTINEL || os.length() != sizeof(size_t) + n + 8) r.violation("C11:memstream:string:read-back-differs", det + "}");
    r.seen("nontrivial", fnv(det));
  }
  // vector1d
  for (size_t n = 0; n <= 17; n++) {
    r.count("evaluations");
    cvm::vector1d<cvm::real> v(n), w;
    for (size_t i = 0; i < n; i++) v[i] = make<double>(i, n);
    cvm::memory_stream os;
    os << v;
    uint64_t s = SENTINEL, s2 = 0;
    os << s;
    cvm::memory_stream is(os.length(), os.output_buffer());
    is >> w;
    is >> s2;
    std::string det = "{\"kind\":\"vector1d\",\"length\":" + std::to_string(n);
    bool ok = bool(os) && bool(is) && w.size() == n && s2 == SENTINEL;
    for (size_t i = 0; ok && i < n; i++) if (w[i] != v[i]) ok = false;
    if (!ok) r.violation("C11:memstream:vector1d:read-back-differs", det + "}");
    r.seen("nontrivial", fnv(det));
  }
  // colvarvalue of every type
  {
    std::vector<colvarvalue> vals;
    vals.push_back(colvarvalue(1.2345678901234567));
    vals.push_back(colvarvalue(cvm::rvector(1.5, -2.25, 3.125), colvarvalue::type_3vector));
    vals.push_back(colvarvalue(cvm::rvector(0.6, 0.8, 0.0), colvarvalue::type_unit3vector));
    vals.push_back(colvarvalue(cvm::rvector(0.1, -0.2, 0.3), colvarvalue::type_unit3vectorderiv));
    vals.push_back(colvarvalue(cvm::quaternion(0.5, -0.5, 0.5, 0.5), colvarvalue::type_quaternion));
    vals.push_back(colvarvalue(cvm::quaternion(0.1, 0.2, -0.3, 0.4), colvarvalue::type_quaternionderiv));
    for (size_t n = 1; n <= 5; n++) {
      cvm::vector1d<cvm::real> v(n);
      for (size_t i = 0; i < n; i++) v[i] = make<double>(i, n);
      vals.push_back(colvarvalue(v, colvarvalue::type_vector));
    }
    for (size_t k = 0; k < vals.size(); k++) {
      r.count("evaluations");
      cvm::memory_stream os;
      os << vals[k];
      uint64_t s = SENTINEL, s2 = 0;
      os << s;
      colvarvalue w(vals[k].type());
      if (vals[k].type() == colvarvalue::type_vector) w = colvarvalue(cvm::vector1d<cvm::real>(vals[k].size()), colvarvalue::type_vector);
      cvm::memory_stream is(os.length(), os.output_buffer());
      is >> w;
      is >> s2;
      std::string det = "{\"kind\":\"colvarvalue\",\"type\":\"" + colvarvalue::type_desc(vals[k].type()) + "\",\"size\":" + std::to_string(vals[k].size());
      bool ok = bool(os) && bool(is) && s2 == SENTINEL && w.type() == vals[k].type() && w.size() == vals[k].size();
      if (ok) {
        cvm::vector1d<cvm::real> a = vals[k].as_vector(), b = w.as_vector();
        for (size_t i = 0; i < a.size(); i++) if (a[i] != b[i]) ok = false;
      }
      if (!ok) r.violation("C11:memstream:colvarvalue:read-back-differs:" + colvarvalue::type_desc(vals[k].type()), det + "}");
      r.seen("nontrivial", fnv(det));
    }
  }
  r.sample("{\"kind\":\"vector\",\"element\":\"int\",\"length\":5,\"followed_by\":\"64-bit sentinel\"}");
  delete px;
  write_result(args.out, "C11", args.tier, r, true);
  return 0;
}
