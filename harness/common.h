// Shared harness utilities: result record, process sharding, hashing, JSON output.
#ifndef VCOMMON_H
#define VCOMMON_H

#include <cstdint>
#include <cstdio>
#include <cstdlib>
#include <cstring>
#include <cmath>
#include <functional>
#include <map>
#include <set>
#include <sstream>
#include <string>
#include <vector>
#include <unistd.h>
#include <sys/wait.h>
#include <sys/time.h>
#include <signal.h>
#include <fcntl.h>

namespace vc {

inline double now()
{
  struct timeval tv;
  gettimeofday(&tv, NULL);
  return tv.tv_sec + 1e-6 * tv.tv_usec;
}

inline uint64_t fnv(std::string const &s, uint64_t h = 1469598103934665603ULL)
{
  for (unsigned char c : s) { h ^= c; h *= 1099511628211ULL; }
  return h;
}

inline std::string jesc(std::string const &s)
{
  std::string o;
  for (unsigned char c : s) {
    switch (c) {
    case '"': o += "\\\""; break;
    case '\\': o += "\\\\"; break;
    case '\n': o += "\\n"; break;
    case '\r': o += "\\r"; break;
    case '\t': o += "\\t"; break;
    default:
      if (c < 0x20 || c >= 0x7f) { char b[8]; snprintf(b, 8, "\\u%04x", c); o += b; }
      else o += c;
    }
  }
  return o;
}

inline std::string num(double v)
{
  if (std::isnan(v)) return "\"nan\"";
  if (std::isinf(v)) return v > 0 ? "\"inf\"" : "\"-inf\"";
  char b[40];
  snprintf(b, 40, "%.15g", v);
  return b;
}

// A violation: signature (stable, used to match known findings) + free-form JSON detail
struct Violation {
  std::string sig;     // e.g. "runave/mean-after-first-window"
  std::string detail;  // JSON object text describing the replayable case
};

struct Result {
  std::map<std::string, long> counters;      // summed over shards
  std::map<std::string, std::set<uint64_t>> distinct;  // set-unions over shards
  std::vector<Violation> violations;         // capped per signature
  std::map<std::string, long> viol_count;    // total count per signature
  std::vector<std::string> samples;          // JSON texts
  std::vector<std::string> notes;

  void count(std::string const &k, long n = 1) { counters[k] += n; }
  void seen(std::string const &k, uint64_t h) { distinct[k].insert(h); }
  void seen(std::string const &k, std::string const &s) { distinct[k].insert(fnv(s)); }
  void violation(std::string const &sig, std::string const &detail_json)
  {
    long &c = viol_count[sig];
    c++;
    if (c <= 3) violations.push_back(Violation{sig, detail_json});
  }
  void sample(std::string const &json, size_t cap = 4)
  {
    if (samples.size() < cap) samples.push_back(json);
  }

  void merge(Result const &o)
  {
    for (auto &kv : o.counters) counters[kv.first] += kv.second;
    for (auto &kv : o.distinct) distinct[kv.first].insert(kv.second.begin(), kv.second.end());
    for (auto &kv : o.viol_count) viol_count[kv.first] += kv.second;
    for (auto &v : o.violations) {
      long n = 0;
      for (auto &w : violations) if (w.sig == v.sig) n++;
      if (n < 3) violations.push_back(v);
    }
    for (auto &s : o.samples) if (samples.size() < 6) samples.push_back(s);
    for (auto &s : o.notes) notes.push_back(s);
  }

  // line-oriented serialisation for pipes
  std::string ser() const
  {
    std::ostringstream os;
    for (auto &kv : counters) os << "C\t" << kv.first << "\t" << kv.second << "\n";
    for (auto &kv : distinct)
      for (auto h : kv.second) os << "D\t" << kv.first << "\t" << h << "\n";
    for (auto &kv : viol_count) os << "N\t" << kv.first << "\t" << kv.second << "\n";
    for (auto &v : violations) os << "V\t" << v.sig << "\t" << jesc(v.detail) << "\n";
    for (auto &s : samples) os << "S\t" << jesc(s) << "\n";
    for (auto &s : notes) os << "T\t" << jesc(s) << "\n";
    return os.str();
  }
  static std::string junesc(std::string const &s)
  {
    std::string o;
    for (size_t i = 0; i < s.size(); i++) {
      if (s[i] == '\\' && i + 1 < s.size()) {
        char c = s[++i];
        if (c == 'n') o += '\n';
        else if (c == 'r') o += '\r';
        else if (c == 't') o += '\t';
        else if (c == 'u') { o += (char) strtol(s.substr(i + 1, 4).c_str(), NULL, 16); i += 4; }
        else o += c;
      } else o += s[i];
    }
    return o;
  }
  void deser(std::string const &txt)
  {
    std::istringstream is(txt);
    std::string line;
    while (std::getline(is, line)) {
      if (line.size() < 2) continue;
      std::vector<std::string> f;
      size_t p = 0;
      for (int k = 0; k < 2; k++) {
        size_t q = line.find('\t', p);
        if (q == std::string::npos) break;
        f.push_back(line.substr(p, q - p));
        p = q + 1;
      }
      f.push_back(line.substr(p));
      char t = line[0];
      if (t == 'C' && f.size() == 3) counters[f[1]] += atol(f[2].c_str());
      else if (t == 'D' && f.size() == 3) distinct[f[1]].insert(strtoull(f[2].c_str(), NULL, 10));
      else if (t == 'N' && f.size() == 3) viol_count[f[1]] += atol(f[2].c_str());
      else if (t == 'V' && f.size() == 3) {
        long n = 0;
        for (auto &w : violations) if (w.sig == f[1]) n++;
        if (n < 3) violations.push_back(Violation{f[1], junesc(f[2])});
      } else if (t == 'S') {
        std::string rest = line.substr(2);
        if (samples.size() < 6) samples.push_back(junesc(rest));
      } else if (t == 'T') notes.push_back(junesc(line.substr(2)));
    }
  }
};

// Run fn(shard, nshards, Result&) in nshards forked workers; merge.  A worker that dies
// is a harness error (exit 2), never a verdict.
inline bool run_sharded(int nshards, std::function<void(int, int, Result &)> fn, Result &total,
                        double timeout_s = 3600)
{
  struct W { pid_t pid; int fd; std::string buf; bool done; };
  std::vector<W> ws;
  fflush(NULL);
  for (int s = 0; s < nshards; s++) {
    int p[2];
    if (pipe(p) != 0) { perror("pipe"); exit(2); }
    pid_t pid = fork();
    if (pid == 0) {
      close(p[0]);
      for (auto &w : ws) close(w.fd);
      Result r;
      fn(s, nshards, r);
      std::string t = r.ser() + "END\n";
      size_t off = 0;
      while (off < t.size()) {
        ssize_t n = write(p[1], t.data() + off, t.size() - off);
        if (n <= 0) _exit(3);
        off += n;
      }
      close(p[1]);
      _exit(0);
    }
    close(p[1]);
    ws.push_back(W{pid, p[0], "", false});
  }
  bool ok = true;
  double t0 = now();
  // read all pipes (poll-less: non-blocking round robin)
  for (auto &w : ws) fcntl(w.fd, F_SETFL, O_NONBLOCK);
  size_t ndone = 0;
  char buf[65536];
  while (ndone < ws.size()) {
    bool progress = false;
    for (auto &w : ws) {
      if (w.done) continue;
      ssize_t n = read(w.fd, buf, sizeof(buf));
      if (n > 0) { w.buf.append(buf, n); progress = true; }
      else if (n == 0) { w.done = true; ndone++; close(w.fd); progress = true; }
    }
    if (!progress) {
      usleep(2000);
      if (now() - t0 > timeout_s) {
        for (auto &w : ws) if (!w.done) kill(w.pid, SIGKILL);
        fprintf(stderr, "HARNESS-ERROR: sharded run exceeded %g s\n", timeout_s);
        ok = false;
        break;
      }
    }
  }
  for (auto &w : ws) {
    int st = 0;
    waitpid(w.pid, &st, 0);
    bool complete = w.buf.size() >= 4 && w.buf.compare(w.buf.size() - 4, 4, "END\n") == 0;
    if (!WIFEXITED(st) || WEXITSTATUS(st) != 0 || !complete) {
      // A worker killed by a fault signal, or ended by the sanitizer (exit code 1), is the LIBRARY failing in one of the
      // worker's cases: the harness code is the same as on the tree where all workers end normally.  That is a verdict
      // (violation), not a harness failure; the case is located by re-running with --jobs 1.  Anything else (exit code 2
      // = the harness's own check, SIGKILL/SIGTERM = resource limits or an operator) stays a harness error.
      int sig = WIFSIGNALED(st) ? WTERMSIG(st) : 0;
      bool fault = (sig == SIGSEGV || sig == SIGFPE || sig == SIGABRT || sig == SIGBUS || sig == SIGILL);
      bool sanitizer = WIFEXITED(st) && WEXITSTATUS(st) == 1;
      // exit code 3: the worker stopped because the library refused a configuration, or failed a step, that the harness
      // uses as a known-good input (message on stderr)
      bool refused = WIFEXITED(st) && WEXITSTATUS(st) == 3;
      if (refused) {
        size_t shard = (size_t) (&w - &ws[0]);
        total.violation("library-refused-a-known-good-configuration-or-step",
                        "{\"shard\":" + std::to_string(shard) + ",\"of\":" + std::to_string(ws.size()) + ",\"message\":\"see the line starting with HARNESS-ERROR on stderr\"}");
        total.count("workers_lost");
        continue;
      }
      if (fault || sanitizer) {
        size_t shard = (size_t) (&w - &ws[0]);
        total.violation(std::string("library-crash-in-a-worker:") + (fault ? "signal-" + std::to_string(sig) : std::string("sanitizer-report")),
                        "{\"shard\":" + std::to_string(shard) + ",\"of\":" + std::to_string(ws.size()) + ",\"wait_status\":" + std::to_string(st) +
                        ",\"how_to_locate\":\"re-run the part with --jobs 1 (the report of the sanitizer, if any, is on stderr)\"}");
        total.count("workers_lost");
        continue;
      }
      fprintf(stderr, "HARNESS-ERROR: worker %d ended abnormally (status %d, complete %d)\n",
              (int) w.pid, st, (int) complete);
      ok = false;
      continue;
    }
    total.deser(w.buf);
  }
  return ok;
}

// Run one case in a forked child with an alarm; returns: 0 normal exit code 0, >0 exit code,
// -sig for signal, -1000 timeout.  Output of child (fd out) collected into `out` (optional).
inline int run_isolated(std::function<int()> fn, double timeout_s, std::string *out = NULL)
{
  int p[2] = {-1, -1};
  if (out) { if (pipe(p) != 0) { perror("pipe"); exit(2); } }
  fflush(NULL);
  pid_t pid = fork();
  if (pid == 0) {
    if (out) { close(p[0]); dup2(p[1], 3); }
    alarm(0);
    int rc = fn();
    fflush(NULL);
    _exit(rc);
  }
  if (out) close(p[1]);
  double t0 = now();
  int st = 0;
  std::string buf;
  if (out) fcntl(p[0], F_SETFL, O_NONBLOCK);
  for (;;) {
    if (out) {
      char b[4096];
      ssize_t n;
      while ((n = read(p[0], b, sizeof(b))) > 0) buf.append(b, n);
    }
    pid_t r = waitpid(pid, &st, WNOHANG);
    if (r == pid) break;
    if (now() - t0 > timeout_s) {
      kill(pid, SIGKILL);
      waitpid(pid, &st, 0);
      if (out) { close(p[0]); *out = buf; }
      return -1000;
    }
    usleep(200);
  }
  if (out) {
    char b[4096];
    ssize_t n;
    while ((n = read(p[0], b, sizeof(b))) > 0) buf.append(b, n);
    close(p[0]);
    *out = buf;
  }
  if (WIFSIGNALED(st)) return -WTERMSIG(st);
  return WEXITSTATUS(st);
}

// Write the raw result JSON consumed by vcheck
inline void write_result(std::string const &path, std::string const &property, std::string const &tier,
                         Result const &r, bool exhaustive, std::string const &extra_json_members = "")
{
  FILE *f = fopen(path.c_str(), "w");
  if (!f) { perror(path.c_str()); exit(2); }
  if (r.counters.count("workers_lost")) exhaustive = false;  // the cases of a lost worker were not all run
  fprintf(f, "{\n \"property_id\": \"%s\",\n \"tier\": \"%s\",\n \"exhaustive\": %s,\n", property.c_str(),
          tier.c_str(), exhaustive ? "true" : "false");
  fprintf(f, " \"counters\": {");
  bool first = true;
  for (auto &kv : r.counters) {
    fprintf(f, "%s\"%s\": %ld", first ? "" : ", ", jesc(kv.first).c_str(), kv.second);
    first = false;
  }
  fprintf(f, "},\n \"distinct\": {");
  first = true;
  for (auto &kv : r.distinct) {
    fprintf(f, "%s\"%s\": %zu", first ? "" : ", ", jesc(kv.first).c_str(), kv.second.size());
    first = false;
  }
  fprintf(f, "},\n \"violation_counts\": {");
  first = true;
  for (auto &kv : r.viol_count) {
    fprintf(f, "%s\"%s\": %ld", first ? "" : ", ", jesc(kv.first.rfind("library-", 0) == 0 ? property + ":" + kv.first : kv.first).c_str(), kv.second);
    first = false;
  }
  fprintf(f, "},\n \"violations\": [");
  first = true;
  for (auto &v : r.violations) {
    fprintf(f, "%s\n  {\"sig\": \"%s\", \"detail\": %s}", first ? "" : ",", jesc(v.sig.rfind("library-", 0) == 0 ? property + ":" + v.sig : v.sig).c_str(),
            v.detail.size() ? v.detail.c_str() : "{}");
    first = false;
  }
  fprintf(f, "],\n \"samples\": [");
  first = true;
  for (auto &s : r.samples) {
    fprintf(f, "%s\n  %s", first ? "" : ",", s.c_str());
    first = false;
  }
  fprintf(f, "],\n \"notes\": [");
  first = true;
  for (auto &s : r.notes) {
    fprintf(f, "%s\"%s\"", first ? "" : ", ", jesc(s).c_str());
    first = false;
  }
  fprintf(f, "]%s%s\n}\n", extra_json_members.size() ? ",\n " : "", extra_json_members.c_str());
  fclose(f);
}

struct Args {
  std::string tier = "quick", out = "", replay = "";
  long seed = 0;
  int jobs = 16;
  double deadline = 0;
  std::map<std::string, std::string> kv;
  Args(int argc, char **argv)
  {
    for (int i = 1; i < argc; i++) {
      std::string a = argv[i];
      auto next = [&]() { return std::string(i + 1 < argc ? argv[++i] : ""); };
      if (a == "--tier") tier = next();
      else if (a == "--out") out = next();
      else if (a == "--replay") replay = next();
      else if (a == "--seed") seed = atol(next().c_str());
      else if (a == "--jobs") jobs = atoi(next().c_str());
      else if (a == "--deadline") deadline = atof(next().c_str());
      else if (a.rfind("--", 0) == 0) kv[a.substr(2)] = next();
    }
  }
  bool thorough() const { return tier == "thorough"; }
};

// numeric comparison policy (DESIGN 2.5)
inline bool close_rel(double a, double b, double scale, double rel = 1e-10, double abs_ = 1e-12)
{
  if (std::isnan(a) || std::isnan(b)) return false;
  return std::fabs(a - b) <= rel * scale + abs_;
}

}  // namespace vc

#endif
